(* CompactionProofs.v — theorems about the compaction model (Compaction.v). *)
From Coq Require Import Lia Sorted.
From KV Require MemtableProofs.
From KV Require Import Compaction.
Open Scope N_scope.

(* ---------- byte-string order ---------- *)

Lemma cb_eq : forall a b, bcmp a b = Eq -> a = b.
Proof.
  induction a as [|x a IH]; destruct b as [|y b]; simpl; try discriminate; auto.
  destruct (N.compare x y) eqn:E; try discriminate.
  intro H. apply N.compare_eq in E. subst. f_equal. auto.
Qed.

Lemma cb_refl : forall a, bcmp a a = Eq.
Proof. induction a; simpl; auto. rewrite N.compare_refl. auto. Qed.

Lemma cb_antisym : forall a b, bcmp b a = CompOpp (bcmp a b).
Proof.
  induction a as [|x a IH]; destruct b as [|y b]; simpl; auto.
  rewrite (N.compare_antisym x y). destruct (N.compare x y); simpl; auto.
Qed.

Lemma cb_lt_trans : forall a b c, bcmp a b = Lt -> bcmp b c = Lt -> bcmp a c = Lt.
Proof.
  induction a as [|x a IH]; destruct b as [|y b]; destruct c as [|z c]; simpl; try discriminate; auto.
  destruct (N.compare x y) eqn:E1; try discriminate;
  destruct (N.compare y z) eqn:E2; try discriminate; intros.
  - apply N.compare_eq in E1, E2. subst. rewrite N.compare_refl. eauto.
  - apply N.compare_eq in E1. subst. rewrite E2. auto.
  - apply N.compare_eq in E2. subst. rewrite E1. auto.
  - rewrite N.compare_lt_iff in *. assert (x < z) by lia. rewrite <- N.compare_lt_iff in H1. rewrite H1. auto.
Qed.

Lemma cb_gt_lt : forall a b, bcmp a b = Gt <-> bcmp b a = Lt.
Proof. intros. rewrite (cb_antisym a b). destruct (bcmp a b); simpl; split; congruence. Qed.

Lemma beq_iff : forall a b, beq a b = true <-> a = b.
Proof.
  unfold beq. split; intro H.
  - destruct (bcmp a b) eqn:E; try discriminate. apply cb_eq; auto.
  - subst. rewrite cb_refl. auto.
Qed.

Lemma cb_lt_gt : forall a b, bcmp a b = Lt -> bcmp b a = Gt.
Proof. intros. apply cb_gt_lt. auto. Qed.

Lemma beq_lt_false : forall a b, bcmp a b = Lt -> beq a b = false.
Proof. unfold beq. intros. rewrite H. auto. Qed.
Lemma beq_gt_false : forall a b, bcmp a b = Gt -> beq a b = false.
Proof. unfold beq. intros. rewrite H. auto. Qed.
Lemma beq_sym : forall a b, beq a b = beq b a.
Proof. unfold beq. intros. rewrite (cb_antisym a b). destruct (bcmp a b); auto. Qed.

(* ---------- ascending tables ---------- *)

Definition klt (a b : sentry) : Prop := bcmp (sk a) (sk b) = Lt.
(* strictly ascending by key: sorted, no duplicate keys *)
Definition asc (l : list sentry) : Prop := StronglySorted klt l.

Definition above (p : bytes) (l : list sentry) : Prop := Forall (fun x => bcmp p (sk x) = Lt) l.

Lemma asc_cons_inv : forall x l, asc (x :: l) -> asc l /\ above (sk x) l.
Proof. intros. inversion H; subst. split; auto. Qed.

Lemma asc_cons : forall x l, asc l -> above (sk x) l -> asc (x :: l).
Proof. intros. constructor; auto. Qed.

Lemma above_trans : forall p q l, bcmp p q = Lt -> above q l -> above p l.
Proof.
  unfold above. intros. rewrite Forall_forall in *. intros. eapply cb_lt_trans; eauto.
Qed.

(* the key-equality lookup; on ascending tables it is what the code's seek finds *)
Definition lookup (k : bytes) (l : list sentry) : option sentry := List.find (fun e => beq (sk e) k) l.

Lemma lookup_above : forall k p l, above p l -> bcmp k p <> Gt -> lookup k l = None.
Proof.
  unfold lookup. induction l; simpl; auto. intros. inversion H; subst.
  assert (bcmp k (sk a) = Lt).
  { destruct (bcmp k p) eqn:E; try congruence.
    - apply cb_eq in E. subst. auto.
    - eapply cb_lt_trans; eauto. }
  fold (beq (sk a) k). rewrite beq_sym, (beq_lt_false _ _ H1). auto.
Qed.

Lemma sst_find_lookup : forall k l, asc l -> sst_find k l = lookup k l.
Proof.
  unfold lookup. induction l; simpl; auto. intros. apply asc_cons_inv in H. destruct H.
  unfold beq. destruct (bcmp (sk a) k) eqn:E; auto.
  symmetry. apply (lookup_above k (sk a)); auto.
  apply cb_gt_lt in E. rewrite E. congruence.
Qed.

Lemma lookup_some : forall k l e, lookup k l = Some e -> In e l /\ sk e = k.
Proof.
  unfold lookup. intros. apply find_some in H. destruct H. split; auto. apply beq_iff; auto.
Qed.

Lemma lookup_none : forall k l, lookup k l = None -> forall e, In e l -> sk e <> k.
Proof.
  unfold lookup. intros. intro. eapply find_none in H; eauto. simpl in H.
  subst. rewrite (proj2 (beq_iff _ _) eq_refl) in H. discriminate.
Qed.

Lemma lookup_app : forall k a b,
  lookup k (a ++ b) = match lookup k a with Some e => Some e | None => lookup k b end.
Proof. unfold lookup. induction a; simpl; auto. intros. destruct (beq (sk a) k); auto. Qed.

(* first source that holds the key: the precedence rule of a list of tables *)
Fixpoint first_hit (k : bytes) (ts : list (list sentry)) : option sentry :=
  match ts with
  | [] => None
  | t :: r => match lookup k t with Some e => Some e | None => first_hit k r end
  end.

Lemma first_hit_app : forall k a b,
  first_hit k (a ++ b) = match first_hit k a with Some e => Some e | None => first_hit k b end.
Proof. induction a; simpl; auto. intros. destruct (lookup k a); auto. Qed.

Lemma first_hit_concat : forall k ts, asc (concat ts) -> first_hit k ts = lookup k (concat ts).
Proof. induction ts; simpl; auto. intros. rewrite lookup_app. destruct (lookup k a); auto.
  apply IHts. clear - H. induction a; simpl in *; auto. apply asc_cons_inv in H. tauto.
Qed.

Definition has (k : bytes) (t : list sentry) : bool :=
  match lookup k t with Some _ => true | None => false end.

Lemma first_hit_filter : forall k ts, first_hit k (filter (has k) ts) = first_hit k ts.
Proof.
  induction ts; simpl; auto. unfold has at 1. destruct (lookup k a) eqn:E; simpl; rewrite ?E; auto.
Qed.

(* ---------- HierarchicalIterator ---------- *)

Lemma drop_le_above : forall p l, asc l -> above p (drop_le p l).
Proof.
  induction l; simpl; intros. constructor.
  apply asc_cons_inv in H. destruct H.
  destruct (bcmp (sk a) p) eqn:E; auto.
  apply cb_gt_lt in E. constructor; auto. eapply above_trans; eauto.
Qed.

Lemma drop_le_asc : forall p l, asc l -> asc (drop_le p l).
Proof.
  induction l; simpl; intros; auto. destruct (bcmp (sk a) p); auto; apply IHl; apply asc_cons_inv in H; tauto.
Qed.

Lemma drop_le_incl : forall p l x, In x (drop_le p l) -> In x l.
Proof. induction l; simpl; auto. intros. destruct (bcmp (sk a) p); auto. Qed.

Lemma drop_le_length : forall p l, (length (drop_le p l) <= length l)%nat.
Proof. induction l; simpl; auto. destruct (bcmp (sk a) p); simpl; lia. Qed.

(* dropping keys <= p does not disturb the lookup of a larger key *)
Lemma drop_le_lookup : forall p k l, bcmp p k = Lt -> lookup k (drop_le p l) = lookup k l.
Proof.
  unfold lookup. induction l; simpl; auto. intros.
  destruct (bcmp (sk a) p) eqn:E; auto.
  - apply cb_eq in E. rewrite E, (beq_lt_false _ _ H). auto.
  - rewrite (beq_lt_false (sk a) k); auto. eapply cb_lt_trans; eauto.
Qed.

Lemma drop_le_head_length : forall e l, (length (drop_le (sk e) (e :: l)) <= length l)%nat.
Proof. intros. simpl. rewrite cb_refl. apply drop_le_length. Qed.

(* characterisation of best_head *)
Lemma best_head_none : forall srcs, best_head srcs = None -> concat srcs = [].
Proof.
  induction srcs; simpl; auto. destruct a; simpl; auto.
  destruct (best_head srcs); try discriminate. destruct (bcmp (sk s0) (sk s)); discriminate.
Qed.

(* the chosen entry heads some source; sources before it start above its key, all entries of
   all sources are at or above it *)
Lemma best_head_some : forall srcs e, Forall asc srcs -> best_head srcs = Some e ->
  first_hit (sk e) srcs = Some e /\
  (forall x, In x (concat srcs) -> bcmp (sk x) (sk e) <> Lt) /\
  In e (concat srcs).
Proof.
  induction srcs as [|s r IH]; simpl; try discriminate. intros e Hs H.
  inversion Hs as [|? ? Hs1 Hs2]; subst.
  destruct s as [|x s'].
  - destruct (IH _ Hs2 H) as (A & B & C). simpl. auto.
  - apply asc_cons_inv in Hs1. destruct Hs1 as [Hs1 Hab].
    assert (Hx : forall y, In y (x :: s') -> bcmp (sk y) (sk x) <> Lt).
    { intros y [->|Hy]. rewrite cb_refl. congruence.
      unfold above in Hab. rewrite Forall_forall in Hab. apply Hab in Hy. apply cb_gt_lt in Hy. congruence. }
    destruct (best_head r) as [y|] eqn:Er.
    + destruct (IH _ Hs2 eq_refl) as (A & B & C).
      destruct (bcmp (sk y) (sk x)) eqn:E; inversion H; subst; clear H.
      * (* equal keys: the earlier source wins *)
        split; [|split].
        -- unfold lookup. simpl. rewrite (proj2 (beq_iff _ _) eq_refl). auto.
        -- intros z Hz. rewrite in_app_iff in Hz. destruct Hz; auto.
           apply B in H. apply cb_eq in E. rewrite <- E. auto.
        -- simpl. auto.
      * (* y strictly smaller *)
        split; [|split].
        -- rewrite (lookup_above (sk e) (sk e)); auto.
           ++ constructor; auto. eapply above_trans; eauto.
           ++ rewrite cb_refl. congruence.
        -- intros z Hz. rewrite in_app_iff in Hz. destruct Hz; auto.
           apply Hx in H. intro. apply H. eapply cb_lt_trans; eauto.
        -- simpl. right. apply in_or_app. auto.
      * split; [|split].
        -- unfold lookup. simpl. rewrite (proj2 (beq_iff _ _) eq_refl). auto.
        -- intros z Hz. rewrite in_app_iff in Hz. destruct Hz; auto.
           apply B in H. apply cb_gt_lt in E. intro. apply H. eapply cb_lt_trans; eauto.
        -- simpl. auto.
    + inversion H; subst. split; [|split].
      * unfold lookup. simpl. rewrite (proj2 (beq_iff _ _) eq_refl). auto.
      * intros z Hz. rewrite in_app_iff in Hz. destruct Hz; auto.
        apply best_head_none in Er. rewrite Er in H0. destruct H0.
      * simpl. auto.
Qed.

Lemma first_hit_drop : forall p k srcs, bcmp p k = Lt ->
  first_hit k (map (drop_le p) srcs) = first_hit k srcs.
Proof. induction srcs; simpl; auto. intros. rewrite drop_le_lookup, IHsrcs; auto. Qed.

Lemma first_hit_none_below : forall k srcs,
  (forall x, In x (concat srcs) -> bcmp (sk x) k = Gt) -> first_hit k srcs = None.
Proof.
  induction srcs; simpl; auto. intros.
  destruct (lookup k a) eqn:E.
  - apply lookup_some in E. destruct E. specialize (H s). rewrite H1, cb_refl in H.
    assert (Eq = Gt) by (apply H; apply in_or_app; auto). discriminate.
  - apply IHsrcs. intros. apply H. apply in_or_app. auto.
Qed.

Lemma drop_le_shorter : forall e a, asc a -> In e a -> (length (drop_le (sk e) a) < length a)%nat.
Proof.
  induction a; simpl. tauto. intros Ha [->|H].
  - rewrite cb_refl. pose proof (drop_le_length (sk e) a0). lia.
  - apply asc_cons_inv in Ha. destruct Ha as [Ha Hb].
    unfold above in Hb. rewrite Forall_forall in Hb. rewrite (Hb _ H).
    specialize (IHa Ha H). lia.
Qed.

Lemma concat_drop_length : forall e srcs, Forall asc srcs -> In e (concat srcs) ->
  (length (concat (map (drop_le (sk e)) srcs)) < length (concat srcs))%nat.
Proof.
  induction srcs; simpl. tauto. intros Hs H. inversion Hs; subst.
  rewrite !app_length. rewrite in_app_iff in H.
  assert (L : (length (concat (map (drop_le (sk e)) srcs)) <= length (concat srcs))%nat).
  { clear. induction srcs; simpl; auto. rewrite !app_length. pose proof (drop_le_length (sk e) a). lia. }
  destruct H.
  - pose proof (drop_le_shorter e a H2 H). lia.
  - apply IHsrcs in H; auto. pose proof (drop_le_length (sk e) a). lia.
Qed.

(* what the merged stream is: ascending, made of input entries, and for every key the entry of
   the FIRST source that holds the key *)
Lemma merge_loop_spec : forall fuel srcs, Forall asc srcs ->
  (length (concat srcs) < fuel)%nat ->
  asc (merge_loop fuel srcs) /\
  (forall x, In x (merge_loop fuel srcs) -> In x (concat srcs)) /\
  (forall k, lookup k (merge_loop fuel srcs) = first_hit k srcs).
Proof.
  induction fuel; intros srcs Hs Hf. lia.
  simpl. destruct (best_head srcs) as [e|] eqn:E.
  - destruct (best_head_some _ _ Hs E) as (A & B & C).
    assert (Hs' : Forall asc (map (drop_le (sk e)) srcs)).
    { rewrite Forall_forall in *. intros x Hx. apply in_map_iff in Hx. destruct Hx as (y & <- & Hy).
      apply drop_le_asc; auto. }
    assert (Hf' : (length (concat (map (drop_le (sk e)) srcs)) < fuel)%nat).
    { pose proof (concat_drop_length e srcs Hs C). lia. }
    destruct (IHfuel _ Hs' Hf') as (I1 & I2 & I3).
    assert (Hin : forall x, In x (concat (map (drop_le (sk e)) srcs)) -> In x (concat srcs) /\ bcmp (sk e) (sk x) = Lt).
    { intros x Hx. apply in_concat in Hx. destruct Hx as (l & Hl & Hx).
      apply in_map_iff in Hl. destruct Hl as (l0 & <- & Hl0).
      split.
      - apply in_concat. exists l0. split; auto. eapply drop_le_incl; eauto.
      - assert (asc l0) by (rewrite Forall_forall in Hs; auto).
        pose proof (drop_le_above (sk e) l0 H). unfold above in H0. rewrite Forall_forall in H0. auto. }
    split; [|split].
    + apply asc_cons; auto. unfold above. rewrite Forall_forall. intros x Hx.
      apply I2 in Hx. apply Hin in Hx. tauto.
    + intros x [->|Hx]; auto. apply I2 in Hx. apply Hin in Hx. tauto.
    + intro k. unfold lookup. simpl. fold (lookup k (merge_loop fuel (map (drop_le (sk e)) srcs))).
      destruct (bcmp (sk e) k) eqn:Ek.
      * apply cb_eq in Ek. subst. rewrite (proj2 (beq_iff _ _) eq_refl). auto.
      * rewrite (beq_lt_false _ _ Ek). rewrite I3. apply first_hit_drop; auto.
      * rewrite (beq_gt_false _ _ Ek). rewrite I3.
        rewrite first_hit_none_below. symmetry. apply first_hit_none_below.
        -- intros x Hx. apply B in Hx. apply cb_gt_lt in Ek.
           destruct (bcmp (sk x) k) eqn:E2; auto.
           ++ apply cb_eq in E2. subst. congruence.
           ++ exfalso. apply Hx. eapply cb_lt_trans; eauto.
        -- intros x Hx. apply Hin in Hx. destruct Hx. apply cb_gt_lt in Ek. apply cb_gt_lt.
           eapply cb_lt_trans; eauto.
  - apply best_head_none in E. split; [constructor|split]. simpl; tauto.
    intro k. unfold lookup. simpl. symmetry.
    clear - E. induction srcs; simpl in *; auto. apply app_eq_nil in E. destruct E. subst. simpl. auto.
Qed.

Theorem merge_spec : forall srcs, Forall asc srcs ->
  asc (merge srcs) /\
  (forall x, In x (merge srcs) -> In x (concat srcs)) /\
  (forall k, lookup k (merge srcs) = first_hit k srcs).
Proof. intros. unfold merge. apply merge_loop_spec; auto. Qed.

(* ---------- CompactFiles ---------- *)

(* the executor's decision per merged entry *)
Definition keptf (keep : bytes -> bool) (e : sentry) : bool :=
  if is_tomb e then keep (sk e) else true.

Lemma exec_loop_concat : forall keep max merged last cur n outs outs' cur',
  asc merged ->
  match last with Some l => above l merged | None => True end ->
  exec_loop keep max merged last cur n outs = (outs', cur') ->
  concat outs' ++ cur' = concat outs ++ cur ++ map zero_seq (filter (keptf keep) merged).
Proof.
  induction merged as [|e r IH]; simpl; intros last cur n outs outs' cur' Ha Hl H.
  - inversion H; subst. rewrite app_nil_r. auto.
  - apply asc_cons_inv in Ha. destruct Ha as [Ha Hab].
    assert (Hskip : match last with Some l => beq (sk e) l | None => false end = false).
    { destruct last; auto. inversion Hl; subst. rewrite beq_sym. apply beq_lt_false; auto. }
    rewrite Hskip in H. unfold keptf at 1.
    destruct (if is_tomb e then keep (sk e) else true) eqn:K;
      destruct (max <=? _) eqn:M; apply IH in H; auto; rewrite H; simpl;
        rewrite ?concat_app; simpl; rewrite ?app_nil_r, <- ?app_assoc; simpl; auto.
Qed.

Definition chunk_ok (max : N) (o : list sentry) : Prop := o <> [] /\ N.of_nat (length o) <= max.

Lemma exec_loop_chunks : forall keep max merged last cur n outs outs' cur',
  1 <= max -> n = N.of_nat (length cur) -> n < max -> Forall (chunk_ok max) outs ->
  exec_loop keep max merged last cur n outs = (outs', cur') ->
  Forall (chunk_ok max) outs' /\ N.of_nat (length cur') < max.
Proof.
  induction merged as [|e r IH]; simpl; intros last cur n outs outs' cur' Hm Hn Hlt Ho H.
  - inversion H; subst. auto.
  - destruct (match last with Some l => beq (sk e) l | None => false end).
    { eapply IH; eauto. }
    destruct (if is_tomb e then keep (sk e) else true) eqn:K.
    + destruct (max <=? n + 1) eqn:M.
      * apply N.leb_le in M. eapply IH in H; eauto; simpl; try lia.
        apply Forall_app. split; auto. constructor; auto. split.
        -- destruct cur; simpl; discriminate.
        -- rewrite app_length. simpl. lia.
      * apply N.leb_gt in M. eapply IH in H; eauto. rewrite app_length. simpl. lia.
    + destruct (max <=? n) eqn:M.
      * apply N.leb_le in M. lia.
      * eapply IH in H; eauto.
Qed.

Lemma filter_asc : forall f l, asc l -> asc (filter f l).
Proof.
  induction l; simpl; auto. intros. apply asc_cons_inv in H. destruct H.
  destruct (f a); auto. apply asc_cons; auto.
  unfold above in *. rewrite Forall_forall in *. intros. apply H0. apply filter_In in H1. tauto.
Qed.

Lemma map_zero_asc : forall l, asc l -> asc (map zero_seq l).
Proof.
  induction l; simpl; auto. intros. apply asc_cons_inv in H. destruct H.
  apply asc_cons; auto. unfold above in *. rewrite Forall_forall in *. intros.
  apply in_map_iff in H1. destruct H1 as (y & <- & Hy). simpl. auto.
Qed.

Lemma lookup_kept : forall f k l, asc l ->
  lookup k (map zero_seq (filter f l)) =
  match lookup k l with Some e => if f e then Some (zero_seq e) else None | None => None end.
Proof.
  unfold lookup. induction l; simpl; auto. intros. apply asc_cons_inv in H. destruct H.
  destruct (beq (sk a) k) eqn:E.
  - destruct (f a); simpl; rewrite ?E; auto.
    apply beq_iff in E. subst.
    apply (lookup_above (sk a) (sk a)).
    + apply map_zero_asc in H. pose proof (filter_asc f l).
      unfold above in *. rewrite Forall_forall in *. intros x Hx.
      apply in_map_iff in Hx. destruct Hx as (y & <- & Hy). simpl. apply H0.
      apply filter_In in Hy. tauto.
    + rewrite cb_refl. congruence.
  - destruct (f a); simpl; rewrite ?E; auto.
Qed.

Theorem exec_outputs_concat : forall keep max srcs, Forall asc srcs ->
  concat (exec_outputs keep max srcs) = map zero_seq (filter (keptf keep) (merge srcs)).
Proof.
  intros. unfold exec_outputs.
  destruct (exec_loop keep max (merge srcs) None [] 0 []) as [outs cur] eqn:E.
  apply exec_loop_concat in E; simpl; auto.
  - simpl in E. rewrite <- E. destruct cur; rewrite ?app_nil_r; auto.
    rewrite concat_app. simpl. rewrite app_nil_r. auto.
  - apply merge_spec; auto.
Qed.

(* outputs: strictly ascending across all files of the task, hence no duplicate keys *)
Theorem exec_outputs_sorted : forall keep max srcs, Forall asc srcs ->
  asc (concat (exec_outputs keep max srcs)).
Proof.
  intros. rewrite exec_outputs_concat; auto. apply map_zero_asc, filter_asc, merge_spec; auto.
Qed.

(* every output file is non-empty and holds at most SSTableMaxSize entries *)
Theorem exec_outputs_chunks : forall keep max srcs, 1 <= max ->
  Forall (chunk_ok max) (exec_outputs keep max srcs).
Proof.
  intros. unfold exec_outputs.
  destruct (exec_loop keep max (merge srcs) None [] 0 []) as [outs cur] eqn:E.
  apply exec_loop_chunks in E; auto; try lia. destruct E.
  destruct cur; auto. apply Forall_app. split; auto. constructor; auto.
  split. discriminate. lia.
Qed.

(* what a key reads as in the outputs: the entry of the FIRST source holding the key, with
   sequence number 0 — unless it is a deletion marker the filter rejects *)
Theorem exec_outputs_lookup : forall keep max srcs k, Forall asc srcs ->
  first_hit k (exec_outputs keep max srcs) =
  match first_hit k srcs with
  | Some e => if keptf keep e then Some (zero_seq e) else None
  | None => None
  end.
Proof.
  intros. rewrite first_hit_concat by (apply exec_outputs_sorted; auto).
  rewrite exec_outputs_concat; auto.
  destruct (merge_spec srcs H) as (A & B & C).
  rewrite lookup_kept; auto. rewrite C. auto.
Qed.

(* ---------- content preservation under a precedence order ---------- *)

(* what a key reads as when the tables are consulted in the given order (first = first
   consulted) and the first table holding the key decides; a deletion marker reads as absent *)
Definition read (ts : list (list sentry)) (k : bytes) : option bytes :=
  match first_hit k ts with Some e => sval e | None => None end.

(* Replacing the inputs of a compaction by its outputs does not change what a key reads as,
   under ANY precedence order on the tables, provided that for this key
   (1) among the tables holding the key, the inputs holding it are adjacent in precedence and
       the executor lists them in precedence order (A, B: the tables before / after them),
   (2) the outputs take their place,
   (3) a deletion marker is dropped only if nothing behind it (B) would resurface. *)
Theorem view_preserved : forall keep max k (prec prec' ins A B : list (list sentry)),
  Forall asc ins ->
  filter (has k) prec = A ++ filter (has k) ins ++ B ->
  filter (has k) prec' = A ++ filter (has k) (exec_outputs keep max ins) ++ B ->
  (forall e, first_hit k ins = Some e -> keptf keep e = false -> read B k = None) ->
  read prec' k = read prec k.
Proof.
  intros keep max k prec prec' ins A B Hs H1 H2 H3. unfold read.
  rewrite <- (first_hit_filter k prec), <- (first_hit_filter k prec'), H1, H2.
  rewrite !first_hit_app, !first_hit_filter.
  destruct (first_hit k A); auto.
  rewrite exec_outputs_lookup; auto.
  destruct (first_hit k ins) as [e|] eqn:E; auto.
  destruct (keptf keep e) eqn:K; auto.
  specialize (H3 e eq_refl K). unfold read in H3.
  unfold keptf in K. destruct e as [ek eq ev]. unfold is_tomb in K. simpl in *.
  destruct ev; try discriminate. auto.
Qed.

(* the guard "the key occurs in at most one input": condition (1) is then about position only *)
Corollary view_preserved_single : forall keep max k (prec prec' ins A B : list (list sentry)) t,
  Forall asc ins ->
  filter (has k) ins = [t] ->
  filter (has k) prec = A ++ [t] ++ B ->
  filter (has k) prec' = A ++ filter (has k) (exec_outputs keep max ins) ++ B ->
  (forall e, lookup k t = Some e -> keptf keep e = false -> read B k = None) ->
  read prec' k = read prec k.
Proof.
  intros. eapply view_preserved with (ins := ins); eauto.
  - rewrite H0. auto.
  - intros e He. apply H3. rewrite <- first_hit_filter, H0 in He. simpl in He.
    destruct (lookup k t); auto.
Qed.

(* the storage manager's Get over tables, in terms of [read] *)
Lemma ssts_get_read : forall k tables, Forall (fun t => asc (s_entries t)) tables ->
  match ssts_get k tables with Some (Some v) => Some v | _ => None end =
  read (map s_entries tables) k.
Proof.
  unfold read. induction tables; simpl; auto. intros. inversion H; subst.
  rewrite sst_find_lookup; auto. destruct (lookup k (s_entries a)).
  - destruct (sval s); auto.
  - apply IHtables; auto.
Qed.

(* ---------- the tombstone tracker ---------- *)

Lemma keep_of_in : forall tr k, In k tr -> keep_of tr k = true.
Proof.
  unfold keep_of. intros. apply existsb_exists. exists k. split; auto. apply beq_iff. auto.
Qed.

Definition no_reopen (o : cop) : Prop := match o with CReopen _ => False | _ => True end.

Lemma tracked_mono : forall o s k, no_reopen o -> In k (tracked s) -> In k (tracked (cstep s o)).
Proof.
  destruct o; simpl; intros s0 k0 Hn Hin; auto; try tauto.
  - unfold cput. destruct (put (eng s0) k v). auto.
  - unfold cdel. destruct (del (eng s0) k). simpl. destruct (is_ok w); simpl; auto.
  - unfold cbatch. destruct (apply_batch (eng s0) ops). simpl. destruct (is_ok w); auto.
    apply in_or_app. auto.
  - unfold ccommit. destruct (tx_commit (eng s0) ops). auto.
  - unfold cfull. destruct (pending (eng s0)); simpl; auto.
  - unfold ctrigger. destruct (select _ _ _); auto.
  - unfold crange. destruct (select_range _ _ _); auto.
Qed.

(* a key deleted through EngineFacade.Delete keeps its deletion marker in every compaction of
   the same process *)
Theorem tombstone_tracked : forall ops s k r s',
  cdel s k = (s', r) -> is_ok r = true -> Forall no_reopen ops ->
  keep_of (tracked (fold_left cstep ops s')) k = true.
Proof.
  intros. apply keep_of_in.
  assert (In k (tracked s')).
  { unfold cdel in H. destruct (del (eng s) k). inversion H; subst. simpl. rewrite H0. simpl. auto. }
  clear H. revert s' H2. induction H1; simpl; auto. intros. apply IHForall. apply tracked_mono; auto.
Qed.

(* ---------- the running engine never sees a compaction ---------- *)

Theorem live_reads_unaffected : forall s z lo hi k,
  cget (ctrigger s z) k = cget s k /\ cget (crange s lo hi z) k = cget s k.
Proof.
  intros. unfold cget, ctrigger, crange. split.
  - destruct (select _ _ _); auto.
  - destruct (select_range _ _ _); auto.
Qed.


(* ---------- every file of every reachable directory is strictly ascending ---------- *)

Module MP := MemtableProofs.

Definition mt_ok (m : memtable) : Prop := MP.sorted (mt_entries m).
Definition file_ok (t : sst) : Prop := asc (s_entries t).
Definition dfile_ok (f : dfile) : Prop := asc (d_entries f).

Lemma asc_snoc : forall l x, asc l -> (forall y, In y l -> bcmp (sk y) (sk x) = Lt) -> asc (l ++ [x]).
Proof.
  induction l; simpl; intros. repeat constructor.
  apply asc_cons_inv in H. destruct H. apply asc_cons.
  - apply IHl; auto.
  - unfold above in *. rewrite Forall_forall in *. intros z Hz. apply in_app_iff in Hz.
    destruct Hz as [Hz|[<-|[]]]; auto.
Qed.

Lemma asc_app_inv : forall a b, asc (a ++ b) -> asc a /\ asc b.
Proof.
  induction a; simpl; intros. split; auto. constructor.
  apply asc_cons_inv in H. destruct H. destruct (IHa _ H). split; auto.
  apply asc_cons; auto. unfold above in *. rewrite Forall_forall in *. intros. apply H0.
  apply in_or_app. auto.
Qed.

Lemma asc_concat_each : forall l, asc (concat l) -> Forall asc l.
Proof.
  induction l; simpl; intros. constructor. apply asc_app_inv in H. destruct H. constructor; auto.
Qed.

Lemma sk_to_sentry : forall x, sk (to_sentry x) = mk x.
Proof. destruct x; auto. Qed.

Lemma asc_last_max : forall l last y, asc (l ++ [last]) -> In y l -> bcmp (sk y) (sk last) = Lt.
Proof.
  induction l; simpl; intros. tauto.
  apply asc_cons_inv in H. destruct H. destruct H0.
  - subst. unfold above in H1. rewrite Forall_forall in H1. apply H1. apply in_or_app. simpl. auto.
  - eapply IHl; eauto.
Qed.

(* flushMemTable's collection loop on a table sorted by (key up, sequence down): one entry per
   key, keys strictly ascending *)
Lemma collect_aux_asc : forall l acc,
  MP.sorted l -> asc (rev acc) ->
  (forall last acc', acc = last :: acc' -> Forall (fun x => bcmp (sk last) (mk x) <> Gt) l) ->
  asc (collect_aux acc l).
Proof.
  induction l as [|x r IH]; simpl; intros acc Hs Ha Hl; auto.
  apply MP.sorted_cons_inv in Hs. destruct Hs as [Hs Hx].
  assert (Hxr : Forall (fun y => bcmp (mk x) (mk y) <> Gt) r).
  { rewrite Forall_forall in *. intros y Hy. apply Hx in Hy. apply MP.ele_iff in Hy.
    destruct Hy as [Hy|[Hy _]]. rewrite Hy. congruence. rewrite Hy, cb_refl. congruence. }
  destruct acc as [|last acc'].
  - apply IH; auto. simpl. repeat constructor.
    intros. inversion H; subst. rewrite sk_to_sentry. auto.
  - specialize (Hl _ _ eq_refl). inversion Hl as [|? ? Hlx Hlr]; subst.
    simpl in Ha.
    destruct (beq (sk last) (mk x)) eqn:E.
    + apply beq_iff in E.
      destruct (sseq last <? mseq x).
      * apply IH; auto.
        -- simpl. apply asc_snoc. apply asc_app_inv in Ha. tauto.
           intros y Hy. rewrite sk_to_sentry, <- E. eapply asc_last_max; eauto.
        -- intros. inversion H; subst. rewrite sk_to_sentry. auto.
      * apply IH; auto. intros. inversion H; subst. rewrite E. auto.
    + assert (Hlt : bcmp (sk last) (mk x) = Lt).
      { destruct (bcmp (sk last) (mk x)) eqn:C; auto; try congruence.
        apply cb_eq in C. rewrite C in E. rewrite (proj2 (beq_iff _ _) eq_refl) in E. discriminate. }
      apply IH; auto.
      * simpl. apply asc_snoc; auto. intros y Hy. rewrite sk_to_sentry.
        apply in_app_iff in Hy. destruct Hy as [Hy|[<-|[]]]; auto.
        eapply cb_lt_trans; eauto. eapply asc_last_max; eauto.
      * intros. inversion H; subst. rewrite sk_to_sentry. auto.
Qed.

Lemma collect_asc : forall l, MP.sorted l -> asc (collect l).
Proof.
  intros. unfold collect. apply collect_aux_asc; auto. constructor. intros. discriminate.
Qed.

Lemma filter_sorted : forall f l, MP.sorted l -> MP.sorted (filter f l).
Proof.
  intros. apply MP.sorted_strong. apply MP.sorted_strong in H.
  induction H; simpl. constructor. destruct (f a); auto. constructor; auto.
  rewrite Forall_forall in *. intros. apply H0. apply filter_In in H1. tauto.
Qed.

Lemma mt_add_ok : forall m e, mt_ok m -> mt_ok (mt_add m e).
Proof. unfold mt_ok, mt_add. intros. destruct (mt_imm m); simpl; auto. apply MP.insert_sorted; auto. Qed.

Lemma mt_empty_ok : mt_ok mt_empty.
Proof. unfold mt_ok. simpl. constructor. Qed.

Record eng_ok (e : st) : Prop := mkEO {
  eo_active : mt_ok (active e);
  eo_pending : Forall mt_ok (pending e);
  eo_ssts : Forall file_ok (ssts e)
}.

Lemma pool_add_ok : forall e m, eng_ok e -> eng_ok (pool_add e m).
Proof. intros e m [A B C]. constructor; simpl; auto. apply mt_add_ok; auto. Qed.

Lemma maybe_schedule_ok : forall e, eng_ok e -> eng_ok (maybe_schedule e).
Proof.
  unfold maybe_schedule. intros e [A B C]. destruct (flush_pending e). 2: constructor; auto.
  constructor; simpl; auto. apply mt_empty_ok. apply Forall_app. split; auto.
Qed.

Lemma upd_wal_ok : forall e n f, eng_ok e -> eng_ok (upd_wal e n f).
Proof. intros e n f [A B C]. constructor; auto. Qed.
Lemma set_last_ok : forall e n, eng_ok e -> eng_ok (set_last e n).
Proof. intros e n [A B C]. constructor; auto. Qed.

Lemma fold_add_ok : forall (ops : list bop) q s, eng_ok s ->
  eng_ok (fold_left (fun a o => set_last (pool_add a (bop_mentry q o)) q) ops s).
Proof. induction ops; simpl; auto. intros. apply IHops. apply set_last_ok, pool_add_ok; auto. Qed.

Lemma apply_batch_ok : forall e ops, eng_ok e -> eng_ok (fst (apply_batch e ops)).
Proof.
  unfold apply_batch. intros. destruct ops as [|b ops']; auto.
  destruct (MaxSeq <=? wal_next e); auto.
  cbn [fst]. apply maybe_schedule_ok, fold_add_ok, upd_wal_ok; auto.
Qed.

Lemma put_ok : forall e k v, eng_ok e -> eng_ok (fst (put e k v)).
Proof.
  unfold put. intros. destruct (MaxSeq <=? wal_next e); auto. simpl.
  apply maybe_schedule_ok, set_last_ok, pool_add_ok, upd_wal_ok; auto.
Qed.
Lemma del_ok : forall e k, eng_ok e -> eng_ok (fst (del e k)).
Proof.
  unfold del. intros. destruct (MaxSeq <=? wal_next e); auto. simpl.
  apply maybe_schedule_ok, set_last_ok, pool_add_ok, upd_wal_ok; auto.
Qed.
Lemma tx_commit_ok : forall e ops, eng_ok e -> eng_ok (fst (tx_commit e ops)).
Proof. unfold tx_commit. intros. destruct (buffer_ops ops); auto. apply apply_batch_ok; auto. Qed.

Lemma flush_table_ok : forall e m, eng_ok e -> mt_ok m ->
  eng_ok (flush_table e m) /\ pending (flush_table e m) = pending e /\ active (flush_table e m) = active e.
Proof.
  unfold flush_table. intros e m [A B C] Hm. destruct (mt_size m =? 0). repeat split; auto.
  destruct (collect (mt_iter_entries m)) eqn:E. repeat split; auto.
  repeat split; simpl; auto. apply Forall_app. split; auto. constructor; auto.
  unfold file_ok. simpl. rewrite <- E. apply collect_asc. apply filter_sorted. auto.
Qed.

Lemma flush_ok : forall e, eng_ok e -> eng_ok (flush e).
Proof.
  unfold flush. intros e H. destruct (pending e) eqn:P.
  - destruct (0 <? mt_size (active e)); auto.
    apply flush_table_ok. apply upd_wal_ok; auto. destruct H; auto.
  - assert (Hp : Forall mt_ok (m :: l)) by (rewrite <- P; destruct H; auto).
    assert (H0 : eng_ok (rotate (clear_pending e))).
    { destruct H. constructor; simpl; auto. }
    revert H0 Hp. generalize (rotate (clear_pending e)). generalize (m :: l). clear.
    induction l; simpl; auto. intros. inversion Hp; subst. apply IHl; auto.
    apply flush_table_ok; auto.
Qed.

Lemma sst_insert_in' : forall x l t, In t (sst_insert x l) <-> t = x \/ In t l.
Proof.
  induction l; simpl; intros. intuition.
  destruct (sst_le x a); simpl. intuition. rewrite IHl. intuition.
Qed.
Lemma sst_sort_in' : forall l t, In t (sst_sort l) <-> In t l.
Proof.
  induction l; simpl; intros. tauto. rewrite sst_insert_in', IHl. intuition.
Qed.

Lemma recover_tables_ok : forall c es tables maxseq r q,
  Forall mt_ok tables -> recover_tables c es tables maxseq = Some (r, q) -> Forall mt_ok r.
Proof.
  induction es; simpl; intros. inversion H0; subst. auto.
  destruct tables as [|cur older]; try discriminate. inversion H; subst.
  destruct (c_memsize c <=? mt_size cur).
  - destruct (c_maxmem c <=? _); try discriminate.
    eapply IHes in H0; eauto. constructor; [|constructor; auto].
    destruct (wentry_mentry a). apply mt_add_ok, mt_empty_ok. apply mt_empty_ok.
  - eapply IHes in H0; eauto. constructor; auto. destruct (wentry_mentry a); auto. apply mt_add_ok; auto.
Qed.

Lemma reopen_ok : forall e, Forall file_ok (ssts e) -> eng_ok (reopen e).
Proof.
  unfold reopen. intros.
  assert (S : Forall file_ok (sst_sort (ssts e))).
  { rewrite Forall_forall in *. intros. apply H. apply sst_sort_in'. auto. }
  destruct (recover_tables _ _ _ _) as [[tbls maxseq]|] eqn:R.
  - apply recover_tables_ok in R. 2: constructor; [apply mt_empty_ok|constructor].
    constructor; simpl; auto.
    + destruct tbls. apply mt_empty_ok. inversion R; auto.
    + rewrite Forall_forall in *. intros m Hm. apply in_map_iff in Hm. destruct Hm as (m0 & <- & Hm0).
      unfold mt_ok. simpl. apply R. apply in_rev in Hm0. destruct tbls; simpl in *. tauto. auto.
  - constructor; simpl; auto. apply mt_empty_ok.
Qed.

