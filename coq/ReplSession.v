(* ReplSession.v — the part of the replication primary that decides whether a client operation
   returns and whether a silent replica leaves the reported topology (C15): primary.go
   broadcastToReplicas / sendToReplica, heartbeat.go checkSessions, primary_info.go
   GetReplicaInfo.  Logical time; model only (proofs in ReplSessionProofs.v).

   A session's transport accepts `s_room` more responses before Stream.Send blocks (HTTP/2
   flow-control window and socket buffers of a peer that stopped reading); a reading peer
   drains it.  A broken transport (peer gone, connection reset) makes Send fail at once.
   sync_send = true is the code as it is: the WAL observer callback calls Stream.Send while the
   WAL mutex and the storage write lock are held (gen/Blocking.v), so a client write returns
   only when every send returned.  sync_send = false is the repaired design (per-session
   bounded queue drained by a sender goroutine; a full queue evicts the session). *)
From Coq Require Import List NArith Bool.
Import ListNotations.
Open Scope N_scope.

Record sess := mkS {
  s_id : N;
  s_connected : bool;      (* ReplicaSession.Connected && Active *)
  s_reads : bool;          (* the peer reads its stream *)
  s_broken : bool;         (* the transport is closed: Send returns an error *)
  s_room : nat;            (* responses the transport still accepts without blocking *)
  s_last : N               (* LastActivity *)
}.

Inductive sres := SSent (s : sess) | SFailed (s : sess) | SBlocks.

(* Stream.Send of one response at time now (LastActivity is refreshed when it returns nil) *)
Definition send1 (now : N) (s : sess) : sres :=
  if s_broken s then SFailed (mkS (s_id s) false (s_reads s) true (s_room s) (s_last s))
  else if s_reads s then SSent (mkS (s_id s) true true false (s_room s) now)
  else match s_room s with
       | O => SBlocks
       | S k => SSent (mkS (s_id s) true false false k now)
       end.

Inductive opres := Done (ss : list sess) | Blocked (id : N).

(* the push of one WAL entry from inside wal.Append, code as it is *)
Fixpoint client_write_sync (now : N) (ss : list sess) : opres :=
  match ss with
  | [] => Done []
  | s :: r =>
      if s_connected s then
        match send1 now s with
        | SBlocks => Blocked (s_id s)
        | SSent s' | SFailed s' =>
            match client_write_sync now r with
            | Done r' => Done (s' :: r')
            | Blocked i => Blocked i
            end
        end
      else match client_write_sync now r with
           | Done r' => Done (s :: r')
           | Blocked i => Blocked i
           end
  end.

(* asynchronous sends: the write enqueues; a session whose queue is full is evicted *)
Definition client_write_async (now : N) (ss : list sess) : opres :=
  Done (flat_map (fun s =>
          if s_connected s then
            match send1 now s with
            | SBlocks => []
            | SSent s' | SFailed s' => [s']
            end
          else [s]) ss).

Definition client_write (sync_send : bool) (now : N) (ss : list sess) : opres :=
  if sync_send then client_write_sync now ss else client_write_async now ss.

Record hb := mkHB { hb_interval : N; hb_timeout : N }.

(* heartbeatManager.checkSessions at time now: a session idle for longer than the timeout is
   unregistered; one idle for longer than the interval is sent an empty response, which refreshes
   LastActivity when the send returns and blocks the checker when it does not *)
Fixpoint hb_check (h : hb) (now : N) (ss : list sess) : opres :=
  match ss with
  | [] => Done []
  | s :: r =>
      let rest (keep : list sess) :=
        match hb_check h now r with Done r' => Done (keep ++ r') | Blocked i => Blocked i end in
      if negb (s_connected s) then rest [s]
      else if hb_timeout h <? now - s_last s then rest []
      else if hb_interval h <? now - s_last s then
        match send1 now s with
        | SBlocks => Blocked (s_id s)
        | SSent s' => rest [s']
        | SFailed _ => rest []
        end
      else rest [s]
  end.

(* the topology the primary reports (GetReplicaInfo): the connected sessions *)
Definition topology (ss : list sess) : list N := map s_id (filter s_connected ss).

(* periodic checks at now+step, now+2*step, ...: Some sessions after n checks, None if a check blocked *)
Fixpoint hb_rounds (h : hb) (step : N) (n : nat) (now : N) (ss : list sess) : option (list sess) :=
  match n with
  | O => Some ss
  | S n' => match hb_check h (now + step) ss with
            | Done ss' => hb_rounds h step n' (now + step) ss'
            | Blocked _ => None
            end
  end.
