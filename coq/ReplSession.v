(* ReplSession.v — the part of the replication primary that decides whether a client operation
   returns and whether a silent replica leaves the reported topology (C15): primary.go
   broadcastToReplicas / sendToReplica, heartbeat.go checkSessions, primary_info.go
   GetReplicaInfo.  Logical time; model only (proofs in ReplSessionProofs.v).

   A session's transport accepts `s_room` more responses before Stream.Send blocks (HTTP/2
   flow-control window and socket buffers of a peer that stopped reading); a reading peer
   drains it.  A broken transport (peer gone, connection reset) makes Send fail at once.
   sync_send = false is the code as it is since 5fc1d1b: every session has a bounded queue
   (sessionQueueLen responses) drained by its sender goroutine, the only writer of the stream;
   pushes, catch-up fetches and heartbeats enqueue without waiting, a full queue evicts the
   session, and LastActivity is refreshed only when the stream really took a response.
   sync_send = true is the pinned tree: the WAL observer callback called Stream.Send while the
   WAL mutex and the storage write lock were held, so a client write returned only when every
   send returned (kept for the BeforeFixes notes). *)
From Coq Require Import List NArith Bool.
Import ListNotations.
Open Scope N_scope.

Record sess := mkS {
  s_id : N;
  s_connected : bool;      (* ReplicaSession.Connected && Active *)
  s_reads : bool;          (* the peer reads its stream *)
  s_broken : bool;         (* the transport is closed: Send returns an error *)
  s_room : nat;            (* responses the transport still accepts without blocking *)
  s_last : N;              (* LastActivity *)
  s_queued : nat           (* responses waiting in the session's send queue *)
}.

(* sessionQueueLen of primary.go (checked against the source by gofacts: gen/ReplFacts.v) *)
Definition QueueLen : nat := 256.

Inductive sres := SSent (s : sess) | SFailed (s : sess) | SBlocks.

(* Stream.Send of one response at time now (LastActivity is refreshed when it returns nil) *)
Definition send1 (now : N) (s : sess) : sres :=
  if s_broken s then SFailed (mkS (s_id s) false (s_reads s) true (s_room s) (s_last s) (s_queued s))
  else if s_reads s then SSent (mkS (s_id s) true true false (s_room s) now O)
  else match s_room s with
       | O => SBlocks
       | S k => SSent (mkS (s_id s) true false false k now (s_queued s))
       end.

(* ReplicaSession.send since 5fc1d1b: hand a response to the sender. If the stream takes it the
   activity time is refreshed; if the stream is stuck the response waits in the queue (activity
   time untouched); a full queue evicts the session (None) *)
Definition enqueue (now : N) (s : sess) : option sess :=
  match send1 now s with
  | SSent s' => Some s'
  | SFailed s' => None
  | SBlocks =>
      if Nat.ltb (s_queued s) QueueLen
      then Some (mkS (s_id s) true false false O (s_last s) (S (s_queued s)))
      else None
  end.

Inductive opres := Done (ss : list sess) | Blocked (id : N).

(* the push of one WAL entry from inside wal.Append, code as it is *)
Fixpoint client_write_sync (now : N) (ss : list sess) : opres :=
  match ss with
  | [] => Done []
  | s :: r =>
      if s_connected s then
        match send1 now s with
        | SBlocks => Blocked (s_id s)
        | SSent s' | SFailed s' =>
            match client_write_sync now r with
            | Done r' => Done (s' :: r')
            | Blocked i => Blocked i
            end
        end
      else match client_write_sync now r with
           | Done r' => Done (s :: r')
           | Blocked i => Blocked i
           end
  end.

(* asynchronous sends: the write enqueues and never waits *)
Definition client_write_async (now : N) (ss : list sess) : opres :=
  Done (flat_map (fun s =>
          if s_connected s then
            match enqueue now s with
            | Some s' => [s']
            | None => []
            end
          else [s]) ss).

Definition client_write (sync_send : bool) (now : N) (ss : list sess) : opres :=
  if sync_send then client_write_sync now ss else client_write_async now ss.

Record hb := mkHB { hb_interval : N; hb_timeout : N }.

(* heartbeatManager.checkSessions at time now, since 5fc1d1b: a session idle for longer than the
   timeout is unregistered (and its stream ended); one idle for longer than the interval gets an
   empty response enqueued; the checker never waits *)
Definition hb_check_async (h : hb) (now : N) (ss : list sess) : list sess :=
  flat_map (fun s =>
    if negb (s_connected s) then [s]
    else if hb_timeout h <? now - s_last s then []
    else if hb_interval h <? now - s_last s then
      match enqueue now s with Some s' => [s'] | None => [] end
    else [s]) ss.

(* the pinned tree: one idle for longer than the interval is sent an empty response under the
   session mutex, which refreshes LastActivity when the send returns and blocks the checker when
   it does not *)
Fixpoint hb_check (h : hb) (now : N) (ss : list sess) : opres :=
  match ss with
  | [] => Done []
  | s :: r =>
      let rest (keep : list sess) :=
        match hb_check h now r with Done r' => Done (keep ++ r') | Blocked i => Blocked i end in
      if negb (s_connected s) then rest [s]
      else if hb_timeout h <? now - s_last s then rest []
      else if hb_interval h <? now - s_last s then
        match send1 now s with
        | SBlocks => Blocked (s_id s)
        | SSent s' => rest [s']
        | SFailed _ => rest []
        end
      else rest [s]
  end.

(* the topology the primary reports (GetReplicaInfo): the connected sessions *)
Definition topology (ss : list sess) : list N := map s_id (filter s_connected ss).

(* periodic checks at now+step, now+2*step, ...: Some sessions after n checks, None if a check blocked *)
Fixpoint hb_rounds (h : hb) (step : N) (n : nat) (now : N) (ss : list sess) : option (list sess) :=
  match n with
  | O => Some ss
  | S n' => match hb_check h (now + step) ss with
            | Done ss' => hb_rounds h step n' (now + step) ss'
            | Blocked _ => None
            end
  end.
