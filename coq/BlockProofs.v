(* BlockProofs.v — C11, byte layer of one block: XXH64 stays below 2^64; block.NewReader
   accepts what Builder.Finish wrote and recovers the restart array; decodeNext reads back
   every entry; SeekToFirst + Next yields exactly the entries written. No axioms. *)
From Coq Require Import List NArith Arith PeanoNat Bool Lia ZifyN ZifyNat.
From KV Require Import Bytes BytesProofs Engine Xxhash Block.
From KV.gen Require Import Consts.
Import ListNotations.
Open Scope N_scope.

(* ------------------------------------------------------------------------------------- *)
(* 0. helpers                                                                             *)
(* ------------------------------------------------------------------------------------- *)

Lemma to_nat_len : forall l : bytes, N.to_nat (len l) = length l.
Proof. intros l. unfold len. apply Nnat.Nat2N.id. Qed.

Lemma firstn_len_app : forall a b : bytes, firstn (N.to_nat (len a)) (a ++ b) = a.
Proof. intros a b. apply firstn_app_exact. apply to_nat_len. Qed.

Lemma skipn_len_app : forall a b : bytes, skipn (N.to_nat (len a)) (a ++ b) = b.
Proof. intros a b. apply skipn_app_exact. apply to_nat_len. Qed.

Lemma firstn_le_app : forall n x r, firstn n (le n x ++ r) = le n x.
Proof. intros n x r. apply firstn_app_exact. symmetry. apply le_length. Qed.

Lemma skipn_le_app : forall n x r, skipn n (le n x ++ r) = r.
Proof. intros n x r. apply skipn_app_exact. symmetry. apply le_length. Qed.

Lemma len_nil : len (@nil N) = 0.
Proof. reflexivity. Qed.

Lemma len_cons : forall (x : N) l, len (x :: l) = 1 + len l.
Proof. intros x l. unfold len. cbn [length]. lia. Qed.

Lemma len_skipn : forall (l : bytes) n, (n <= length l)%nat -> len (skipn n l) = len l - N.of_nat n.
Proof. intros l n H. unfold len. rewrite skipn_length. lia. Qed.

Lemma w64_mod : forall x, w64 x = x mod 2 ^ 64.
Proof.
  intros x. unfold w64. change 18446744073709551615 with (N.ones 64). apply N.land_ones.
Qed.

Lemma w64_bound : forall x, w64 x < 2 ^ 64.
Proof. intros x. rewrite w64_mod. apply N.mod_lt. discriminate. Qed.

Theorem xxh64_bound : forall b, xxh64 b < 2 ^ 64.
Proof.
  intros b. unfold xxh64.
  destruct (if Nat.leb 32 (length b) then _ else _) as [h rest].
  destruct (xtail8 4 rest (w64 (h + N.of_nat (length b)))) as [h1 r1].
  destruct (xtail4 r1 h1) as [h2 r2].
  unfold xavalanche. apply w64_bound.
Qed.

(* ------------------------------------------------------------------------------------- *)
(* 1. guards of the byte format                                                           *)
(* ------------------------------------------------------------------------------------- *)

(* key length fits uint16, sequence number fits uint64, value length is not the tombstone
   marker 0xFFFFFFFF and fits uint32 *)
Definition wfe (e : sentry) : Prop :=
  len (sk e) <= 65535 /\ sseq e < 2 ^ 64 /\
  match sval e with Some v => len v < 4294967295 | None => True end.

Lemma len_val_bytes : forall v, 4 <= len (val_bytes v).
Proof.
  intros [v|]; unfold val_bytes.
  - rewrite len_app, len_le. lia.
  - rewrite len_le. lia.
Qed.

Lemma common_prefix_spec : forall a b,
  (common_prefix a b <= length a)%nat /\ (common_prefix a b <= length b)%nat /\
  firstn (common_prefix a b) a = firstn (common_prefix a b) b.
Proof.
  induction a as [|x a IH]; intros [|y b]; cbn; try (repeat split; lia).
  destruct (N.eqb_spec x y) as [->|Hne]; cbn.
  - destruct (IH b) as (H1 & H2 & H3). repeat split; try lia. f_equal. exact H3.
  - repeat split; lia.
Qed.

Lemma len_enc_key_pos : forall restart prev k, 2 <= len (enc_key restart prev k).
Proof.
  intros restart prev k. unfold enc_key. destruct restart.
  - rewrite len_app, len_le. lia.
  - rewrite !len_app, !len_le. lia.
Qed.

Lemma len_enc_entry_pos : forall restart prev e, 14 <= len (enc_entry restart prev e).
Proof.
  intros. unfold enc_entry. rewrite !len_app, len_le.
  pose proof (len_enc_key_pos restart prev (sk e)). pose proof (len_val_bytes (sval e)). lia.
Qed.

(* ------------------------------------------------------------------------------------- *)
(* 2. decoding one entry                                                                  *)
(* ------------------------------------------------------------------------------------- *)

Lemma dec_seq_val_ok : forall e rest, wfe e ->
  dec_seq_val (le 8 (sseq e) ++ val_bytes (sval e) ++ rest) =
  inl (sseq e, sval e, 8 + len (val_bytes (sval e))).
Proof.
  intros e rest (Hk & Hs & Hv). unfold dec_seq_val.
  pose proof (len_val_bytes (sval e)) as H4.
  replace (12 <=? len (le 8 (sseq e) ++ val_bytes (sval e) ++ rest)) with true.
  2:{ symmetry. apply N.leb_le. rewrite !len_app, len_le. lia. }
  rewrite firstn_le_app, skipn_le_app, unle_le8 by exact Hs.
  replace (len (val_bytes (sval e) ++ rest) <? 4) with false.
  2:{ symmetry. apply N.ltb_ge. rewrite len_app. lia. }
  destruct (sval e) as [v|]; unfold val_bytes.
  - rewrite <- app_assoc. rewrite firstn_le_app, skipn_le_app.
    rewrite unle_le4 by lia.
    replace (len v =? TOMB) with false.
    2:{ symmetry. apply N.eqb_neq. unfold TOMB, block_TombstoneMarker. lia. }
    replace (len (v ++ rest) <? len v) with false.
    2:{ symmetry. apply N.ltb_ge. rewrite len_app. lia. }
    rewrite firstn_len_app. rewrite len_app, len_le. do 2 f_equal. lia.
  - rewrite firstn_le_app, skipn_le_app. rewrite unle_le4.
    2:{ unfold TOMB, block_TombstoneMarker. lia. }
    rewrite N.eqb_refl. rewrite len_le. reflexivity.
Qed.

(* the key part: full key at a restart point, delta against the previous key otherwise *)
Lemma enc_key_full : forall prev k rest, len k <= 65535 ->
  let d := enc_key true prev k ++ rest in
  (len d <? 2) = false /\ unle (firstn 2 d) = len k /\
  (len (skipn 2 d) <? len k) = false /\
  firstn (N.to_nat (len k)) (skipn 2 d) = k /\ skipn (N.to_nat (len k)) (skipn 2 d) = rest /\
  len (enc_key true prev k) = 2 + len k.
Proof.
  intros prev k rest Hk d. subst d. unfold enc_key. rewrite <- app_assoc.
  rewrite firstn_le_app, skipn_le_app, unle_le2 by lia.
  repeat split.
  - apply N.ltb_ge. rewrite len_app, len_le. lia.
  - apply N.ltb_ge. rewrite len_app. lia.
  - apply firstn_len_app.
  - apply skipn_len_app.
  - rewrite len_app, len_le. lia.
Qed.

Lemma enc_key_delta : forall prev k rest, len k <= 65535 -> len prev <= 65535 ->
  let d := enc_key false prev k ++ rest in
  let c := N.of_nat (common_prefix prev k) in
  (len d <? 4) = false /\ unle (firstn 2 d) = c /\ unle (firstn 2 (skipn 2 d)) = len k - c /\
  (len prev mod 65536 <? c) = false /\ (len (skipn 4 d) <? len k - c) = false /\
  (65536 <? c + (len k - c)) = false /\
  firstn (N.to_nat c) prev ++ firstn (N.to_nat (len k - c)) (skipn 4 d) = k /\
  skipn (N.to_nat (len k - c)) (skipn 4 d) = rest /\
  len (enc_key false prev k) = 4 + (len k - c).
Proof.
  intros prev k rest Hk Hp d c. subst d c. unfold enc_key.
  destruct (common_prefix_spec prev k) as (C1 & C2 & C3).
  set (c := common_prefix prev k) in *.
  assert (Hc : N.of_nat c <= len k) by (unfold len; lia).
  assert (Hc' : N.of_nat c <= len prev) by (unfold len; lia).
  rewrite <- !app_assoc.
  assert (S4 : forall r, skipn 4 (le 2 (N.of_nat c) ++ le 2 (len k - N.of_nat c) ++ r) = r).
  { intros r. change 4%nat with (2 + 2)%nat. rewrite skipn_add, !skipn_le_app. reflexivity. }
  assert (Ls : len (skipn c k) = len k - N.of_nat c) by (apply len_skipn; exact C2).
  rewrite firstn_le_app, skipn_le_app, firstn_le_app, S4.
  rewrite !unle_le2 by lia.
  repeat split.
  - apply N.ltb_ge. rewrite !len_app, !len_le. lia.
  - apply N.ltb_ge. rewrite N.mod_small by lia. exact Hc'.
  - apply N.ltb_ge. rewrite len_app, Ls. lia.
  - apply N.ltb_ge. lia.
  - rewrite <- Ls, firstn_len_app. rewrite Nnat.Nat2N.id, C3. apply firstn_skipn.
  - rewrite <- Ls. apply skipn_len_app.
  - rewrite !len_app, !len_le, Ls. lia.
Qed.

(* the reader and the iterator state before an entry *)
Definition entry_at (r : breader) (pos : N) (restart : bool) (prev : bytes) (e : sentry) (rest : bytes) : Prop :=
  skipn (N.to_nat pos) (br_data r) = enc_entry restart prev e ++ rest /\ pos < br_end r /\
  is_restart r pos = restart.

Lemma decode_next_entry : forall r it restart prev e rest,
  entry_at r (it_pos it) restart prev e rest -> wfe e ->
  (restart = false -> it_key it = Some prev /\ len prev <= 65535) ->
  decode_next r it =
  (mkIt (it_pos it + len (enc_entry restart prev e)) (it_key it) (it_val it) (sseq e) (it_init it),
   Some (sk e, sval e)).
Proof.
  intros r it restart prev e rest (Hd & Hend & Hr) W Hprev.
  pose proof W as (Hk & _ & _).
  unfold decode_next.
  replace (br_end r <=? it_pos it) with false by (symmetry; apply N.leb_gt; exact Hend).
  rewrite Hd, Hr. unfold enc_entry. rewrite <- !app_assoc.
  destruct restart.
  - cbn [orb].
    destruct (enc_key_full prev (sk e) (le 8 (sseq e) ++ val_bytes (sval e) ++ rest) Hk)
      as (A1 & A2 & A3 & A4 & A5 & A6).
    cbv zeta in *. rewrite A1, A2, A3, A4, A5.
    rewrite (dec_seq_val_ok e rest W).
    unfold it_set_pos. cbn [it_pos it_key it_val it_seq it_init].
    f_equal. f_equal. rewrite !len_app, A6, len_le. lia.
  - destruct (Hprev eq_refl) as [Hkey Hp]. rewrite Hkey. cbn [orb].
    destruct (enc_key_delta prev (sk e) (le 8 (sseq e) ++ val_bytes (sval e) ++ rest) Hk Hp)
      as (A1 & A2 & A3 & A4 & A5 & A6 & A7 & A8 & A9).
    cbv zeta in *. rewrite A1, A2, A3, A4, A5, A6. cbn [orb]. rewrite A7, A8.
    rewrite (dec_seq_val_ok e rest W).
    unfold it_set_pos. cbn [it_pos it_key it_val it_seq it_init].
    f_equal. f_equal. rewrite !len_app, A9, len_le. lia.
Qed.

(* ------------------------------------------------------------------------------------- *)
(* 3. structure of what Builder.Finish writes                                             *)
(* ------------------------------------------------------------------------------------- *)

Lemma enc_entries_cons : forall e es first cnt prev off,
  enc_entries (e :: es) first cnt prev off =
  let restart := first || (RI <=? cnt) in
  let eb := enc_entry restart prev e in
  let '(rb, rs, ok) := enc_entries es false ((if restart then 0 else cnt) + 1) (sk e) (off + len eb) in
  (eb ++ rb, (if restart then off :: rs else rs), enc_key_ok restart prev (sk e) && ok).
Proof. reflexivity. Qed.

Lemma enc_entries_rs_ge : forall es first cnt prev off body rs ok,
  enc_entries es first cnt prev off = (body, rs, ok) -> Forall (fun x => off <= x) rs.
Proof.
  induction es as [|e es IH]; intros first cnt prev off body rs ok H.
  - cbn in H. inversion H; subst. constructor.
  - rewrite enc_entries_cons in H. cbv zeta in H.
    destruct (enc_entries es false _ (sk e) _) as [[rb rs'] ok'] eqn:E.
    inversion H; subst. clear H.
    pose proof (IH _ _ _ _ _ _ _ E) as G.
    assert (G' : Forall (fun x => off <= x) rs').
    { eapply Forall_impl; [|exact G]. cbn. intros a Ha. lia. }
    destruct (first || (RI <=? cnt)); [constructor; [lia|exact G']|exact G'].
Qed.

Lemma enc_entries_rs_lt : forall es first cnt prev off body rs ok,
  enc_entries es first cnt prev off = (body, rs, ok) -> Forall (fun x => x < off + len body) rs.
Proof.
  induction es as [|e es IH]; intros first cnt prev off body rs ok H.
  - cbn in H. inversion H; subst. constructor.
  - rewrite enc_entries_cons in H. cbv zeta in H.
    destruct (enc_entries es false _ (sk e) _) as [[rb rs'] ok'] eqn:E.
    inversion H; subst. clear H.
    pose proof (IH _ _ _ _ _ _ _ E) as G.
    pose proof (len_enc_entry_pos (first || (RI <=? cnt)) prev e) as P.
    assert (G' : Forall (fun x => x < off + len (enc_entry (first || (RI <=? cnt)) prev e ++ rb)) rs').
    { eapply Forall_impl; [|exact G]. cbn. intros a Ha. rewrite len_app. lia. }
    destruct (first || (RI <=? cnt)); [constructor; [rewrite len_app; lia|exact G']|exact G'].
Qed.

Lemma enc_entries_len : forall es first cnt prev off body rs ok,
  enc_entries es first cnt prev off = (body, rs, ok) ->
  (length es <= length body)%nat /\ (length rs <= length es)%nat.
Proof.
  induction es as [|e es IH]; intros first cnt prev off body rs ok H.
  - cbn in H. inversion H; subst. cbn. lia.
  - rewrite enc_entries_cons in H. cbv zeta in H.
    destruct (enc_entries es false _ (sk e) _) as [[rb rs'] ok'] eqn:E.
    inversion H; subst. clear H.
    destruct (IH _ _ _ _ _ _ _ E) as [L1 L2].
    pose proof (len_enc_entry_pos (first || (RI <=? cnt)) prev e) as P.
    rewrite app_length. unfold len in P.
    destruct (first || (RI <=? cnt)); cbn [length]; lia.
Qed.

Lemma enc_entries_ok : forall es first cnt prev off body rs ok,
  enc_entries es first cnt prev off = (body, rs, ok) -> Forall wfe es -> ok = true.
Proof.
  induction es as [|e es IH]; intros first cnt prev off body rs ok H W.
  - cbn in H. inversion H; reflexivity.
  - rewrite enc_entries_cons in H. cbv zeta in H.
    destruct (enc_entries es false _ (sk e) _) as [[rb rs'] ok'] eqn:E.
    inversion H; subst. clear H. inversion W as [|? ? We Wes]; subst.
    rewrite (IH _ _ _ _ _ _ _ E Wes). rewrite andb_true_r.
    unfold enc_key_ok. destruct (first || (RI <=? cnt)); [reflexivity|]. cbn [orb].
    apply N.ltb_lt. destruct We as (Hk & _). lia.
Qed.

(* ------------------------------------------------------------------------------------- *)
(* 4. NewReader on the bytes of Finish                                                    *)
(* ------------------------------------------------------------------------------------- *)

Lemma len_concat_le4 : forall rs : list N, len (concat (map (le 4) rs)) = 4 * N.of_nat (length rs).
Proof.
  induction rs as [|x rs IH]; [reflexivity|]. cbn [map concat length].
  rewrite len_app, len_le, IH. lia.
Qed.

Lemma read_u32s_concat : forall rs tail, Forall (fun x => x < 2 ^ 32) rs ->
  read_u32s (length rs) (concat (map (le 4) rs) ++ tail) = rs.
Proof.
  induction rs as [|x rs IH]; intros tail H; [reflexivity|].
  inversion H; subst. cbn [length read_u32s map concat]. rewrite <- app_assoc.
  rewrite firstn_le_app, skipn_le_app, unle_le4 by assumption. f_equal. apply IH. assumption.
Qed.

Lemma slice_mid : forall a b c : bytes, slice (a ++ b ++ c) (len a) (len b) = b.
Proof. intros a b c. unfold slice. rewrite skipn_len_app, firstn_len_app. reflexivity. Qed.

Lemma new_reader_trailer : forall body rs,
  Forall (fun x => x < 2 ^ 32) rs -> N.of_nat (length rs) < 2 ^ 32 ->
  new_reader (enc_trailer body rs) = inl (mkBR (enc_trailer body rs) rs (len body)).
Proof.
  intros body rs Hrs Hn. unfold new_reader, enc_trailer.
  set (RA := concat (map (le 4) rs)). set (nr := N.of_nat (length rs)).
  set (pre := body ++ RA ++ le 4 nr). set (ck := xxh64 pre).
  assert (LRA : len RA = 4 * nr) by apply len_concat_le4.
  assert (Lpre : len pre = len body + 4 * nr + 4).
  { unfold pre. rewrite !len_app, len_le, LRA. lia. }
  assert (LD : len (pre ++ le 8 ck) = len body + 4 * nr + 12).
  { rewrite len_app, len_le, Lpre. lia. }
  rewrite LD. unfold BFOOT, block_BlockFooterSize.
  replace (len body + 4 * nr + 12 <? 12) with false by (symmetry; apply N.ltb_ge; lia).
  replace (len body + 4 * nr + 12 - 12) with (len (body ++ RA)) by (rewrite len_app, LRA; lia).
  (* restart count *)
  assert (S1 : slice (pre ++ le 8 ck) (len (body ++ RA)) 4 = le 4 nr).
  { unfold pre. rewrite (app_assoc body RA), <- app_assoc.
    replace 4 with (len (le 4 nr)) at 2 by apply len_le. apply slice_mid. }
  rewrite S1, unle_le4 by exact Hn.
  (* checksum *)
  assert (S2 : slice (pre ++ le 8 ck) (len (body ++ RA) + 4) 8 = le 8 ck).
  { replace (len (body ++ RA) + 4) with (len pre) by (rewrite Lpre, len_app, LRA; lia).
    replace 8 with (len (le 8 ck)) at 2 by apply len_le.
    rewrite <- (app_nil_r (le 8 ck)) at 1. apply slice_mid. }
  rewrite S2, unle_le8 by apply xxh64_bound.
  replace (len body + 4 * nr + 12 - 8) with (len pre) by lia.
  rewrite firstn_len_app. fold ck. rewrite N.eqb_refl. cbn [negb].
  replace (len (body ++ RA) <? nr * 4) with false
    by (symmetry; apply N.ltb_ge; rewrite len_app, LRA; lia).
  replace (len (body ++ RA) - nr * 4) with (len body) by (rewrite len_app, LRA; lia).
  unfold pre. rewrite <- !app_assoc. rewrite skipn_len_app.
  unfold nr. rewrite Nnat.Nat2N.id. unfold RA. rewrite read_u32s_concat by exact Hrs.
  reflexivity.
Qed.

(* ------------------------------------------------------------------------------------- *)
(* 5. SeekToFirst + Next over a block reads back the entries                              *)
(* ------------------------------------------------------------------------------------- *)

Lemma existsb_eqb_lt : forall (p : N) l, Forall (fun x => x < p) l -> existsb (N.eqb p) l = false.
Proof.
  intros p l H. induction H as [|x l Hx _ IH]; [reflexivity|]. cbn.
  replace (p =? x) with false by (symmetry; apply N.eqb_neq; lia). exact IH.
Qed.

Lemma existsb_eqb_gt : forall (p : N) l, Forall (fun x => p < x) l -> existsb (N.eqb p) l = false.
Proof.
  intros p l H. induction H as [|x l Hx _ IH]; [reflexivity|]. cbn.
  replace (p =? x) with false by (symmetry; apply N.eqb_neq; lia). exact IH.
Qed.

Lemma sentry_eta : forall e, mkS (sk e) (sseq e) (sval e) = e.
Proof. intros [k s v]. reflexivity. Qed.

Definition keyne (e : sentry) : Prop := sk e <> [].

Lemma it_valid_some : forall p k v s i, k <> [] -> it_valid (mkIt p (Some k) v s i) = true.
Proof. intros p [|x k] v s i H; [congruence|reflexivity]. Qed.

(* the iterator stands on the entry (prev, s0, v0) that ends at offset off; es follow *)
Lemma scan_rest : forall es r cnt prev off before pre body rs tail v0 s0 fuel,
  enc_entries es false cnt prev off = (body, rs, true) ->
  br_data r = pre ++ body ++ tail -> len pre = off -> br_end r = off + len body ->
  br_restarts r = before ++ rs -> Forall (fun x => x < off) before ->
  Forall wfe es -> Forall keyne es -> len prev <= 65535 -> prev <> [] ->
  (length es < fuel)%nat ->
  it_collect r fuel (mkIt off (Some prev) v0 s0 true) = mkS prev s0 v0 :: es.
Proof.
  induction es as [|e es IH];
    intros r cnt prev off before pre body rs tail v0 s0 fuel HE HD HP HEnd HR HB W K Lp Np Hf;
    subst off.
  - cbn in HE. inversion HE; subst body rs. clear HE.
    destruct fuel as [|fuel]; [cbn in Hf; lia|]. cbn [it_collect].
    rewrite it_valid_some by exact Np. cbn [it_entry it_key it_seq it_val]. f_equal.
    unfold it_next. cbn [it_init negb it_key]. unfold decode_next. cbn [it_pos].
    replace (br_end r <=? len pre) with true by (symmetry; apply N.leb_le; rewrite HEnd, len_nil; lia).
    cbn [fst]. destruct fuel; reflexivity.
  - rewrite enc_entries_cons in HE. cbv zeta in HE. cbn [orb] in HE.
    destruct (enc_entries es false _ (sk e) _) as [[rb rs'] ok'] eqn:E.
    injection HE as Hb Hrs Hok. subst body rs.
    apply andb_true_iff in Hok. destruct Hok as [_ Hok']. subst ok'.
    set (restart := RI <=? cnt) in *.
    set (eb := enc_entry restart prev e) in *.
    inversion W as [|? ? We Wes]; subst. inversion K as [|? ? Ke Kes]; subst.
    pose proof (len_enc_entry_pos restart prev e) as Pe. fold eb in Pe.
    pose proof (enc_entries_rs_ge _ _ _ _ _ _ _ _ E) as GE.
    (* the entry at the current position *)
    assert (EA : entry_at r (len pre) restart prev e (rb ++ tail)).
    { split; [|split].
      - rewrite HD, <- app_assoc. apply skipn_len_app.
      - rewrite HEnd, len_app. lia.
      - unfold is_restart. rewrite HR, existsb_app, (existsb_eqb_lt _ _ HB). cbn [orb].
        destruct restart.
        + cbn. rewrite N.eqb_refl. reflexivity.
        + apply existsb_eqb_gt. eapply Forall_impl; [|exact GE]. cbn. intros a Ha. lia. }
    destruct fuel as [|fuel]; [cbn in Hf; lia|]. cbn [it_collect].
    rewrite it_valid_some by exact Np. cbn [it_entry it_key it_seq it_val]. f_equal.
    unfold it_next. cbn [it_init negb it_key].
    rewrite (decode_next_entry r (mkIt (len pre) (Some prev) v0 s0 true) restart prev e (rb ++ tail) EA We).
    2:{ intros _. split; [reflexivity|exact Lp]. }
    cbn [fst it_pos it_key it_val it_init]. unfold it_set_kv. cbn [it_pos it_seq it_init].
    fold eb. replace (e :: es) with (mkS (sk e) (sseq e) (sval e) :: es) by (rewrite sentry_eta; reflexivity).
    eapply (IH r) with (before := before ++ (if restart then [len pre] else []))
                       (pre := pre ++ eb) (tail := tail).
    + exact E.
    + rewrite HD, <- !app_assoc. reflexivity.
    + apply len_app.
    + rewrite HEnd, len_app. lia.
    + rewrite HR, <- app_assoc. destruct restart; reflexivity.
    + apply Forall_app. split.
      * eapply Forall_impl; [|exact HB]. cbn. intros a Ha. lia.
      * destruct restart; [constructor; [lia|constructor]|constructor].
    + exact Wes.
    + exact Kes.
    + destruct We as (Hk & _). exact Hk.
    + exact Ke.
    + cbn in Hf. lia.
Qed.

(* the guards of one block: entries well formed with non-empty keys, at least one entry,
   less than 4 GB (restart offsets and their number are stored in 32 bits) *)
Record wf_block (es : list sentry) : Prop := {
  wb_ne : es <> [];
  wb_wf : Forall wfe es;
  wb_keys : Forall keyne es;
  wb_size : forall body rs ok, block_body es = (body, rs, ok) -> len body < 2 ^ 32
}.

Theorem block_roundtrip : forall es, wf_block es ->
  exists d r, encode_block es = Some d /\ new_reader d = inl r /\
              br_data r = d /\ block_scan r = es.
Proof.
  intros es [NE W K SZ]. destruct es as [|e0 es]; [congruence|].
  unfold encode_block. destruct (block_body (e0 :: es)) as [[body rs] ok] eqn:BB.
  pose proof (SZ _ _ _ eq_refl) as Hsz.
  pose proof (enc_entries_ok _ _ _ _ _ _ _ _ BB W) as Hok. subst ok.
  pose proof (enc_entries_rs_lt _ _ _ _ _ _ _ _ BB) as Hlt.
  pose proof (enc_entries_len _ _ _ _ _ _ _ _ BB) as [L1 L2].
  assert (Hrs : Forall (fun x => x < 2 ^ 32) rs).
  { eapply Forall_impl; [|exact Hlt]. cbn. intros a Ha. lia. }
  assert (Hn : N.of_nat (length rs) < 2 ^ 32) by (unfold len in Hsz; lia).
  exists (enc_trailer body rs), (mkBR (enc_trailer body rs) rs (len body)).
  split; [reflexivity|]. split; [apply new_reader_trailer; assumption|]. split; [reflexivity|].
  (* the scan *)
  unfold block_body in BB. rewrite enc_entries_cons in BB.
  change (true || (RI <=? 0)) with true in BB. cbv zeta in BB. cbv iota in BB.
  destruct (enc_entries es false _ (sk e0) _) as [[rb rs'] ok'] eqn:E.
  assert (Hb : body = enc_entry true [] e0 ++ rb) by congruence.
  assert (Hr : rs = 0 :: rs') by congruence.
  assert (Hok : enc_key_ok true [] (sk e0) && ok' = true) by congruence.
  change (enc_key_ok true [] (sk e0) && ok') with ok' in Hok. clear BB. subst body rs ok'.
  set (eb := enc_entry true [] e0) in *.
  inversion W as [|? ? We Wes]; subst. inversion K as [|? ? Ke Kes]; subst.
  pose proof (len_enc_entry_pos true [] e0) as Pe. fold eb in Pe.
  remember (mkBR (enc_trailer (eb ++ rb) (0 :: rs')) (0 :: rs') (len (eb ++ rb))) as r eqn:Er.
  assert (R1 : br_restarts r = 0 :: rs') by (rewrite Er; reflexivity).
  assert (R2 : br_end r = len (eb ++ rb)) by (rewrite Er; reflexivity).
  assert (R3 : br_data r = enc_trailer (eb ++ rb) (0 :: rs')) by (rewrite Er; reflexivity).
  assert (DT : exists tail, br_data r = eb ++ rb ++ tail).
  { rewrite R3. unfold enc_trailer. rewrite <- !app_assoc. eauto. }
  destruct DT as [tail DT].
  unfold block_scan, it_seek_first. rewrite R1.
  unfold it_to_restart, restart_at. rewrite R1. cbn [nth].
  unfold it_set_init, it_set_pos, it_invalidate, it_new. cbn [it_pos it_key it_val it_seq it_init].
  assert (EA : entry_at r 0 true [] e0 (rb ++ tail)).
  { split; [|split].
    - rewrite DT. reflexivity.
    - rewrite R2, len_app. lia.
    - unfold is_restart. rewrite R1. reflexivity. }
  rewrite (decode_next_entry r (mkIt 0 None None 0 true) true [] e0 (rb ++ tail) EA We)
    by (intros H; discriminate).
  cbn [it_pos it_key it_val it_init]. unfold it_set_kv. cbn [it_pos it_seq it_init].
  fold eb. rewrite N.add_0_l.
  replace (e0 :: es) with (mkS (sk e0) (sseq e0) (sval e0) :: es) by (rewrite sentry_eta; reflexivity).
  eapply (scan_rest es r) with (before := [0]) (pre := eb) (tail := tail).
  - exact E.
  - exact DT.
  - reflexivity.
  - rewrite R2. apply len_app.
  - exact R1.
  - constructor; [lia|constructor].
  - exact Wes.
  - exact Kes.
  - destruct We as (Hk & _). exact Hk.
  - exact Ke.
  - rewrite R3. unfold enc_trailer. rewrite !app_length. cbn [length] in L1.
    rewrite app_length in L1. lia.
Qed.

Corollary C11_block_roundtrip : forall es d, wf_block es -> encode_block es = Some d ->
  decode_block d = Some es.
Proof.
  intros es d W H. destruct (block_roundtrip es W) as (d' & r & H1 & H2 & H3 & H4).
  rewrite H in H1. inversion H1; subst d'. unfold decode_block. rewrite H2, H4. reflexivity.
Qed.

(* non-vacuity: 18 entries (two restart points), a tombstone, an empty value, shared prefixes *)
Definition ex_block : list sentry :=
  map (fun i => mkS ([107; 101; 121; 45] ++ [48 + i / 10; 48 + i mod 10]) (i * 1000)
                    (if i =? 3 then None else if i =? 5 then Some [] else Some [i; i; 255]))
      [0;1;2;3;4;5;6;7;8;9;10;11;12;13;14;15;16;17].

Example ex_block_roundtrip :
  match encode_block ex_block with Some d => decode_block d = Some ex_block | None => False end.
Proof. vm_compute. reflexivity. Qed.

Example ex_block_restarts :
  match encode_block ex_block with
  | Some d => match new_reader d with inl r => length (br_restarts r) = 2%nat | inr _ => False end
  | None => False
  end.
Proof. vm_compute. reflexivity. Qed.

(* outside the guard "key <= 65535 bytes": a 65536-byte key at a restart point is written with
   length 0 and the block no longer decodes to what was written *)
Theorem C11_long_key_refuted :
  let k := N.iter 65536 (cons 7) [] in
  let es := [mkS k 1 (Some [1])] in
  match encode_block es with
  | Some d => match decode_block d with Some es' => length es' = 0%nat | None => False end
  | None => False
  end.
Proof. vm_compute. reflexivity. Qed.
