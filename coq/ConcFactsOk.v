(* ConcFactsOk.v — the facts gofacts reads off the Go source (coq/gen/ConcFacts.v, regenerated
   on every run) are the ones the atomic steps of EngineConc.v assume. A change of the code
   that breaks one of them — a client section that no longer holds Manager.mu from its first
   to its last statement, a memtable insert that moves in front of the log append, rotateWAL
   swapping the pointer before it marks the old log, RetryOnWALRotating no longer reporting
   the error, a retired memtable leaving the pool, the WAL re-reading its status behind a
   buffered record — makes this file fail to compile, which `check C06` reports. *)
From Coq Require Import NArith Bool List.
From KV.gen Require Import ConcFacts.
From KV Require Import EngineConc.
Import ListNotations.
Open Scope N_scope.

(* client sections: Put/Delete/ApplyBatch hold Manager.mu exclusively, Get holds it shared,
   from the first statement to the return — LSec is one atomic step *)
Lemma code_sections_atomic :
  cf_put_exclusive = true /\ cf_delete_exclusive = true /\ cf_batch_exclusive = true /\
  cf_get_shared = true.
Proof. repeat split; reflexivity. Qed.

(* inside a write section: log append, error return, only then the memtable — [attempt]
   changes nothing on WRotating / WClosed *)
Lemma code_log_before_memtable :
  cf_put_log_then_insert = true /\ cf_delete_log_then_insert = true /\
  cf_batch_log_then_insert = true.
Proof. repeat split; reflexivity. Qed.

(* rotateWAL: mark, create, hand the sequence counter over, swap, close — [rotate] keeps
   wal_next; a writer never appends to a log whose counter was already handed over *)
Lemma code_rotation_protocol : cf_rotate_order = true /\ cf_rotate_hands_over = true.
Proof. split; reflexivity. Qed.

(* RetryOnWALRotating is [retry max_retries] *)
Lemma code_retry : cf_retry_shape = true /\ N.of_nat max_retries = cf_max_retries.
Proof. split; reflexivity. Qed.

(* a retired memtable stays in the pool (imms only grows); the flusher's queue and the table
   list change under Manager.mu — BTake and the publish half of BFlushOne are atomic *)
Lemma code_tables :
  cf_schedule_keeps_table = true /\ cf_pool_appends_retired = true /\
  cf_flush_takes_queue_under_mu = true /\ cf_publish_under_mu = true.
Proof. repeat split; reflexivity. Qed.

(* WAL.Append decides on the status once, before it writes (the repaired defect) *)
Lemma code_append_status :
  cf_append_checks_status_once = true /\ cf_sync_behind_record_unconditional = true.
Proof. split; reflexivity. Qed.

(* every appending entry point of the log refuses while the log is marked as rotating: batches and
   numbered appends too (the rotation protocol of EngineConc.v takes "no append after the mark" for
   every kind of write) *)
Lemma code_appends_refuse_rotating : cf_appends_refuse_rotating = true.
Proof. reflexivity. Qed.

Lemma conc_facts_all : forallb (fun b => b) conc_facts = true.
Proof. vm_compute. reflexivity. Qed.
