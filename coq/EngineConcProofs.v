(* EngineConcProofs.v — proofs about EngineConc.v (property C06):
   every trace of the LTS leaves a linearizable history, and the log holds exactly the writes
   of that linearization, once each, in its order; a successful write is one run of
   Engine.put / Engine.del; a write that reports an error leaves the state as it was. *)
From Coq Require Import Lia ZifyN ZifyNat ZifyBool Sorted Permutation.
From KV Require Import Bytes Spec Memtable MemtableProofs WalCodec Engine EngineProofs
  Hist HistProofs EngineConc.
Open Scope N_scope.
Local Notation find := List.find.
Local Notation stamp := EngineProofs.stamp.

Ltac proj := cbn [cfg wal_next wal_files last_seq active imms pending flush_pending ssts
                  next_file clock lost_log].

(* ------------------------------------------------------------------------------------ *)
(* A. The invariant of EngineProofs, for the steps of the concurrent system               *)
(* ------------------------------------------------------------------------------------ *)

(* h: the writes that took effect, with their sequence numbers; the engine never set its log
   aside *)
Definition EInv (s : st) (h : hist) : Prop := Inv s h /\ lost_log s = false.

Lemma EInv_init : forall c, EInv (init c) [].
Proof. intros c. split; [apply Inv_init|reflexivity]. Qed.

(* reads return the latest write that took effect *)
Lemma get_einv : forall s h k, EInv s h -> get s k = spec_get (map snd h) k.
Proof. intros s h k [I Hl]. exact (get_inv s h k I Hl). Qed.

Lemma einv_layer_entries : forall s h m e,
  EInv s h -> In m (active s :: imms s) -> In e (mt_entries m) -> In e (entries h).
Proof. intros s h m e [I _]. exact (layer_entries_in_hist s h m e I). Qed.

Lemma EInv_apply_batch : forall s h ops w s' q,
  EInv s h -> ops <> [] -> effects w = ops -> apply_batch s ops = (s', WrOk q) ->
  q = wal_next s /\ EInv s' (h ++ [(q, w)]).
Proof.
  intros s h ops w s' q [I Hl] Hne Hw E.
  destruct (Inv_apply_batch s h ops w s' q I Hne Hw E) as [Hq I']. split; [exact Hq|].
  split; [exact I'|]. pose proof (lost_log_apply_batch s ops) as L. rewrite E in L. cbn [fst] in L.
  congruence.
Qed.

(* rotateWAL: a new, empty log file *)
Lemma EInv_rotate : forall s h, EInv s h -> EInv (rotate s) h.
Proof.
  intros s h [I Hl]. split; [|exact Hl]. constructor; unfold rotate, upd_wal; proj.
  - exact (inv_segs s h I).
  - exact (inv_sorted s h I).
  - exact (inv_bound s h I).
  - exact (inv_nonempty s h I).
  - rewrite concat_snoc_nil. exact (inv_wal s h I).
  - exact (inv_last s h I).
  - exact (inv_next s h I).
  - exact (inv_active_mut s h I).
  - exact (inv_pending s h I).
  - exact (inv_ssts s h I).
Qed.

(* FlushMemTables takes the queue *)
Lemma EInv_clear_pending : forall s h, EInv s h -> EInv (clear_pending s) h.
Proof.
  intros s h [I Hl]. split; [|exact Hl]. constructor; unfold clear_pending; proj.
  - exact (inv_segs s h I).
  - exact (inv_sorted s h I).
  - exact (inv_bound s h I).
  - exact (inv_nonempty s h I).
  - exact (inv_wal s h I).
  - exact (inv_last s h I).
  - exact (inv_next s h I).
  - exact (inv_active_mut s h I).
  - intros x [].
  - exact (inv_ssts s h I).
Qed.

(* publishing an SSTable written from entries that are all in the history *)
Lemma EInv_flush_table : forall s h m,
  EInv s h -> incl (mt_entries m) (entries h) -> EInv (flush_table s m) h.
Proof.
  intros s h m [I Hl] Hm.
  destruct (flush_table_spec s m) as (G1 & G2 & G3 & G4 & G5 & G6 & G7 & G8 & G9 & G10).
  split; [|rewrite G9; exact Hl].
  constructor; rewrite ?G1, ?G2, ?G3, ?G4, ?G5, ?G6, ?G7.
  - exact (inv_segs s h I).
  - exact (inv_sorted s h I).
  - exact (inv_bound s h I).
  - exact (inv_nonempty s h I).
  - exact (inv_wal s h I).
  - exact (inv_last s h I).
  - exact (inv_next s h I).
  - exact (inv_active_mut s h I).
  - exact (inv_pending s h I).
  - intros _. rewrite G10. apply Forall_app. split; [exact (inv_ssts s h I Hl)|].
    unfold opt_table. destruct (nonnil (flushed_entries m)); [|constructor].
    constructor; [|constructor]. rewrite Forall_forall. intros x Hx.
    apply flushed_entries_in in Hx. destruct Hx as (e & He & ->).
    unfold key_written, to_sentry; cbn [sk]. apply in_map. apply Hm. exact He.
Qed.

(* ------------------------------------------------------------------------------------ *)
(* B. The writer's section                                                                *)
(* ------------------------------------------------------------------------------------ *)

Definition wop_of (w : wreq) : wop :=
  match w with WPutReq k v => WPut k v | WDelReq k => WDel k end.

Lemma do_write_as_batch : forall s w,
  do_write s w = apply_batch s (effects (wop_of w)).
Proof. intros s [k v|k]; cbn [do_write wop_of effects]; [apply put_as_batch|apply del_as_batch]. Qed.

Lemma effects_wop_nonnil : forall w, effects (wop_of w) <> [].
Proof. intros [k v|k]; discriminate. Qed.

(* the retry loop either performs the write once or leaves the state untouched *)
Lemma retry_exact : forall n obs w s s' p,
  retry n obs w s = (s', p) ->
  (p = PAck /\ exists q, do_write s w = (s', WrOk q)) \/ (p = PErr /\ s' = s).
Proof.
  induction n as [|n IH]; intros obs w s s' p E; cbn [retry] in E.
  - injection E as <- <-. right. auto.
  - unfold attempt in E. destruct (hd WActive obs).
    + destruct (do_write s w) as [s1 [q|]] eqn:D; injection E as <- <-.
      * left. split; [reflexivity|]. exists q. reflexivity.
      * right. split; [reflexivity|]. rewrite do_write_as_batch in D.
        apply apply_batch_no_effect in D. exact D.
    + exact (IH _ _ _ _ _ E).
    + injection E as <- <-. right. auto.
Qed.

(* in terms of the history of effective writes *)
Lemma retry_spec : forall n obs w s h s' p,
  EInv s h -> retry n obs w s = (s', p) ->
  (p = PAck /\ exists q, EInv s' (h ++ [(q, wop_of w)])) \/ (p = PErr /\ s' = s).
Proof.
  intros n obs w s h s' p I E.
  destruct (retry_exact _ _ _ _ _ _ E) as [[-> (q & D)]|[-> ->]]; [left|right; auto].
  split; [reflexivity|]. exists q. rewrite do_write_as_batch in D.
  destruct (EInv_apply_batch s h _ (wop_of w) s' q I (effects_wop_nonnil w) eq_refl D) as [_ I'].
  exact I'.
Qed.

(* ------------------------------------------------------------------------------------ *)
(* C. The flusher's steps                                                                 *)
(* ------------------------------------------------------------------------------------ *)

(* every table value the flusher holds consists of entries of the history *)
Definition QInv (b : bgstate) (h : hist) : Prop :=
  Forall (fun q => match q with QTab m => incl (mt_entries m) (entries h) | QLive _ => True end)
         (b_queue b).

Lemma QInv_grow : forall b h p, QInv b h -> QInv b (h ++ [p]).
Proof.
  intros b h p Q. unfold QInv in *. eapply Forall_impl; [|exact Q].
  intros [m|g] H; [|exact I]. intros e He. rewrite entries_app. apply in_or_app. left. exact (H e He).
Qed.

Lemma resolve_entries : forall s h q,
  EInv s h ->
  match q with QTab m => incl (mt_entries m) (entries h) | QLive _ => True end ->
  incl (mt_entries (resolve s q)) (entries h).
Proof.
  intros s h [m|g] I Hq; cbn [resolve]; [exact Hq|].
  intros e He. apply (einv_layer_entries s h (nth g (imms s) (active s)) e I); [|exact He].
  destruct (nth_in_or_default g (imms s) (active s)) as [Hin|Heq]; [right; exact Hin|left; symmetry; exact Heq].
Qed.

Lemma bg_step_inv : forall b s l b' s' h,
  bg_step b s l = Some (b', s') -> EInv s h -> QInv b h -> EInv s' h /\ QInv b' h.
Proof.
  intros b s l b' s' h E I Q. unfold bg_step in E.
  destruct l, (b_phase b); try discriminate.
  - (* BTake *)
    destruct (pending s) as [|p ps] eqn:P; injection E as <- <-.
    + split; [exact I|constructor].
    + split; [apply EInv_clear_pending; exact I|].
      unfold QInv. cbn [b_queue]. change (QTab p :: map QTab ps) with (map QTab (p :: ps)).
      rewrite Forall_map. rewrite Forall_forall. intros m Hm e He.
      apply (einv_layer_entries s h m e I); [|exact He]. right.
      apply (inv_pending s h (proj1 I)). rewrite P. exact Hm.
  - (* BLook *)
    destruct (0 <? mt_size (active s)); injection E as <- <-.
    + split; [exact I|]. repeat constructor.
    + split; [exact I|constructor].
  - (* BRotate *)
    injection E as <- <-. split; [apply EInv_rotate; exact I|exact Q].
  - (* BFlushOne *)
    unfold QInv in Q. destruct (b_queue b) as [|q r] eqn:Bq; injection E as <- <-.
    + split; [exact I|constructor].
    + inversion Q as [|? ? Hq Hr]; subst. split.
      * apply EInv_flush_table; [exact I|]. apply (resolve_entries s h q I Hq).
      * exact Hr.
Qed.

(* ------------------------------------------------------------------------------------ *)
(* D. The thread table                                                                    *)
(* ------------------------------------------------------------------------------------ *)

Lemma tget_some_in : forall t ph l, tget t l = Some ph -> In (t, ph) l.
Proof.
  intros t ph l. unfold tget. induction l as [|[t' ph'] r IH]; cbn [find fst]; [discriminate|].
  destruct (t' =? t) eqn:E.
  - apply N.eqb_eq in E. subst t'. cbn [snd]. intros H. injection H as ->. left. reflexivity.
  - intros H. right. exact (IH H).
Qed.

Lemma tget_none : forall t l, tget t l = None -> ~ In t (map fst l).
Proof.
  intros t l. unfold tget. induction l as [|[t' ph'] r IH]; cbn [find fst map]; [intros _ []|].
  destruct (t' =? t) eqn:E; [discriminate|]. intros H [->|Hin].
  - rewrite N.eqb_refl in E. discriminate.
  - exact (IH H Hin).
Qed.

Lemma tget_in : forall t ph l, NoDup (map fst l) -> In (t, ph) l -> tget t l = Some ph.
Proof.
  intros t ph l. unfold tget. induction l as [|[t' ph'] r IH]; intros ND []; cbn [find fst].
  - injection H as -> ->. rewrite N.eqb_refl. reflexivity.
  - cbn [map fst] in ND. inversion ND as [|? ? Hn ND']; subst.
    destruct (t' =? t) eqn:E.
    + apply N.eqb_eq in E. subst t'. exfalso. apply Hn. apply in_map_iff.
      exists (t, ph). split; [reflexivity|exact H].
    + exact (IH ND' H).
Qed.

Lemma tdel_in : forall t l x, In x (tdel t l) <-> In x l /\ fst x <> t.
Proof.
  intros t l x. unfold tdel. rewrite filter_In. split; intros [H1 H2]; split; try exact H1.
  - intros E. rewrite E, N.eqb_refl in H2. discriminate.
  - apply negb_true_iff. apply N.eqb_neq. exact H2.
Qed.

Lemma tdel_notin : forall t l, ~ In t (map fst l) -> tdel t l = l.
Proof.
  intros t l. unfold tdel. induction l as [|[t' ph] r IH]; intros H; cbn [filter fst]; [reflexivity|].
  cbn [map fst] in H. destruct (t' =? t) eqn:E.
  - apply N.eqb_eq in E. subst t'. exfalso. apply H. left. reflexivity.
  - cbn [negb]. rewrite IH; [reflexivity|]. intros Hin. apply H. right. exact Hin.
Qed.

Lemma tdel_nodup : forall t l, NoDup (map fst l) -> NoDup (map fst (tdel t l)).
Proof.
  intros t l. unfold tdel. induction l as [|[t' ph] r IH]; intros ND; cbn [filter fst map]; [constructor|].
  cbn [map fst] in ND. inversion ND as [|? ? Hn ND']; subst.
  destruct (negb (t' =? t)); [|exact (IH ND')].
  cbn [map fst]. constructor; [|exact (IH ND')].
  intros Hin. apply Hn. apply in_map_iff in Hin. destruct Hin as (x & Hx & Hin).
  apply filter_In in Hin. apply in_map_iff. exists x. tauto.
Qed.

Lemma tdel_keys_not : forall t l, ~ In t (map fst (tdel t l)).
Proof.
  intros t l Hin. apply in_map_iff in Hin. destruct Hin as (x & Hx & Hin).
  apply tdel_in in Hin. tauto.
Qed.

Lemma tset_nodup : forall t ph l, NoDup (map fst l) -> NoDup (map fst (tset t ph l)).
Proof.
  intros t ph l ND. unfold tset. cbn [map fst]. constructor; [apply tdel_keys_not|].
  apply tdel_nodup. exact ND.
Qed.

Lemma tget_tdel_other : forall t t' l, t' <> t -> tget t' (tdel t l) = tget t' l.
Proof.
  intros t t' l Hne. unfold tget, tdel. induction l as [|[u ph] r IH]; cbn [filter find fst]; [reflexivity|].
  destruct (u =? t) eqn:E; cbn [negb].
  - apply N.eqb_eq in E. subst u. destruct (t =? t') eqn:E'.
    + apply N.eqb_eq in E'. congruence.
    + exact IH.
  - cbn [find fst]. destruct (u =? t'); [reflexivity|exact IH].
Qed.

Lemma tget_tset_same : forall t ph l, tget t (tset t ph l) = Some ph.
Proof. intros. unfold tget, tset. cbn [find fst]. rewrite N.eqb_refl. reflexivity. Qed.

Lemma tget_tset_other : forall t t' ph l, t' <> t -> tget t' (tset t ph l) = tget t' l.
Proof.
  intros t t' ph l Hne. unfold tset.
  transitivity (tget t' (tdel t l)); [|apply tget_tdel_other; exact Hne].
  unfold tget. cbn [find fst]. destruct (t =? t') eqn:E; [|reflexivity].
  apply N.eqb_eq in E. congruence.
Qed.

Lemma thr_split : forall t ph l, NoDup (map fst l) -> tget t l = Some ph ->
  Permutation l ((t, ph) :: tdel t l).
Proof.
  intros t ph l. induction l as [|[u p] r IH]; intros ND H; [discriminate|].
  cbn [map fst] in ND. inversion ND as [|? ? Hn ND']; subst.
  unfold tget in H. cbn [find fst] in H. unfold tdel. cbn [filter fst].
  destruct (u =? t) eqn:E.
  - apply N.eqb_eq in E. subst u. cbn [snd] in H. injection H as ->. cbn [negb].
    fold (tdel t r). rewrite tdel_notin by exact Hn. apply Permutation_refl.
  - cbn [negb]. fold (tdel t r). fold (tget t r) in H.
    eapply Permutation_trans; [apply perm_skip; exact (IH ND' H)|]. apply perm_swap.
Qed.

Definition is_done (ph : tphase) : bool := match ph with TDone _ _ _ => true | TCalled _ _ => false end.
Definition done_tids (l : list (N * tphase)) : list N :=
  flat_map (fun x => if is_done (snd x) then [fst x] else []) l.
Definition call_of (ph : tphase) : N := match ph with TCalled c _ => c | TDone c _ _ => c end.

Lemma done_tids_perm : forall l l', Permutation l l' -> Permutation (done_tids l) (done_tids l').
Proof. intros l l' H. unfold done_tids. apply Permutation_flat_map. exact H. Qed.

Lemma done_tids_keys : forall t l, In t (done_tids l) -> In t (map fst l).
Proof.
  intros t l H. unfold done_tids in H. apply in_flat_map in H. destruct H as (x & Hx & Ht).
  destruct (is_done (snd x)); [|contradiction]. destruct Ht as [<-|[]]. apply in_map. exact Hx.
Qed.

(* ------------------------------------------------------------------------------------ *)
(* E. The linearization order as a ghost, and the invariant of the LTS                     *)
(* ------------------------------------------------------------------------------------ *)

(* the order in which the critical sections ran: completed calls as records, calls whose
   response is still to come by thread *)
Inductive lent := LClosed (o : orec) | LOpen (t : N).

Definition rec_of (t call : N) (r : creq) (p : cresp) (ret : option N) : orec :=
  mkOp t (req_key r) (req_kind r)
       (match ret with Some _ => resp_res p | None => RPending end) call
       (match ret with Some j => j | None => 0 end).

(* a call that never returns is part of the linearization iff its section wrote *)
Definition keep (p : cresp) (ret : option N) : bool :=
  match ret with Some _ => true | None => match p with PAck => true | _ => false end end.

(* fut: when the calls that are past their section will return (None: never) *)
Definition resolveL (th : list (N * tphase)) (fut : N -> option N) (e : lent) : list orec :=
  match e with
  | LClosed o => [o]
  | LOpen t =>
    match tget t th with
    | Some (TDone call r p) => if keep p (fut t) then [rec_of t call r p (fut t)] else []
    | _ => []
    end
  end.
Definition asmL (th : list (N * tphase)) (fut : N -> option N) (L : list lent) : list orec :=
  flat_map (resolveL th fut) L.

Fixpoint run_spec (w : list wop) (l : list orec) : option (list wop) :=
  match l with
  | [] => Some w
  | o :: r => match spec_apply w o with Some w' => run_spec w' r | None => None end
  end.

Lemma run_spec_app : forall a b w,
  run_spec w (a ++ b) = match run_spec w a with Some w' => run_spec w' b | None => None end.
Proof.
  induction a as [|o a IH]; intros b w; cbn [app run_spec]; [reflexivity|].
  destruct (spec_apply w o); [apply IH|reflexivity].
Qed.

Lemma run_spec_legal : forall l w w', run_spec w l = Some w' -> legal _ spec_apply w l.
Proof.
  induction l as [|o r IH]; intros w w' H; cbn [run_spec legal] in *; [exact I|].
  destruct (spec_apply w o); [exact (IH _ _ H)|discriminate].
Qed.

Record CInv (W0 : list wop) (c : cstate) (L : list lent) (h : hist) : Prop := mkCInv {
  ci_minv : EInv (eng c) h;
  ci_q : QInv (bg c) h;
  ci_nodup : NoDup (map fst (thr c));
  ci_perm : Permutation L (map LClosed (closed c) ++ map LOpen (done_tids (thr c)));
  ci_calls : Forall (fun x => call_of (snd x) < now c) (thr c);
  ci_ccalls : Forall (fun o => o_call o < now c) (closed c);
  ci_lin : forall fut, (forall t r, fut t = Some r -> now c <= r) ->
      rt_ok (asmL (thr c) fut L) /\
      run_spec W0 (asmL (thr c) fut L) = Some (map snd h) /\
      Forall (fun a => o_call a < now c) (asmL (thr c) fut L)
}.

Lemma LOpen_in : forall W0 c L h t, CInv W0 c L h -> In (LOpen t) L -> In t (done_tids (thr c)).
Proof.
  intros W0 c L h t CI Hin.
  apply (Permutation_in _ (ci_perm W0 c L h CI)) in Hin. apply in_app_or in Hin.
  destruct Hin as [Hin|Hin]; apply in_map_iff in Hin; destruct Hin as (x & Hx & Hin).
  - discriminate.
  - injection Hx as ->. exact Hin.
Qed.

Lemma asmL_ext : forall th th' fut fut' L,
  (forall t, In (LOpen t) L -> tget t th' = tget t th /\ fut' t = fut t) ->
  asmL th' fut' L = asmL th fut L.
Proof.
  intros th th' fut fut' L. unfold asmL. induction L as [|e L IH]; intros H; [reflexivity|].
  cbn [flat_map]. rewrite IH by (intros t Ht; apply H; right; exact Ht). f_equal.
  destruct e as [o|t]; [reflexivity|]. cbn [resolveL].
  destruct (H t (or_introl eq_refl)) as [-> ->]. reflexivity.
Qed.

Lemma CInv_init : forall s0 h0, EInv s0 h0 -> CInv (map snd h0) (cinit s0) [] h0.
Proof.
  intros s0 h0 I. constructor; unfold cinit; cbn [eng bg thr now closed].
  - exact I.
  - constructor.
  - constructor.
  - constructor.
  - constructor.
  - constructor.
  - intros fut _. cbn [asmL flat_map run_spec]. split; [constructor|]. split; [reflexivity|constructor].
Qed.

(* what a section does to the history of effective writes, and why the record of the call
   fits the specification at this point *)
Lemma section_spec : forall s h r obs s' p t call,
  EInv s h -> section s r obs = (s', p) ->
  exists h', EInv s' h' /\ (h' = h \/ exists x, h' = h ++ [x]) /\
    forall ret, if keep p ret
                then spec_apply (map snd h) (rec_of t call r p ret) = Some (map snd h')
                else h' = h.
Proof.
  intros s h r obs s' p t call I E. destruct r as [k v|k|k]; cbn [section] in E.
  - destruct (retry_spec _ _ _ _ _ _ _ I E) as [[-> (q & I')]|[-> ->]].
    + exists (h ++ [(q, WPut k v)]). split; [exact I'|]. split; [right; eauto|].
      intros [j|]; cbn [keep rec_of]; unfold spec_apply; cbn [o_kind o_res req_kind req_key resp_res o_key];
        rewrite map_app; reflexivity.
    + exists h. split; [exact I|]. split; [left; reflexivity|].
      intros [j|]; cbn [keep rec_of]; [|reflexivity].
      unfold spec_apply; cbn [o_kind o_res req_kind resp_res]. reflexivity.
  - destruct (retry_spec _ _ _ _ _ _ _ I E) as [[-> (q & I')]|[-> ->]].
    + exists (h ++ [(q, WDel k)]). split; [exact I'|]. split; [right; eauto|].
      intros [j|]; cbn [keep rec_of]; unfold spec_apply; cbn [o_kind o_res req_kind req_key resp_res o_key];
        rewrite map_app; reflexivity.
    + exists h. split; [exact I|]. split; [left; reflexivity|].
      intros [j|]; cbn [keep rec_of]; [|reflexivity].
      unfold spec_apply; cbn [o_kind o_res req_kind resp_res]. reflexivity.
  - injection E as <- <-. exists h. split; [exact I|]. split; [left; reflexivity|].
    rewrite (get_einv s h k I).
    intros [j|]; destruct (spec_get (map snd h) k) as [v|] eqn:G; cbn [keep]; try reflexivity;
      unfold spec_apply, rec_of; cbn [o_kind o_res req_kind req_key resp_res o_key]; rewrite G; cbn [obeq].
    + rewrite beq_refl. reflexivity.
    + reflexivity.
Qed.

Lemma Forall_lt_succ : forall (A : Type) (f : A -> N) n l,
  Forall (fun a => f a < n) l -> Forall (fun a => f a < n + 1) l.
Proof. intros A f n l H. eapply Forall_impl; [|exact H]. cbn beta. intros a Ha. lia. Qed.

Definition repl (t : N) (o : orec) (e : lent) : lent :=
  match e with
  | LOpen t' => if t' =? t then LClosed o else e
  | LClosed _ => e
  end.

Definition ghost_step (c : cstate) (l : label) (L : list lent) : list lent :=
  match l with
  | LSec t _ => L ++ [LOpen t]
  | LRes t =>
    match tget t (thr c) with
    | Some (TDone call r p) =>
      map (repl t (mkOp t (req_key r) (req_kind r) (resp_res p) call (now c))) L
    | _ => L
    end
  | _ => L
  end.

Lemma CInv_step : forall W0 c L h l c',
  CInv W0 c L h -> cstep c l = Some c' -> exists h', CInv W0 c' (ghost_step c l L) h'.
Proof.
  intros W0 c L h l c' CI E.
  destruct l as [t r|t obs|t|b]; cbn [cstep ghost_step] in *.
  - (* invocation *)
    destruct (tget t (thr c)) eqn:G; [discriminate|]. injection E as <-.
    pose proof (tget_none _ _ G) as Hnot.
    exists h. constructor; cbn [eng bg thr now closed].
    + exact (ci_minv _ _ _ _ CI).
    + exact (ci_q _ _ _ _ CI).
    + apply tset_nodup. exact (ci_nodup _ _ _ _ CI).
    + unfold tset. rewrite tdel_notin by exact Hnot. unfold done_tids. cbn [flat_map snd is_done app].
      exact (ci_perm _ _ _ _ CI).
    + unfold tset. rewrite tdel_notin by exact Hnot. constructor.
      * cbn [snd call_of]. lia.
      * apply Forall_lt_succ with (f := fun x => call_of (snd x)). exact (ci_calls _ _ _ _ CI).
    + apply Forall_lt_succ. exact (ci_ccalls _ _ _ _ CI).
    + intros fut Hfut.
      assert (Hfut' : forall t0 r0, fut t0 = Some r0 -> now c <= r0).
      { intros t0 r0 H0. specialize (Hfut t0 r0 H0). lia. }
      destruct (ci_lin _ _ _ _ CI fut Hfut') as (R & S & B).
      rewrite (asmL_ext (thr c) _ fut fut L).
      * split; [exact R|]. split; [exact S|]. apply Forall_lt_succ. exact B.
      * intros t' Ht'. split; [|reflexivity]. apply tget_tset_other.
        intros ->. apply Hnot. apply done_tids_keys. exact (LOpen_in _ _ _ _ _ CI Ht').
  - (* critical section *)
    destruct (tget t (thr c)) as [[call r|]|] eqn:G; try discriminate. injection E as <-.
    destruct (section (eng c) r obs) as [s' p] eqn:Sec. cbn [fst snd].
    destruct (section_spec _ _ _ _ _ _ t call (ci_minv _ _ _ _ CI) Sec) as (h' & I' & Hh' & Hsp).
    pose proof (ci_nodup _ _ _ _ CI) as ND.
    pose proof (thr_split _ _ _ ND G) as Split.
    assert (HD : Permutation (done_tids (thr c)) (done_tids (tdel t (thr c)))).
    { apply done_tids_perm in Split. exact Split. }
    assert (Hnot : ~ In t (done_tids (thr c))).
    { intros Hin. apply (Permutation_in _ HD) in Hin. apply done_tids_keys in Hin.
      exact (tdel_keys_not _ _ Hin). }
    exists h'. constructor; cbn [eng bg thr now closed].
    + exact I'.
    + destruct Hh' as [->|(x & ->)]; [exact (ci_q _ _ _ _ CI)|apply QInv_grow; exact (ci_q _ _ _ _ CI)].
    + apply tset_nodup. exact ND.
    + unfold tset, done_tids. cbn [flat_map snd is_done fst app]. fold (done_tids (tdel t (thr c))).
      eapply Permutation_trans; [apply Permutation_sym; apply Permutation_cons_append|].
      eapply Permutation_trans; [apply perm_skip; exact (ci_perm _ _ _ _ CI)|].
      eapply Permutation_trans; [apply Permutation_middle|].
      apply Permutation_app_head. cbn [map]. apply perm_skip. apply Permutation_map. exact HD.
    + unfold tset. constructor.
      * cbn [snd call_of]. pose proof (ci_calls _ _ _ _ CI) as B. rewrite Forall_forall in B.
        specialize (B _ (tget_some_in _ _ _ G)). cbn [snd call_of] in B. lia.
      * apply Forall_lt_succ with (f := fun x => call_of (snd x)).
        pose proof (ci_calls _ _ _ _ CI) as B. rewrite Forall_forall in *.
        intros x Hx. apply B. apply tdel_in in Hx. tauto.
    + apply Forall_lt_succ. exact (ci_ccalls _ _ _ _ CI).
    + intros fut Hfut.
      assert (Hfut' : forall t0 r0, fut t0 = Some r0 -> now c <= r0).
      { intros t0 r0 H0. specialize (Hfut t0 r0 H0). lia. }
      destruct (ci_lin _ _ _ _ CI fut Hfut') as (R & S & B).
      unfold asmL. rewrite flat_map_app. fold (asmL (tset t (TDone call r p) (thr c)) fut L).
      rewrite (asmL_ext (thr c) _ fut fut L).
      2:{ intros t' Ht'. split; [|reflexivity]. apply tget_tset_other.
          intros ->. apply Hnot. exact (LOpen_in _ _ _ _ _ CI Ht'). }
      cbn [flat_map resolveL]. rewrite tget_tset_same, app_nil_r.
      specialize (Hsp (fut t)). destruct (keep p (fut t)) eqn:K.
      * split; [|split].
        -- apply FOP_app_single; [exact R|]. rewrite Forall_forall in *. intros a Ha [Hp Hlt].
           specialize (B a Ha). unfold rec_of, is_pending in Hp, Hlt. cbn [o_res o_ret] in Hp, Hlt.
           destruct (fut t) as [j|] eqn:F; [|discriminate].
           specialize (Hfut t j F). lia.
        -- rewrite run_spec_app, S. cbn [run_spec]. rewrite Hsp. reflexivity.
        -- apply Forall_app. split; [apply Forall_lt_succ; exact B|]. constructor; [|constructor].
           unfold rec_of; cbn [o_call]. pose proof (ci_calls _ _ _ _ CI) as Bc. rewrite Forall_forall in Bc.
           specialize (Bc _ (tget_some_in _ _ _ G)). cbn [snd call_of] in Bc. lia.
      * subst h'. rewrite app_nil_r. split; [exact R|]. split; [exact S|]. apply Forall_lt_succ. exact B.
  - (* response *)
    destruct (tget t (thr c)) as [[|call r p]|] eqn:G; try discriminate. injection E as <-.
    set (o := mkOp t (req_key r) (req_kind r) (resp_res p) call (now c)).
    pose proof (ci_nodup _ _ _ _ CI) as ND.
    pose proof (thr_split _ _ _ ND G) as Split.
    assert (HD : Permutation (done_tids (thr c)) (t :: done_tids (tdel t (thr c)))).
    { apply done_tids_perm in Split. exact Split. }
    exists h. constructor; cbn [eng bg thr now closed].
    + exact (ci_minv _ _ _ _ CI).
    + exact (ci_q _ _ _ _ CI).
    + apply tdel_nodup. exact ND.
    + eapply Permutation_trans; [apply Permutation_map; exact (ci_perm _ _ _ _ CI)|].
      rewrite !map_app, !map_map. cbn [map].
      rewrite (map_ext (fun x => repl t o (LClosed x)) LClosed) by reflexivity.
      rewrite <- app_assoc. apply Permutation_app_head.
      eapply Permutation_trans; [apply Permutation_map; exact HD|]. cbn [map repl].
      rewrite N.eqb_refl. cbn [app]. apply perm_skip.
      rewrite (map_ext_in (fun x => repl t o (LOpen x)) LOpen); [apply Permutation_refl|].
      intros t' Ht'. cbn [repl]. destruct (t' =? t) eqn:E; [|reflexivity].
      apply N.eqb_eq in E. subst t'. apply done_tids_keys in Ht'. exfalso. exact (tdel_keys_not _ _ Ht').
    + apply Forall_lt_succ with (f := fun x => call_of (snd x)).
      pose proof (ci_calls _ _ _ _ CI) as B. rewrite Forall_forall in *.
      intros x Hx. apply B. apply tdel_in in Hx. tauto.
    + apply Forall_app. split; [apply Forall_lt_succ; exact (ci_ccalls _ _ _ _ CI)|].
      constructor; [|constructor]. subst o. cbn [o_call].
      pose proof (ci_calls _ _ _ _ CI) as B. rewrite Forall_forall in B.
      specialize (B _ (tget_some_in _ _ _ G)). cbn [snd call_of] in B. lia.
    + intros fut' Hfut'.
      set (fut := fun x => if x =? t then Some (now c) else fut' x).
      assert (Hfut : forall t0 r0, fut t0 = Some r0 -> now c <= r0).
      { intros t0 r0. unfold fut. destruct (t0 =? t).
        - intros H. injection H as <-. lia.
        - intros H. specialize (Hfut' t0 r0 H). lia. }
      destruct (ci_lin _ _ _ _ CI fut Hfut) as (R & S & B).
      assert (EQ : asmL (tdel t (thr c)) fut' (map (repl t o) L) = asmL (thr c) fut L).
      { unfold asmL. clear - G. induction L as [|e L IH]; [reflexivity|].
        cbn [map flat_map]. rewrite IH. f_equal. destruct e as [o'|t']; [reflexivity|].
        cbn [repl]. destruct (t' =? t) eqn:E.
        - apply N.eqb_eq in E. subst t'. cbn [resolveL]. rewrite G. unfold fut. rewrite N.eqb_refl.
          cbn [keep rec_of]. reflexivity.
        - cbn [resolveL]. apply N.eqb_neq in E. rewrite tget_tdel_other by exact E.
          unfold fut. apply N.eqb_neq in E. rewrite E. reflexivity. }
      rewrite EQ. split; [exact R|]. split; [exact S|]. apply Forall_lt_succ. exact B.
  - (* a step of the flusher *)
    destruct (bg_step (bg c) (eng c) b) as [[b' s']|] eqn:Bg; [|discriminate]. injection E as <-.
    destruct (bg_step_inv _ _ _ _ _ h Bg (ci_minv _ _ _ _ CI) (ci_q _ _ _ _ CI)) as [I' Q'].
    exists h. constructor; cbn [eng bg thr now closed].
    + exact I'.
    + exact Q'.
    + exact (ci_nodup _ _ _ _ CI).
    + exact (ci_perm _ _ _ _ CI).
    + apply Forall_lt_succ with (f := fun x => call_of (snd x)). exact (ci_calls _ _ _ _ CI).
    + apply Forall_lt_succ. exact (ci_ccalls _ _ _ _ CI).
    + intros fut Hfut.
      assert (Hfut' : forall t0 r0, fut t0 = Some r0 -> now c <= r0).
      { intros t0 r0 H0. specialize (Hfut t0 r0 H0). lia. }
      destruct (ci_lin _ _ _ _ CI fut Hfut') as (R & S & B).
      split; [exact R|]. split; [exact S|]. apply Forall_lt_succ. exact B.
Qed.

Lemma CInv_run : forall W0 tr c L h c',
  CInv W0 c L h -> crun c tr = Some c' -> exists L' h', CInv W0 c' L' h'.
Proof.
  intros W0 tr. induction tr as [|l tr IH]; intros c L h c' CI E; cbn [crun] in E.
  - injection E as <-. eauto.
  - destruct (cstep c l) as [c1|] eqn:St; [|discriminate].
    destruct (CInv_step _ _ _ _ _ _ CI St) as (h1 & CI1). exact (IH _ _ _ _ CI1 E).
Qed.

(* ------------------------------------------------------------------------------------ *)
(* F. The theorems                                                                        *)
(* ------------------------------------------------------------------------------------ *)

Definition kept_thread (x : N * tphase) : bool :=
  match snd x with TDone _ _ PAck => true | _ => false end.

Lemma map_split_perm : forall (A B : Type) (f : A -> B) (P : A -> bool) l,
  Permutation (map f l)
    (flat_map (fun x => if P x then [f x] else []) l ++
     flat_map (fun x => if P x then [] else [f x]) l).
Proof.
  intros A B f P l. induction l as [|x l IH]; cbn [map flat_map]; [constructor|].
  destruct (P x); cbn [app].
  - apply perm_skip. exact IH.
  - eapply Permutation_trans; [apply perm_skip; exact IH|]. apply Permutation_middle.
Qed.

Lemma asm_closed : forall th fut l, flat_map (resolveL th fut) (map LClosed l) = l.
Proof. intros th fut l. induction l as [|o l IH]; cbn [map flat_map resolveL app]; [reflexivity|]. rewrite IH. reflexivity. Qed.

Lemma asm_open : forall th, NoDup (map fst th) -> forall sub, incl sub th ->
  flat_map (resolveL th (fun _ => None)) (map LOpen (done_tids sub)) =
  flat_map (fun x => if kept_thread x then [pending_rec x] else []) sub.
Proof.
  intros th ND. induction sub as [|[t ph] sub IH]; intros Hin; [reflexivity|].
  unfold done_tids. cbn [flat_map snd fst]. fold (done_tids sub).
  rewrite map_app, flat_map_app, IH by (intros x Hx; apply Hin; right; exact Hx). f_equal.
  destruct ph as [call r|call r p]; cbn [is_done map flat_map]; [reflexivity|].
  cbn [resolveL]. rewrite (tget_in t (TDone call r p) th ND (Hin _ (or_introl eq_refl))).
  rewrite app_nil_r. unfold kept_thread, keep, pending_rec, rec_of. cbn [snd fst].
  destruct p; reflexivity.
Qed.

(* every run of the system, started in a state described by the write history h0, leaves a
   history that is linearizable with respect to Spec.v; moreover the log holds, stamped with
   strictly increasing sequence numbers, exactly the writes that the linearization applies,
   in its order, once each *)
Theorem lts_linearizable_log : forall s0 h0 tr c,
  EInv s0 h0 -> crun (cinit s0) tr = Some c ->
  exists l h,
    linearization _ spec_apply (map snd h0) (history_of c) l /\
    run_spec (map snd h0) l = Some (map snd h) /\
    concat (wal_files (eng c)) = wentries h /\ StronglySorted N.lt (map fst h) /\
    forall k, get (eng c) k = spec_get (map snd h) k.
Proof.
  intros s0 h0 tr c I E.
  destruct (CInv_run _ _ _ _ _ _ (CInv_init s0 h0 I) E) as (L & h & CI).
  set (fut0 := fun _ : N => @None N).
  destruct (ci_lin _ _ _ _ CI fut0) as (R & S & _); [intros t r H; discriminate|].
  exists (asmL (thr c) fut0 L), h. split; [|split; [exact S|split; [|split]]].
  - split; [|split].
    + exists (flat_map (fun x => if kept_thread x then [] else [pending_rec x]) (thr c)). split.
      * unfold history_of, asmL.
        eapply Permutation_trans.
        2:{ apply Permutation_app_tail. apply Permutation_sym.
            apply Permutation_flat_map. exact (ci_perm _ _ _ _ CI). }
        rewrite flat_map_app, asm_closed. subst fut0.
        rewrite (asm_open (thr c) (ci_nodup _ _ _ _ CI) (thr c) (incl_refl _)).
        rewrite <- app_assoc. apply Permutation_app_head. apply map_split_perm.
      * rewrite Forall_forall. intros o Ho. apply in_flat_map in Ho. destruct Ho as (x & _ & Hx).
        destruct (kept_thread x); [contradiction|]. destruct Hx as [<-|[]].
        unfold pending_rec. destruct (snd x); reflexivity.
    + exact R.
    + exact (run_spec_legal _ _ _ S).
  - exact (inv_wal _ _ (proj1 (ci_minv _ _ _ _ CI))).
  - exact (inv_sorted _ _ (proj1 (ci_minv _ _ _ _ CI))).
  - intros k. exact (get_einv _ _ k (ci_minv _ _ _ _ CI)).
Qed.

Theorem lts_linearizable : forall s0 h0 tr c,
  EInv s0 h0 -> crun (cinit s0) tr = Some c -> linearizable (map snd h0) (history_of c).
Proof.
  intros s0 h0 tr c I E.
  destruct (lts_linearizable_log s0 h0 tr c I E) as (l & h & Lin & _). exists l. exact Lin.
Qed.

(* C06, first clause, for a database that starts empty *)
Theorem C06_linearizable : forall cf tr,
  lts_trace (init cf) tr -> linearizable [] (history (init cf) tr).
Proof.
  intros cf tr (c & E). unfold history. rewrite E.
  exact (lts_linearizable (init cf) [] tr c (EInv_init cf) E).
Qed.

(* ... and for one that was opened on existing data (any state the sequential model reaches
   without having set its log aside) *)
Theorem C06_linearizable_reachable : forall s0 tr,
  reachable s0 -> lost_log s0 = false -> lts_trace s0 tr ->
  exists w0, (forall k, get s0 k = spec_get w0 k) /\ linearizable w0 (history s0 tr).
Proof.
  intros s0 tr R Hl (c & E). destruct (reachable_Inv s0 R) as (h0 & I).
  assert (MI : EInv s0 h0) by (split; assumption).
  exists (map snd h0). split.
  - intros k. exact (get_einv s0 h0 k MI).
  - unfold history. rewrite E. exact (lts_linearizable s0 h0 tr c MI E).
Qed.

(* the log after any run from an empty database: one stamped record per write of a
   linearization of the run's history, nothing else *)
Theorem C06_log_exactly_once : forall cf tr c,
  crun (cinit (init cf)) tr = Some c ->
  exists l h,
    linearization _ spec_apply [] (history_of c) l /\
    run_spec [] l = Some (map snd h) /\
    concat (wal_files (eng c)) = wentries h /\ StronglySorted N.lt (map fst h).
Proof.
  intros cf tr c E.
  destruct (lts_linearizable_log (init cf) [] tr c (EInv_init cf) E) as (l & h & A & B & C & D & _).
  exists l, h. auto.
Qed.

(* ---------- second clause: success = exactly once, error = no effect ---------- *)

Lemma flat_app : forall a b, flat (a ++ b) = flat a ++ flat b.
Proof. intros. unfold flat. apply flat_map_app. Qed.

Lemma spec_get_snoc : forall w x k,
  spec_get (w ++ [x]) k =
  match last_effect k (effects x) with
  | Some (Some v) => Some v
  | Some None => None
  | None => spec_get w k
  end.
Proof.
  intros w x k. unfold spec_get, latest. rewrite flat_app, last_effect_app.
  unfold flat at 1. cbn [flat_map]. rewrite app_nil_r.
  destruct (last_effect k (effects x)) as [[v|]|]; reflexivity.
Qed.

(* an acknowledged write is exactly one run of Engine.put / Engine.del, for every sequence
   of observations: the attempts before the successful one changed nothing *)
Theorem C06_ack_is_one_write : forall s w obs s',
  retry max_retries obs w s = (s', PAck) -> exists q, do_write s w = (s', WrOk q).
Proof.
  intros s w obs s' E.
  destruct (retry_exact _ _ _ _ _ _ E) as [[_ H]|[D _]]; [exact H|discriminate].
Qed.

(* ... so the history of effective writes, and with it the log, grows by this write only *)
Theorem C06_ack_exactly_once : forall s h r obs s',
  EInv s h -> section s r obs = (s', PAck) ->
  exists q w, EInv s' (h ++ [(q, w)]) /\
    match r with CPut k v => w = WPut k v | CDel k => w = WDel k | CGet _ => False end.
Proof.
  intros s h r obs s' I E. destruct r as [k v|k|k]; cbn [section] in E.
  - destruct (retry_spec _ _ _ _ _ _ _ I E) as [[_ (q & I')]|[D _]]; [|discriminate].
    exists q, (WPut k v). split; [exact I'|reflexivity].
  - destruct (retry_spec _ _ _ _ _ _ _ I E) as [[_ (q & I')]|[D _]]; [|discriminate].
    exists q, (WDel k). split; [exact I'|reflexivity].
  - destruct (get s k); discriminate.
Qed.

Corollary C06_ack_put_visible : forall s h k v obs s' k',
  EInv s h -> section s (CPut k v) obs = (s', PAck) ->
  get s' k' = if beq k k' then Some v else get s k'.
Proof.
  intros s h k v obs s' k' I E.
  destruct (C06_ack_exactly_once s h _ obs s' I E) as (q & w & I' & ->).
  rewrite (get_einv s' _ k' I'), (get_einv s h k' I), map_app. cbn [map snd].
  rewrite spec_get_snoc. cbn [effects last_effect]. destruct (beq k k'); reflexivity.
Qed.

Corollary C06_ack_delete_visible : forall s h k obs s' k',
  EInv s h -> section s (CDel k) obs = (s', PAck) ->
  get s' k' = if beq k k' then None else get s k'.
Proof.
  intros s h k obs s' k' I E.
  destruct (C06_ack_exactly_once s h _ obs s' I E) as (q & w & I' & ->).
  rewrite (get_einv s' _ k' I'), (get_einv s h k' I), map_app. cbn [map snd].
  rewrite spec_get_snoc. cbn [effects last_effect]. destruct (beq k k'); reflexivity.
Qed.

(* a write that reports an error — the log still rotating after the last attempt, a log
   object that was closed under the writer's feet, sequence numbers exhausted — leaves the
   state, log included, exactly as it was *)
Theorem C06_error_no_effect : forall s r obs s',
  section s r obs = (s', PErr) -> s' = s.
Proof.
  intros s r obs s' E. destruct r as [k v|k|k]; cbn [section] in E.
  - destruct (retry_exact _ _ _ _ _ _ E) as [[D _]|[_ H]]; [discriminate|exact H].
  - destruct (retry_exact _ _ _ _ _ _ E) as [[D _]|[_ H]]; [discriminate|exact H].
  - destruct (get s k); discriminate.
Qed.

(* ---------- the defect this check found in the code before commit 702abac ---------- *)
(* WAL.Append used to re-read the status flag in the sync behind the buffered record
   (syncLocked). rotateWAL's SetRotating is an atomic store that does not take the WAL
   mutex, so it could land between the two reads: Append returned ErrWALRotating although the
   record was in the log and the sequence number spent. The model of that code: a fourth
   observation. With it the statement above is false — the write that reports an error is
   replayed at the next start (corpus/C06/flip-orphan.case replays this on the real engine:
   it fails on the tree before the fix and passes after it). *)
Module Before702abac.
  Inductive wstat' := Obs (o : wstat) | WFlip.
  Definition wreq_entry (w : wreq) (q : N) : wentry :=
    match w with WPutReq k v => mkW OpPut q k v | WDelReq k => mkW OpDel q k [] end.
  Definition log_orphan (s : st) (w : wreq) : st :=
    upd_wal s (wal_next s + 1) (log_append (wal_files s) [wreq_entry w (wal_next s)]).
  Definition attempt' (w : wreq) (o : wstat') (s : st) : attempt_res :=
    match o with
    | Obs o => attempt w o s
    | WFlip => if MaxSeq <=? wal_next s then AFail s else ARetry (log_orphan s w)
    end.
  Fixpoint retry' (n : nat) (obs : list wstat') (w : wreq) (s : st) : st * cresp :=
    match n with
    | O => (s, PErr)
    | S n' =>
      match attempt' w (hd (Obs WActive) obs) s with
      | AOk s' => (s', PAck)
      | AFail s' => (s', PErr)
      | ARetry s' => retry' n' (tl obs) w s'
      end
    end.
  Definition k : bytes := [107]. Definition v : bytes := [118].
  Definition obs := [WFlip; Obs WRotating; Obs WRotating].
  Definition s0 := init (mkCfg 1000 10).
  Definition s1 := fst (retry' max_retries obs (WPutReq k v) s0).

  Theorem error_no_effect_refuted :
    retry' max_retries obs (WPutReq k v) s0 = (s1, PErr) /\
    concat (wal_files s0) = [] /\ concat (wal_files s1) = [mkW OpPut 1 k v] /\
    get s0 k = None /\ get s1 k = None /\ get (reopen s1) k = Some v.
  Proof. vm_compute. repeat split; reflexivity. Qed.
End Before702abac.

(* ---------- non-vacuity ---------- *)
Module ConcExamples.
  Definition cf := mkCfg 40 100.
  Definition ka : bytes := [97]. Definition kb : bytes := [98].
  Definition v (n : N) : bytes := [n; n; n; n; n; n; n; n].
  (* three clients, the flusher running through two rounds (one of them on the live active
     table), a write that gives up after three attempts, one that meets a closed log, one
     that succeeds on its second attempt, a call that never returns *)
  Definition tr : list label :=
    [LInv 1 (CPut ka (v 1)); LInv 2 (CGet ka); LSec 1 []; LSec 2 []; LRes 2; LRes 1;
     LInv 1 (CPut kb (v 2)); LBg BTake; LBg BLook; LSec 1 [WRotating]; LInv 2 (CPut ka (v 3));
     LBg BRotate; LSec 2 [WRotating; WRotating; WRotating]; LRes 2; LRes 1;
     LInv 3 (CDel kb); LInv 2 (CGet ka); LBg BFlushOne; LSec 2 []; LSec 3 []; LRes 2;
     LInv 2 (CPut ka (v 4)); LSec 2 []; LRes 2; LBg BTake; LBg BRotate; LInv 1 (CGet kb);
     LBg BFlushOne; LSec 1 []; LRes 1; LInv 1 (CPut kb (v 5)); LSec 1 [];
     LInv 2 (CDel ka); LSec 2 [WRotating; WClosed]; LRes 2].
  Example tr_runs : lts_trace (init cf) tr.
  Proof. unfold lts_trace. vm_compute. eexists. reflexivity. Qed.
  Example tr_history :
    map (fun o => (o_tid o, o_res o, o_call o, o_ret o)) (history (init cf) tr) =
    [(2, RVal (v 1), 1, 4); (1, ROk, 0, 5); (2, RFail, 10, 13); (1, ROk, 6, 14);
     (2, RVal (v 1), 16, 20); (2, ROk, 21, 23); (1, RNotFound, 26, 29); (2, RFail, 32, 34);
     (1, RPending, 30, 0); (3, RPending, 15, 0)].
  Proof. vm_compute. reflexivity. Qed.
  Definition final := match crun (cinit (init cf)) tr with Some c => c | None => cinit (init cf) end.
  Example tr_tables : length (ssts (eng final)) = 2%nat.
  Proof. vm_compute. reflexivity. Qed.
  (* the log: the five writes that took effect, none of the two that failed *)
  Example tr_log : map (fun e => (w_seq e, w_key e)) (concat (wal_files (eng final))) =
                   [(1, ka); (2, kb); (3, kb); (4, ka); (5, kb)].
  Proof. vm_compute. reflexivity. Qed.
  Example tr_linearizable : linearizable [] (history (init cf) tr).
  Proof. exact (C06_linearizable cf tr tr_runs). Qed.
  (* the extracted checker agrees on this history *)
  Example tr_checked : lin_check 10000 (history (init cf) tr) = true.
  Proof. vm_compute. reflexivity. Qed.
  (* an errored write changes nothing: the state after the failed section is the state before *)
  Example failed_section : forall s, section s (CPut ka (v 9)) [WRotating; WRotating; WRotating] = (s, PErr).
  Proof. intros s. reflexivity. Qed.
End ConcExamples.
