(* WalReuse.v — C10, last sentence, at byte level: "writes acknowledged after such a recovery
   are themselves recoverable".

   wal.ReuseWAL (pkg/wal/wal.go) appends behind the newest log file only when IsCleanWALFile
   says that replay of that file ends cleanly; behind a torn or damaged tail it declines and the
   storage manager starts a new file (the repaired policy: "never append behind a torn or
   damaged tail").  [reuse_append] is that decision on the directory's byte strings; the
   theorems say that whatever the damage was, the entries written after the recovery come back
   at the next replay, behind exactly what the first recovery delivered. *)
From KV Require Import Bytes BytesProofs WalCodec WalCodecProofs.
From Coq Require Import List Arith PeanoNat NArith Lia.
Import ListNotations.
Open Scope N_scope.

Definition status_clean (r : rstatus) : bool := match r with Clean => true | _ => false end.

(* the files of the directory (newest last) after a recovery followed by the bytes [b] of the
   writes acknowledged since: same file when the newest is clean, a new file otherwise *)
Definition reuse_append (files : list bytes) (b : bytes) : list bytes :=
  match rev files with
  | [] => [b]
  | f :: r => if status_clean (snd (replay_file f)) then rev r ++ [f ++ b] else files ++ [b]
  end.

Lemma reuse_append_snoc : forall pre f b,
  reuse_append (pre ++ [f]) b =
    if status_clean (snd (replay_file f)) then pre ++ [f ++ b] else pre ++ [f] ++ [b].
Proof.
  intros pre f b. unfold reuse_append. rewrite rev_unit, rev_involutive.
  destruct (status_clean (snd (replay_file f))); [reflexivity|].
  rewrite <- app_assoc. reflexivity.
Qed.

Lemma replay_dir_app : forall a b, replay_dir (a ++ b) = replay_dir a ++ replay_dir b.
Proof. intros a b. unfold replay_dir. apply flat_map_app. Qed.

Lemma replay_dir_single : forall f, replay_dir [f] = fst (replay_file f).
Proof. intros f. unfold replay_dir. cbn [flat_map]. apply app_nil_r. Qed.

(* a cut that replays cleanly fell on an entry boundary: the surviving bytes are themselves
   the encoding of the surviving entries *)
Lemma trunc_clean_boundary : forall es n,
  trunc_status es n = Clean ->
  firstn n (encode_log es) = encode_log (firstn (whole_within es n) es).
Proof.
  induction es as [|e es IH]; intros n Hc.
  - rewrite firstn_nil. destruct n; reflexivity.
  - cbn [trunc_status whole_within] in *.
    rewrite encode_log_cons, firstn_app.
    destruct (PeanoNat.Nat.leb (length (encode_entry e)) n) eqn:E.
    + apply PeanoNat.Nat.leb_le in E. rewrite firstn_all2 by exact E.
      rewrite IH by exact Hc. cbn [firstn]. rewrite encode_log_cons. reflexivity.
    + apply PeanoNat.Nat.leb_gt in E.
      destruct (PeanoNat.Nat.eqb n 0) eqn:E0; [|discriminate Hc].
      apply PeanoNat.Nat.eqb_eq in E0. subst n. reflexivity.
Qed.

Lemma forallb_firstn : forall (A : Type) (p : A -> bool) n l,
  forallb p l = true -> forallb p (firstn n l) = true.
Proof.
  intros A p n. induction n as [|n IH]; intros [|x l] H; cbn [firstn forallb] in *; try reflexivity.
  apply andb_prop in H. destruct H as [Hx Hl]. rewrite Hx, (IH l Hl). reflexivity.
Qed.

Lemma last_two : forall (A : Type) (p : list A) f b d, last (p ++ [f] ++ [b]) d = b.
Proof. intros A p f b d. rewrite app_assoc. apply last_last. Qed.

Lemma firstn_len_app : forall (A : Type) (p q : list A), firstn (length p) (p ++ q) = p.
Proof.
  intros A p q. rewrite firstn_app, PeanoNat.Nat.sub_diag, firstn_all. cbn [firstn]. apply app_nil_r.
Qed.

(* ---------- the tail of the newest file was cut at any byte ---------- *)
(* [pre] = the older files (any bytes at all: they are never touched); the newest file held
   the entries [es] and lost everything from byte [n] on; the recovery delivered the whole
   entries before the cut; [es'] is written after it. The next replay delivers the older files'
   entries, the recovered prefix, and then every later write - in that order, nothing else. *)
Theorem C10_cut_then_writes : forall pre es n es',
  forallb wf_entry es = true -> forallb wf_entry es' = true ->
  let damaged := firstn n (encode_log es) in
  let files' := reuse_append (pre ++ [damaged]) (encode_log es') in
  replay_dir files' =
    replay_dir pre ++ map canon (firstn (whole_within es n) es) ++ map canon es' /\
  replay_dir files' = replay_dir (pre ++ [damaged]) ++ map canon es' /\
  firstn (length pre) files' = pre /\
  snd (replay_file (last files' [])) = Clean.
Proof.
  intros pre es n es' Hes Hes'. cbn zeta.
  rewrite reuse_append_snoc, (replay_dir_app pre [_]), replay_dir_single.
  rewrite (C10_truncate_exact es n Hes). cbn [fst snd].
  destruct (trunc_status_cases es n) as [Hc | Ht]; rewrite ?Hc, ?Ht; cbn [status_clean].
  - rewrite (trunc_clean_boundary es n Hc), <- encode_log_app.
    assert (Hw : forallb wf_entry (firstn (whole_within es n) es ++ es') = true).
    { rewrite forallb_app, (forallb_firstn _ _ _ _ Hes), Hes'. reflexivity. }
    rewrite replay_dir_app, replay_dir_single, last_last, firstn_len_app.
    rewrite (C09_roundtrip _ Hw). cbn [fst snd]. rewrite map_app, <- !app_assoc.
    repeat split; reflexivity.
  - rewrite last_two, firstn_len_app, !replay_dir_app, !replay_dir_single.
    rewrite (C10_truncate_exact es n Hes), (C09_roundtrip _ Hes'). cbn [fst snd].
    rewrite <- !app_assoc. repeat split; reflexivity.
Qed.

(* ---------- any damage that the reader notices (cut, flipped byte, garbage) ---------- *)
(* the newest file is ANY byte string whose replay does not end cleanly: nothing is appended
   behind it, the later writes go to a new file and all come back, behind exactly what the
   first recovery delivered; no existing file is altered or discarded *)
Theorem C10_damage_then_writes : forall pre L es',
  snd (replay_file L) <> Clean -> forallb wf_entry es' = true ->
  let files' := reuse_append (pre ++ [L]) (encode_log es') in
  replay_dir files' = replay_dir (pre ++ [L]) ++ map canon es' /\
  firstn (length (pre ++ [L])) files' = pre ++ [L] /\
  snd (replay_file (last files' [])) = Clean.
Proof.
  intros pre L es' Hd Hes'. cbn zeta. rewrite reuse_append_snoc.
  destruct (snd (replay_file L)) eqn:E; try (exfalso; apply Hd; reflexivity); cbn [status_clean];
    rewrite last_two, (app_assoc pre [L] [_]), firstn_len_app,
            (replay_dir_app (pre ++ [L]) [_]), replay_dir_single, (C09_roundtrip _ Hes');
    cbn [fst snd]; repeat split; reflexivity.
Qed.

(* ---------- non-vacuity ---------- *)
Example C10_reuse_sat :
  (* cut inside the second entry: new file; cut on the boundary: same file *)
  length (reuse_append [firstn (N.to_nat 30) (encode_log [ex_small; ex_small])] (encode_log [ex_small])) = 2%nat /\
  length (reuse_append [firstn (N.to_nat 23) (encode_log [ex_small; ex_small])] (encode_log [ex_small])) = 1%nat /\
  snd (replay_file (firstn (N.to_nat 30) (encode_log [ex_small; ex_small]))) = TornTail /\
  length (replay_dir (reuse_append [firstn (N.to_nat 30) (encode_log [ex_small; ex_small])] (encode_log [ex_small]))) = 2%nat.
Proof. vm_compute. repeat split. Qed.
