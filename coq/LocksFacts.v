(* LocksFacts.v — the C07 lemmas about the table generated from the Go source (gen/Locks.v is
   rewritten by gofacts on every run; these two lemmas are recomputed by vm_compute, so a
   removed Lock(), an access outside its lock or a new nesting of locks breaks them).
   They are statements about the TABLE; what ties the table to the code is the translator
   (approximations listed in gofacts/locks.go and in the trusted base of C07). *)
From Coq Require Import List String Bool.
From KV Require Import LockDiscipline LockDisciplineProofs.
From KV.gen Require Import Locks.
From KV.gen Require LockLeaks NilChecks.
Import ListNotations.

Lemma C07_fields_protected : protectedb gen_accesses = true.
Proof. vm_compute. reflexivity. Qed.

Lemma C07_lock_order_acyclic : acyclicb gen_order = true.
Proof. vm_compute. reflexivity. Qed.

(* non-vacuity: the table is not empty, has written locations, and nests locks *)
Example C07_table_nonempty :
  Nat.leb 10 (List.length gen_accesses) = true /\
  existsb a_write gen_accesses = true /\
  Nat.leb 5 (List.length gen_order) = true.
Proof. vm_compute. repeat split; reflexivity. Qed.

(* every trace whose accesses are instances of table rows (with the row's locks held) and that
   respects mutual exclusion is free of data races *)
Theorem C07_conforming_traces_race_free : forall tr,
  wf tr -> conforms gen_accesses tr -> ~ race tr.
Proof.
  intros tr W C. apply (table_no_race gen_accesses); auto.
  apply protectedb_sound. exact C07_fields_protected.
Qed.

(* every state reached by a trace whose nested acquisitions (the blocked ones included) are
   instances of the generated order edges is free of wait-for cycles *)
Theorem C07_ordered_traces_deadlock_free : forall tr pend,
  (forall t l, In (t, l) pend -> forall m, follows gen_order (tr ++ [Acq t l m])%list) ->
  ~ wait_cycle (run [] tr) pend.
Proof.
  intros tr pend F. apply (order_no_deadlock gen_order); auto.
  apply acyclicb_sound. exact C07_lock_order_acyclic.
Qed.

(* Explicit Lock()/Unlock() pairs (gen/LockLeaks.v, gofacts/lockleaks.go): no `return`, and no
   `continue`/`break` out of the loop the lock was taken in, leaves a mutex locked — except the
   reviewed entry: BeginTransaction returns with the isolation lock held ON PURPOSE (the
   transaction owns it until Commit/Rollback; its release is C17's subject). An unlock missed
   on an error path (a `continue` in a worker loop, an early `return`) adds a row and breaks
   this lemma; so does an Unlock reached on a path that has released the mutex already (kind
   "unlock": the runtime aborts the process with "unlock of unlocked mutex"). *)
Definition known_lock_holders : list (string * string * string * string) :=
  [("pkg/transaction", "Manager.BeginTransaction", "m.txLock", "return")]%string.

Definition row_eqb (a b : string * string * string * string) : bool :=
  match a, b with
  | (a1, a2, a3, a4), (b1, b2, b3, b4) =>
      (String.eqb a1 b1 && String.eqb a2 b2 && String.eqb a3 b3 && String.eqb a4 b4)%bool
  end.

Lemma C07_no_lock_left_on_exit :
  forallb (fun r => existsb (row_eqb r) known_lock_holders) LockLeaks.lock_leaks = true.
Proof. vm_compute. reflexivity. Qed.

(* results of look-up functions (nil = "not there") are compared with nil before any other use, in
   every covered package (gen/NilChecks.v, gofacts/nilchecks.go): a nil dereference in a handler or
   a background goroutine is a panic that ends the process *)
Lemma C07_lookups_tested_before_use : NilChecks.nil_unchecked = [].
Proof. vm_compute. reflexivity. Qed.
