(* MemtableProofs.v — C18, sequential part: bcmp is a total order, elt a strict weak order,
   insert keeps the list sorted, find on a built table = latest_version (exported as
   find_build), iteration order, MemTable Get, immutability, iterator snapshot and Seek. *)
From Coq Require Import List NArith Bool Lia ZifyN ZifyBool Sorted Permutation.
From KV Require Import Bytes Memtable.
Import ListNotations.
Open Scope N_scope.

(* ------------------------------------------------------------------------------------- *)
(* A1. bcmp (Go bytes.Compare) is a total order                                           *)
(* ------------------------------------------------------------------------------------- *)

Lemma bcmp_refl : forall a, bcmp a a = Eq.
Proof.
  induction a as [|x a IH]; cbn [bcmp]; [reflexivity|].
  rewrite N.compare_refl. exact IH.
Qed.

Lemma bcmp_eq : forall a b, bcmp a b = Eq -> a = b.
Proof.
  induction a as [|x a IH]; intros [|y b] H; cbn [bcmp] in H; try discriminate; [reflexivity|].
  destruct (N.compare_spec x y) as [E|L|G]; try discriminate.
  subst y. f_equal. apply IH. exact H.
Qed.

Lemma bcmp_eq_iff : forall a b, bcmp a b = Eq <-> a = b.
Proof. intros a b; split; [apply bcmp_eq|intros ->; apply bcmp_refl]. Qed.

Lemma bcmp_antisym : forall a b, bcmp a b = CompOpp (bcmp b a).
Proof.
  induction a as [|x a IH]; intros [|y b]; cbn [bcmp]; try reflexivity.
  rewrite (N.compare_antisym y x). destruct (y ?= x); cbn [CompOpp]; auto.
Qed.

Lemma bcmp_gt_lt : forall a b, bcmp a b = Gt <-> bcmp b a = Lt.
Proof.
  intros a b. rewrite (bcmp_antisym a b). destruct (bcmp b a); cbn [CompOpp]; split; congruence.
Qed.

Lemma bcmp_lt_gt : forall a b, bcmp a b = Lt <-> bcmp b a = Gt.
Proof. intros a b. symmetry. apply bcmp_gt_lt. Qed.

Lemma bcmp_lt_trans : forall a b c, bcmp a b = Lt -> bcmp b c = Lt -> bcmp a c = Lt.
Proof.
  induction a as [|x a IH]; intros [|y b] [|z c] H1 H2; cbn [bcmp] in *;
    try discriminate; try reflexivity.
  destruct (N.compare_spec x y) as [E1|L1|G1]; try discriminate;
  destruct (N.compare_spec y z) as [E2|L2|G2]; try discriminate;
  destruct (N.compare_spec x z) as [E3|L3|G3]; try reflexivity; try lia.
  eapply IH; eauto.
Qed.

Lemma bcmp_lt_irrefl : forall a, bcmp a a = Lt -> False.
Proof. intros a H. rewrite bcmp_refl in H. discriminate. Qed.

Lemma bcmp_lt_asym : forall a b, bcmp a b = Lt -> bcmp b a = Lt -> False.
Proof. intros a b H1 H2. exact (bcmp_lt_irrefl a (bcmp_lt_trans a b a H1 H2)). Qed.

Lemma bcmp_total : forall a b, bcmp a b = Lt \/ a = b \/ bcmp b a = Lt.
Proof.
  intros a b. destruct (bcmp a b) eqn:C.
  - right; left. apply bcmp_eq. exact C.
  - left; reflexivity.
  - right; right. apply bcmp_gt_lt. exact C.
Qed.

Lemma bcmp_gt_trans : forall a b c, bcmp a b = Gt -> bcmp b c = Gt -> bcmp a c = Gt.
Proof.
  intros a b c H1 H2. apply bcmp_gt_lt in H1. apply bcmp_gt_lt in H2. apply bcmp_gt_lt.
  eapply bcmp_lt_trans; eauto.
Qed.

(* the whole statement of A1 in one place *)
Theorem bcmp_total_order :
  (forall a, bcmp a a = Eq) /\
  (forall a b, bcmp a b = Eq -> a = b) /\
  (forall a b, bcmp a b = CompOpp (bcmp b a)) /\
  (forall a b c, bcmp a b = Lt -> bcmp b c = Lt -> bcmp a c = Lt).
Proof.
  split; [exact bcmp_refl|]. split; [exact bcmp_eq|]. split; [exact bcmp_antisym|].
  exact bcmp_lt_trans.
Qed.

Example bcmp_total_order_ex :
  bcmp [1;2;3] [1;2;3] = Eq /\ bcmp [1;2] [1;2;0] = Lt /\ bcmp [1;2;0] [1;2] = Gt /\
  bcmp [1;2;0] [1;3] = Lt /\ bcmp [1;2] [1;3] = Lt /\ bcmp [] [0] = Lt.
Proof. vm_compute. repeat split. Qed.

Lemma beq_true_iff : forall a b, beq a b = true <-> a = b.
Proof.
  intros a b. unfold beq. destruct (bcmp a b) eqn:C.
  - split; [intros _; apply bcmp_eq; exact C|reflexivity].
  - split; [discriminate|intros ->; rewrite bcmp_refl in C; discriminate].
  - split; [discriminate|intros ->; rewrite bcmp_refl in C; discriminate].
Qed.

Lemma beq_false_iff : forall a b, beq a b = false <-> a <> b.
Proof.
  intros a b. rewrite <- beq_true_iff. destruct (beq a b); split; congruence.
Qed.

Lemma beq_refl : forall a, beq a a = true.
Proof. intros a. apply beq_true_iff. reflexivity. Qed.

Lemma beq_sym : forall a b, beq a b = beq b a.
Proof.
  intros a b. destruct (beq b a) eqn:E.
  - apply beq_true_iff in E. apply beq_true_iff. auto.
  - apply beq_false_iff in E. apply beq_false_iff. auto.
Qed.

Lemma blt_true_iff : forall a b, blt a b = true <-> bcmp a b = Lt.
Proof. intros a b. unfold blt. destruct (bcmp a b); split; congruence. Qed.

Lemma blt_false_iff : forall a b, blt a b = false <-> (a = b \/ bcmp b a = Lt).
Proof.
  intros a b. unfold blt. destruct (bcmp a b) eqn:C.
  - split; [intros _; left; apply bcmp_eq; exact C|reflexivity].
  - split; [discriminate|]. intros [->|H].
    + rewrite bcmp_refl in C. discriminate.
    + exfalso. eapply bcmp_lt_asym; eauto.
  - split; [|reflexivity]. intros _. right. apply bcmp_gt_lt. exact C.
Qed.

Lemma blt_irrefl : forall a, blt a a = false.
Proof. intros a. unfold blt. rewrite bcmp_refl. reflexivity. Qed.

Lemma blt_trans : forall a b c, blt a b = true -> blt b c = true -> blt a c = true.
Proof.
  intros a b c H1 H2. apply blt_true_iff in H1. apply blt_true_iff in H2. apply blt_true_iff.
  eapply bcmp_lt_trans; eauto.
Qed.

Lemma blt_asym : forall a b, blt a b = true -> blt b a = false.
Proof.
  intros a b H. apply blt_true_iff in H. apply blt_false_iff. right. exact H.
Qed.

Lemma blt_trichotomy : forall a b, blt a b = true \/ a = b \/ blt b a = true.
Proof.
  intros a b. destruct (bcmp_total a b) as [H|[H|H]].
  - left. apply blt_true_iff. exact H.
  - right; left. exact H.
  - right; right. apply blt_true_iff. exact H.
Qed.

Lemma ble_negb_blt : forall a b, ble a b = negb (blt b a).
Proof.
  intros a b. unfold ble, blt. rewrite (bcmp_antisym b a).
  destruct (bcmp a b); reflexivity.
Qed.

(* ------------------------------------------------------------------------------------- *)
(* A2. elt (compareWithEntry < 0) is a strict weak order; insert keeps sortedness         *)
(* ------------------------------------------------------------------------------------- *)

Lemma elt_true_iff : forall a b,
  elt a b = true <-> (bcmp (mk a) (mk b) = Lt \/ (mk a = mk b /\ mseq b < mseq a)).
Proof.
  intros a b. unfold elt. destruct (bcmp (mk a) (mk b)) eqn:C.
  - apply bcmp_eq in C. rewrite N.ltb_lt. split.
    + intros H. right. split; assumption.
    + intros [H|[_ H]]; [discriminate|exact H].
  - split; [intros _; left; reflexivity|reflexivity].
  - split; [discriminate|]. intros [H|[H _]]; [discriminate|].
    rewrite H, bcmp_refl in C. discriminate.
Qed.

Lemma elt_false_iff : forall a b,
  elt a b = false <-> (bcmp (mk b) (mk a) = Lt \/ (mk a = mk b /\ mseq a <= mseq b)).
Proof.
  intros a b. unfold elt. destruct (bcmp (mk a) (mk b)) eqn:C.
  - apply bcmp_eq in C. rewrite N.ltb_ge. split.
    + intros H. right. split; assumption.
    + intros [H|[_ H]]; [|exact H]. rewrite C, bcmp_refl in H. discriminate.
  - split; [discriminate|]. intros [H|[H _]].
    + exfalso. eapply bcmp_lt_asym; eauto.
    + rewrite H, bcmp_refl in C. discriminate.
  - split; [|reflexivity]. intros _. left. apply bcmp_gt_lt. exact C.
Qed.

(* a <= b in the list order: b is not strictly before a *)
Definition ele (a b : mentry) : Prop := elt b a = false.

Lemma ele_iff : forall a b,
  ele a b <-> (bcmp (mk a) (mk b) = Lt \/ (mk a = mk b /\ mseq b <= mseq a)).
Proof.
  intros a b. unfold ele. rewrite elt_false_iff. split; intros [H|[H1 H2]]; auto.
Qed.

Ltac elt_prep :=
  repeat match goal with
  | H : ele _ _ |- _ => unfold ele in H
  | H : elt _ _ = true |- _ => apply elt_true_iff in H; destruct H as [H|[? H]]
  | H : elt _ _ = false |- _ => apply elt_false_iff in H; destruct H as [H|[? H]]
  end;
  repeat match goal with
  | H : mk ?a = mk ?b |- _ => first [rewrite H in * | rewrite <- H in * ]; clear H
  end.

Ltac elt_fin :=
  first
  [ left; solve [eauto using bcmp_lt_trans]
  | right; split; [reflexivity|lia]
  | exfalso; solve [eauto 6 using bcmp_lt_irrefl, bcmp_lt_trans] ].

Lemma elt_irrefl : forall a, elt a a = false.
Proof. intros a. unfold elt. rewrite bcmp_refl. apply N.ltb_irrefl. Qed.

Lemma elt_trans : forall a b c, elt a b = true -> elt b c = true -> elt a c = true.
Proof. intros a b c H1 H2. apply elt_true_iff. elt_prep; elt_fin. Qed.

Lemma elt_asym : forall a b, elt a b = true -> elt b a = false.
Proof. intros a b H1. apply elt_false_iff. elt_prep; elt_fin. Qed.

(* transitivity of <= (equivalently: incomparability is transitive, negative transitivity) *)
Lemma ele_trans : forall a b c, ele a b -> ele b c -> ele a c.
Proof. intros a b c H1 H2. unfold ele. apply elt_false_iff. elt_prep; elt_fin. Qed.

Lemma ele_refl : forall a, ele a a.
Proof. intros a. apply elt_irrefl. Qed.

Lemma elt_ele_trans : forall a b c, elt a b = true -> ele b c -> elt a c = true.
Proof. intros a b c H1 H2. apply elt_true_iff. elt_prep; elt_fin. Qed.

Lemma ele_elt_trans : forall a b c, ele a b -> elt b c = true -> elt a c = true.
Proof. intros a b c H1 H2. apply elt_true_iff. elt_prep; elt_fin. Qed.

Lemma ele_total : forall a b, ele a b \/ ele b a.
Proof.
  intros a b. unfold ele. destruct (elt b a) eqn:E; [right|left; reflexivity].
  apply elt_asym. exact E.
Qed.

(* the equivalence induced by the order: same key and same sequence number *)
Lemma ele_antisym : forall a b, ele a b -> ele b a -> mk a = mk b /\ mseq a = mseq b.
Proof.
  intros a b H1 H2. unfold ele in *.
  apply elt_false_iff in H1. apply elt_false_iff in H2.
  destruct H1 as [H1|[K1 S1]]; destruct H2 as [H2|[K2 S2]].
  - exfalso. eapply bcmp_lt_asym; eauto.
  - rewrite K2 in H1. exfalso. eapply bcmp_lt_irrefl; eauto.
  - rewrite K1 in H2. exfalso. eapply bcmp_lt_irrefl; eauto.
  - split; [auto|lia].
Qed.

Theorem elt_strict_weak_order :
  (forall a, elt a a = false) /\
  (forall a b c, elt a b = true -> elt b c = true -> elt a c = true) /\
  (forall a b c, elt a b = false -> elt b a = false -> elt b c = false -> elt c b = false ->
                 elt a c = false /\ elt c a = false) /\
  (forall a b, elt a b = false -> elt b a = false -> mk a = mk b /\ mseq a = mseq b).
Proof.
  split; [exact elt_irrefl|]. split; [exact elt_trans|]. split.
  - intros a b c H1 H2 H3 H4. split.
    + exact (ele_trans c b a H3 H1).
    + exact (ele_trans a b c H2 H4).
  - intros a b H1 H2. apply ele_antisym; assumption.
Qed.

Example elt_ex :
  elt (mkM [1] 5 KVal []) (mkM [1] 3 KDel []) = true /\
  elt (mkM [1] 3 KVal []) (mkM [1] 3 KDel [7]) = false /\
  elt (mkM [1] 0 KVal []) (mkM [1;0] 9 KVal []) = true /\
  elt (mkM [2] 9 KVal []) (mkM [1;0] 0 KVal []) = false.
Proof. vm_compute. repeat split. Qed.

#[global] Instance ele_Transitive : RelationClasses.Transitive ele.
Proof. intros a b c. apply ele_trans. Qed.

Definition sorted (l : list mentry) : Prop := Sorted ele l.

Lemma sorted_strong : forall l, sorted l <-> StronglySorted ele l.
Proof.
  intros l. split.
  - apply Sorted_StronglySorted. exact ele_Transitive.
  - apply StronglySorted_Sorted.
Qed.

Lemma sorted_cons_inv : forall x l, sorted (x :: l) -> sorted l /\ Forall (ele x) l.
Proof.
  intros x l H. apply sorted_strong in H. inversion H as [|a b Hs Hf]; subst.
  split; [apply sorted_strong; exact Hs|exact Hf].
Qed.

Lemma insert_hdrel : forall a e l, HdRel ele a l -> ele a e -> HdRel ele a (insert e l).
Proof.
  intros a e [|x r] Hh He; cbn [insert].
  - constructor. exact He.
  - destruct (elt x e); constructor; [|exact He]. inversion Hh; assumption.
Qed.

Theorem insert_sorted : forall e l, sorted l -> sorted (insert e l).
Proof.
  intros e l Hs. unfold sorted in *.
  induction Hs as [|x r Hs IH Hh]; cbn [insert].
  - constructor; constructor.
  - destruct (elt x e) eqn:E.
    + constructor; [exact IH|]. apply insert_hdrel; [exact Hh|].
      unfold ele. apply elt_asym. exact E.
    + constructor; [constructor; assumption|]. constructor. exact E.
Qed.

Theorem insert_perm : forall e l, Permutation (insert e l) (e :: l).
Proof.
  intros e l. induction l as [|x r IH]; cbn [insert]; [apply Permutation_refl|].
  destruct (elt x e).
  - eapply perm_trans; [apply perm_skip; exact IH|apply perm_swap].
  - apply Permutation_refl.
Qed.

Lemma insert_in : forall e x l, In x (insert e l) <-> x = e \/ In x l.
Proof.
  intros e x l. split.
  - intros H. apply (Permutation_in _ (insert_perm e l)) in H. destruct H; auto.
  - intros H. apply (Permutation_in _ (Permutation_sym (insert_perm e l))).
    destruct H; [left; auto|right; auto].
Qed.

Lemma insert_length : forall e l, length (insert e l) = S (length l).
Proof. intros e l. exact (Permutation_length (insert_perm e l)). Qed.

Example insert_sorted_ex :
  insert (mkM [2] 7 KDel []) [mkM [1] 4 KVal [9]; mkM [2] 9 KVal [1]; mkM [2] 7 KVal [2]; mkM [3] 1 KVal []]
  = [mkM [1] 4 KVal [9]; mkM [2] 9 KVal [1]; mkM [2] 7 KDel []; mkM [2] 7 KVal [2]; mkM [3] 1 KVal []].
Proof. vm_compute. reflexivity. Qed.

(* ------------------------------------------------------------------------------------- *)
(* A3. find on a built table = latest_version                                             *)
(* ------------------------------------------------------------------------------------- *)

(* the table after inserting es (oldest first) into the empty skip list *)
Definition build_from (l0 : list mentry) (es : list mentry) : list mentry :=
  fold_left (fun l e => insert e l) es l0.
Definition build (es : list mentry) : list mentry := build_from [] es.

(* specification: among the entries of es with key k the one with the greatest sequence
   number; among several with that greatest number the one inserted last. Written as a
   left-to-right scan: a later entry replaces the candidate unless its number is smaller. *)
Definition pick (k : bytes) (acc : option mentry) (e : mentry) : option mentry :=
  if beq (mk e) k then
    match acc with
    | None => Some e
    | Some c => if mseq e <? mseq c then Some c else Some e
    end
  else acc.

Definition latest_version (k : bytes) (es : list mentry) : option mentry :=
  fold_left (pick k) es None.

Lemma latest_version_snoc : forall k es e,
  latest_version k (es ++ [e]) = pick k (latest_version k es) e.
Proof. intros k es e. unfold latest_version. rewrite fold_left_app. reflexivity. Qed.

(* declarative reading of latest_version: a position in es, nothing with key k before it
   has a larger number, everything with key k after it has a strictly smaller one *)
Definition is_latest (k : bytes) (es : list mentry) (e : mentry) : Prop :=
  exists l1 l2, es = l1 ++ e :: l2 /\ mk e = k /\
    (forall x, In x l1 -> mk x = k -> mseq x <= mseq e) /\
    (forall x, In x l2 -> mk x = k -> mseq x < mseq e).

Lemma latest_version_spec : forall k es,
  match latest_version k es with
  | None => forall x, In x es -> mk x <> k
  | Some e => is_latest k es e
  end.
Proof.
  intros k es. induction es as [|e es IH] using rev_ind.
  - cbn. intros x [].
  - rewrite latest_version_snoc. unfold pick.
    destruct (beq (mk e) k) eqn:B.
    + apply beq_true_iff in B.
      destruct (latest_version k es) as [c|].
      * destruct IH as (l1 & l2 & Hes & Hk & Hb & Ha).
        destruct (mseq e <? mseq c) eqn:L.
        -- apply N.ltb_lt in L. exists l1, (l2 ++ [e]). split; [|split; [exact Hk|split; [exact Hb|]]].
           ++ rewrite Hes, <- app_assoc. reflexivity.
           ++ intros x Hx Kx. apply in_app_or in Hx. destruct Hx as [Hx|[Hx|[]]]; [auto|].
              subst x. exact L.
        -- apply N.ltb_ge in L. exists es, []. split; [reflexivity|split; [exact B|split]].
           ++ intros x Hx Kx. rewrite Hes in Hx. apply in_app_or in Hx.
              destruct Hx as [Hx|[Hx|Hx]].
              ** specialize (Hb x Hx Kx). lia.
              ** subst x. exact L.
              ** specialize (Ha x Hx Kx). lia.
           ++ intros x [].
      * exists es, []. split; [reflexivity|split; [exact B|split]].
        -- intros x Hx Kx. exfalso. exact (IH x Hx Kx).
        -- intros x [].
    + apply beq_false_iff in B. destruct (latest_version k es) as [c|].
      * destruct IH as (l1 & l2 & Hes & Hk & Hb & Ha).
        exists l1, (l2 ++ [e]). split; [|split; [exact Hk|split; [exact Hb|]]].
        -- rewrite Hes, <- app_assoc. reflexivity.
        -- intros x Hx Kx. apply in_app_or in Hx. destruct Hx as [Hx|[Hx|[]]]; [auto|].
           subst x. contradiction.
      * intros x Hx. apply in_app_or in Hx. destruct Hx as [Hx|[Hx|[]]]; [auto|].
        subst x. exact B.
Qed.

(* is_latest determines the entry and its position *)
Lemma is_latest_unique : forall k es e e', is_latest k es e -> is_latest k es e' -> e = e'.
Proof.
  intros k es e e' (l1 & l2 & H1 & K1 & B1 & A1) (l1' & l2' & H2 & K2 & B2 & A2).
  subst es.
  assert (Hcase : forall (a b : list mentry) x y c d, a ++ x :: b = c ++ y :: d ->
            (a = c /\ x = y /\ b = d) \/ (exists m, c = a ++ x :: m /\ b = m ++ y :: d) \/
            (exists m, a = c ++ y :: m /\ d = m ++ x :: b)).
  { clear. induction a as [|a0 a IH]; intros b x y c d H.
    - destruct c as [|c0 c]; cbn in H.
      + injection H as E1 E2. subst. left. auto.
      + injection H as E1 E2. subst. right; left. exists c. auto.
    - destruct c as [|c0 c]; cbn in H.
      + injection H as E1 E2. subst. right; right. exists a. auto.
      + injection H as E1 H. subst c0. destruct (IH _ _ _ _ _ H) as [(-> & -> & ->)|[(m & -> & ->)|(m & -> & ->)]].
        * left. auto.
        * right; left. exists m. auto.
        * right; right. exists m. auto. }
  destruct (Hcase _ _ _ _ _ _ H2) as [(_ & E & _)|[(m & -> & ->)|(m & -> & ->)]].
  - exact E.
  - (* e' lies after e *)
    assert (Ha : mseq e' < mseq e) by (apply A1; [apply in_or_app; right; left; reflexivity|exact K2]).
    assert (Hb : mseq e <= mseq e') by (apply B2; [apply in_or_app; right; left; reflexivity|exact K1]).
    lia.
  - assert (Ha : mseq e < mseq e') by (apply A2; [apply in_or_app; right; left; reflexivity|exact K1]).
    assert (Hb : mseq e' <= mseq e) by (apply B1; [apply in_or_app; right; left; reflexivity|exact K2]).
    lia.
Qed.

Theorem latest_version_some_iff : forall k es e,
  latest_version k es = Some e <-> is_latest k es e.
Proof.
  intros k es e. pose proof (latest_version_spec k es) as S. split.
  - intros H. rewrite H in S. exact S.
  - intros H. destruct (latest_version k es) as [c|].
    + f_equal. eapply is_latest_unique; eauto.
    + destruct H as (l1 & l2 & -> & K & _). exfalso.
      apply (S e); [apply in_or_app; right; left; reflexivity|exact K].
Qed.

Theorem latest_version_none_iff : forall k es,
  latest_version k es = None <-> (forall x, In x es -> mk x <> k).
Proof.
  intros k es. pose proof (latest_version_spec k es) as S. split.
  - intros H. rewrite H in S. exact S.
  - intros H. destruct (latest_version k es) as [c|]; [|reflexivity].
    destruct S as (l1 & l2 & -> & K & _). exfalso.
    apply (H c); [apply in_or_app; right; left; reflexivity|exact K].
Qed.

(* first entry with key k *)
Fixpoint first_key (k : bytes) (l : list mentry) : option mentry :=
  match l with
  | [] => None
  | x :: r => if beq (mk x) k then Some x else first_key k r
  end.

Lemma best_of_run_head : forall k x r,
  mk x = k -> Forall (ele x) r -> best_of_run k x r = x.
Proof.
  intros k x r Kx. induction r as [|y r IH]; intros Hf; cbn [best_of_run]; [reflexivity|].
  inversion Hf as [|a b Hy Hr]; subst a b.
  destruct (beq (mk y) k) eqn:B; [|reflexivity].
  apply beq_true_iff in B.
  assert (L : mseq x <? mseq y = false).
  { apply N.ltb_ge. apply ele_iff in Hy. destruct Hy as [Hy|[_ Hy]]; [|exact Hy].
    rewrite Kx, B in Hy. exfalso. eapply bcmp_lt_irrefl; eauto. }
  rewrite L. apply IH. exact Hr.
Qed.

Lemma first_key_none_gt : forall k x r,
  bcmp (mk x) k = Gt -> Forall (ele x) r -> first_key k r = None.
Proof.
  intros k x r G. apply bcmp_gt_lt in G. induction r as [|y r IH]; intros Hf; [reflexivity|].
  inversion Hf as [|a b Hy Hr]; subst a b. cbn [first_key].
  destruct (beq (mk y) k) eqn:B; [|apply IH; exact Hr].
  apply beq_true_iff in B. apply ele_iff in Hy. exfalso. destruct Hy as [Hy|[Hy _]].
  - rewrite B in Hy. eapply bcmp_lt_asym; eauto.
  - rewrite Hy, B in G. eapply bcmp_lt_irrefl; eauto.
Qed.

(* on a sorted list SkipList.Find returns the first entry carrying the key *)
Lemma find_sorted : forall k l, sorted l -> find k l = first_key k l.
Proof.
  intros k l. induction l as [|x r IH]; intros Hs; [reflexivity|].
  apply sorted_cons_inv in Hs. destruct Hs as [Hs Hf].
  cbn [find first_key]. unfold beq. destruct (bcmp (mk x) k) eqn:C.
  - f_equal. apply best_of_run_head; [apply bcmp_eq; exact C|exact Hf].
  - apply IH. exact Hs.
  - symmetry. eapply first_key_none_gt; eauto.
Qed.

Lemma first_key_insert : forall k e l, sorted l ->
  first_key k (insert e l) = pick k (first_key k l) e.
Proof.
  intros k e l. unfold pick. destruct (beq (mk e) k) eqn:Be.
  - apply beq_true_iff in Be. induction l as [|x r IH]; intros Hs.
    + cbn [insert first_key]. rewrite Be, beq_refl. reflexivity.
    + apply sorted_cons_inv in Hs. destruct Hs as [Hs Hf].
      cbn [insert]. destruct (elt x e) eqn:E.
      * cbn [first_key]. destruct (beq (mk x) k) eqn:Bx.
        -- apply beq_true_iff in Bx. apply elt_true_iff in E. destruct E as [E|[_ E]].
           ++ rewrite Bx, Be in E. exfalso. eapply bcmp_lt_irrefl; eauto.
           ++ apply N.ltb_lt in E. rewrite E. reflexivity.
        -- apply IH. exact Hs.
      * cbn [first_key]. rewrite Be, beq_refl.
        destruct (beq (mk x) k) eqn:Bx.
        -- apply beq_true_iff in Bx. apply elt_false_iff in E. destruct E as [E|[_ E]].
           ++ rewrite Bx, Be in E. exfalso. eapply bcmp_lt_irrefl; eauto.
           ++ apply N.ltb_ge in E. rewrite E. reflexivity.
        -- destruct (first_key k r) as [c|] eqn:F; [|reflexivity].
           assert (Hc : In c r /\ mk c = k).
           { clear -F. induction r as [|y r IH]; [discriminate|]. cbn [first_key] in F.
             destruct (beq (mk y) k) eqn:By.
             - injection F as ->. apply beq_true_iff in By. split; [left; reflexivity|exact By].
             - destruct (IH F) as [H1 H2]. split; [right; exact H1|exact H2]. }
           destruct Hc as [Hin Kc].
           assert (Hxc : ele x c) by (rewrite Forall_forall in Hf; apply Hf; exact Hin).
           assert (Hec : ele e c) by (eapply ele_trans; [exact E|exact Hxc]).
           apply ele_iff in Hec. destruct Hec as [Hec|[_ Hec]].
           ++ rewrite Be, Kc in Hec. exfalso. eapply bcmp_lt_irrefl; eauto.
           ++ apply N.ltb_ge in Hec. rewrite Hec. reflexivity.
  - intros _. induction l as [|x r IH].
    + cbn [insert first_key]. rewrite Be. reflexivity.
    + cbn [insert]. destruct (elt x e); cbn [first_key].
      * rewrite IH. reflexivity.
      * rewrite Be. reflexivity.
Qed.

Lemma build_from_snoc : forall l0 es e, build_from l0 (es ++ [e]) = insert e (build_from l0 es).
Proof. intros l0 es e. unfold build_from. rewrite fold_left_app. reflexivity. Qed.

Lemma build_snoc : forall es e, build (es ++ [e]) = insert e (build es).
Proof. intros es e. apply build_from_snoc. Qed.

Lemma build_from_sorted : forall es l0, sorted l0 -> sorted (build_from l0 es).
Proof.
  intros es. induction es as [|e es IH]; intros l0 Hs; [exact Hs|].
  cbn [build_from fold_left]. apply IH. apply insert_sorted. exact Hs.
Qed.

Lemma build_sorted : forall es, sorted (build es).
Proof. intros es. apply build_from_sorted. constructor. Qed.

Lemma first_key_build : forall k es, first_key k (build es) = latest_version k es.
Proof.
  intros k es. induction es as [|e es IH] using rev_ind; [reflexivity|].
  rewrite build_snoc, latest_version_snoc, first_key_insert by apply build_sorted.
  rewrite IH. reflexivity.
Qed.

(* the key lemma (also needed by EngineProofs.v) *)
Theorem find_build : forall es k, find k (build es) = latest_version k es.
Proof.
  intros es k. rewrite find_sorted by apply build_sorted. apply first_key_build.
Qed.

Definition C18_find := find_build.

(* non-monotone and repeated sequence numbers: key [1] gets 5, 9, 9, 2 — the second 9 wins *)
Example find_build_ex :
  let es := [mkM [1] 5 KVal [50]; mkM [2] 7 KVal [70]; mkM [1] 9 KVal [90]; mkM [1] 9 KDel [];
             mkM [0] 3 KVal [30]; mkM [1] 2 KVal [20]] in
  find [1] (build es) = Some (mkM [1] 9 KDel []) /\
  latest_version [1] es = Some (mkM [1] 9 KDel []) /\
  find [2] (build es) = Some (mkM [2] 7 KVal [70]) /\
  find [3] (build es) = None /\ latest_version [3] es = None.
Proof. vm_compute. repeat split. Qed.

(* ------------------------------------------------------------------------------------- *)
(* A4. iteration order: sorted, a permutation, stable (later insert first on ties)        *)
(* ------------------------------------------------------------------------------------- *)

(* the textbook stable insertion sort: x goes before the first y with not (y < x) *)
Definition isort (l : list mentry) : list mentry := fold_right insert [] l.

Lemma build_isort : forall es, build es = isort (rev es).
Proof.
  intros es. unfold build, build_from, isort. symmetry.
  exact (fold_left_rev_right insert es []).
Qed.

(* x has the same key and sequence number as c *)
Definition eqv (c x : mentry) : bool := beq (mk x) (mk c) && (mseq x =? mseq c).

Lemma eqv_true_iff : forall c x, eqv c x = true <-> (mk x = mk c /\ mseq x = mseq c).
Proof.
  intros c x. unfold eqv. rewrite andb_true_iff, beq_true_iff, N.eqb_eq. reflexivity.
Qed.

Lemma eqv_refl : forall c, eqv c c = true.
Proof. intros c. apply eqv_true_iff. split; reflexivity. Qed.

Lemma filter_eqv_insert : forall c e l,
  filter (eqv c) (insert e l) = if eqv c e then e :: filter (eqv c) l else filter (eqv c) l.
Proof.
  intros c e l. induction l as [|x r IH]; cbn [insert].
  - cbn [filter]. destruct (eqv c e); reflexivity.
  - destruct (elt x e) eqn:E.
    + cbn [filter]. rewrite IH. destruct (eqv c x) eqn:X; destruct (eqv c e) eqn:Y; try reflexivity.
      exfalso. apply eqv_true_iff in X. apply eqv_true_iff in Y.
      destruct X as [X1 X2]; destruct Y as [Y1 Y2].
      assert (F : elt x e = false).
      { apply elt_false_iff. right. split; [congruence|lia]. }
      congruence.
    + cbn [filter]. destruct (eqv c e); reflexivity.
Qed.

Lemma filter_eqv_build_from : forall c es l0,
  filter (eqv c) (build_from l0 es) = rev (filter (eqv c) es) ++ filter (eqv c) l0.
Proof.
  intros c es. induction es as [|e es IH]; intros l0; [reflexivity|].
  change (build_from l0 (e :: es)) with (build_from (insert e l0) es).
  rewrite IH, filter_eqv_insert. cbn [filter]. destruct (eqv c e); [|reflexivity].
  cbn [rev]. rewrite <- app_assoc. reflexivity.
Qed.

Lemma build_from_perm : forall es l0, Permutation (build_from l0 es) (es ++ l0).
Proof.
  intros es. induction es as [|e es IH]; intros l0; [apply Permutation_refl|].
  change (build_from l0 (e :: es)) with (build_from (insert e l0) es).
  eapply perm_trans; [apply IH|].
  eapply perm_trans; [apply Permutation_app_head; apply insert_perm|].
  apply Permutation_sym. apply Permutation_middle.
Qed.

Lemma build_perm : forall es, Permutation (build es) es.
Proof.
  intros es. pose proof (build_from_perm es []) as H. rewrite app_nil_r in H. exact H.
Qed.

Lemma build_in : forall es x, In x (build es) <-> In x es.
Proof.
  intros es x. split; apply Permutation_in; [|apply Permutation_sym]; apply build_perm.
Qed.

(* a sorted list is determined by its classes of equal (key, seq) in order *)
Theorem sorted_stable_unique : forall l1 l2,
  sorted l1 -> sorted l2 ->
  (forall c, filter (eqv c) l1 = filter (eqv c) l2) -> l1 = l2.
Proof.
  induction l1 as [|a r1 IH]; intros [|b r2] S1 S2 H.
  - reflexivity.
  - specialize (H b). cbn [filter] in H. rewrite eqv_refl in H. discriminate.
  - specialize (H a). cbn [filter] in H. rewrite eqv_refl in H. discriminate.
  - apply sorted_cons_inv in S1. destruct S1 as [S1 F1].
    apply sorted_cons_inv in S2. destruct S2 as [S2 F2].
    assert (Hba : ele b a).
    { pose proof (H a) as Ha. cbn [filter] in Ha. rewrite eqv_refl in Ha.
      assert (I : In a (b :: filter (eqv a) r2)).
      { destruct (eqv a b); [rewrite <- Ha; left; reflexivity|right; rewrite <- Ha; left; reflexivity]. }
      destruct I as [I|I]; [subst; apply ele_refl|].
      apply filter_In in I. rewrite Forall_forall in F2. apply F2. apply I. }
    assert (Hab : ele a b).
    { pose proof (H b) as Hb. cbn [filter] in Hb. rewrite eqv_refl in Hb.
      assert (I : In b (a :: filter (eqv b) r1)).
      { destruct (eqv b a); [rewrite Hb; left; reflexivity|right; rewrite Hb; left; reflexivity]. }
      destruct I as [I|I]; [subst; apply ele_refl|].
      apply filter_In in I. rewrite Forall_forall in F1. apply F1. apply I. }
    assert (E : a = b).
    { destruct (ele_antisym a b Hab Hba) as [K Sq].
      pose proof (H a) as Ha. cbn [filter] in Ha. rewrite eqv_refl in Ha.
      assert (X : eqv a b = true) by (apply eqv_true_iff; split; congruence).
      rewrite X in Ha. congruence. }
    subst b. f_equal. apply IH; [exact S1|exact S2|].
    intros c. specialize (H c). cbn [filter] in H. destruct (eqv c a); congruence.
Qed.

Theorem C18_iter : forall es,
  sorted (build es) /\
  Permutation (build es) es /\
  (forall c, filter (eqv c) (build es) = rev (filter (eqv c) es)) /\
  build es = isort (rev es).
Proof.
  intros es. split; [apply build_sorted|]. split; [apply build_perm|]. split; [|apply build_isort].
  intros c. unfold build. rewrite filter_eqv_build_from. cbn [filter]. apply app_nil_r.
Qed.

(* the three conditions pin the list down: nothing else is sorted and stable *)
Theorem C18_iter_unique : forall es l,
  sorted l -> (forall c, filter (eqv c) l = rev (filter (eqv c) es)) -> l = build es.
Proof.
  intros es l Hs Hf. apply sorted_stable_unique; [exact Hs|apply build_sorted|].
  intros c. rewrite Hf. symmetry. apply C18_iter.
Qed.

(* reading of `sorted` on adjacent entries: key ascending, within a key newer first *)
Lemma sorted_adjacent : forall l1 x y l2, sorted (l1 ++ x :: y :: l2) ->
  bcmp (mk x) (mk y) = Lt \/ (mk x = mk y /\ mseq y <= mseq x).
Proof.
  intros l1 x y l2 H. apply ele_iff. induction l1 as [|a l1 IH].
  - cbn [app] in H. inversion H as [|? ? _ Hh]; subst. inversion Hh; assumption.
  - apply IH. cbn [app] in H. inversion H; assumption.
Qed.

Example C18_iter_ex :
  build [mkM [2] 7 KVal [1]; mkM [1] 4 KVal [9]; mkM [2] 9 KVal [2]; mkM [2] 7 KDel []; mkM [1] 4 KVal [8]]
  = [mkM [1] 4 KVal [8]; mkM [1] 4 KVal [9]; mkM [2] 9 KVal [2]; mkM [2] 7 KDel []; mkM [2] 7 KVal [1]].
Proof. vm_compute. reflexivity. Qed.

(* ------------------------------------------------------------------------------------- *)
(* A5/A6. MemTable: Get after any Put/Delete sequence; immutable tables never change      *)
(* ------------------------------------------------------------------------------------- *)

Inductive mop := OPut (k v : bytes) (s : N) | ODel (k : bytes) (s : N) | OSetImm.

Definition mt_step (m : memtable) (o : mop) : memtable :=
  match o with
  | OPut k v s => mt_put m k v s
  | ODel k s => mt_del m k s
  | OSetImm => mt_set_imm m
  end.

Definition mt_run (m : memtable) (ops : list mop) : memtable := fold_left mt_step ops m.

(* the entries that take effect: those before the first SetImmutable *)
Fixpoint live_entries (ops : list mop) : list mentry :=
  match ops with
  | [] => []
  | OPut k v s :: r => mkM k s KVal v :: live_entries r
  | ODel k s :: r => mkM k s KDel [] :: live_entries r
  | OSetImm :: _ => []
  end.

Definition get_of (o : option mentry) : option (option bytes) :=
  match o with
  | None => None
  | Some e => Some (match mkind e with KDel => None | KVal => Some (mval e) end)
  end.

Lemma mt_add_imm : forall m e, mt_imm m = true -> mt_add m e = m.
Proof. intros m e H. unfold mt_add. rewrite H. reflexivity. Qed.

Lemma mt_set_imm_imm : forall m, mt_imm m = true -> mt_set_imm m = m.
Proof. intros [es sz nx im] H. cbn in H. subst im. reflexivity. Qed.

Lemma mt_step_imm : forall m o, mt_imm m = true -> mt_step m o = m.
Proof.
  intros m [k v s|k s|] H; cbn [mt_step]; unfold mt_put, mt_del;
    [apply mt_add_imm|apply mt_add_imm|apply mt_set_imm_imm]; exact H.
Qed.

Lemma mt_run_imm : forall ops m, mt_imm m = true -> mt_run m ops = m.
Proof.
  induction ops as [|o ops IH]; intros m H; [reflexivity|].
  cbn [mt_run fold_left]. rewrite mt_step_imm by exact H. apply IH. exact H.
Qed.

Theorem C18_immutable :
  (forall m e, mt_imm m = true -> mt_add m e = m) /\
  (forall m ops, mt_run (mt_set_imm m) ops = mt_set_imm m) /\
  (forall m ops k, mt_get (mt_run (mt_set_imm m) ops) k = mt_get m k) /\
  (forall m ops, mt_entries (mt_run (mt_set_imm m) ops) = mt_entries m).
Proof.
  assert (R : forall m ops, mt_run (mt_set_imm m) ops = mt_set_imm m)
    by (intros m ops; apply mt_run_imm; reflexivity).
  split; [exact mt_add_imm|]. split; [exact R|]. split.
  - intros m ops k. rewrite R. reflexivity.
  - intros m ops. rewrite R. reflexivity.
Qed.

Example C18_immutable_ex :
  let m := mt_run mt_empty [OPut [1] [10] 1; OSetImm] in
  mt_run m [OPut [1] [11] 2; ODel [1] 3; OPut [2] [20] 4] = m /\ mt_get m [1] = Some (Some [10]).
Proof. vm_compute. split; reflexivity. Qed.

Lemma mt_add_mutable : forall m e, mt_imm m = false ->
  mt_entries (mt_add m e) = insert e (mt_entries m) /\ mt_imm (mt_add m e) = false.
Proof. intros m e H. unfold mt_add. rewrite H. split; reflexivity. Qed.

Lemma mt_run_entries : forall ops m, mt_imm m = false ->
  mt_entries (mt_run m ops) = build_from (mt_entries m) (live_entries ops).
Proof.
  induction ops as [|o ops IH]; intros m H; [reflexivity|].
  cbn [mt_run fold_left]. fold (mt_run (mt_step m o) ops).
  destruct o as [k v s|k s|]; cbn [mt_step live_entries].
  - unfold mt_put. destruct (mt_add_mutable m (mkM k s KVal v) H) as [E I].
    rewrite IH by exact I. rewrite E. reflexivity.
  - unfold mt_del. destruct (mt_add_mutable m (mkM k s KDel []) H) as [E I].
    rewrite IH by exact I. rewrite E. reflexivity.
  - rewrite mt_run_imm by reflexivity. reflexivity.
Qed.

Lemma mt_run_empty_entries : forall ops,
  mt_entries (mt_run mt_empty ops) = build (live_entries ops).
Proof. intros ops. apply (mt_run_entries ops mt_empty). reflexivity. Qed.

Theorem C18_get : forall ops k,
  mt_get (mt_run mt_empty ops) k = get_of (latest_version k (live_entries ops)).
Proof.
  intros ops k. unfold mt_get. rewrite mt_run_empty_entries, find_build. reflexivity.
Qed.

(* the three outcomes spelled out *)
Corollary C18_get_cases : forall ops k,
  match latest_version k (live_entries ops) with
  | None => mt_get (mt_run mt_empty ops) k = None
  | Some e => match mkind e with
              | KVal => mt_get (mt_run mt_empty ops) k = Some (Some (mval e))
              | KDel => mt_get (mt_run mt_empty ops) k = Some None
              end
  end.
Proof.
  intros ops k. rewrite C18_get. destruct (latest_version k (live_entries ops)) as [e|]; [|reflexivity].
  cbn [get_of]. destruct (mkind e); reflexivity.
Qed.

Example C18_get_ex :
  let ops := [OPut [1] [10] 5; OPut [2] [20] 6; ODel [1] 9; OPut [1] [11] 7; OPut [3] [30] 2;
              ODel [3] 2; OPut [4] [40] 3; OPut [4] [] 3] in
  mt_get (mt_run mt_empty ops) [1] = Some None /\
  mt_get (mt_run mt_empty ops) [2] = Some (Some [20]) /\
  mt_get (mt_run mt_empty ops) [3] = Some None /\
  mt_get (mt_run mt_empty ops) [4] = Some (Some []) /\
  mt_get (mt_run mt_empty ops) [5] = None.
Proof. vm_compute. repeat split. Qed.

(* ------------------------------------------------------------------------------------- *)
(* A7. iterator: the snapshot of a table's own iterator hides nothing; Seek               *)
(* ------------------------------------------------------------------------------------- *)

Definition seq_inv (m : memtable) : Prop :=
  Forall (fun e => mseq e <= mt_next m) (mt_entries m).

(* nextSeqNum is a uint64 and seqNum+1 wraps at 2^64-1; the WAL never hands out that number *)
Definition seq_ok (e : mentry) : Prop := mseq e < 2^64 - 1.

Lemma mt_add_seq_inv : forall m e, seq_ok e -> seq_inv m -> seq_inv (mt_add m e).
Proof.
  intros m e B H. unfold mt_add. destruct (mt_imm m); [exact H|].
  unfold seq_inv, seq_ok in *. cbn [mt_entries mt_next]. rewrite Forall_forall in *.
  assert (W : (mseq e + 1) mod 2^64 = mseq e + 1).
  { apply N.mod_small. change (2^64) with 18446744073709551616 in *. lia. }
  intros x Hx. apply insert_in in Hx.
  destruct (mt_next m <? mseq e) eqn:L.
  - rewrite W. apply N.ltb_lt in L. destruct Hx as [->|Hx]; [lia|]. specialize (H x Hx). lia.
  - apply N.ltb_ge in L. destruct Hx as [->|Hx]; [exact L|]. exact (H x Hx).
Qed.

Lemma mt_run_seq_inv : forall ops m,
  Forall seq_ok (live_entries ops) -> seq_inv m -> seq_inv (mt_run m ops).
Proof.
  induction ops as [|o ops IH]; intros m B H; [exact H|].
  cbn [mt_run fold_left]. fold (mt_run (mt_step m o) ops).
  destruct o as [k v s|k s|]; cbn [mt_step live_entries] in *.
  - inversion B as [|? ? B1 B2]; subst. apply IH; [exact B2|].
    unfold mt_put. apply mt_add_seq_inv; assumption.
  - inversion B as [|? ? B1 B2]; subst. apply IH; [exact B2|].
    unfold mt_del. apply mt_add_seq_inv; assumption.
  - rewrite mt_run_imm by reflexivity. exact H.
Qed.

Lemma filter_all : forall (A : Type) (p : A -> bool) l,
  (forall x, In x l -> p x = true) -> filter p l = l.
Proof.
  intros A p l. induction l as [|x r IH]; intros H; [reflexivity|].
  cbn [filter]. rewrite (H x (or_introl eq_refl)). f_equal. apply IH.
  intros y Hy. apply H. right. exact Hy.
Qed.

Lemma iter_all : forall m, seq_inv m -> mt_iter_entries m = mt_entries m.
Proof.
  intros m H. unfold mt_iter_entries. apply filter_all. intros x Hx.
  unfold seq_inv in H. rewrite Forall_forall in H. specialize (H x Hx).
  unfold visible, mt_snapshot. destruct (mt_imm m); [reflexivity|].
  apply orb_true_iff. right. apply N.leb_le. exact H.
Qed.

Theorem C18_iter_mt : forall ops,
  Forall seq_ok (live_entries ops) ->
  mt_iter_entries (mt_run mt_empty ops) = build (live_entries ops).
Proof.
  intros ops B. rewrite iter_all; [apply mt_run_empty_entries|].
  apply mt_run_seq_inv; [exact B|constructor].
Qed.

(* an immutable table is never filtered, whatever the numbers were *)
Theorem C18_iter_imm : forall ops m,
  mt_iter_entries (mt_run (mt_set_imm m) ops) = mt_entries m.
Proof.
  intros ops m. rewrite mt_run_imm by reflexivity.
  unfold mt_iter_entries, mt_snapshot. cbn [mt_set_imm mt_imm mt_entries].
  apply filter_all. intros x _. reflexivity.
Qed.

(* without the guard the statement is false: 2^64-1 wraps nextSeqNum to 0, the next insert
   sets it to a small number and the mutable table's iterator hides the two big entries *)
Example C18_iter_wrap_refuted :
  let ops := [OPut [1] [10] (2^63); OPut [2] [20] (2^64 - 1); OPut [3] [30] 5] in
  mt_iter_entries (mt_run mt_empty ops) = [mkM [3] 5 KVal [30]] /\
  mt_entries (mt_run mt_empty ops) =
    [mkM [1] (2^63) KVal [10]; mkM [2] (2^64 - 1) KVal [20]; mkM [3] 5 KVal [30]] /\
  mt_next (mt_run mt_empty ops) = 6 /\
  mt_iter_entries (mt_run mt_empty ops) <> build (live_entries ops).
Proof. vm_compute. repeat split. discriminate. Qed.

Example C18_iter_mt_ex :
  mt_iter_entries (mt_run mt_empty [OPut [2] [20] 6; OPut [1] [10] 6; ODel [2] 8; OPut [2] [21] 8; OPut [0] [] 0])
  = [mkM [0] 0 KVal []; mkM [1] 6 KVal [10]; mkM [2] 8 KVal [21]; mkM [2] 8 KDel []; mkM [2] 6 KVal [20]].
Proof. vm_compute. reflexivity. Qed.

(* Seek: the suffix starting at the first entry with key >= t *)
Theorem seek_ge_split : forall t l, exists pre,
  l = pre ++ seek_ge t l /\ Forall (fun x => blt (mk x) t = true) pre /\
  match seek_ge t l with [] => True | x :: _ => blt (mk x) t = false end.
Proof.
  intros t l. induction l as [|x r IH].
  - exists []. cbn. auto.
  - cbn [seek_ge]. destruct (blt (mk x) t) eqn:B.
    + destruct IH as (pre & E & F & M). exists (x :: pre). split; [cbn [app]; f_equal; exact E|].
      split; [constructor; assumption|exact M].
    + exists []. split; [reflexivity|]. split; [constructor|exact B].
Qed.

Lemma key_ge_mono : forall t x y, blt (mk x) t = false -> ele x y -> blt (mk y) t = false.
Proof.
  intros t x y B H. apply blt_false_iff in B. apply blt_false_iff. apply ele_iff in H.
  destruct B as [B|B]; destruct H as [H|[H _]].
  - right. rewrite <- B. exact H.
  - left. congruence.
  - right. eapply bcmp_lt_trans; eauto.
  - right. rewrite <- H. exact B.
Qed.

Theorem seek_ge_sorted : forall t l, sorted l ->
  Forall (fun x => blt (mk x) t = false) (seek_ge t l).
Proof.
  intros t l. induction l as [|x r IH]; intros Hs; [constructor|].
  cbn [seek_ge]. destruct (blt (mk x) t) eqn:B.
  - apply IH. apply sorted_cons_inv in Hs. apply Hs.
  - apply sorted_cons_inv in Hs. destruct Hs as [_ Hf]. constructor; [exact B|].
    rewrite Forall_forall in *. intros y Hy. eapply key_ge_mono; [exact B|]. apply Hf. exact Hy.
Qed.

(* equivalently: on a sorted list Seek returns exactly the entries with key >= t *)
Theorem seek_ge_filter : forall t l, sorted l ->
  seek_ge t l = filter (fun x => negb (blt (mk x) t)) l.
Proof.
  intros t l. induction l as [|x r IH]; intros Hs; [reflexivity|].
  pose proof (seek_ge_sorted t (x :: r) Hs) as Hf.
  cbn [seek_ge filter] in *. destruct (blt (mk x) t) eqn:B; cbn [negb].
  - apply IH. apply sorted_cons_inv in Hs. apply Hs.
  - f_equal. symmetry. apply filter_all. intros y Hy.
    inversion Hf as [|? ? _ Hr]; subst. rewrite Forall_forall in Hr. rewrite (Hr y Hy). reflexivity.
Qed.

Lemma filter_sorted : forall p l, sorted l -> sorted (filter p l).
Proof.
  intros p l Hs. apply sorted_strong in Hs. apply sorted_strong.
  induction Hs as [|x r Hs IH Hf]; cbn [filter]; [constructor|].
  destruct (p x); [|exact IH]. constructor; [exact IH|].
  rewrite Forall_forall in *. intros y Hy. apply filter_In in Hy. apply Hf. apply Hy.
Qed.

Lemma filter_filter_comm : forall (A : Type) (p q : A -> bool) l,
  filter p (filter q l) = filter q (filter p l).
Proof.
  intros A p q l. induction l as [|x r IH]; [reflexivity|].
  cbn [filter]. destruct (p x) eqn:P; destruct (q x) eqn:Q; cbn [filter];
    rewrite ?P, ?Q, IH; reflexivity.
Qed.

(* Iterator.Seek positions in the unfiltered chain and then skips invisible nodes; on a
   sorted chain that is the same as seeking in the filtered sequence *)
Theorem seek_ge_visible : forall t p l, sorted l ->
  seek_ge t (filter p l) = filter p (seek_ge t l).
Proof.
  intros t p l Hs. rewrite seek_ge_filter by (apply filter_sorted; exact Hs).
  rewrite seek_ge_filter by exact Hs. apply filter_filter_comm.
Qed.

Theorem C18_seek : forall ops t,
  Forall seq_ok (live_entries ops) ->
  let l := mt_iter_entries (mt_run mt_empty ops) in
  exists pre, l = pre ++ seek_ge t l /\
    Forall (fun x => blt (mk x) t = true) pre /\
    Forall (fun x => blt (mk x) t = false) (seek_ge t l).
Proof.
  intros ops t B l. destruct (seek_ge_split t l) as (pre & E & F & _).
  exists pre. split; [exact E|]. split; [exact F|].
  apply seek_ge_sorted. unfold l. rewrite C18_iter_mt by exact B. apply build_sorted.
Qed.

Example C18_seek_ex :
  seek_ge [2] (mt_iter_entries (mt_run mt_empty [OPut [3] [30] 1; OPut [1] [10] 2; OPut [2;0] [20] 3; OPut [1;9] [] 4]))
  = [mkM [2;0] 3 KVal [20]; mkM [3] 1 KVal [30]].
Proof. vm_compute. reflexivity. Qed.
