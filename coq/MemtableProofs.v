(* MemtableProofs.v — C18, sequential part: bcmp is a total order, elt a strict weak order,
   insert keeps the list sorted, find on a built table = latest_version (exported as
   find_build), iteration order, MemTable Get, immutability, iterator snapshot and Seek. *)
From Coq Require Import List NArith Bool Lia ZifyN ZifyBool Sorted Permutation.
From KV Require Import Bytes Memtable.
Import ListNotations.
Open Scope N_scope.

(* ------------------------------------------------------------------------------------- *)
(* A1. bcmp (Go bytes.Compare) is a total order                                           *)
(* ------------------------------------------------------------------------------------- *)

Lemma bcmp_refl : forall a, bcmp a a = Eq.
Proof.
  induction a as [|x a IH]; cbn [bcmp]; [reflexivity|].
  rewrite N.compare_refl. exact IH.
Qed.

Lemma bcmp_eq : forall a b, bcmp a b = Eq -> a = b.
Proof.
  induction a as [|x a IH]; intros [|y b] H; cbn [bcmp] in H; try discriminate; [reflexivity|].
  destruct (N.compare_spec x y) as [E|L|G]; try discriminate.
  subst y. f_equal. apply IH. exact H.
Qed.

Lemma bcmp_eq_iff : forall a b, bcmp a b = Eq <-> a = b.
Proof. intros a b; split; [apply bcmp_eq|intros ->; apply bcmp_refl]. Qed.

Lemma bcmp_antisym : forall a b, bcmp a b = CompOpp (bcmp b a).
Proof.
  induction a as [|x a IH]; intros [|y b]; cbn [bcmp]; try reflexivity.
  rewrite (N.compare_antisym y x). destruct (y ?= x); cbn [CompOpp]; auto.
Qed.

Lemma bcmp_gt_lt : forall a b, bcmp a b = Gt <-> bcmp b a = Lt.
Proof.
  intros a b. rewrite (bcmp_antisym a b). destruct (bcmp b a); cbn [CompOpp]; split; congruence.
Qed.

Lemma bcmp_lt_gt : forall a b, bcmp a b = Lt <-> bcmp b a = Gt.
Proof. intros a b. symmetry. apply bcmp_gt_lt. Qed.

Lemma bcmp_lt_trans : forall a b c, bcmp a b = Lt -> bcmp b c = Lt -> bcmp a c = Lt.
Proof.
  induction a as [|x a IH]; intros [|y b] [|z c] H1 H2; cbn [bcmp] in *;
    try discriminate; try reflexivity.
  destruct (N.compare_spec x y) as [E1|L1|G1]; try discriminate;
  destruct (N.compare_spec y z) as [E2|L2|G2]; try discriminate;
  destruct (N.compare_spec x z) as [E3|L3|G3]; try reflexivity; try lia.
  eapply IH; eauto.
Qed.

Lemma bcmp_lt_irrefl : forall a, bcmp a a = Lt -> False.
Proof. intros a H. rewrite bcmp_refl in H. discriminate. Qed.

Lemma bcmp_lt_asym : forall a b, bcmp a b = Lt -> bcmp b a = Lt -> False.
Proof. intros a b H1 H2. exact (bcmp_lt_irrefl a (bcmp_lt_trans a b a H1 H2)). Qed.

Lemma bcmp_total : forall a b, bcmp a b = Lt \/ a = b \/ bcmp b a = Lt.
Proof.
  intros a b. destruct (bcmp a b) eqn:C.
  - right; left. apply bcmp_eq. exact C.
  - left; reflexivity.
  - right; right. apply bcmp_gt_lt. exact C.
Qed.

Lemma bcmp_gt_trans : forall a b c, bcmp a b = Gt -> bcmp b c = Gt -> bcmp a c = Gt.
Proof.
  intros a b c H1 H2. apply bcmp_gt_lt in H1. apply bcmp_gt_lt in H2. apply bcmp_gt_lt.
  eapply bcmp_lt_trans; eauto.
Qed.

(* the whole statement of A1 in one place *)
Theorem bcmp_total_order :
  (forall a, bcmp a a = Eq) /\
  (forall a b, bcmp a b = Eq -> a = b) /\
  (forall a b, bcmp a b = CompOpp (bcmp b a)) /\
  (forall a b c, bcmp a b = Lt -> bcmp b c = Lt -> bcmp a c = Lt).
Proof.
  split; [exact bcmp_refl|]. split; [exact bcmp_eq|]. split; [exact bcmp_antisym|].
  exact bcmp_lt_trans.
Qed.

Example bcmp_total_order_ex :
  bcmp [1;2;3] [1;2;3] = Eq /\ bcmp [1;2] [1;2;0] = Lt /\ bcmp [1;2;0] [1;2] = Gt /\
  bcmp [1;2;0] [1;3] = Lt /\ bcmp [1;2] [1;3] = Lt /\ bcmp [] [0] = Lt.
Proof. vm_compute. repeat split. Qed.

Lemma beq_true_iff : forall a b, beq a b = true <-> a = b.
Proof.
  intros a b. unfold beq. destruct (bcmp a b) eqn:C.
  - split; [intros _; apply bcmp_eq; exact C|reflexivity].
  - split; [discriminate|intros ->; rewrite bcmp_refl in C; discriminate].
  - split; [discriminate|intros ->; rewrite bcmp_refl in C; discriminate].
Qed.

Lemma beq_false_iff : forall a b, beq a b = false <-> a <> b.
Proof.
  intros a b. rewrite <- beq_true_iff. destruct (beq a b); split; congruence.
Qed.

Lemma beq_refl : forall a, beq a a = true.
Proof. intros a. apply beq_true_iff. reflexivity. Qed.

Lemma beq_sym : forall a b, beq a b = beq b a.
Proof.
  intros a b. destruct (beq b a) eqn:E.
  - apply beq_true_iff in E. apply beq_true_iff. auto.
  - apply beq_false_iff in E. apply beq_false_iff. auto.
Qed.

Lemma blt_true_iff : forall a b, blt a b = true <-> bcmp a b = Lt.
Proof. intros a b. unfold blt. destruct (bcmp a b); split; congruence. Qed.

Lemma blt_false_iff : forall a b, blt a b = false <-> (a = b \/ bcmp b a = Lt).
Proof.
  intros a b. unfold blt. destruct (bcmp a b) eqn:C.
  - split; [intros _; left; apply bcmp_eq; exact C|reflexivity].
  - split; [discriminate|]. intros [->|H].
    + rewrite bcmp_refl in C. discriminate.
    + exfalso. eapply bcmp_lt_asym; eauto.
  - split; [|reflexivity]. intros _. right. apply bcmp_gt_lt. exact C.
Qed.

Lemma blt_irrefl : forall a, blt a a = false.
Proof. intros a. unfold blt. rewrite bcmp_refl. reflexivity. Qed.

Lemma blt_trans : forall a b c, blt a b = true -> blt b c = true -> blt a c = true.
Proof.
  intros a b c H1 H2. apply blt_true_iff in H1. apply blt_true_iff in H2. apply blt_true_iff.
  eapply bcmp_lt_trans; eauto.
Qed.

Lemma blt_asym : forall a b, blt a b = true -> blt b a = false.
Proof.
  intros a b H. apply blt_true_iff in H. apply blt_false_iff. right. exact H.
Qed.

Lemma blt_trichotomy : forall a b, blt a b = true \/ a = b \/ blt b a = true.
Proof.
  intros a b. destruct (bcmp_total a b) as [H|[H|H]].
  - left. apply blt_true_iff. exact H.
  - right; left. exact H.
  - right; right. apply blt_true_iff. exact H.
Qed.

Lemma ble_negb_blt : forall a b, ble a b = negb (blt b a).
Proof.
  intros a b. unfold ble, blt. rewrite (bcmp_antisym b a).
  destruct (bcmp a b); reflexivity.
Qed.

(* ------------------------------------------------------------------------------------- *)
(* A2. elt (compareWithEntry < 0) is a strict weak order; insert keeps sortedness         *)
(* ------------------------------------------------------------------------------------- *)

Lemma elt_true_iff : forall a b,
  elt a b = true <-> (bcmp (mk a) (mk b) = Lt \/ (mk a = mk b /\ mseq b < mseq a)).
Proof.
  intros a b. unfold elt. destruct (bcmp (mk a) (mk b)) eqn:C.
  - apply bcmp_eq in C. rewrite N.ltb_lt. split.
    + intros H. right. split; assumption.
    + intros [H|[_ H]]; [discriminate|exact H].
  - split; [intros _; left; reflexivity|reflexivity].
  - split; [discriminate|]. intros [H|[H _]]; [discriminate|].
    rewrite H, bcmp_refl in C. discriminate.
Qed.

Lemma elt_false_iff : forall a b,
  elt a b = false <-> (bcmp (mk b) (mk a) = Lt \/ (mk a = mk b /\ mseq a <= mseq b)).
Proof.
  intros a b. unfold elt. destruct (bcmp (mk a) (mk b)) eqn:C.
  - apply bcmp_eq in C. rewrite N.ltb_ge. split.
    + intros H. right. split; assumption.
    + intros [H|[_ H]]; [|exact H]. rewrite C, bcmp_refl in H. discriminate.
  - split; [discriminate|]. intros [H|[H _]].
    + exfalso. eapply bcmp_lt_asym; eauto.
    + rewrite H, bcmp_refl in C. discriminate.
  - split; [|reflexivity]. intros _. left. apply bcmp_gt_lt. exact C.
Qed.

(* a <= b in the list order: b is not strictly before a *)
Definition ele (a b : mentry) : Prop := elt b a = false.

Lemma ele_iff : forall a b,
  ele a b <-> (bcmp (mk a) (mk b) = Lt \/ (mk a = mk b /\ mseq b <= mseq a)).
Proof.
  intros a b. unfold ele. rewrite elt_false_iff. split; intros [H|[H1 H2]]; auto.
Qed.

Ltac elt_prep :=
  repeat match goal with
  | H : ele _ _ |- _ => unfold ele in H
  | H : elt _ _ = true |- _ => apply elt_true_iff in H; destruct H as [H|[? H]]
  | H : elt _ _ = false |- _ => apply elt_false_iff in H; destruct H as [H|[? H]]
  end;
  repeat match goal with
  | H : mk ?a = mk ?b |- _ => first [rewrite H in * | rewrite <- H in * ]; clear H
  end.

Ltac elt_fin :=
  first
  [ left; solve [eauto using bcmp_lt_trans]
  | right; split; [reflexivity|lia]
  | exfalso; solve [eauto 6 using bcmp_lt_irrefl, bcmp_lt_trans] ].

Lemma elt_irrefl : forall a, elt a a = false.
Proof. intros a. unfold elt. rewrite bcmp_refl. apply N.ltb_irrefl. Qed.

Lemma elt_trans : forall a b c, elt a b = true -> elt b c = true -> elt a c = true.
Proof. intros a b c H1 H2. apply elt_true_iff. elt_prep; elt_fin. Qed.

Lemma elt_asym : forall a b, elt a b = true -> elt b a = false.
Proof. intros a b H1. apply elt_false_iff. elt_prep; elt_fin. Qed.

(* transitivity of <= (equivalently: incomparability is transitive, negative transitivity) *)
Lemma ele_trans : forall a b c, ele a b -> ele b c -> ele a c.
Proof. intros a b c H1 H2. unfold ele. apply elt_false_iff. elt_prep; elt_fin. Qed.

Lemma ele_refl : forall a, ele a a.
Proof. intros a. apply elt_irrefl. Qed.

Lemma elt_ele_trans : forall a b c, elt a b = true -> ele b c -> elt a c = true.
Proof. intros a b c H1 H2. apply elt_true_iff. elt_prep; elt_fin. Qed.

Lemma ele_elt_trans : forall a b c, ele a b -> elt b c = true -> elt a c = true.
Proof. intros a b c H1 H2. apply elt_true_iff. elt_prep; elt_fin. Qed.

Lemma ele_total : forall a b, ele a b \/ ele b a.
Proof.
  intros a b. unfold ele. destruct (elt b a) eqn:E; [right|left; reflexivity].
  apply elt_asym. exact E.
Qed.

(* the equivalence induced by the order: same key and same sequence number *)
Lemma ele_antisym : forall a b, ele a b -> ele b a -> mk a = mk b /\ mseq a = mseq b.
Proof.
  intros a b H1 H2. unfold ele in *.
  apply elt_false_iff in H1. apply elt_false_iff in H2.
  destruct H1 as [H1|[K1 S1]]; destruct H2 as [H2|[K2 S2]].
  - exfalso. eapply bcmp_lt_asym; eauto.
  - rewrite K2 in H1. exfalso. eapply bcmp_lt_irrefl; eauto.
  - rewrite K1 in H2. exfalso. eapply bcmp_lt_irrefl; eauto.
  - split; [auto|lia].
Qed.

Theorem elt_strict_weak_order :
  (forall a, elt a a = false) /\
  (forall a b c, elt a b = true -> elt b c = true -> elt a c = true) /\
  (forall a b c, elt a b = false -> elt b a = false -> elt b c = false -> elt c b = false ->
                 elt a c = false /\ elt c a = false) /\
  (forall a b, elt a b = false -> elt b a = false -> mk a = mk b /\ mseq a = mseq b).
Proof.
  split; [exact elt_irrefl|]. split; [exact elt_trans|]. split.
  - intros a b c H1 H2 H3 H4. split.
    + exact (ele_trans c b a H3 H1).
    + exact (ele_trans a b c H2 H4).
  - intros a b H1 H2. apply ele_antisym; assumption.
Qed.

Example elt_ex :
  elt (mkM [1] 5 KVal []) (mkM [1] 3 KDel []) = true /\
  elt (mkM [1] 3 KVal []) (mkM [1] 3 KDel [7]) = false /\
  elt (mkM [1] 0 KVal []) (mkM [1;0] 9 KVal []) = true /\
  elt (mkM [2] 9 KVal []) (mkM [1;0] 0 KVal []) = false.
Proof. vm_compute. repeat split. Qed.

#[global] Instance ele_Transitive : RelationClasses.Transitive ele.
Proof. intros a b c. apply ele_trans. Qed.

Definition sorted (l : list mentry) : Prop := Sorted ele l.

Lemma sorted_strong : forall l, sorted l <-> StronglySorted ele l.
Proof.
  intros l. split.
  - apply Sorted_StronglySorted. exact ele_Transitive.
  - apply StronglySorted_Sorted.
Qed.

Lemma sorted_cons_inv : forall x l, sorted (x :: l) -> sorted l /\ Forall (ele x) l.
Proof.
  intros x l H. apply sorted_strong in H. inversion H as [|a b Hs Hf]; subst.
  split; [apply sorted_strong; exact Hs|exact Hf].
Qed.

Lemma insert_hdrel : forall a e l, HdRel ele a l -> ele a e -> HdRel ele a (insert e l).
Proof.
  intros a e [|x r] Hh He; cbn [insert].
  - constructor. exact He.
  - destruct (elt x e); constructor; [|exact He]. inversion Hh; assumption.
Qed.

Theorem insert_sorted : forall e l, sorted l -> sorted (insert e l).
Proof.
  intros e l Hs. unfold sorted in *.
  induction Hs as [|x r Hs IH Hh]; cbn [insert].
  - constructor; constructor.
  - destruct (elt x e) eqn:E.
    + constructor; [exact IH|]. apply insert_hdrel; [exact Hh|].
      unfold ele. apply elt_asym. exact E.
    + constructor; [constructor; assumption|]. constructor. exact E.
Qed.

Theorem insert_perm : forall e l, Permutation (insert e l) (e :: l).
Proof.
  intros e l. induction l as [|x r IH]; cbn [insert]; [apply Permutation_refl|].
  destruct (elt x e).
  - eapply perm_trans; [apply perm_skip; exact IH|apply perm_swap].
  - apply Permutation_refl.
Qed.

Lemma insert_in : forall e x l, In x (insert e l) <-> x = e \/ In x l.
Proof.
  intros e x l. split.
  - intros H. apply (Permutation_in _ (insert_perm e l)) in H. destruct H; auto.
  - intros H. apply (Permutation_in _ (Permutation_sym (insert_perm e l))).
    destruct H; [left; auto|right; auto].
Qed.

Lemma insert_length : forall e l, length (insert e l) = S (length l).
Proof. intros e l. exact (Permutation_length (insert_perm e l)). Qed.

Example insert_sorted_ex :
  insert (mkM [2] 7 KDel []) [mkM [1] 4 KVal [9]; mkM [2] 9 KVal [1]; mkM [2] 7 KVal [2]; mkM [3] 1 KVal []]
  = [mkM [1] 4 KVal [9]; mkM [2] 9 KVal [1]; mkM [2] 7 KDel []; mkM [2] 7 KVal [2]; mkM [3] 1 KVal []].
Proof. vm_compute. reflexivity. Qed.
