(* Engine.v — executable model of the storage manager (pkg/engine/storage/manager.go), the
   memtable pool (pkg/memtable/mempool.go), recovery (pkg/memtable/recovery.go) and the
   logical content of SSTables, as a sequential state machine. Background flush is a
   separate step (the harness holds the background goroutine at a gate and issues flushes
   explicitly). *)
From KV Require Export Bytes Memtable WalCodec.
Open Scope N_scope.

(* logical SSTable entry: None = deletion marker *)
Record sentry := mkS { sk : bytes; sseq : N; sval : option bytes }.

(* file name: level_seq_timestamp.sst; ts is the creation order *)
Record sst := mkSst { s_level : N; s_num : N; s_ts : N; s_entries : list sentry }.

Record config := mkCfg { c_memsize : N; c_maxmem : N }.

Record st := mkSt {
  cfg : config;
  wal_next : N;                         (* WAL.nextSequence *)
  wal_files : list (list wentry);       (* log files, oldest first, as entry lists *)
  last_seq : N;                         (* Manager.lastSeqNum *)
  active : memtable;
  imms : list memtable;                 (* pool.immutables, oldest first; never shrinks *)
  pending : list memtable;              (* Manager.immutableMTs *)
  flush_pending : bool;                 (* pool.flushPending *)
  ssts : list sst;                      (* Manager.sstables, in the order Get scans backwards *)
  next_file : N;                        (* Manager.nextFileNum *)
  clock : N;                            (* creation counter standing for timestamps *)
  lost_log : bool                       (* a recovery ran out of memtable budget and set the log aside *)
}.

Definition init (c : config) : st :=
  mkSt c 1 [[]] 0 mt_empty [] [] false [] 1 0 false.

Definition upd_wal (s : st) (n : N) (f : list (list wentry)) : st :=
  mkSt (cfg s) n f (last_seq s) (active s) (imms s) (pending s) (flush_pending s) (ssts s)
       (next_file s) (clock s) (lost_log s).

Definition log_append (files : list (list wentry)) (es : list wentry) : list (list wentry) :=
  match rev files with
  | [] => [es]
  | f :: r => rev r ++ [f ++ es]
  end.

(* pool.Put/Delete + checkFlushConditionsLocked (size condition only; the age condition is
   disabled in the harness configuration) *)
Definition pool_add (s : st) (e : mentry) : st :=
  let a := mt_add (active s) e in
  let fp := if flush_pending s then true else (c_memsize (cfg s) <=? mt_size a) in
  mkSt (cfg s) (wal_next s) (wal_files s) (last_seq s) a (imms s) (pending s) fp (ssts s)
       (next_file s) (clock s) (lost_log s).

(* scheduleFlush: SwitchToNewMemTable + queue *)
Definition schedule_flush (s : st) : st :=
  let old := mt_set_imm (active s) in
  mkSt (cfg s) (wal_next s) (wal_files s) (last_seq s) mt_empty (imms s ++ [old])
       (pending s ++ [old]) false (ssts s) (next_file s) (clock s) (lost_log s).

Definition maybe_schedule (s : st) : st := if flush_pending s then schedule_flush s else s.

Definition set_last (s : st) (n : N) : st :=
  mkSt (cfg s) (wal_next s) (wal_files s) n (active s) (imms s) (pending s) (flush_pending s)
       (ssts s) (next_file s) (clock s) (lost_log s).

Inductive wr_res := WrOk (seq : N) | WrOverflow.

(* Manager.Put / Delete *)
Definition put (s : st) (k v : bytes) : st * wr_res :=
  if MaxSeq <=? wal_next s then (s, WrOverflow) else
  let q := wal_next s in
  let s1 := upd_wal s (q + 1) (log_append (wal_files s) [mkW OpPut q k v]) in
  let s2 := set_last (pool_add s1 (mkM k q KVal v)) q in
  (maybe_schedule s2, WrOk q).

Definition del (s : st) (k : bytes) : st * wr_res :=
  if MaxSeq <=? wal_next s then (s, WrOverflow) else
  let q := wal_next s in
  let s1 := upd_wal s (q + 1) (log_append (wal_files s) [mkW OpDel q k []]) in
  let s2 := set_last (pool_add s1 (mkM k q KDel [])) q in
  (maybe_schedule s2, WrOk q).

(* one batch operation: (key, None) = delete *)
Definition bop := (bytes * option bytes)%type.

Definition bop_entry (q : N) (o : bop) : wentry :=
  match snd o with Some v => mkW OpPut q (fst o) v | None => mkW OpDel q (fst o) [] end.
Definition bop_mentry (q : N) (o : bop) : mentry :=
  match snd o with Some v => mkM (fst o) q KVal v | None => mkM (fst o) q KDel [] end.

(* Manager.ApplyBatch: one sequence number for the whole batch; an empty batch only reads the
   counter *)
Definition apply_batch (s : st) (ops : list bop) : st * wr_res :=
  match ops with
  | [] => (s, WrOk (wal_next s))
  | _ =>
    if MaxSeq <=? wal_next s then (s, WrOverflow) else
    let q := wal_next s in
    let s1 := upd_wal s (q + 1) (log_append (wal_files s) (map (bop_entry q) ops)) in
    let s2 := fold_left (fun a o => set_last (pool_add a (bop_mentry q o)) q) ops s1 in
    (maybe_schedule s2, WrOk q)
  end.

(* ---------- reads ---------- *)

Fixpoint sst_find (k : bytes) (l : list sentry) : option sentry :=
  match l with
  | [] => None
  | x :: r => match bcmp (sk x) k with
              | Lt => sst_find k r
              | Eq => Some x
              | Gt => None
              end
  end.

(* scan tables newest (last) to oldest; the first that has the key decides *)
Fixpoint ssts_get (k : bytes) (rev_tables : list sst) : option (option bytes) :=
  match rev_tables with
  | [] => None
  | t :: r => match sst_find k (s_entries t) with
              | Some e => Some (sval e)
              | None => ssts_get k r
              end
  end.

Fixpoint mems_get (k : bytes) (tables : list memtable) : option (option bytes) :=
  match tables with
  | [] => None
  | m :: r => match mt_get m k with
              | Some x => Some x
              | None => mems_get k r
              end
  end.

(* tables in read precedence order *)
Definition mem_layers (s : st) : list memtable := active s :: rev (imms s).

(* Manager.Get: None = ErrKeyNotFound *)
Definition get (s : st) (k : bytes) : option bytes :=
  match mems_get k (mem_layers s) with
  | Some (Some v) => Some v
  | Some None => None
  | None => match ssts_get k (rev (ssts s)) with
            | Some (Some v) => Some v
            | _ => None
            end
  end.

(* ---------- flush ---------- *)

Definition to_sentry (e : mentry) : sentry :=
  mkS (mk e) (mseq e) (match mkind e with KDel => None | KVal => Some (mval e) end).

(* flushMemTable's collection loop over the (sorted) iterator output: first version of each
   key, replaced by a later one only if its sequence number is strictly greater *)
Fixpoint collect_aux (acc : list sentry) (l : list mentry) : list sentry :=
  match l with
  | [] => rev acc
  | x :: r =>
    match acc with
    | [] => collect_aux [to_sentry x] r
    | last :: acc' =>
      if beq (sk last) (mk x)
      then collect_aux (if sseq last <? mseq x then to_sentry x :: acc' else acc) r
      else collect_aux (to_sentry x :: acc) r
    end
  end.
Definition collect (l : list mentry) : list sentry := collect_aux [] l.

Definition flush_table (s : st) (m : memtable) : st :=
  if mt_size m =? 0 then s else
  match collect (mt_iter_entries m) with
  | [] => s
  | es =>
    mkSt (cfg s) (wal_next s) (wal_files s) (last_seq s) (active s) (imms s) (pending s)
         (flush_pending s) (ssts s ++ [mkSst 0 (next_file s) (clock s) es])
         (next_file s + 1) (clock s + 1) (lost_log s)
  end.

(* rotateWAL: a new log file; the counter continues *)
Definition rotate (s : st) : st := upd_wal s (wal_next s) (wal_files s ++ [[]]).

Definition clear_pending (s : st) : st :=
  mkSt (cfg s) (wal_next s) (wal_files s) (last_seq s) (active s) (imms s) [] (flush_pending s)
       (ssts s) (next_file s) (clock s) (lost_log s).

(* Manager.FlushMemTables *)
Definition flush (s : st) : st :=
  match pending s with
  | [] => if 0 <? mt_size (active s) then flush_table (rotate s) (active s) else s
  | ps => fold_left flush_table ps (rotate (clear_pending s))
  end.

(* ---------- close and reopen ---------- *)

(* loadSSTables (as repaired by deebfc9): tables ordered by age — deeper levels hold older
   data than shallower ones, inside a level the creation timestamp of the file name decides
   (the file number is not an age: it restarts at 1 on every open). Get scans the list from
   the last element to the first. *)
Definition sst_le (a b : sst) : bool :=
  if s_level b <? s_level a then true else if s_level a <? s_level b then false else
  s_ts a <=? s_ts b.

Fixpoint sst_insert (x : sst) (l : list sst) : list sst :=
  match l with
  | [] => [x]
  | y :: r => if sst_le x y then x :: l else y :: sst_insert x r
  end.
Definition sst_sort (l : list sst) : list sst := fold_right sst_insert [] l.

(* RecoverFromWAL: entries into memtables, a new table whenever the current one has reached
   MemTableSize; at most MaxMemTables tables *)
Definition wentry_mentry (e : wentry) : option mentry :=
  if w_op e =? OpPut then Some (mkM (w_key e) (w_seq e) KVal (w_val e))
  else if w_op e =? OpDel then Some (mkM (w_key e) (w_seq e) KDel [])
  else None.

(* tables: newest first; returns None on budget overflow *)
Fixpoint recover_tables (c : config) (es : list wentry) (tables : list memtable) (maxseq : N)
  : option (list memtable * N) :=
  match es with
  | [] => Some (tables, maxseq)
  | e :: r =>
    let maxseq' := if maxseq <? w_seq e then w_seq e else maxseq in
    match tables with
    | [] => None
    | cur :: older =>
      if c_memsize c <=? mt_size cur then
        if c_maxmem c <=? N.of_nat (length tables) then None
        else
          let cur' := match wentry_mentry e with Some m => mt_add mt_empty m | None => mt_empty end in
          recover_tables c r (cur' :: mt_set_imm cur :: older) maxseq'
      else
        let cur' := match wentry_mentry e with Some m => mt_add cur m | None => cur end in
        recover_tables c r (cur' :: older) maxseq'
    end
  end.

(* Close then NewManager on the same directory *)
Definition reopen (s : st) : st :=
  let files := match wal_files s with [] => [[]] | f => f end in
  let tables := sst_sort (ssts s) in
  match recover_tables (cfg s) (concat files) [mt_empty] 0 with
  | None =>
    (* recovery failed: every log file is moved to a backup directory, a fresh log starts *)
    mkSt (cfg s) 1 [[]] 0 mt_empty [] [] false tables 1 (clock s) true
  | Some (tbls, maxseq) =>
    let act := match tbls with a :: _ => a | [] => mt_empty end in
    let older := rev (tl tbls) in      (* oldest first *)
    let older_imm := map mt_set_imm older in
    mkSt (cfg s) (if maxseq =? 0 then 1 else maxseq + 1) files maxseq
         act older_imm older_imm false tables 1 (clock s) (lost_log s)
  end.

(* ---------- transactions as seen by the storage layer ---------- *)
(* Buffer: last operation per key; Operations(): sorted by key *)
Fixpoint buf_set (o : bop) (l : list bop) : list bop :=
  match l with
  | [] => [o]
  | x :: r => match bcmp (fst x) (fst o) with
              | Lt => x :: buf_set o r
              | Eq => o :: r
              | Gt => o :: x :: r
              end
  end.
Definition buffer_ops (ops : list bop) : list bop := fold_left (fun b o => buf_set o b) ops [].

(* Commit of a read-write transaction = ApplyBatch of the buffered operations (nothing when
   the buffer is empty) *)
Definition tx_commit (s : st) (ops : list bop) : st * wr_res :=
  match buffer_ops ops with
  | [] => (s, WrOk (wal_next s))
  | b => apply_batch s b
  end.

(* ---------- programs ---------- *)
Inductive op :=
| OPut (k v : bytes) | ODel (k : bytes) | OBatch (ops : list bop) | OCommit (ops : list bop)
| ORollback (ops : list bop) | OFlush | OReopen | OGet (k : bytes).

Definition step (s : st) (o : op) : st :=
  match o with
  | OPut k v => fst (put s k v)
  | ODel k => fst (del s k)
  | OBatch ops => fst (apply_batch s ops)
  | OCommit ops => fst (tx_commit s ops)
  | ORollback _ => s
  | OFlush => flush s
  | OReopen => reopen s
  | OGet _ => s
  end.

Definition run (c : config) (ops : list op) : st := fold_left step ops (init c).

(* ---------- crash and recovery (C02, C03) ---------- *)
(* A process stop loses the memtables. Log files that were already closed are complete
   (rotation closes the old file before anything of the new one is written, and closes it
   before the SSTables of the flush are written). Of the newest log file an arbitrary prefix of
   the WRITES survives: a write is the set of entries with one sequence number (AppendBatch
   hands a whole batch to the operating system in one piece), so the survivors are the entries
   with sequence number below some bound q. Published SSTables survive. *)
Definition cut_seq (q : N) (f : list wentry) : list wentry := filter (fun e => w_seq e <? q) f.

Definition map_last {A} (g : A -> A) (l : list A) : list A :=
  match rev l with
  | [] => []
  | x :: r => rev r ++ [g x]
  end.

Definition on_disk (s : st) (files : list (list wentry)) : st :=
  mkSt (cfg s) (wal_next s) files (last_seq s) mt_empty [] [] false (ssts s) (next_file s)
       (clock s) (lost_log s).

Definition crash (s : st) (q : N) : st := on_disk s (map_last (cut_seq q) (wal_files s)).

(* torn final write: the newest file keeps its first n entries — n may fall inside a batch *)
Definition crash_torn (s : st) (n : nat) : st := on_disk s (map_last (firstn n) (wal_files s)).

Definition recover (s : st) : st := reopen s.

(* ---------- log retention (C02, finding D20) ---------- *)
(* WAL.ManageRetention as Primary.maybeManageWALRetention calls it (MinSequenceKeep = the lowest
   acknowledged sequence number, no count limit; the age limit is off in the harness): every log
   file but the current one that holds entries and whose highest sequence number is below
   [acked] is deleted (a file without entries has no bounds and is kept).  Whether the entries
   of the file have reached an SSTable is not consulted. *)
Definition file_max (f : list wentry) : N := fold_left (fun m e => N.max m (w_seq e)) f 0.

Definition retention_keeps (acked : N) (f : list wentry) : bool :=
  match f with [] => true | _ => negb (file_max f <? acked) end.

Definition retain (acked : N) (s : st) : st :=
  if acked =? 0 then s else
  upd_wal s (wal_next s)
    (match rev (wal_files s) with
     | [] => []
     | cur :: older => rev (filter (retention_keeps acked) older) ++ [cur]
     end).

(* ---------- batches with merge operands (C08) ---------- *)
(* Manager.ApplyBatch takes log entries of three types. WAL.AppendBatch validates the types
   (put, delete, merge), stamps every entry of the batch with one sequence number and writes
   them to the log; a merge entry is written with its value, like a put. The loop over the
   entries in Manager.ApplyBatch inserts puts and deletes into the memtable pool and has no
   case for a merge entry — but it sets lastSeqNum for every entry, also for a merge entry.
   So a batch made only of merge entries is an acknowledged write that consumes a sequence
   number and is logged, and changes no memtable. Recovery (MemTable.ProcessWALEntry) has no
   case for a merge entry either ([wentry_mentry] returns None for it) but counts its sequence
   number ([recover_tables] takes the maximum before it looks at the type). An empty batch
   only reads the counter, as in [apply_batch]. These functions stand next to [apply_batch]
   (which stays the model of batches of puts and deletes); they are not constructors of [op]. *)
Inductive ekind := EPut (v : bytes) | EDel | EMerge (v : bytes).
Definition eop := (bytes * ekind)%type.

Definition eop_entry (q : N) (o : eop) : wentry :=
  match snd o with
  | EPut v => mkW OpPut q (fst o) v
  | EDel => mkW OpDel q (fst o) []
  | EMerge v => mkW OpMerge q (fst o) v
  end.

Definition eop_apply (q : N) (a : st) (o : eop) : st :=
  match snd o with
  | EPut v => set_last (pool_add a (mkM (fst o) q KVal v)) q
  | EDel => set_last (pool_add a (mkM (fst o) q KDel [])) q
  | EMerge _ => set_last a q
  end.

(* Manager.ApplyBatch on entries of any of the three types *)
Definition mixed_batch (s : st) (ops : list eop) : st * wr_res :=
  match ops with
  | [] => (s, WrOk (wal_next s))
  | _ =>
    if MaxSeq <=? wal_next s then (s, WrOverflow) else
    let q := wal_next s in
    let s1 := upd_wal s (q + 1) (log_append (wal_files s) (map (eop_entry q) ops)) in
    let s2 := fold_left (eop_apply q) ops s1 in
    (maybe_schedule s2, WrOk q)
  end.

(* a batch that consists only of merge entries (key, operand) *)
Definition merge_only (es : list (bytes * bytes)) : list eop :=
  map (fun e => (fst e, EMerge (snd e))) es.
Definition merge_batch (s : st) (es : list (bytes * bytes)) : st * wr_res :=
  mixed_batch s (merge_only es).
