(* WalCodecProofs.v — proofs about the WAL model in WalCodec.v (C08, C09, C10).
   No axioms; stdlib only.  The numeric constants of gen/Consts.v are used only through
   the facts of section "constants" below, each of which is checked by computation. *)
From KV Require Import Bytes BytesProofs WalCodec.
From Coq Require Import Lia ZifyN ZifyNat ZifyBool List NArith PeanoNat.
Import ListNotations.
Open Scope N_scope.

(* ---------- constants ---------- *)

Lemma MaxRec_lo : 13 < MaxRec.            Proof. reflexivity. Qed.
Lemma MaxRec_hi : MaxRec < 65536.         Proof. reflexivity. Qed.
Lemma HdrSize_val : HdrSize = 7.          Proof. reflexivity. Qed.
Lemma RtFull_val : RtFull = 1.            Proof. reflexivity. Qed.
Lemma RtFirst_val : RtFirst = 2.          Proof. reflexivity. Qed.
Lemma RtMiddle_val : RtMiddle = 3.        Proof. reflexivity. Qed.
Lemma RtLast_val : RtLast = 4.            Proof. reflexivity. Qed.
Lemma MaxSeq_hi : MaxSeq < 2 ^ 64.        Proof. reflexivity. Qed.

#[local] Opaque crc32.
#[local] Opaque MaxRec.

(* ---------- small helpers ---------- *)

Lemma len_nil : len [] = 0.
Proof. reflexivity. Qed.

Lemma len_cons : forall x (l : bytes), len (x :: l) = 1 + len l.
Proof. intros x l. unfold len. cbn [length]. lia. Qed.

Lemma to_nat_len : forall l : bytes, N.to_nat (len l) = length l.
Proof. intros l. unfold len. lia. Qed.

(* the part of wf_entry the codec needs (wf_bytes is not needed by any proof below) *)
Definition enc_ok (e : wentry) : bool :=
  valid_op (w_op e) && (w_seq e <? 2 ^ 64) && (len (w_key e) <? 2 ^ 32) && (len (w_val e) <? 2 ^ 32).

Lemma wf_enc_ok : forall e, wf_entry e = true -> enc_ok e = true.
Proof.
  intros e H. unfold wf_entry in H. unfold enc_ok.
  apply andb_prop in H. destruct H as [H _].
  apply andb_prop in H. destruct H as [H _]. exact H.
Qed.

Lemma enc_ok_inv : forall e, enc_ok e = true ->
  valid_op (w_op e) = true /\ w_seq e < 2 ^ 64 /\ len (w_key e) < 2 ^ 32 /\ len (w_val e) < 2 ^ 32.
Proof.
  intros e H. unfold enc_ok in H.
  apply andb_prop in H. destruct H as [H H4].
  apply andb_prop in H. destruct H as [H H3].
  apply andb_prop in H. destruct H as [H1 H2].
  apply N.ltb_lt in H2. apply N.ltb_lt in H3. apply N.ltb_lt in H4. auto.
Qed.

(* ---------- 1. parse_entry (payload e) ---------- *)

Lemma parse_struct : forall op seq (k tl : bytes),
  seq < 2 ^ 64 -> len k < 2 ^ 32 ->
  let d := [op] ++ le 8 seq ++ le 4 (len k) ++ k ++ tl in
  nth 0 d 0 = op /\ unle (firstn 8 (skipn 1 d)) = seq /\ unle (firstn 4 (skipn 9 d)) = len k
  /\ skipn 13 d = k ++ tl /\ len d = 13 + len k + len tl.
Proof.
  intros op seq k tl Hs Hk d. subst d.
  split; [reflexivity|].
  split.
  { cbn [app skipn]. rewrite firstn_app_exact by (rewrite le_length; reflexivity).
    apply unle_le8. exact Hs. }
  split.
  { rewrite (app_assoc [op]).
    rewrite skipn_app_exact by (rewrite app_length, le_length; reflexivity).
    rewrite firstn_app_exact by (rewrite le_length; reflexivity).
    apply unle_le4. exact Hk. }
  split.
  { rewrite (app_assoc [op]), (app_assoc ([op] ++ _)).
    apply skipn_app_exact. rewrite !app_length, !le_length. reflexivity. }
  rewrite !len_app, !len_le, len_cons, len_nil. lia.
Qed.

Lemma parse_payload_ok : forall e, enc_ok e = true -> parse_entry (payload e) = Some (canon e).
Proof.
  intros [op seq k v] He.
  apply enc_ok_inv in He. cbn [w_op w_seq w_key w_val] in He.
  destruct He as (Hop & Hs & Hk & Hv).
  unfold payload, canon. cbn [w_op w_seq w_key w_val].
  set (tl := if op =? OpDel then [] else le 4 (len v) ++ v).
  destruct (parse_struct op seq k tl Hs Hk) as (E0 & E1 & E2 & E3 & E4).
  unfold parse_entry.
  rewrite E0, E1, E2, E3, E4, Hop. cbn [negb].
  assert (L1 : (13 + len k + len tl <? 13) = false) by lia. rewrite L1.
  assert (L2 : (13 + len k + len tl <? 13 + len k) = false) by lia. rewrite L2.
  rewrite to_nat_len.
  rewrite (firstn_app_exact _ k tl (length k) eq_refl).
  subst tl.
  destruct (op =? OpDel) eqn:Ed; [reflexivity|].
  rewrite len_app, len_le.
  assert (L3 : (13 + len k + (N.of_nat 4 + len v) <? 13 + len k + 4) = false) by lia. rewrite L3.
  replace (N.to_nat (13 + len k)) with (13 + length k)%nat by (unfold len; lia).
  rewrite skipn_add, E3.
  rewrite (skipn_app_exact _ k _ (length k) eq_refl).
  rewrite firstn_app_exact by (rewrite le_length; reflexivity).
  rewrite unle_le4 by exact Hv.
  assert (L4 : (13 + len k + (N.of_nat 4 + len v) <? 13 + len k + 4 + len v) = false) by lia.
  rewrite L4.
  replace (N.to_nat (13 + len k + 4)) with (13 + (length k + 4))%nat by (unfold len; lia).
  rewrite skipn_add, E3, skipn_add.
  rewrite (skipn_app_exact _ k _ (length k) eq_refl).
  rewrite skipn_app_exact by (rewrite le_length; reflexivity).
  rewrite to_nat_len, firstn_all. reflexivity.
Qed.

Theorem parse_payload : forall e, wf_entry e = true -> parse_entry (payload e) = Some (canon e).
Proof. intros e H. apply parse_payload_ok. apply wf_enc_ok. exact H. Qed.

Example parse_payload_hyp_sat :
  wf_entry (mkW OpPut 7 [107; 1] [118; 2; 3]) = true /\
  wf_entry (mkW OpDel 8 [107] [9]) = true /\
  canon (mkW OpDel 8 [107] [9]) <> mkW OpDel 8 [107] [9].
Proof. split; [reflexivity|]. split; [reflexivity|]. discriminate. Qed.

(* ---------- 2. read_record (phys ty d ++ rest) ---------- *)

Lemma phys_length : forall ty d, length (phys ty d) = (7 + length d)%nat.
Proof. intros ty d. unfold phys. rewrite !app_length, !le_length. reflexivity. Qed.

Lemma read_record_phys : forall ty d rest,
  1 <= ty <= 4 -> len d <= 65535 ->
  read_record (phys ty d ++ rest) = RecOk ty d rest.
Proof.
  intros ty d rest Hty Hd.
  assert (S7 : skipn 7 (phys ty d ++ rest) = d ++ rest).
  { unfold phys. rewrite <- !app_assoc.
    rewrite (app_assoc (le 4 _)), (app_assoc (le 4 _ ++ le 2 _)), (app_assoc _ d).
    rewrite <- (app_assoc _ d), <- (app_assoc _ [ty]).
    rewrite (app_assoc _ [ty]).
    apply skipn_app_exact. rewrite !app_length, !le_length. reflexivity. }
  unfold read_record.
  rewrite S7.
  assert (F4 : firstn 4 (phys ty d ++ rest) = le 4 (crc32 d)).
  { unfold phys. rewrite <- app_assoc. apply firstn_app_exact. rewrite le_length. reflexivity. }
  assert (F2 : firstn 2 (skipn 4 (phys ty d ++ rest)) = le 2 (len d)).
  { unfold phys. rewrite <- app_assoc.
    rewrite skipn_app_exact by (rewrite le_length; reflexivity).
    rewrite <- app_assoc. apply firstn_app_exact. rewrite le_length. reflexivity. }
  assert (N6 : nth 6 (phys ty d ++ rest) 0 = ty).
  { unfold phys. rewrite <- !app_assoc.
    rewrite app_nth2 by (rewrite le_length; lia). rewrite le_length.
    rewrite app_nth2 by (rewrite le_length; lia). rewrite le_length. reflexivity. }
  rewrite F4, F2, N6.
  rewrite unle_le4 by apply crc32_bound.
  rewrite unle_le2 by lia.
  rewrite HdrSize_val, RtFull_val, RtLast_val.
  assert (Lb : len (phys ty d ++ rest) = 7 + len d + len rest).
  { unfold len. rewrite app_length, phys_length. lia. }
  destruct (phys ty d ++ rest) as [|x bs] eqn:Ebs.
  { rewrite len_nil in Lb. lia. }
  rewrite Lb.
  assert (L1 : (7 + len d + len rest <? 7) = false) by lia. rewrite L1.
  assert (L2 : ((ty <? 1) || (4 <? ty)) = false) by lia. rewrite L2.
  rewrite len_app.
  assert (L3 : (len d + len rest <? len d) = false) by lia. rewrite L3.
  rewrite to_nat_len.
  rewrite (firstn_app_exact _ d rest (length d) eq_refl).
  rewrite (skipn_app_exact _ d rest (length d) eq_refl).
  rewrite N.eqb_refl. reflexivity.
Qed.

Example read_record_phys_hyp_sat :
  1 <= RtMiddle <= 4 /\ len [1; 2; 3] <= 65535 /\
  read_record (phys RtMiddle [1; 2; 3] ++ [9; 9]) = RecOk RtMiddle [1; 2; 3] [9; 9].
Proof. vm_compute. repeat split; discriminate. Qed.

(* ---------- 3. read_entry (encode_entry e ++ rest) ---------- *)

Lemma rt_eqb :
  (RtFull =? RtFull) = true /\ (RtFirst =? RtFull) = false /\ (RtFirst =? RtFirst) = true /\
  (RtMiddle =? RtFull) = false /\ (RtMiddle =? RtFirst) = false /\ (RtMiddle =? RtMiddle) = true /\
  (RtLast =? RtFull) = false /\ (RtLast =? RtFirst) = false /\ (RtLast =? RtMiddle) = false.
Proof. repeat split; reflexivity. Qed.

Lemma rt_range : 1 <= RtFull <= 4 /\ 1 <= RtFirst <= 4 /\ 1 <= RtMiddle <= 4 /\ 1 <= RtLast <= 4.
Proof. rewrite RtFull_val, RtFirst_val, RtMiddle_val, RtLast_val. lia. Qed.

Lemma chunks_S : forall f rem,
  chunks (S f) rem =
  if MaxRec <? len rem
  then phys RtMiddle (firstn (N.to_nat MaxRec) rem) ++ chunks f (skipn (N.to_nat MaxRec) rem)
  else match rem with [] => [] | _ => phys RtLast rem end.
Proof. reflexivity. Qed.

Lemma read_entry_S : forall f bs frags,
  read_entry (S f) bs frags =
    match read_record bs with
    | RecEOF => match frags with [] => EntEOF | _ => EntTorn end
    | RecTorn => EntTorn
    | RecBad rest => EntBad rest frags
    | RecOk ty data rest =>
        if ty =? RtFull then
          match frags with
          | _ :: _ => EntBad rest []
          | [] => match parse_entry data with Some e => EntOk e rest [] | None => EntBad rest [] end
          end
        else if ty =? RtFirst then
          match frags, data with
          | _ :: _, _ => EntBad rest []
          | [], [] => EntBad rest []
          | [], _ => read_entry f rest [data]
          end
        else if ty =? RtMiddle then
          match frags with
          | [] => EntBad rest frags
          | _ => read_entry f rest (frags ++ [data])
          end
        else
          match frags with
          | [] => EntBad rest frags
          | _ => match parse_entry (concat (frags ++ [data])) with
                 | Some e => EntOk e rest []
                 | None => EntBad rest []
                 end
          end
    end.
Proof. reflexivity. Qed.

(* the MIDDLE* LAST tail is read back as one entry made of the pending fragments plus rem *)
Lemma read_chunks : forall f rem fr rest rf,
  rem <> [] -> (length rem < f)%nat -> fr <> [] ->
  (length (chunks f rem) <= rf)%nat ->
  read_entry rf (chunks f rem ++ rest) fr =
    match parse_entry (concat fr ++ rem) with
    | Some e => EntOk e rest []
    | None => EntBad rest []
    end.
Proof.
  pose proof MaxRec_lo as Mlo. pose proof MaxRec_hi as Mhi.
  destruct rt_eqb as (_ & _ & _ & Q1 & Q2 & Q3 & Q4 & Q5 & Q6).
  destruct rt_range as (_ & _ & RM & RL).
  induction f as [|f IH]; intros rem fr rest rf Hne Hf Hfr Hrf; [lia|].
  rewrite chunks_S in *.
  destruct (MaxRec <? len rem) eqn:E.
  - (* MIDDLE *)
    assert (Hl : (N.to_nat MaxRec < length rem)%nat) by (unfold len in E; lia).
    rewrite app_length, phys_length in Hrf.
    destruct rf as [|rf]; [lia|].
    rewrite read_entry_S, <- app_assoc.
    rewrite read_record_phys; [|exact RM|unfold len; rewrite firstn_length; lia].
    rewrite Q1, Q2, Q3.
    destruct fr as [|a fr]; [congruence|].
    rewrite IH.
    + rewrite concat_app. cbn [concat]. rewrite app_nil_r, <- app_assoc, firstn_skipn. reflexivity.
    + intro Hs. apply (f_equal (@length _)) in Hs. rewrite skipn_length in Hs. cbn [length] in Hs. lia.
    + rewrite skipn_length. lia.
    + destruct fr; discriminate.
    + lia.
  - (* LAST *)
    destruct rem as [|x rem]; [congruence|].
    rewrite phys_length in Hrf.
    destruct rf as [|rf]; [lia|].
    rewrite read_entry_S.
    rewrite read_record_phys; [|exact RL|lia].
    rewrite Q4, Q5, Q6.
    destruct fr as [|a fr]; [congruence|].
    rewrite concat_app. cbn [concat]. rewrite app_nil_r. reflexivity.
Qed.

Lemma first_len_bounds : forall e, 13 <= first_len e <= MaxRec.
Proof. intros e. pose proof MaxRec_lo. unfold first_len. lia. Qed.

Lemma encode_entry_length : forall e, (7 <= length (encode_entry e))%nat.
Proof.
  intros e. unfold encode_entry, encode_fragmented.
  destruct (len (payload e) <=? MaxRec).
  - rewrite phys_length. lia.
  - rewrite app_length, phys_length. lia.
Qed.

Lemma read_entry_encode_ok : forall e rest fuel,
  enc_ok e = true -> (length (encode_entry e) <= fuel)%nat ->
  read_entry fuel (encode_entry e ++ rest) [] = EntOk (canon e) rest [].
Proof.
  intros e rest fuel He Hfuel.
  pose proof MaxRec_lo as Mlo. pose proof MaxRec_hi as Mhi.
  destruct rt_eqb as (Q0 & Q1 & Q2 & _).
  destruct rt_range as (RF & R1 & _).
  pose proof (encode_entry_length e) as H7.
  destruct fuel as [|f]; [lia|].
  unfold encode_entry in *.
  destruct (len (payload e) <=? MaxRec) eqn:E.
  - (* FULL *)
    rewrite read_entry_S.
    rewrite read_record_phys; [|exact RF|lia].
    rewrite Q0, parse_payload_ok by exact He. reflexivity.
  - (* FIRST MIDDLE* LAST *)
    unfold encode_fragmented in *. cbv zeta in *.
    pose proof (first_len_bounds e) as Hfl.
    set (p := payload e) in *. set (n := N.to_nat (first_len e)) in *.
    assert (Hp : (N.to_nat MaxRec < length p)%nat) by (unfold len in E; lia).
    assert (Hn : (13 <= n <= N.to_nat MaxRec)%nat) by (subst n; lia).
    assert (Hd : length (firstn n p) = n) by (rewrite firstn_length; lia).
    rewrite app_length, phys_length, Hd in Hfuel.
    rewrite read_entry_S, <- app_assoc.
    rewrite read_record_phys; [|exact R1|unfold len; rewrite Hd; lia].
    rewrite Q1, Q2.
    remember (firstn n p) as d1 eqn:Ed1.
    destruct d1 as [|x d1]; [cbn in Hd; lia|].
    rewrite read_chunks.
    + cbn [concat]. rewrite app_nil_r, Ed1, firstn_skipn.
      subst p. rewrite parse_payload_ok by exact He. reflexivity.
    + intro Hs. apply (f_equal (@length _)) in Hs. rewrite skipn_length in Hs. cbn [length] in Hs. lia.
    + rewrite skipn_length. lia.
    + discriminate.
    + lia.
Qed.

Theorem read_entry_encode : forall e rest fuel,
  wf_entry e = true -> (length (encode_entry e) <= fuel)%nat ->
  read_entry fuel (encode_entry e ++ rest) [] = EntOk (canon e) rest [].
Proof. intros e rest fuel H. apply read_entry_encode_ok. apply wf_enc_ok. exact H. Qed.

(* ---------- 4. replay_file (encode_log es) ---------- *)

Lemma encode_log_cons : forall e es, encode_log (e :: es) = encode_entry e ++ encode_log es.
Proof. reflexivity. Qed.

Lemma encode_log_app : forall a b, encode_log (a ++ b) = encode_log a ++ encode_log b.
Proof. intros a b. unfold encode_log. apply flat_map_app. Qed.

Lemma encode_log_length : forall es, (length es <= length (encode_log es))%nat.
Proof.
  induction es as [|e es IH]; [cbn; lia|].
  rewrite encode_log_cons, app_length. pose proof (encode_entry_length e). cbn [length]. lia.
Qed.

Lemma replay_file_aux_S : forall f bs frags acc,
  replay_file_aux (S f) bs frags acc =
    match read_entry (S (length bs)) bs frags with
    | EntOk e rest fr => replay_file_aux f rest fr (e :: acc)
    | EntEOF => (rev acc, Clean)
    | EntTorn => (rev acc, TornTail)
    | EntBad _ _ => (rev acc, Damaged)
    | EntFuel => (rev acc, OutOfFuel)
    end.
Proof. reflexivity. Qed.

Lemma replay_aux_encode : forall es fuel acc,
  forallb enc_ok es = true -> (length es < fuel)%nat ->
  replay_file_aux fuel (encode_log es) [] acc = (rev acc ++ map canon es, Clean).
Proof.
  induction es as [|e es IH]; intros fuel acc Hes Hfuel.
  - destruct fuel as [|f]; [lia|]. cbn. rewrite app_nil_r. reflexivity.
  - destruct fuel as [|f]; [cbn in Hfuel; lia|].
    cbn [forallb] in Hes. apply andb_prop in Hes. destruct Hes as [He Hes].
    rewrite replay_file_aux_S, encode_log_cons.
    rewrite read_entry_encode_ok; [|exact He|rewrite app_length; lia].
    rewrite IH; [|exact Hes|cbn in Hfuel; lia].
    cbn [rev map]. rewrite <- app_assoc. reflexivity.
Qed.

Lemma forallb_wf_enc_ok : forall es, forallb wf_entry es = true -> forallb enc_ok es = true.
Proof.
  intros es H. rewrite forallb_forall in *. intros e Hin. apply wf_enc_ok. apply H. exact Hin.
Qed.

Lemma C09_roundtrip_ok : forall es,
  forallb enc_ok es = true -> replay_file (encode_log es) = (map canon es, Clean).
Proof.
  intros es H. unfold replay_file.
  rewrite replay_aux_encode; [reflexivity|exact H|].
  pose proof (encode_log_length es). lia.
Qed.

Theorem C09_roundtrip : forall es,
  forallb wf_entry es = true -> replay_file (encode_log es) = (map canon es, Clean).
Proof. intros es H. apply C09_roundtrip_ok. apply forallb_wf_enc_ok. exact H. Qed.

(* ---------- 5. directories ---------- *)

Lemma C09_dir_ok : forall ess,
  forallb (forallb enc_ok) ess = true ->
  replay_dir (map encode_log ess) = map canon (concat ess).
Proof.
  induction ess as [|es ess IH]; intros H; [reflexivity|].
  cbn [forallb] in H. apply andb_prop in H. destruct H as [H1 H2].
  unfold replay_dir in *. cbn [map flat_map concat].
  rewrite C09_roundtrip_ok by exact H1. cbn [fst].
  rewrite IH by exact H2. rewrite map_app. reflexivity.
Qed.

Lemma forallb2_wf_enc_ok : forall ess,
  forallb (forallb wf_entry) ess = true -> forallb (forallb enc_ok) ess = true.
Proof.
  intros ess H. rewrite forallb_forall in *. intros es Hin.
  apply forallb_wf_enc_ok. apply H. exact Hin.
Qed.

Theorem C09_dir : forall ess,
  forallb (forallb wf_entry) ess = true ->
  replay_dir (map encode_log ess) = map canon (concat ess).
Proof. intros ess H. apply C09_dir_ok. apply forallb2_wf_enc_ok. exact H. Qed.

Theorem C09_from : forall s ess,
  forallb (forallb wf_entry) ess = true ->
  entries_from s (map encode_log ess) = filter (fun e => s <=? w_seq e) (map canon (concat ess)).
Proof. intros s ess H. unfold entries_from. rewrite C09_dir by exact H. reflexivity. Qed.

(* hypotheses of 3-5 are satisfiable, including by an entry that needs fragmentation *)
Definition ex_big : wentry := mkW OpPut 5 [1; 2] (repeat 7 (N.to_nat 70000)).
Definition ex_small : wentry := mkW OpDel 6 [1; 2; 3] [4].

Example read_entry_encode_hyp_sat :
  wf_entry ex_big = true /\ (len (payload ex_big) <=? MaxRec) = false /\
  Nat.leb (length (encode_entry ex_big)) (N.to_nat 80000) = true /\
  wf_entry ex_small = true /\ (len (payload ex_small) <=? MaxRec) = true.
Proof. vm_compute. repeat split. Qed.

Example C09_roundtrip_hyp_sat :
  forallb wf_entry [ex_small; ex_big; ex_small] = true /\
  forallb (forallb wf_entry) [[ex_small; ex_big]; []; [ex_small]] = true.
Proof. vm_compute. split; reflexivity. Qed.

(* ---------- 6. the writer state machine ---------- *)

Inductive wop :=
| WAppend (op : N) (k v : bytes)
| WBatch (ops : list wentry)
| WAppendSeq (op : N) (k v : bytes) (s : N)
| WRotate.

(* one call of the API; the result is None for WRotate, which returns nothing *)
Definition wal_do (w : wal) (o : wop) : wal * option wres :=
  match o with
  | WAppend op k v => let r := wal_append w op k v in (fst r, Some (snd r))
  | WBatch ops => let r := wal_append_batch w ops in (fst r, Some (snd r))
  | WAppendSeq op k v s => let r := wal_append_seq w op k v s in (fst r, Some (snd r))
  | WRotate => (wal_new_file w, None)
  end.

(* a failed operation leaves the state as it was (the model's functions return w itself) *)
Definition wal_step (w : wal) (o : wop) : wal := fst (wal_do w o).

(* the sequence number a successful operation returns *)
Definition wal_ret (w : wal) (o : wop) : option N :=
  match snd (wal_do w o) with Some (WOk s) => Some s | _ => None end.

(* specification of what an operation adds to the log: independent of wal_append & co. *)
Definition logged (w : wal) (o : wop) : list wentry :=
  match o with
  | WAppend op k v =>
      if valid_op op && (wl_next w <? MaxSeq) then [mkW op (wl_next w) k v] else []
  | WBatch ops =>
      if (wl_next w <? MaxSeq) && forallb (fun e => valid_op (w_op e)) ops
      then map (stamp (wl_next w)) ops else []
  | WAppendSeq op k v s =>
      if valid_op op && (s <? MaxSeq) then [mkW op s k v] else []
  | WRotate => []
  end.

Fixpoint run_logged (w : wal) (ops : list wop) : list wentry :=
  match ops with
  | [] => []
  | o :: r => logged w o ++ run_logged (wal_step w o) r
  end.

(* guard: what the proof needs ... *)
Definition kv_len_ok (k v : bytes) : bool := (len k <? 2 ^ 32) && (len v <? 2 ^ 32).
Definition wop_ok (o : wop) : bool :=
  match o with
  | WAppend _ k v => kv_len_ok k v
  | WBatch ops => forallb (fun e => kv_len_ok (w_key e) (w_val e)) ops
  | WAppendSeq _ k v _ => kv_len_ok k v
  | WRotate => true
  end.

(* ... and the guard in the vocabulary of wf_entry (adds wf_bytes, which no proof uses).
   No valid_op conjunct for batches: wal_append_batch checks every op type before it writes
   anything, so a batch with an invalid op type is a failed operation that logs nothing. *)
Definition kv_wf (k v : bytes) : bool :=
  (len k <? 2 ^ 32) && (len v <? 2 ^ 32) && wf_bytes k && wf_bytes v.
Definition wop_wf (o : wop) : bool :=
  match o with
  | WAppend _ k v => kv_wf k v
  | WBatch ops => forallb (fun e => kv_wf (w_key e) (w_val e)) ops
  | WAppendSeq _ k v _ => kv_wf k v
  | WRotate => true
  end.

Lemma kv_wf_len_ok : forall k v, kv_wf k v = true -> kv_len_ok k v = true.
Proof.
  intros k v H. unfold kv_wf in H. unfold kv_len_ok.
  apply andb_prop in H. destruct H as [H _].
  apply andb_prop in H. destruct H as [H _]. exact H.
Qed.

Lemma wop_wf_ok : forall o, wop_wf o = true -> wop_ok o = true.
Proof.
  intros [op k v|ops|op k v s|] H; cbn [wop_wf wop_ok] in *; try (apply kv_wf_len_ok; exact H); auto.
  rewrite forallb_forall in *. intros e Hin. apply kv_wf_len_ok. apply H. exact Hin.
Qed.

Lemma encode_log_single : forall e, encode_log [e] = encode_entry e.
Proof. intros e. cbn. apply app_nil_r. Qed.

Lemma encode_batch_log : forall s ops, encode_batch s ops = encode_log (map (stamp s) ops).
Proof.
  intros s ops. unfold encode_batch, encode_log.
  induction ops as [|e ops IH]; [reflexivity|]. cbn [flat_map map]. rewrite IH. reflexivity.
Qed.

Definition all_enc_ok (ess : list (list wentry)) : bool := forallb (forallb enc_ok) ess.

Lemma app_last_encode : forall ess new,
  ess <> [] -> all_enc_ok ess = true -> forallb enc_ok new = true ->
  exists ess', ess' <> [] /\ all_enc_ok ess' = true /\
    app_last (map encode_log ess) (encode_log new) = map encode_log ess' /\
    concat ess' = concat ess ++ new.
Proof.
  intros ess new Hne Hok Hnew.
  destruct (exists_last Hne) as (ess0 & l & ->).
  exists (ess0 ++ [l ++ new]).
  unfold all_enc_ok in *. rewrite forallb_app in *. cbn [forallb] in *.
  apply andb_prop in Hok. destruct Hok as [Hok0 Hl]. rewrite andb_true_r in Hl.
  split; [destruct ess0; discriminate|].
  split; [rewrite Hok0, forallb_app, Hl, Hnew; reflexivity|].
  split.
  - unfold app_last. rewrite !map_app. cbn [map]. rewrite rev_app_distr. cbn [rev app].
    rewrite rev_involutive, encode_log_app. reflexivity.
  - rewrite !concat_app. cbn [concat]. rewrite !app_nil_r, app_assoc. reflexivity.
Qed.

Lemma kv_len_ok_inv : forall k v, kv_len_ok k v = true -> len k < 2 ^ 32 /\ len v < 2 ^ 32.
Proof. intros k v H. unfold kv_len_ok in H. apply andb_prop in H. destruct H. split; lia. Qed.

Lemma enc_ok_intro : forall op s k v,
  valid_op op = true -> s < MaxSeq -> kv_len_ok k v = true -> enc_ok (mkW op s k v) = true.
Proof.
  intros op s k v Hop Hs Hkv. pose proof MaxSeq_hi. apply kv_len_ok_inv in Hkv.
  unfold enc_ok. cbn [w_op w_seq w_key w_val]. rewrite Hop. cbn [andb].
  destruct Hkv. rewrite !andb_true_iff. repeat split; apply N.ltb_lt; lia.
Qed.

Lemma step_inv : forall w o ess,
  ess <> [] -> all_enc_ok ess = true -> wl_files w = map encode_log ess -> wop_ok o = true ->
  exists ess', ess' <> [] /\ all_enc_ok ess' = true /\
    wl_files (wal_step w o) = map encode_log ess' /\
    concat ess' = concat ess ++ logged w o.
Proof.
  intros w o ess Hne Hok Hfiles Ho.
  assert (Same : logged w o = [] -> wal_step w o = w ->
    exists ess', ess' <> [] /\ all_enc_ok ess' = true /\
      wl_files (wal_step w o) = map encode_log ess' /\ concat ess' = concat ess ++ logged w o).
  { intros -> ->. exists ess. rewrite app_nil_r. auto. }
  destruct o as [op k v|ops|op k v s|]; cbn [wop_ok] in Ho.
  - (* WAppend *)
    unfold wal_step, wal_do, logged in *. cbv zeta in *. unfold wal_append in *.
    destruct (valid_op op) eqn:Hop; cbn [negb andb] in *; [|apply Same; reflexivity].
    destruct (MaxSeq <=? wl_next w) eqn:Hov.
    + replace (wl_next w <? MaxSeq) with false in * by lia. apply Same; reflexivity.
    + replace (wl_next w <? MaxSeq) with true by lia. cbn [fst wl_files].
      rewrite Hfiles, <- encode_log_single.
      apply app_last_encode; [exact Hne|exact Hok|].
      cbn [forallb]. rewrite enc_ok_intro; [reflexivity|exact Hop|lia|exact Ho].
  - (* WBatch *)
    unfold wal_step, wal_do, logged in *. cbv zeta in *. unfold wal_append_batch in *.
    destruct ops as [|e0 ops0].
    { cbn [map]. destruct ((wl_next w <? MaxSeq) && _); apply Same; reflexivity. }
    set (ops := e0 :: ops0) in *.
    destruct (MaxSeq <=? wl_next w) eqn:Hov.
    + replace (wl_next w <? MaxSeq) with false in * by lia. cbn [andb] in *.
      apply Same; reflexivity.
    + replace (wl_next w <? MaxSeq) with true in * by lia. cbn [andb] in *.
      destruct (forallb (fun e => valid_op (w_op e)) ops) eqn:Hval; cbn [negb] in *;
        [|apply Same; reflexivity].
      cbn [fst wl_files].
      rewrite Hfiles, encode_batch_log.
      apply app_last_encode; [exact Hne|exact Hok|].
      rewrite forallb_forall in *. intros e Hin.
      apply in_map_iff in Hin. destruct Hin as (e' & <- & Hin').
      apply enc_ok_intro; [exact (Hval e' Hin')|lia|exact (Ho e' Hin')].
  - (* WAppendSeq *)
    unfold wal_step, wal_do, logged in *. cbv zeta in *. unfold wal_append_seq in *.
    destruct (valid_op op) eqn:Hop; cbn [negb andb] in *; [|apply Same; reflexivity].
    destruct (MaxSeq <=? s) eqn:Hov.
    + replace (s <? MaxSeq) with false in * by lia. apply Same; reflexivity.
    + replace (s <? MaxSeq) with true by lia. cbn [fst wl_files].
      rewrite Hfiles, <- encode_log_single.
      apply app_last_encode; [exact Hne|exact Hok|].
      cbn [forallb]. rewrite enc_ok_intro; [reflexivity|exact Hop|lia|exact Ho].
  - (* WRotate *)
    exists (ess ++ [[]]).
    split; [destruct ess; discriminate|].
    split; [unfold all_enc_ok in *; rewrite forallb_app, Hok; reflexivity|].
    split.
    + unfold wal_step, wal_do, wal_new_file. cbn [fst wl_files]. rewrite Hfiles, map_app. reflexivity.
    + rewrite concat_app. cbn [concat logged]. reflexivity.
Qed.

Lemma writer_inv : forall ops w ess,
  ess <> [] -> all_enc_ok ess = true -> wl_files w = map encode_log ess ->
  forallb wop_ok ops = true ->
  replay_dir (wl_files (fold_left wal_step ops w)) = map canon (concat ess ++ run_logged w ops).
Proof.
  induction ops as [|o ops IH]; intros w ess Hne Hok Hfiles Hops.
  - cbn [fold_left run_logged]. rewrite app_nil_r, Hfiles. apply C09_dir_ok. exact Hok.
  - cbn [forallb] in Hops. apply andb_prop in Hops. destruct Hops as [Ho Hops].
    destruct (step_inv w o ess Hne Hok Hfiles Ho) as (ess' & Hne' & Hok' & Hfiles' & Hcat).
    cbn [fold_left run_logged].
    rewrite (IH _ ess' Hne' Hok' Hfiles' Hops), Hcat, app_assoc. reflexivity.
Qed.

Lemma C09_writer_ok : forall ops s0 w0,
  w0 = mkWal s0 [[]] -> forallb wop_ok ops = true ->
  replay_dir (wl_files (fold_left wal_step ops w0)) = map canon (run_logged w0 ops).
Proof.
  intros ops s0 w0 -> Hops.
  rewrite (writer_inv ops _ [[]]); [reflexivity|discriminate|reflexivity|reflexivity|exact Hops].
Qed.

Theorem C09_writer : forall ops s0 w0,
  w0 = mkWal s0 [[]] -> forallb wop_wf ops = true ->
  replay_dir (wl_files (fold_left wal_step ops w0)) = map canon (run_logged w0 ops).
Proof.
  intros ops s0 w0 Hw Hops. apply (C09_writer_ok ops s0 w0 Hw).
  rewrite forallb_forall in *. intros o Hin. apply wop_wf_ok. apply Hops. exact Hin.
Qed.

Definition ex_ops : list wop :=
  [WAppend OpPut [1] [2]; WBatch [mkW OpPut 0 [3] [4]; mkW OpDel 0 [5] [6]]; WRotate;
   WAppend 9 [1] [2]; WBatch []; WBatch [mkW OpPut 0 [1] [1]; mkW 9 0 [1] [1]];
   WAppendSeq OpMerge [7] [8] 100; WAppend OpDel [9] [9]].

Example C09_writer_hyp_sat :
  forallb wop_wf ex_ops = true /\
  map w_seq (run_logged (mkWal 5 [[]]) ex_ops) = [5; 6; 6; 100; 101] /\
  length (wl_files (fold_left wal_step ex_ops (mkWal 5 [[]]))) = 2%nat.
Proof. vm_compute. repeat split. Qed.

(* a failed AppendBatch (overflow or an invalid op type anywhere in the batch) changes
   neither the files nor the counter *)
Theorem C09_batch_error_no_effect : forall w ops w' r,
  wal_append_batch w ops = (w', r) -> (forall s, r <> WOk s) -> w' = w.
Proof.
  intros w ops w' r H Hr. unfold wal_append_batch in H.
  destruct ops as [|e ops].
  - inversion H. reflexivity.
  - destruct (MaxSeq <=? wl_next w); [inversion H; reflexivity|].
    destruct (negb _); [inversion H; reflexivity|].
    inversion H. subst. exfalso. apply (Hr (wl_next w)). reflexivity.
Qed.

Example C09_batch_error_hyp_sat :
  wal_append_batch (mkWal 5 [[1; 2]]) [mkW OpPut 0 [1] [1]; mkW 9 0 [1] [1]]
    = (mkWal 5 [[1; 2]], WErrInvalidOp) /\
  logged (mkWal 5 [[1; 2]]) (WBatch [mkW OpPut 0 [1] [1]; mkW 9 0 [1] [1]]) = [].
Proof. split; reflexivity. Qed.

(* ---------- C08: sequence numbers handed out by the writer ---------- *)

(* every element is R-related to every later element *)
Fixpoint sorted_by (R : N -> N -> Prop) (l : list N) : Prop :=
  match l with
  | [] => True
  | x :: r => (forall y, In y r -> R x y) /\ sorted_by R r
  end.

Definition no_explicit_seq (o : wop) : bool :=
  match o with WAppendSeq _ _ _ _ => false | _ => true end.
Definition is_empty_batch (o : wop) : bool :=
  match o with WBatch [] => true | _ => false end.

Definition opt_list (o : option N) : list N := match o with Some s => [s] | None => [] end.

(* sequence numbers returned by the successful operations of a run, in order *)
Fixpoint run_rets (w : wal) (ops : list wop) : list N :=
  match ops with
  | [] => []
  | o :: r => opt_list (wal_ret w o) ++ run_rets (wal_step w o) r
  end.

(* the same without the results of empty batches (which return wl_next without consuming it) *)
Fixpoint run_assigned (w : wal) (ops : list wop) : list N :=
  match ops with
  | [] => []
  | o :: r => (if is_empty_batch o then [] else opt_list (wal_ret w o)) ++ run_assigned (wal_step w o) r
  end.

Lemma wal_step_next_mono : forall w o, wl_next w <= wl_next (wal_step w o).
Proof.
  intros w [op k v|ops|op k v s|]; unfold wal_step, wal_do; cbv zeta;
    unfold wal_append, wal_append_batch, wal_append_seq, wal_new_file.
  - destruct (negb (valid_op op)); [cbn; lia|]. destruct (MaxSeq <=? wl_next w); cbn [fst wl_next]; lia.
  - destruct ops; [cbn; lia|]. destruct (MaxSeq <=? wl_next w); cbn [fst wl_next]; [lia|].
    destruct (negb _); cbn [fst wl_next]; lia.
  - destruct (negb (valid_op op)); [cbn; lia|]. destruct (MaxSeq <=? s); cbn [fst wl_next]; [lia|].
    destruct (wl_next w <=? s) eqn:E; lia.
  - cbn [fst wl_next]. lia.
Qed.

Lemma wal_run_next_mono : forall ops w, wl_next w <= wl_next (fold_left wal_step ops w).
Proof.
  induction ops as [|o ops IH]; intros w; cbn [fold_left]; [lia|].
  pose proof (wal_step_next_mono w o). pose proof (IH (wal_step w o)). lia.
Qed.

(* what a successful non-AppendWithSequence call returns, and how the counter moves *)
Lemma wal_ret_spec : forall w o s,
  no_explicit_seq o = true -> wal_ret w o = Some s ->
  s = wl_next w /\ (is_empty_batch o = false -> wl_next (wal_step w o) = s + 1).
Proof.
  intros w [op k v|ops|op k v s'|] s Hno; try discriminate;
    unfold wal_ret, wal_step, wal_do; cbv zeta;
    unfold wal_append, wal_append_batch.
  - destruct (negb (valid_op op)); [discriminate|].
    destruct (MaxSeq <=? wl_next w); [discriminate|]. cbn [fst snd wl_next].
    intros E. inversion E. auto.
  - destruct ops as [|e ops].
    + cbn [fst snd is_empty_batch]. intros E. inversion E. split; [reflexivity|discriminate].
    + destruct (MaxSeq <=? wl_next w); [discriminate|].
      destruct (negb _); [discriminate|]. cbn [fst snd wl_next].
      intros E. inversion E. auto.
Qed.

Lemma run_rets_lower : forall ops w s,
  forallb no_explicit_seq ops = true -> In s (run_rets w ops) -> wl_next w <= s.
Proof.
  induction ops as [|o ops IH]; intros w s Hno Hin; [destruct Hin|].
  cbn [forallb] in Hno. apply andb_prop in Hno. destruct Hno as [Ho Hno].
  cbn [run_rets] in Hin. apply in_app_or in Hin. destruct Hin as [Hin|Hin].
  - destruct (wal_ret w o) as [s1|] eqn:E; [|destruct Hin].
    destruct Hin as [<-|[]]. apply (wal_ret_spec w o s1 Ho) in E. lia.
  - pose proof (IH _ _ Hno Hin). pose proof (wal_step_next_mono w o). lia.
Qed.

Lemma run_assigned_incl : forall ops w s, In s (run_assigned w ops) -> In s (run_rets w ops).
Proof.
  induction ops as [|o ops IH]; intros w s Hin; [exact Hin|].
  cbn [run_rets run_assigned] in *. apply in_or_app. apply in_app_or in Hin.
  destruct Hin as [Hin|Hin]; [left|right; apply IH; exact Hin].
  destruct (is_empty_batch o); [destruct Hin|exact Hin].
Qed.

Theorem C08_wal_monotone : forall ops w,
  forallb no_explicit_seq ops = true ->
  sorted_by N.lt (run_assigned w ops) /\
  sorted_by N.le (run_rets w ops) /\
  (forall pre post, ops = pre ++ post ->
     wl_next w <= wl_next (fold_left wal_step pre w) /\
     wl_next (fold_left wal_step pre w) <= wl_next (fold_left wal_step ops w)).
Proof.
  intros ops w Hno. split; [|split].
  - revert w Hno. induction ops as [|o ops IH]; intros w Hno; [exact I|].
    cbn [forallb] in Hno. apply andb_prop in Hno. destruct Hno as [Ho Hno].
    cbn [run_assigned]. specialize (IH (wal_step w o) Hno).
    destruct (is_empty_batch o) eqn:Eb; [exact IH|].
    destruct (wal_ret w o) as [s|] eqn:E; [|exact IH].
    cbn [opt_list app sorted_by]. split; [|exact IH].
    intros y Hy. apply run_assigned_incl in Hy. apply run_rets_lower in Hy; [|exact Hno].
    destruct (wal_ret_spec w o s Ho E) as [_ Hnext]. specialize (Hnext Eb). lia.
  - revert w Hno. induction ops as [|o ops IH]; intros w Hno; [exact I|].
    cbn [forallb] in Hno. apply andb_prop in Hno. destruct Hno as [Ho Hno].
    cbn [run_rets]. specialize (IH (wal_step w o) Hno).
    destruct (wal_ret w o) as [s|] eqn:E; [|exact IH].
    cbn [opt_list app sorted_by]. split; [|exact IH].
    intros y Hy. apply run_rets_lower in Hy; [|exact Hno].
    destruct (wal_ret_spec w o s Ho E) as [-> _]. pose proof (wal_step_next_mono w o). lia.
  - intros pre post ->. rewrite fold_left_app. split; apply wal_run_next_mono.
Qed.

(* without empty batches the two lists coincide, so all returned numbers strictly increase *)
Lemma run_assigned_rets : forall ops w,
  forallb (fun o => negb (is_empty_batch o)) ops = true -> run_assigned w ops = run_rets w ops.
Proof.
  induction ops as [|o ops IH]; intros w H; [reflexivity|].
  cbn [forallb] in H. apply andb_prop in H. destruct H as [Ho H].
  cbn [run_assigned run_rets]. rewrite IH by exact H.
  destruct (is_empty_batch o); [discriminate|reflexivity].
Qed.

Corollary C08_wal_strict : forall ops w,
  forallb no_explicit_seq ops = true ->
  forallb (fun o => negb (is_empty_batch o)) ops = true ->
  sorted_by N.lt (run_rets w ops).
Proof.
  intros ops w H1 H2. rewrite <- run_assigned_rets by exact H2.
  apply C08_wal_monotone. exact H1.
Qed.

(* the restriction is needed: an empty batch returns the number the next append also gets *)
Example C08_empty_batch_repeats :
  run_rets (mkWal 5 [[]]) [WBatch []; WAppend OpPut [1] [2]] = [5; 5].
Proof. reflexivity. Qed.

Example C08_hyp_sat :
  forallb no_explicit_seq [WAppend OpPut [1] [2]; WBatch []; WRotate; WBatch [ex_small]; WAppend 9 [] []] = true /\
  run_rets (mkWal 5 [[]]) [WAppend OpPut [1] [2]; WBatch []; WRotate; WBatch [ex_small]; WAppend 9 [] []] = [5; 6; 6] /\
  run_assigned (mkWal 5 [[]]) [WAppend OpPut [1] [2]; WBatch []; WRotate; WBatch [ex_small]; WAppend 9 [] []] = [5; 6].
Proof. vm_compute. repeat split. Qed.

(* ---------- 7. C10: a log cut at an arbitrary byte ---------- *)

(* any 7-byte header with in-range crc and length fields, followed by an arbitrary body *)
Lemma read_record_raw : forall c l ty body,
  c < 2 ^ 32 -> l < 65536 ->
  read_record (le 4 c ++ le 2 l ++ [ty] ++ body) =
    if (ty <? RtFull) || (RtLast <? ty) then RecBad body else
    if len body <? l then RecTorn else
    if crc32 (firstn (N.to_nat l) body) =? c
    then RecOk ty (firstn (N.to_nat l) body) (skipn (N.to_nat l) body)
    else RecBad (skipn (N.to_nat l) body).
Proof.
  intros c l ty body Hc Hl.
  set (bs := le 4 c ++ le 2 l ++ [ty] ++ body).
  assert (S7 : skipn 7 bs = body).
  { subst bs. rewrite (app_assoc (le 4 _)), (app_assoc (le 4 _ ++ le 2 _)).
    apply skipn_app_exact. rewrite !app_length, !le_length. reflexivity. }
  assert (F4 : firstn 4 bs = le 4 c).
  { subst bs. apply firstn_app_exact. rewrite le_length. reflexivity. }
  assert (F2 : firstn 2 (skipn 4 bs) = le 2 l).
  { subst bs. rewrite skipn_app_exact by (rewrite le_length; reflexivity).
    apply firstn_app_exact. rewrite le_length. reflexivity. }
  assert (N6 : nth 6 bs 0 = ty).
  { subst bs.
    rewrite app_nth2 by (rewrite le_length; lia). rewrite le_length.
    rewrite app_nth2 by (rewrite le_length; lia). rewrite le_length. reflexivity. }
  assert (Lb : len bs = 7 + len body).
  { subst bs. rewrite !len_app, !len_le, len_cons, len_nil. lia. }
  unfold read_record.
  rewrite S7, F4, F2, N6, unle_le4, unle_le2, HdrSize_val by assumption.
  destruct bs as [|x bs]; [rewrite len_nil in Lb; lia|].
  rewrite Lb.
  assert (L1 : (7 + len body <? 7) = false) by lia. rewrite L1. reflexivity.
Qed.

Lemma read_record_short : forall bs, bs <> [] -> len bs < 7 -> read_record bs = RecTorn.
Proof.
  intros bs Hne Hl. unfold read_record. destruct bs as [|x bs]; [congruence|].
  rewrite HdrSize_val. assert (L : (len (x :: bs) <? 7) = true) by lia. rewrite L. reflexivity.
Qed.

Lemma phys_split : forall ty d, phys ty d = (le 4 (crc32 d) ++ le 2 (len d) ++ [ty]) ++ d.
Proof. intros ty d. unfold phys. rewrite <- !app_assoc. reflexivity. Qed.

Lemma read_record_firstn : forall ty d rest n,
  1 <= ty <= 4 -> len d <= 65535 ->
  read_record (firstn n (phys ty d ++ rest)) =
    if (n =? 0)%nat then RecEOF
    else if (n <? length (phys ty d))%nat then RecTorn
    else RecOk ty d (firstn (n - length (phys ty d)) rest).
Proof.
  intros ty d rest n Hty Hd.
  destruct (n =? 0)%nat eqn:E0.
  { apply Nat.eqb_eq in E0. subst n. reflexivity. }
  apply Nat.eqb_neq in E0.
  rewrite firstn_app.
  destruct (n <? length (phys ty d))%nat eqn:E1.
  - apply Nat.ltb_lt in E1.
    replace (n - length (phys ty d))%nat with 0%nat by lia. cbn [firstn]. rewrite app_nil_r.
    rewrite phys_length in E1.
    destruct (Nat.ltb n 7) eqn:E7.
    + apply Nat.ltb_lt in E7. apply read_record_short.
      * intro Hn. apply (f_equal (@length _)) in Hn.
        rewrite firstn_length, phys_length in Hn. cbn [length] in Hn. lia.
      * unfold len. rewrite firstn_length, phys_length. lia.
    + apply Nat.ltb_ge in E7.
      rewrite phys_split, firstn_app.
      rewrite firstn_all2 by (rewrite !app_length, !le_length; cbn [length]; lia).
      rewrite !app_length, !le_length. cbn [length Nat.add].
      rewrite <- !app_assoc.
      rewrite read_record_raw; [|apply crc32_bound|lia].
      rewrite RtFull_val, RtLast_val.
      assert (L2 : ((ty <? 1) || (4 <? ty)) = false) by lia. rewrite L2.
      assert (L3 : (len (firstn (n - 7) d) <? len d) = true).
      { unfold len. rewrite firstn_length. lia. }
      rewrite L3. reflexivity.
  - apply Nat.ltb_ge in E1.
    rewrite firstn_all2 by exact E1.
    apply read_record_phys; assumption.
Qed.

Lemma read_chunks_trunc : forall f rem fr n rf,
  rem <> [] -> (length rem < f)%nat -> fr <> [] ->
  (n < length (chunks f rem))%nat -> (n < rf)%nat ->
  read_entry rf (firstn n (chunks f rem)) fr = EntTorn.
Proof.
  pose proof MaxRec_lo as Mlo. pose proof MaxRec_hi as Mhi.
  destruct rt_eqb as (_ & _ & _ & Q1 & Q2 & Q3 & Q4 & Q5 & Q6).
  destruct rt_range as (_ & _ & RM & RL).
  induction f as [|f IH]; intros rem fr n rf Hne Hf Hfr Hn Hrf; [lia|].
  rewrite chunks_S in *.
  destruct rf as [|rf]; [lia|].
  rewrite read_entry_S.
  destruct (MaxRec <? len rem) eqn:E.
  - assert (Hl : (N.to_nat MaxRec < length rem)%nat) by (unfold len in E; lia).
    rewrite read_record_firstn; [|exact RM|unfold len; rewrite firstn_length; lia].
    destruct fr as [|a fr]; [congruence|].
    destruct (n =? 0)%nat; [reflexivity|].
    destruct (n <? length (phys RtMiddle (firstn (N.to_nat MaxRec) rem)))%nat eqn:E1; [reflexivity|].
    apply Nat.ltb_ge in E1. rewrite Q1, Q2, Q3.
    rewrite app_length in Hn.
    apply IH.
    + intro Hs. apply (f_equal (@length _)) in Hs. rewrite skipn_length in Hs. cbn [length] in Hs. lia.
    + rewrite skipn_length. lia.
    + discriminate.
    + lia.
    + rewrite phys_length in *. lia.
  - destruct rem as [|x rem]; [congruence|].
    rewrite <- (app_nil_r (phys RtLast (x :: rem))).
    rewrite read_record_firstn; [|exact RL|lia].
    destruct fr as [|a fr]; [congruence|].
    destruct (n =? 0)%nat; [reflexivity|].
    apply Nat.ltb_lt in Hn. rewrite Hn. reflexivity.
Qed.

Lemma read_entry_trunc : forall e n rf,
  enc_ok e = true -> (n < length (encode_entry e))%nat -> (n < rf)%nat ->
  read_entry rf (firstn n (encode_entry e)) [] = if (n =? 0)%nat then EntEOF else EntTorn.
Proof.
  intros e n rf He Hn Hrf.
  pose proof MaxRec_lo as Mlo. pose proof MaxRec_hi as Mhi.
  destruct rt_eqb as (Q0 & Q1 & Q2 & _).
  destruct rt_range as (RF & R1 & _).
  destruct rf as [|rf]; [lia|].
  rewrite read_entry_S.
  unfold encode_entry in *.
  destruct (len (payload e) <=? MaxRec) eqn:E.
  - rewrite <- (app_nil_r (phys RtFull (payload e))).
    rewrite read_record_firstn; [|exact RF|lia].
    destruct (n =? 0)%nat; [reflexivity|].
    apply Nat.ltb_lt in Hn. rewrite Hn. reflexivity.
  - unfold encode_fragmented in *. cbv zeta in *.
    pose proof (first_len_bounds e) as Hfl.
    set (p := payload e) in *. set (k := N.to_nat (first_len e)) in *.
    assert (Hp : (N.to_nat MaxRec < length p)%nat) by (unfold len in E; lia).
    assert (Hk : (13 <= k <= N.to_nat MaxRec)%nat) by (subst k; lia).
    assert (Hd : length (firstn k p) = k) by (rewrite firstn_length; lia).
    rewrite read_record_firstn; [|exact R1|unfold len; rewrite Hd; lia].
    destruct (n =? 0)%nat eqn:E0; [reflexivity|].
    destruct (n <? length (phys RtFirst (firstn k p)))%nat eqn:E1; [reflexivity|].
    apply Nat.ltb_ge in E1. rewrite Q1, Q2.
    rewrite app_length in Hn.
    remember (firstn k p) as d1 eqn:Ed1.
    destruct d1 as [|x d1]; [cbn [length] in Hd; lia|].
    apply read_chunks_trunc.
    + intro Hs. apply (f_equal (@length _)) in Hs. rewrite skipn_length in Hs. cbn [length] in Hs. lia.
    + rewrite skipn_length. lia.
    + discriminate.
    + lia.
    + rewrite phys_length in *. lia.
Qed.

(* number of leading entries whose encoding lies wholly inside the first n bytes of the log
   (encodings are laid end to end, so these are all the entries that lie inside) *)
Fixpoint whole_within (es : list wentry) (n : nat) : nat :=
  match es with
  | [] => 0
  | e :: r =>
      if (length (encode_entry e) <=? n)%nat
      then S (whole_within r (n - length (encode_entry e)))
      else 0
  end.

(* status of replaying the first n bytes: Clean iff the cut falls on an entry boundary *)
Fixpoint trunc_status (es : list wentry) (n : nat) : rstatus :=
  match es with
  | [] => Clean
  | e :: r =>
      if (length (encode_entry e) <=? n)%nat
      then trunc_status r (n - length (encode_entry e))
      else if (n =? 0)%nat then Clean else TornTail
  end.

Lemma whole_within_le : forall es n, (whole_within es n <= n)%nat /\ (whole_within es n <= length es)%nat.
Proof.
  induction es as [|e es IH]; intros n; cbn [whole_within length]; [lia|].
  pose proof (encode_entry_length e).
  destruct (length (encode_entry e) <=? n)%nat eqn:E; [|lia].
  apply Nat.leb_le in E. specialize (IH (n - length (encode_entry e))%nat). lia.
Qed.

(* whole_within is the largest m such that the first m entries fit into n bytes *)
Lemma whole_within_spec : forall es n,
  let m := whole_within es n in
  (length (encode_log (firstn m es)) <= n)%nat /\
  ((m < length es)%nat -> (n < length (encode_log (firstn (S m) es)))%nat).
Proof.
  induction es as [|e es IH]; intros n; cbn zeta.
  - cbn. lia.
  - cbn [whole_within].
    destruct (length (encode_entry e) <=? n)%nat eqn:E.
    + apply Nat.leb_le in E. specialize (IH (n - length (encode_entry e))%nat). cbn zeta in IH.
      destruct IH as [IH1 IH2].
      change (firstn (S ?a) (e :: es)) with (e :: firstn a es).
      rewrite !encode_log_cons, !app_length. cbn [length]. split; [lia|].
      intros Hm. assert (Hm' : (whole_within es (n - length (encode_entry e)) < length es)%nat) by lia.
      specialize (IH2 Hm'). lia.
    + apply Nat.leb_gt in E. cbn [firstn]. rewrite encode_log_cons, app_length. cbn. lia.
Qed.

Lemma trunc_status_cases : forall es n, trunc_status es n = Clean \/ trunc_status es n = TornTail.
Proof.
  induction es as [|e es IH]; intros n; cbn [trunc_status]; [auto|].
  destruct (length (encode_entry e) <=? n)%nat; [apply IH|].
  destruct (n =? 0)%nat; auto.
Qed.

Lemma replay_aux_trunc : forall es n fuel acc,
  forallb enc_ok es = true -> (whole_within es n < fuel)%nat ->
  replay_file_aux fuel (firstn n (encode_log es)) [] acc =
    (rev acc ++ map canon (firstn (whole_within es n) es), trunc_status es n).
Proof.
  induction es as [|e es IH]; intros n fuel acc Hes Hfuel.
  - destruct fuel as [|f]; [lia|]. rewrite firstn_nil. cbn. rewrite app_nil_r. reflexivity.
  - destruct fuel as [|f]; [lia|].
    cbn [forallb] in Hes. apply andb_prop in Hes. destruct Hes as [He Hes].
    cbn [whole_within trunc_status] in *.
    rewrite replay_file_aux_S, encode_log_cons, firstn_app.
    destruct (length (encode_entry e) <=? n)%nat eqn:E.
    + apply Nat.leb_le in E.
      rewrite firstn_all2 by exact E.
      rewrite read_entry_encode_ok; [|exact He|rewrite app_length; lia].
      rewrite IH; [|exact Hes|lia].
      cbn [firstn rev map]. rewrite <- app_assoc. reflexivity.
    + apply Nat.leb_gt in E.
      replace (n - length (encode_entry e))%nat with 0%nat by lia.
      cbn [firstn]. rewrite !app_nil_r.
      rewrite read_entry_trunc; [|exact He|exact E|rewrite firstn_length; lia].
      destruct (n =? 0)%nat; reflexivity.
Qed.

Lemma C10_truncate_exact_ok : forall es n,
  forallb enc_ok es = true ->
  replay_file (firstn n (encode_log es)) =
    (map canon (firstn (whole_within es n) es), trunc_status es n).
Proof.
  intros es n Hes. unfold replay_file.
  rewrite replay_aux_trunc; [reflexivity|exact Hes|].
  rewrite firstn_length.
  pose proof (whole_within_le es n). pose proof (encode_log_length es). lia.
Qed.

(* exact form: which entries come back and with which status *)
Theorem C10_truncate_exact : forall es n,
  forallb wf_entry es = true ->
  replay_file (firstn n (encode_log es)) =
    (map canon (firstn (whole_within es n) es), trunc_status es n).
Proof. intros es n H. apply C10_truncate_exact_ok. apply forallb_wf_enc_ok. exact H. Qed.

Theorem C10_truncate : forall es n,
  forallb wf_entry es = true ->
  exists m,
    fst (replay_file (firstn n (encode_log es))) = map canon (firstn m es) /\
    (snd (replay_file (firstn n (encode_log es))) = Clean \/
     snd (replay_file (firstn n (encode_log es))) = TornTail) /\
    m = whole_within es n.
Proof.
  intros es n H. exists (whole_within es n).
  rewrite C10_truncate_exact by exact H. cbn [fst snd].
  split; [reflexivity|]. split; [apply trunc_status_cases|reflexivity].
Qed.

Example C10_truncate_hyp_sat :
  forallb wf_entry [ex_small; ex_big; ex_small] = true /\
  whole_within [ex_small; ex_big; ex_small] (N.to_nat 40000) = 1%nat /\
  trunc_status [ex_small; ex_big; ex_small] (N.to_nat 40000) = TornTail /\
  whole_within [ex_small; ex_big; ex_small] 23 = 1%nat /\
  trunc_status [ex_small; ex_big; ex_small] 23 = Clean.
Proof. vm_compute. repeat split. Qed.

(* ---------- 8. C10: one corrupted byte ---------- *)

Definition set_nth (i : nat) (b : N) (l : bytes) : bytes := firstn i l ++ b :: skipn (S i) l.

Lemma set_nth_length : forall i b l, (i < length l)%nat -> length (set_nth i b l) = length l.
Proof.
  intros i b l H. unfold set_nth. rewrite app_length, firstn_length. cbn [length].
  rewrite skipn_length. lia.
Qed.

Lemma set_nth_app1 : forall i b a c,
  (i < length a)%nat -> set_nth i b (a ++ c) = set_nth i b a ++ c.
Proof.
  intros i b a c H. unfold set_nth. rewrite firstn_app, skipn_app.
  replace (i - length a)%nat with 0%nat by lia. replace (S i - length a)%nat with 0%nat by lia.
  cbn [firstn skipn]. rewrite app_nil_r. rewrite <- app_assoc. reflexivity.
Qed.

Lemma set_nth_app2 : forall i b a c,
  (length a <= i)%nat -> set_nth i b (a ++ c) = a ++ set_nth (i - length a) b c.
Proof.
  intros i b a c H. unfold set_nth. rewrite firstn_app, skipn_app.
  rewrite firstn_all2 by exact H. rewrite skipn_all2 by lia.
  replace (S i - length a)%nat with (S (i - length a)) by lia.
  cbn [app]. rewrite <- app_assoc. reflexivity.
Qed.

Lemma set_nth_exact : forall b a x l, set_nth (length a) b (a ++ x :: l) = a ++ b :: l.
Proof.
  intros b a x l. unfold set_nth. rewrite (firstn_app_exact _ a _ _ eq_refl).
  change (x :: l) with ([x] ++ l). rewrite app_assoc.
  rewrite skipn_app_exact by (rewrite app_length; cbn [length]; lia). reflexivity.
Qed.

(* --- the reader instrumented with the records whose CRC check passed --- *)

(* (bytes from the record's header to the end of the file, length of its data) *)
Definition range := (nat * nat)%type.

Fixpoint read_entry_i (fuel : nat) (bs : bytes) (frags : list bytes) : ent_res * list range :=
  match fuel with
  | O => (EntFuel, [])
  | S f =>
    match read_record bs with
    | RecEOF => (match frags with [] => EntEOF | _ => EntTorn end, [])
    | RecTorn => (EntTorn, [])
    | RecBad rest => (EntBad rest frags, [])
    | RecOk ty data rest =>
        let k :=
          if ty =? RtFull then
            (match frags with
             | _ :: _ => EntBad rest []
             | [] => match parse_entry data with
                     | Some e => EntOk e rest []
                     | None => EntBad rest []
                     end
             end, [])
          else if ty =? RtFirst then
            match frags, data with
            | _ :: _, _ => (EntBad rest [], [])
            | [], [] => (EntBad rest [], [])
            | [], _ => read_entry_i f rest [data]
            end
          else if ty =? RtMiddle then
            match frags with
            | [] => (EntBad rest frags, [])
            | _ => read_entry_i f rest (frags ++ [data])
            end
          else
            (match frags with
             | [] => EntBad rest frags
             | _ => match parse_entry (concat (frags ++ [data])) with
                    | Some e => EntOk e rest []
                    | None => EntBad rest []
                    end
             end, [])
        in (fst k, (length bs, length data) :: snd k)
    end
  end.

Fixpoint replay_file_aux_i (fuel : nat) (bs : bytes) (frags : list bytes) (acc : list wentry)
  : (list wentry * rstatus) * list range :=
  match fuel with
  | O => ((rev acc, OutOfFuel), [])
  | S f =>
    let r := read_entry_i (S (length bs)) bs frags in
    match fst r with
    | EntOk e rest fr =>
        let k := replay_file_aux_i f rest fr (e :: acc) in (fst k, snd r ++ snd k)
    | EntEOF => ((rev acc, Clean), snd r)
    | EntTorn => ((rev acc, TornTail), snd r)
    | EntBad _ _ => ((rev acc, Damaged), snd r)
    | EntFuel => ((rev acc, OutOfFuel), snd r)
    end
  end.

Definition replay_file_i (bs : bytes) : (list wentry * rstatus) * list range :=
  replay_file_aux_i (S (length bs)) bs [] [].

(* the instrumentation does not change what is read *)
Lemma read_entry_i_fst : forall fuel bs frags,
  fst (read_entry_i fuel bs frags) = read_entry fuel bs frags.
Proof.
  induction fuel as [|f IH]; intros bs frags; [reflexivity|].
  cbn [read_entry_i read_entry].
  destruct (read_record bs) as [ty data rest| | |rest]; try reflexivity.
  cbn [fst].
  destruct (ty =? RtFull); [reflexivity|].
  destruct (ty =? RtFirst).
  { destruct frags; [|reflexivity]. destruct data; [reflexivity|apply IH]. }
  destruct (ty =? RtMiddle).
  { destruct frags; [reflexivity|apply IH]. }
  reflexivity.
Qed.

Lemma replay_file_aux_i_fst : forall fuel bs frags acc,
  fst (replay_file_aux_i fuel bs frags acc) = replay_file_aux fuel bs frags acc.
Proof.
  induction fuel as [|f IH]; intros bs frags acc; [reflexivity|].
  cbn [replay_file_aux_i replay_file_aux]. cbv zeta.
  rewrite read_entry_i_fst.
  destruct (read_entry (S (length bs)) bs frags); try reflexivity.
  cbn [fst]. apply IH.
Qed.

Theorem replay_file_i_fst : forall bs, fst (replay_file_i bs) = replay_file bs.
Proof. intros bs. apply replay_file_aux_i_fst. Qed.

Lemma read_entry_i_S : forall f bs frags,
  read_entry_i (S f) bs frags =
    match read_record bs with
    | RecEOF => (match frags with [] => EntEOF | _ => EntTorn end, [])
    | RecTorn => (EntTorn, [])
    | RecBad rest => (EntBad rest frags, [])
    | RecOk ty data rest =>
        let k :=
          if ty =? RtFull then
            (match frags with
             | _ :: _ => EntBad rest []
             | [] => match parse_entry data with
                     | Some e => EntOk e rest []
                     | None => EntBad rest []
                     end
             end, [])
          else if ty =? RtFirst then
            match frags, data with
            | _ :: _, _ => (EntBad rest [], [])
            | [], [] => (EntBad rest [], [])
            | [], _ => read_entry_i f rest [data]
            end
          else if ty =? RtMiddle then
            match frags with
            | [] => (EntBad rest frags, [])
            | _ => read_entry_i f rest (frags ++ [data])
            end
          else
            (match frags with
             | [] => EntBad rest frags
             | _ => match parse_entry (concat (frags ++ [data])) with
                    | Some e => EntOk e rest []
                    | None => EntBad rest []
                    end
             end, [])
        in (fst k, (length bs, length data) :: snd k)
    end.
Proof. reflexivity. Qed.

(* the entry reader did not deliver an entry *)
Definition stops (r : ent_res) : Prop := match r with EntOk _ _ _ => False | _ => True end.

(* position pos (counted from the start of a file of total bytes) lies in the crc field, the
   length field or the data of the accepted record rg; everything is written additively:
   the record starts at offset total - fst rg *)
Definition covers (total pos : nat) (rg : range) : Prop :=
  (fst rg <= total)%nat /\ (total <= pos + fst rg)%nat /\
  (pos + fst rg < total + 7 + snd rg)%nat /\ (pos + fst rg <> total + 6)%nat.

Lemma covers_shift : forall total pos rg k,
  covers total pos rg -> covers (k + total) (k + pos) rg.
Proof. intros total pos [rem dl] k. unfold covers. cbn [fst snd]. lia. Qed.

(* --- one record with one byte replaced --- *)

Lemma phys_nth6 : forall ty d, nth 6 (phys ty d) 0 = ty.
Proof.
  intros ty d. unfold phys.
  rewrite app_nth2 by (rewrite le_length; lia). rewrite le_length.
  rewrite app_nth2 by (rewrite le_length; lia). rewrite le_length. reflexivity.
Qed.

Lemma read_record_corrupt_data : forall ty d rest q b ty' d' rest',
  (7 <= q < length (phys ty d))%nat -> len d <= 65535 ->
  read_record (set_nth q b (phys ty d) ++ rest) = RecOk ty' d' rest' ->
  length d' = length d.
Proof.
  intros ty d rest q b ty' d' rest' Hq Hd H.
  rewrite phys_length in Hq.
  rewrite phys_split in H.
  rewrite set_nth_app2 in H by (rewrite !app_length, !le_length; cbn [length]; lia).
  rewrite !app_length, !le_length in H. cbn [length Nat.add] in H.
  rewrite <- !app_assoc in H.
  rewrite read_record_raw in H; [|apply crc32_bound|lia].
  destruct ((ty <? RtFull) || (RtLast <? ty)); [discriminate|].
  destruct (len (set_nth (q - 7) b d ++ rest) <? len d) eqn:E; [discriminate|].
  destruct (crc32 _ =? crc32 d); [|discriminate].
  inversion H. subst. rewrite firstn_length.
  unfold len in *. rewrite app_length, set_nth_length in * by lia. lia.
Qed.

Lemma read_record_corrupt_type : forall ty d rest b,
  len d <= 65535 ->
  read_record (set_nth 6 b (phys ty d) ++ rest) =
    if (b <? RtFull) || (RtLast <? b) then RecBad (d ++ rest) else RecOk b d rest.
Proof.
  intros ty d rest b Hd.
  assert (E : set_nth 6 b (phys ty d) = le 4 (crc32 d) ++ le 2 (len d) ++ [b] ++ d).
  { unfold phys. rewrite (app_assoc (le 4 _)).
    change ([ty] ++ d) with (ty :: d).
    replace 6%nat with (length (le 4 (crc32 d) ++ le 2 (len d))) at 1
      by (rewrite app_length, !le_length; reflexivity).
    rewrite set_nth_exact, <- app_assoc. reflexivity. }
  rewrite E, <- !app_assoc.
  rewrite read_record_raw; [|apply crc32_bound|lia].
  destruct ((b <? RtFull) || (RtLast <? b)); [reflexivity|].
  rewrite len_app.
  assert (L : (len d + len rest <? len d) = false) by lia. rewrite L.
  rewrite to_nat_len.
  rewrite (firstn_app_exact _ d rest _ eq_refl), (skipn_app_exact _ d rest _ eq_refl).
  rewrite N.eqb_refl. reflexivity.
Qed.

(* a byte of the crc field, the length field or the data was replaced: either the reader
   stops here, or the CRC check passed on a record covering that byte *)
Lemma read_entry_i_corrupt_rec : forall ty d rest q b fuel fr,
  len d <= 65535 -> (q < length (phys ty d))%nat -> q <> 6%nat ->
  let bs := set_nth q b (phys ty d) ++ rest in
  let r := read_entry_i fuel bs fr in
  stops (fst r) \/ exists rg, In rg (snd r) /\ covers (length bs) q rg.
Proof.
  intros ty d rest q b fuel fr Hd Hq H6 bs r. subst r.
  destruct fuel as [|f]; [left; exact I|].
  rewrite read_entry_i_S.
  destruct (read_record bs) as [ty' d' rest'| | |rest'] eqn:E.
  - right. cbv zeta. cbn [fst snd]. exists (length bs, length d').
    split; [left; reflexivity|].
    unfold covers. cbn [fst snd].
    assert (Hc : (q < 7 + length d')%nat).
    { destruct (Nat.ltb q 7) eqn:E7; [apply Nat.ltb_lt in E7; lia|].
      apply Nat.ltb_ge in E7.
      subst bs. rewrite (read_record_corrupt_data _ _ _ _ _ _ _ _ (conj E7 Hq) Hd E).
      rewrite phys_length in Hq. lia. }
    lia.
  - left. cbn [fst]. destruct fr; exact I.
  - left. exact I.
  - left. exact I.
Qed.

(* --- parse_entry rejects every strict prefix of a payload --- *)

Lemma parse_struct_raw : forall op seq kl (body : bytes),
  seq < 2 ^ 64 -> kl < 2 ^ 32 ->
  let d := [op] ++ le 8 seq ++ le 4 kl ++ body in
  nth 0 d 0 = op /\ unle (firstn 8 (skipn 1 d)) = seq /\ unle (firstn 4 (skipn 9 d)) = kl
  /\ skipn 13 d = body /\ len d = 13 + len body.
Proof.
  intros op seq kl body Hs Hk d. subst d.
  split; [reflexivity|].
  split.
  { cbn [app skipn]. rewrite firstn_app_exact by (rewrite le_length; reflexivity).
    apply unle_le8. exact Hs. }
  split.
  { rewrite (app_assoc [op]).
    rewrite skipn_app_exact by (rewrite app_length, le_length; reflexivity).
    rewrite firstn_app_exact by (rewrite le_length; reflexivity).
    apply unle_le4. exact Hk. }
  split.
  { rewrite (app_assoc [op]), (app_assoc ([op] ++ _)).
    apply skipn_app_exact. rewrite !app_length, !le_length. reflexivity. }
  rewrite !len_app, !len_le, len_cons, len_nil. lia.
Qed.

Lemma payload_length : forall e,
  length (payload e) =
  (13 + length (w_key e) + (if (w_op e =? OpDel)%N then 0 else 4 + length (w_val e)))%nat.
Proof.
  intros e. unfold payload. rewrite !app_length, !le_length.
  destruct (w_op e =? OpDel); rewrite ?app_length, ?le_length; cbn [length]; lia.
Qed.

Lemma parse_prefix_none : forall e q,
  enc_ok e = true -> (q < length (payload e))%nat -> parse_entry (firstn q (payload e)) = None.
Proof.
  intros [op seq k v] q He Hq.
  apply enc_ok_inv in He. cbn [w_op w_seq w_key w_val] in He.
  destruct He as (Hop & Hs & Hk & Hv).
  rewrite payload_length in Hq. cbn [w_op w_seq w_key w_val] in Hq.
  unfold payload. cbn [w_op w_seq w_key w_val].
  set (tl := if op =? OpDel then [] else le 4 (len v) ++ v).
  destruct (Nat.ltb q 13) eqn:E13.
  { apply Nat.ltb_lt in E13. unfold parse_entry.
    assert (L : (len (firstn q ([op] ++ le 8 seq ++ le 4 (len k) ++ k ++ tl)) <? 13) = true).
    { unfold len. rewrite firstn_length. lia. }
    rewrite L. reflexivity. }
  apply Nat.ltb_ge in E13.
  assert (Ed : firstn q ([op] ++ le 8 seq ++ le 4 (len k) ++ k ++ tl) =
               [op] ++ le 8 seq ++ le 4 (len k) ++ firstn (q - 13) (k ++ tl)).
  { rewrite (app_assoc [op]), (app_assoc ([op] ++ _)), firstn_app.
    rewrite firstn_all2 by (rewrite !app_length, !le_length; cbn [length]; lia).
    rewrite !app_length, !le_length. cbn [length Nat.add].
    rewrite <- !app_assoc. reflexivity. }
  rewrite Ed.
  set (body := firstn (q - 13) (k ++ tl)).
  destruct (parse_struct_raw op seq (len k) body Hs Hk) as (E0 & E1 & E2 & E3 & E4).
  unfold parse_entry. rewrite E0, E1, E2, E3, E4, Hop. cbn [negb].
  assert (L1 : (13 + len body <? 13) = false) by lia. rewrite L1.
  assert (Lb : length body = Nat.min (q - 13) (length k + length tl)).
  { subst body. rewrite firstn_length, app_length. reflexivity. }
  destruct (13 + len body <? 13 + len k) eqn:L2; [reflexivity|].
  assert (Hqk : (13 + length k <= q)%nat) by (unfold len in L2; lia).
  destruct (op =? OpDel) eqn:Ed'.
  { exfalso. lia. }
  subst tl.
  destruct (13 + len body <? 13 + len k + 4) eqn:L3; [reflexivity|].
  rewrite app_length, le_length in Lb.
  assert (Hq4 : (13 + length k + 4 <= q)%nat) by (unfold len in L3; lia).
  assert (Eb : body = k ++ le 4 (len v) ++ firstn (q - 13 - length k - 4) v).
  { subst body. rewrite firstn_app. rewrite firstn_all2 by lia.
    rewrite firstn_app. rewrite firstn_all2 by (rewrite le_length; lia).
    rewrite le_length. reflexivity. }
  replace (N.to_nat (13 + len k)) with (13 + length k)%nat by (unfold len; lia).
  rewrite skipn_add, E3, Eb.
  rewrite (skipn_app_exact _ k _ _ eq_refl).
  rewrite firstn_app_exact by (rewrite le_length; reflexivity).
  rewrite unle_le4 by exact Hv.
  assert (L4 : (13 + len (k ++ le 4 (len v) ++ firstn (q - 13 - length k - 4) v)
                <? 13 + len k + 4 + len v) = true).
  { rewrite <- Eb. unfold len. lia. }
  rewrite L4. reflexivity.
Qed.

(* --- with fragments pending, whatever the intact rest of the log holds ends the entry --- *)

Lemma encode_entry_head : forall e, exists ty d tl,
  encode_entry e = phys ty d ++ tl /\ (ty = RtFull \/ ty = RtFirst) /\ len d <= MaxRec.
Proof.
  intros e. unfold encode_entry, encode_fragmented.
  destruct (len (payload e) <=? MaxRec) eqn:E.
  - exists RtFull, (payload e), []. rewrite app_nil_r. split; [reflexivity|]. split; [auto|lia].
  - eexists RtFirst, _, _. split; [reflexivity|]. split; [auto|].
    pose proof (first_len_bounds e). unfold len. rewrite firstn_length. lia.
Qed.

Lemma read_entry_i_pending : forall es fr f,
  fr <> [] -> stops (fst (read_entry_i f (encode_log es) fr)).
Proof.
  intros es fr f Hfr. pose proof MaxRec_hi as Mhi.
  destruct rt_eqb as (Q0 & Q1 & Q2 & _).
  destruct rt_range as (RF & R1 & _).
  destruct f as [|f]; [exact I|].
  rewrite read_entry_i_S.
  destruct fr as [|a fr]; [congruence|].
  destruct es as [|e es]; [exact I|].
  rewrite encode_log_cons.
  destruct (encode_entry_head e) as (ty & d & tl & -> & Hty & Hd).
  rewrite <- app_assoc.
  destruct Hty as [-> | ->].
  - rewrite read_record_phys; [|exact RF|lia]. cbv zeta. rewrite Q0. exact I.
  - rewrite read_record_phys; [|exact R1|lia]. cbv zeta. rewrite Q1, Q2. exact I.
Qed.

(* --- one byte replaced inside the MIDDLE* LAST tail of a fragmented entry --- *)

Lemma read_chunks_corrupt : forall e es2 b f rem fr q fuel,
  enc_ok e = true -> concat fr ++ rem = payload e ->
  rem <> [] -> (length rem < f)%nat -> fr <> [] ->
  (q < length (chunks f rem))%nat -> b <> nth q (chunks f rem) 0 ->
  let bs := set_nth q b (chunks f rem) ++ encode_log es2 in
  let r := read_entry_i fuel bs fr in
  stops (fst r) \/ exists rg, In rg (snd r) /\ covers (length bs) q rg.
Proof.
  intros e es2 b.
  pose proof MaxRec_lo as Mlo. pose proof MaxRec_hi as Mhi.
  destruct rt_eqb as (_ & _ & _ & Q1 & Q2 & Q3 & Q4 & Q5 & Q6).
  destruct rt_range as (_ & _ & RM & RL).
  induction f as [|f IH]; intros rem fr q fuel He Hcat Hne Hf Hfr Hq Hb; [lia|].
  rewrite chunks_S in *.
  destruct (MaxRec <? len rem) eqn:E.
  - (* MIDDLE *)
    assert (Hl : (N.to_nat MaxRec < length rem)%nat) by (unfold len in E; lia).
    set (d1 := firstn (N.to_nat MaxRec) rem) in *.
    set (rem' := skipn (N.to_nat MaxRec) rem) in *.
    assert (Ld1 : length d1 = N.to_nat MaxRec) by (subst d1; rewrite firstn_length; lia).
    assert (Hd1 : len d1 <= 65535) by (unfold len; lia).
    assert (Hsplit : d1 ++ rem' = rem) by apply firstn_skipn.
    destruct (Nat.ltb q (length (phys RtMiddle d1))) eqn:Eq.
    + apply Nat.ltb_lt in Eq.
      rewrite set_nth_app1 by exact Eq. rewrite <- app_assoc.
      rewrite app_nth1 in Hb by exact Eq.
      destruct (Nat.eq_dec q 6) as [->|H6]; [|apply read_entry_i_corrupt_rec; assumption].
      rewrite phys_nth6 in Hb.
      cbv zeta. left. destruct fuel as [|fu]; [exact I|].
      rewrite read_entry_i_S, read_record_corrupt_type by exact Hd1.
      destruct ((b <? RtFull) || (RtLast <? b)) eqn:Er; [exact I|].
      cbv zeta. cbn [fst].
      destruct fr as [|a fr]; [congruence|].
      destruct (b =? RtFull) eqn:B1; [exact I|].
      destruct (b =? RtFirst) eqn:B2; [exact I|].
      destruct (b =? RtMiddle) eqn:B3; [apply N.eqb_eq in B3; congruence|].
      cbn [fst].
      rewrite concat_app. change (concat [d1]) with (d1 ++ []). rewrite app_nil_r.
      assert (Hp : concat (a :: fr) ++ d1 =
                   firstn (length (concat (a :: fr)) + N.to_nat MaxRec) (payload e)).
      { rewrite <- Hcat, firstn_app_2. reflexivity. }
      rewrite Hp, parse_prefix_none; [exact I|exact He|].
      rewrite <- Hcat, app_length. lia.
    + apply Nat.ltb_ge in Eq.
      rewrite set_nth_app2 by exact Eq. rewrite <- app_assoc.
      rewrite app_length in Hq. rewrite app_nth2 in Hb by lia.
      cbv zeta. destruct fuel as [|fu]; [left; exact I|].
      rewrite read_entry_i_S.
      rewrite read_record_phys; [|exact RM|exact Hd1].
      cbv zeta. rewrite Q1, Q2, Q3.
      destruct fr as [|a fr]; [congruence|].
      cbn [fst snd].
      set (A := phys RtMiddle d1) in *.
      assert (IH' := IH rem' ((a :: fr) ++ [d1]) (q - length A)%nat fu He).
      cbv zeta in IH'.
      destruct IH' as [Hs | (rg & Hin & Hcov)].
      * rewrite concat_app. change (concat [d1]) with (d1 ++ []).
        rewrite app_nil_r, <- (app_assoc _ d1 rem'), Hsplit. exact Hcat.
      * intro Hs. apply (f_equal (@length _)) in Hs. subst rem'. rewrite skipn_length in Hs.
        cbn [length] in Hs. lia.
      * subst rem'. rewrite skipn_length. lia.
      * discriminate.
      * lia.
      * exact Hb.
      * left. exact Hs.
      * right. exists rg. split; [right; exact Hin|].
        rewrite app_length.
        apply (covers_shift _ _ _ (length A)) in Hcov.
        replace (length A + (q - length A))%nat with q in Hcov by lia. exact Hcov.
  - (* LAST *)
    destruct rem as [|x rem0]; [congruence|].
    set (rem := x :: rem0) in *.
    assert (Hd : len rem <= 65535) by lia.
    destruct (Nat.eq_dec q 6) as [->|H6]; [|apply read_entry_i_corrupt_rec; assumption].
    rewrite phys_nth6 in Hb.
    cbv zeta. left. destruct fuel as [|fu]; [exact I|].
    rewrite read_entry_i_S, read_record_corrupt_type by exact Hd.
    destruct ((b <? RtFull) || (RtLast <? b)) eqn:Er; [exact I|].
    cbv zeta. cbn [fst].
    destruct fr as [|a fr]; [congruence|].
    destruct (b =? RtFull) eqn:B1; [exact I|].
    destruct (b =? RtFirst) eqn:B2; [exact I|].
    destruct (b =? RtMiddle) eqn:B3.
    + apply read_entry_i_pending. discriminate.
    + exfalso. rewrite RtFull_val, RtFirst_val, RtMiddle_val, RtLast_val in *. lia.
Qed.

(* --- one byte replaced inside the encoding of one entry --- *)

Lemma payload_nonempty : forall e, (13 <= length (payload e))%nat.
Proof. intros e. rewrite payload_length. lia. Qed.

Lemma read_entry_corrupt : forall e es2 b q fuel,
  enc_ok e = true -> (q < length (encode_entry e))%nat -> b <> nth q (encode_entry e) 0 ->
  let bs := set_nth q b (encode_entry e) ++ encode_log es2 in
  let r := read_entry_i fuel bs [] in
  stops (fst r) \/ exists rg, In rg (snd r) /\ covers (length bs) q rg.
Proof.
  intros e es2 b q fuel He Hq Hb.
  pose proof MaxRec_lo as Mlo. pose proof MaxRec_hi as Mhi.
  destruct rt_eqb as (Q0 & Q1 & Q2 & _).
  destruct rt_range as (RF & R1 & _).
  pose proof (payload_nonempty e) as Hp13.
  unfold encode_entry in *.
  destruct (len (payload e) <=? MaxRec) eqn:E.
  - (* FULL *)
    assert (Hd : len (payload e) <= 65535) by lia.
    destruct (Nat.eq_dec q 6) as [->|H6]; [|apply read_entry_i_corrupt_rec; assumption].
    rewrite phys_nth6 in Hb.
    cbv zeta. left. destruct fuel as [|fu]; [exact I|].
    rewrite read_entry_i_S, read_record_corrupt_type by exact Hd.
    destruct ((b <? RtFull) || (RtLast <? b)) eqn:Er; [exact I|].
    cbv zeta. cbn [fst].
    destruct (b =? RtFull) eqn:B1; [apply N.eqb_eq in B1; congruence|].
    destruct (b =? RtFirst) eqn:B2.
    + destruct (payload e) as [|x p] eqn:Ep; [cbn [length] in Hp13; lia|].
      apply read_entry_i_pending. discriminate.
    + destruct (b =? RtMiddle) eqn:B3; exact I.
  - (* FIRST MIDDLE* LAST *)
    unfold encode_fragmented in *. cbv zeta in *.
    pose proof (first_len_bounds e) as Hfl.
    set (p := payload e) in *. set (k := N.to_nat (first_len e)) in *.
    assert (Hp : (N.to_nat MaxRec < length p)%nat) by (unfold len in E; lia).
    assert (Hk : (13 <= k <= N.to_nat MaxRec)%nat) by (subst k; lia).
    set (d1 := firstn k p) in *.
    assert (Ld1 : length d1 = k) by (subst d1; rewrite firstn_length; lia).
    assert (Hd1 : len d1 <= 65535) by (unfold len; lia).
    set (A := phys RtFirst d1) in *.
    destruct (Nat.ltb q (length A)) eqn:Eq.
    + apply Nat.ltb_lt in Eq.
      rewrite set_nth_app1 by exact Eq. rewrite <- app_assoc.
      rewrite app_nth1 in Hb by exact Eq.
      destruct (Nat.eq_dec q 6) as [->|H6]; [|apply read_entry_i_corrupt_rec; assumption].
      subst A. rewrite phys_nth6 in Hb.
      cbv zeta. left. destruct fuel as [|fu]; [exact I|].
      rewrite read_entry_i_S, read_record_corrupt_type by exact Hd1.
      destruct ((b <? RtFull) || (RtLast <? b)) eqn:Er; [exact I|].
      cbv zeta. cbn [fst].
      destruct (b =? RtFull) eqn:B1.
      { subst d1 p. rewrite parse_prefix_none; [exact I|exact He|lia]. }
      destruct (b =? RtFirst) eqn:B2; [apply N.eqb_eq in B2; congruence|].
      destruct (b =? RtMiddle) eqn:B3; exact I.
    + apply Nat.ltb_ge in Eq.
      rewrite set_nth_app2 by exact Eq. rewrite <- app_assoc.
      rewrite app_length in Hq. rewrite app_nth2 in Hb by lia.
      cbv zeta. destruct fuel as [|fu]; [left; exact I|].
      rewrite read_entry_i_S.
      subst A. rewrite read_record_phys; [|exact R1|exact Hd1].
      cbv zeta. rewrite Q1, Q2.
      set (A := phys RtFirst d1) in *.
      destruct d1 as [|x d1'] eqn:Ed1; [cbn [length] in Ld1; lia|].
      rewrite <- Ed1 in *.
      cbn [fst snd].
      assert (IH' := read_chunks_corrupt e es2 b (S (length p)) (skipn k p) [d1]
                        (q - length A)%nat fu He).
      cbv zeta in IH'.
      destruct IH' as [Hs | (rg & Hin & Hcov)].
      * cbn [concat]. rewrite app_nil_r. subst d1. apply firstn_skipn.
      * intro Hs. apply (f_equal (@length _)) in Hs. rewrite skipn_length in Hs.
        cbn [length] in Hs. lia.
      * rewrite skipn_length. lia.
      * discriminate.
      * lia.
      * exact Hb.
      * left. exact Hs.
      * right. exists rg. split; [right; exact Hin|].
        rewrite app_length.
        apply (covers_shift _ _ _ (length A)) in Hcov.
        replace (length A + (q - length A))%nat with q in Hcov by lia. exact Hcov.
Qed.

(* --- one byte replaced in a whole log --- *)

Lemma replay_file_aux_i_S : forall f bs frags acc,
  replay_file_aux_i (S f) bs frags acc =
    let r := read_entry_i (S (length bs)) bs frags in
    match fst r with
    | EntOk e rest fr =>
        let k := replay_file_aux_i f rest fr (e :: acc) in (fst k, snd r ++ snd k)
    | EntEOF => ((rev acc, Clean), snd r)
    | EntTorn => ((rev acc, TornTail), snd r)
    | EntBad _ _ => ((rev acc, Damaged), snd r)
    | EntFuel => ((rev acc, OutOfFuel), snd r)
    end.
Proof. reflexivity. Qed.

Lemma replay_aux_i_acc : forall fuel bs fr acc,
  exists tl, fst (fst (replay_file_aux_i fuel bs fr acc)) = rev acc ++ tl.
Proof.
  induction fuel as [|f IH]; intros bs fr acc.
  - exists []. cbn. rewrite app_nil_r. reflexivity.
  - rewrite replay_file_aux_i_S. cbv zeta.
    destruct (fst (read_entry_i (S (length bs)) bs fr)) as [e rest fr'| | |rest fr'|];
      try (exists []; cbn [fst]; rewrite app_nil_r; reflexivity).
    destruct (IH rest fr' (e :: acc)) as (tl & Htl).
    exists (e :: tl). cbn [fst]. rewrite Htl. cbn [rev]. rewrite <- app_assoc. reflexivity.
Qed.

Lemma replay_aux_corrupt : forall es i b fuel acc,
  forallb enc_ok es = true ->
  (i < length (encode_log es))%nat -> b <> nth i (encode_log es) 0 ->
  (whole_within es i < fuel)%nat ->
  let bs := set_nth i b (encode_log es) in
  let res := replay_file_aux_i fuel bs [] acc in
  let good := rev acc ++ map canon (firstn (whole_within es i) es) in
  fst (fst res) = good \/
  ((exists tl, fst (fst res) = good ++ tl) /\
   exists rg, In rg (snd res) /\ covers (length bs) i rg).
Proof.
  induction es as [|e es IH]; intros i b fuel acc Hes Hi Hb Hfuel; [cbn [encode_log flat_map length] in Hi; lia|].
  cbn [forallb] in Hes. apply andb_prop in Hes. destruct Hes as [He Hes].
  cbv zeta. cbn [whole_within] in *. rewrite encode_log_cons in *. rewrite app_length in Hi.
  destruct fuel as [|f]; [lia|].
  rewrite replay_file_aux_i_S. cbv zeta.
  destruct (length (encode_entry e) <=? i)%nat eqn:E.
  - apply Nat.leb_le in E.
    rewrite set_nth_app2 by exact E. rewrite app_nth2 in Hb by lia.
    rewrite read_entry_i_fst.
    rewrite read_entry_encode_ok; [|exact He|rewrite app_length; lia].
    cbn [fst snd].
    assert (IH' := IH (i - length (encode_entry e))%nat b f (canon e :: acc) Hes).
    cbv zeta in IH'.
    cbn [firstn map]. cbn [rev] in IH'. rewrite <- app_assoc in IH'. cbn [app] in IH'.
    destruct IH' as [Hg | ((tl & Hg) & rg & Hin & Hcov)]; [lia|exact Hb|lia| |].
    + left. exact Hg.
    + right. split; [exists tl; rewrite Hg, <- app_assoc; reflexivity|].
      exists rg. split; [apply in_or_app; right; exact Hin|].
      rewrite app_length.
      apply (covers_shift _ _ _ (length (encode_entry e))) in Hcov.
      replace (length (encode_entry e) + (i - length (encode_entry e)))%nat with i in Hcov by lia.
      exact Hcov.
  - apply Nat.leb_gt in E.
    rewrite set_nth_app1 by exact E. rewrite app_nth1 in Hb by exact E.
    cbn [firstn map]. rewrite app_nil_r.
    set (bs := set_nth i b (encode_entry e) ++ encode_log es).
    destruct (read_entry_corrupt e es b i (S (length bs)) He E Hb) as [Hs | (rg & Hin & Hcov)];
      fold bs in Hs || fold bs in Hin, Hcov.
    + left. destruct (fst (read_entry_i (S (length bs)) bs [])); try reflexivity.
      destruct Hs.
    + right. split.
      * destruct (fst (read_entry_i (S (length bs)) bs [])) as [e' rest fr'| | |rest fr'|];
          try (exists []; cbn [fst]; rewrite app_nil_r; reflexivity).
        destruct (replay_aux_i_acc f rest fr' (e' :: acc)) as (tl & Htl).
        exists (e' :: tl). cbn [fst]. rewrite Htl. cbn [rev]. rewrite <- app_assoc. reflexivity.
      * exists rg. split; [|exact Hcov].
        destruct (fst (read_entry_i (S (length bs)) bs [])); cbn [snd]; try exact Hin.
        apply in_or_app. left. exact Hin.
Qed.

Definition is_prefix {A : Type} (p l : list A) : Prop := exists tl, l = p ++ tl.

(* the escape clause, concretely: while replaying L' the reader's CRC check passed on a
   record at offset off with dl data bytes (so the reader took bytes off..off+7+dl-1 as one
   record) and byte i is in that record's crc field, length field or data *)
Definition crc_accepted_over (L' : bytes) (i : nat) : Prop :=
  exists rem dl, In (rem, dl) (snd (replay_file_i L')) /\ (rem <= length L')%nat /\
    let off := (length L' - rem)%nat in
    (off <= i < off + 7 + dl)%nat /\ i <> (off + 6)%nat.

Lemma C10_corrupt_ok : forall es i b,
  forallb enc_ok es = true ->
  (i < length (encode_log es))%nat -> b <> nth i (encode_log es) 0 ->
  let L' := set_nth i b (encode_log es) in
  let out := fst (replay_file L') in
  is_prefix (map canon (firstn (whole_within es i) es)) out /\
  (is_prefix out (map canon es) \/ crc_accepted_over L' i).
Proof.
  intros es i b Hes Hi Hb L' out. subst out L'.
  rewrite <- replay_file_i_fst. unfold crc_accepted_over, replay_file_i.
  set (L' := set_nth i b (encode_log es)).
  assert (Hfuel : (whole_within es i < S (length L'))%nat).
  { subst L'. rewrite set_nth_length by exact Hi. pose proof (whole_within_le es i). lia. }
  pose proof (replay_aux_corrupt es i b (S (length L')) [] Hes Hi Hb Hfuel) as H.
  cbv zeta in H. fold L' in H. cbn [rev app] in H.
  destruct H as [Hg | ((tl & Hg) & [rem dl] & Hin & Hcov)].
  - rewrite Hg. split; [exists []; rewrite app_nil_r; reflexivity|].
    left. exists (map canon (skipn (whole_within es i) es)).
    rewrite <- map_app, firstn_skipn. reflexivity.
  - split; [exists tl; exact Hg|].
    right. exists rem, dl. split; [exact Hin|].
    unfold covers in Hcov. cbn [fst snd] in Hcov. cbv zeta. lia.
Qed.

Theorem C10_corrupt : forall es i b,
  forallb wf_entry es = true ->
  (i < length (encode_log es))%nat -> b <> nth i (encode_log es) 0 ->
  let L' := set_nth i b (encode_log es) in
  let out := fst (replay_file L') in
  is_prefix (map canon (firstn (whole_within es i) es)) out /\
  (is_prefix out (map canon es) \/ crc_accepted_over L' i).
Proof. intros es i b H. apply C10_corrupt_ok. apply forallb_wf_enc_ok. exact H. Qed.

Definition ex_log3 : list wentry := [ex_small; mkW OpPut 7 [1] [2; 3]; ex_small].

Example C10_corrupt_hyp_sat :
  forallb wf_entry ex_log3 = true /\
  Nat.ltb 30 (length (encode_log ex_log3)) = true /\
  nth 30 (encode_log ex_log3) 0 = OpPut /\
  whole_within ex_log3 30 = 1%nat /\
  (* a data byte replaced: CRC mismatch, replay stops after the first entry *)
  replay_file (set_nth 30 0 (encode_log ex_log3)) = ([canon ex_small], Damaged) /\
  (* the type byte (not covered by the CRC) turned FULL into FIRST: the next FULL record
     arrives while a fragment is pending *)
  nth 29 (encode_log ex_log3) 0 = RtFull /\
  replay_file (set_nth 29 RtFirst (encode_log ex_log3)) = ([canon ex_small], Damaged) /\
  (* the instrumented reader lists every accepted record of the intact log *)
  snd (replay_file_i (encode_log ex_log3)) = [(73, 16); (50, 20); (23, 16)]%nat.
Proof. vm_compute. repeat split. Qed.
