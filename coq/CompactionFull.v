(* CompactionFull.v — C12, last sentence, in full for the repaired code: after any program
   (writes, flushes, automatic/triggered/range compactions, restarts, log retirement right after
   a full flush) a reopen reads exactly what the running database read — log kept, or every
   flushed log file retired. Proved through the ground truth: every read equals the latest
   acknowledged write. *)
From Coq Require Import Lia Sorted PeanoNat.
From KV Require Import Spec.
From KV Require EngineProofs.
From KV Require Import Compaction CompactionProofs CompactionMerge CompactionReach CompactionReopen.
Open Scope N_scope.

(* ---------- the engine state with the "log lost" flag set: EngineProofs.Inv then says nothing
   about the tables (after a retirement they hold keys the remaining log does not know) ---------- *)

Definition lost (e : st) : st :=
  mkSt (cfg e) (wal_next e) (wal_files e) (last_seq e) (active e) (imms e) (pending e)
       (flush_pending e) (ssts e) (next_file e) (clock e) true.

Lemma lost_fold_add : forall (ops : list bop) q e,
  fold_left (fun a o => set_last (pool_add a (bop_mentry q o)) q) ops (lost e) =
  lost (fold_left (fun a o => set_last (pool_add a (bop_mentry q o)) q) ops e).
Proof. induction ops; simpl; intros; auto. rewrite <- IHops. reflexivity. Qed.

Lemma lost_maybe_schedule : forall e, maybe_schedule (lost e) = lost (maybe_schedule e).
Proof. intros. unfold maybe_schedule. simpl. destruct (flush_pending e); reflexivity. Qed.

Lemma lost_apply_batch : forall e ops,
  apply_batch (lost e) ops = (lost (fst (apply_batch e ops)), snd (apply_batch e ops)).
Proof.
  intros. unfold apply_batch. destruct ops as [|b r]. reflexivity.
  simpl wal_next. destruct (MaxSeq <=? wal_next e). reflexivity.
  cbn [fst snd]. f_equal.
  change (upd_wal (lost e) (wal_next e + 1) (log_append (wal_files (lost e)) (map (bop_entry (wal_next e)) (b :: r))))
    with (lost (upd_wal e (wal_next e + 1) (log_append (wal_files e) (map (bop_entry (wal_next e)) (b :: r))))).
  rewrite lost_fold_add, lost_maybe_schedule. reflexivity.
Qed.

Lemma lost_flush_table : forall e m, flush_table (lost e) m = lost (flush_table e m).
Proof.
  intros. unfold flush_table. destruct (mt_size m =? 0). reflexivity.
  destruct (collect (mt_iter_entries m)); reflexivity.
Qed.

Lemma lost_fold_flush : forall ps e, fold_left flush_table ps (lost e) = lost (fold_left flush_table ps e).
Proof. induction ps; simpl; intros; auto. rewrite lost_flush_table. auto. Qed.

Lemma lost_flush : forall e, flush (lost e) = lost (flush e).
Proof.
  intros. unfold flush. simpl pending. destruct (pending e).
  - simpl active. destruct (0 <? mt_size (active e)). 2: reflexivity.
    change (rotate (lost e)) with (lost (rotate e)). apply lost_flush_table.
  - change (rotate (clear_pending (lost e))) with (lost (rotate (clear_pending e))). apply lost_fold_flush.
Qed.

Lemma lost_reopen : forall e, reopen (lost e) = lost (reopen e).
Proof.
  intros. unfold reopen. simpl. destruct (recover_tables _ _ _ _) as [[? ?]|]; reflexivity.
Qed.

Lemma get_lost : forall e k, get (lost e) k = get e k.
Proof. reflexivity. Qed.

Module EP := EngineProofs.
Module MP := MemtableProofs.

(* ---------- memtables ---------- *)

Definition tab_has (k : bytes) (m : memtable) : Prop := exists e, In e (mt_entries m) /\ mk e = k.

Lemma first_key_none : forall k l, MP.first_key k l = None <-> forall e, In e l -> mk e <> k.
Proof.
  induction l; simpl. { split; auto; try (intros _ e []). }
  destruct (beq (mk a) k) eqn:E.
  - split. discriminate. intro H. apply beq_iff in E. exfalso. apply (H a); auto.
  - rewrite IHl. split; intros H e; [intros [<-|He]|intro He]; auto.
    intro C. rewrite C in E. rewrite (proj2 (beq_iff _ _) eq_refl) in E. discriminate.
Qed.

Lemma first_key_some : forall k l e, MP.first_key k l = Some e -> In e l /\ mk e = k.
Proof.
  induction l; simpl; intros. discriminate. destruct (beq (mk a) k) eqn:E.
  - inversion H; subst. split; auto. apply beq_iff; auto.
  - apply IHl in H. tauto.
Qed.

Lemma mt_get_none : forall m k, mt_ok m -> (mt_get m k = None <-> ~ tab_has k m).
Proof.
  intros m k Hs. unfold mt_get. rewrite (MP.find_sorted k _ Hs).
  destruct (MP.first_key k (mt_entries m)) eqn:E.
  - split. discriminate. intro H. exfalso. apply H. apply first_key_some in E. exists m0. auto.
  - split; auto. intros _ (e & He & Hk). pose proof (proj1 (first_key_none k (mt_entries m)) E e He). auto.
Qed.

Lemma mems_get_none : forall k layers, mems_get k layers = None <-> forall m, In m layers -> mt_get m k = None.
Proof.
  induction layers; simpl. { split; auto; try (intros _ m []). }
  destruct (mt_get a k) eqn:E.
  - split. discriminate. intro H. rewrite (H a (or_introl eq_refl)) in E. discriminate.
  - rewrite IHlayers. split; intros H m; [intros [<-|Hm]|intro Hm]; auto.
Qed.

(* the first layer that has the key decides *)
Lemma mems_get_first : forall k a b m, (forall x, In x a -> mt_get x k = None) ->
  mems_get k (a ++ m :: b) = match mt_get m k with Some x => Some x | None => mems_get k b end.
Proof.
  induction a; simpl; intros; auto. rewrite (H a); auto.
Qed.

(* ---------- what a flushed table holds: the version Get finds in the memtable ---------- *)

Fixpoint firsts (prev : option bytes) (l : list mentry) : list sentry :=
  match l with
  | [] => []
  | x :: r => if match prev with Some p => beq p (mk x) | None => false end
              then firsts prev r
              else to_sentry x :: firsts (Some (mk x)) r
  end.

Lemma collect_aux_firsts : forall l acc,
  MP.sorted l ->
  (forall last acc', acc = last :: acc' ->
     Forall (fun x => beq (sk last) (mk x) = true -> mseq x <= sseq last) l) ->
  collect_aux acc l = rev acc ++ firsts (match acc with [] => None | last :: _ => Some (sk last) end) l.
Proof.
  induction l as [|x r IH]; simpl; intros acc Hs Hl. rewrite app_nil_r. auto.
  apply MP.sorted_cons_inv in Hs. destruct Hs as [Hs Hx].
  assert (Hxr : Forall (fun y => beq (mk x) (mk y) = true -> mseq y <= mseq x) r).
  { rewrite Forall_forall in *. intros y Hy E. apply Hx in Hy. apply MP.ele_iff in Hy.
    apply beq_iff in E. destruct Hy as [Hy|[_ Hy]]; auto. rewrite E, cb_refl in Hy. discriminate. }
  destruct acc as [|last acc'].
  - rewrite IH; auto. intros ? ? E. inversion E; subst. rewrite sk_to_sentry. simpl. auto.
  - specialize (Hl _ _ eq_refl). inversion Hl as [|? ? Hlx Hlr]; subst.
    destruct (beq (sk last) (mk x)) eqn:E.
    + assert (L : (sseq last <? mseq x) = false). { apply N.ltb_ge. auto. }
      rewrite L. rewrite IH; auto. intros ? ? Q. inversion Q; subst. auto.
    + rewrite IH; auto.
      * simpl. rewrite <- app_assoc. simpl. rewrite ?sk_to_sentry. auto.
      * intros ? ? Q. inversion Q; subst. rewrite sk_to_sentry. simpl. auto.
Qed.

Lemma firsts_lookup : forall k l prev, MP.sorted l ->
  (forall p x, prev = Some p -> In x l -> bcmp p (mk x) <> Gt) ->
  lookup k (firsts prev l) =
  if match prev with Some p => beq p k | None => false end then None
  else option_map to_sentry (MP.first_key k l).
Proof.
  induction l as [|x r IH]; simpl; intros prev Hs Hp.
  - destruct (match prev with Some p => beq p k | None => false end); auto.
  - apply MP.sorted_cons_inv in Hs. destruct Hs as [Hs Hx].
    assert (Hxr : forall y, In y r -> bcmp (mk x) (mk y) <> Gt).
    { intros y Hy. rewrite Forall_forall in Hx. apply Hx in Hy. apply MP.ele_iff in Hy.
      destruct Hy as [Hy|[Hy _]]. rewrite Hy. congruence. rewrite Hy, cb_refl. congruence. }
    destruct (match prev with Some p => beq p (mk x) | None => false end) eqn:Skip.
    + (* x continues the run of prev *)
      destruct prev as [p|]; try discriminate. apply beq_iff in Skip. subst p.
      rewrite IH; auto.
      destruct (beq (mk x) k) eqn:E; auto.
    + unfold lookup. simpl. fold (lookup k (firsts (Some (mk x)) r)). rewrite ?sk_to_sentry.
      rewrite IH; auto; [|intros p y Q Hy; inversion Q; subst; apply Hxr; auto].
      destruct (beq (mk x) k) eqn:E.
      * apply beq_iff in E. subst k. rewrite Skip. auto.
      * destruct (match prev with Some p => beq p k | None => false end) eqn:Pk; auto.
        (* prev = k: the rest of the list is above k *)
        destruct prev as [p|]; try discriminate. apply beq_iff in Pk. subst p.
        assert (N : MP.first_key k r = None).
        { apply first_key_none. intros e He C.
          assert (bcmp k (mk x) = Lt).
          { specialize (Hp k x eq_refl (or_introl eq_refl)).
            destruct (bcmp k (mk x)) eqn:B; auto; try congruence.
            apply cb_eq in B. subst k. rewrite (proj2 (beq_iff _ _) eq_refl) in E. discriminate. }
          specialize (Hxr e He). rewrite C in Hxr. apply cb_lt_gt in H. congruence. }
        rewrite N. auto.
Qed.

Lemma collect_lookup : forall k l, MP.sorted l ->
  lookup k (collect l) = option_map to_sentry (MP.first_key k l).
Proof.
  intros. unfold collect. rewrite collect_aux_firsts; auto. 2: intros; discriminate.
  simpl. rewrite firsts_lookup; auto. intros; discriminate.
Qed.

Definition sval_of (e : mentry) : option bytes := match mkind e with KDel => None | KVal => Some (mval e) end.

(* the table file of a memtable reads as the memtable *)
Lemma flushed_reads_as_table : forall m k, mt_ok m -> mt_iter_entries m = mt_entries m ->
  option_map sval (lookup k (collect (mt_iter_entries m))) = mt_get m k.
Proof.
  intros m k Hs Hv. rewrite Hv, collect_lookup by auto. unfold mt_get. rewrite (MP.find_sorted k _ Hs).
  destruct (MP.first_key k (mt_entries m)); simpl; auto.
Qed.

(* ---------- the invariant ---------- *)

(* what a key reads as after a sequence of effects (put = Some v, delete = None) *)
Definition spec (H : list (bytes * option bytes)) (k : bytes) : option bytes :=
  match last_effect k H with Some (Some v) => Some v | _ => None end.

Definition hflat (hm : EP.hist) : list (bytes * option bytes) := flat (map snd hm).

(* the memtables that still have to be written: queued tables, then the active one *)
Definition utabs (e : st) : list memtable := pending e ++ [active e].

(* hd: the effects whose log records have been retired (they live in tables only);
   hs: the acknowledged writes still in the log, per log file *)
Record CInv (s : cst) (hd : list (bytes * option bytes)) (hs : list EP.hist) : Prop := mkCI {
  ci_ok : cst_ok2 s;
  ci_inv : EP.Inv (lost (eng s)) (concat hs);
  ci_wal : map EP.wentries hs = wal_files (eng s);
  ci_lost : lost_log (eng s) = false;
  ci_ssts : forall k, read (map s_entries (rev (ssts (eng s)))) k = dread (disk s) k;
  ci_pend : exists pre, imms (eng s) = pre ++ pending (eng s);
  ci_imm : Forall (fun m => mt_imm m = true) (pending (eng s));
  ci_size : forall m, In m (utabs (eng s)) -> mt_size m = 0 -> mt_entries m = [];
  ci_seq : MP.seq_inv (active (eng s));
  ci_hseq : Forall (fun q => q < MaxSeq) (map fst (concat hs));
  (* a key that no unwritten memtable holds reads from the tables as its latest write *)
  ci_di : forall k, (forall m, In m (utabs (eng s)) -> ~ tab_has k m) ->
          dread (disk s) k = spec (hd ++ hflat (concat hs)) k
}.

Lemma hflat_app : forall a b, hflat (a ++ b) = hflat a ++ hflat b.
Proof. intros. unfold hflat, flat. rewrite map_app, flat_map_app. auto. Qed.

Lemma spec_app_some : forall a b k x, last_effect k b = Some x ->
  spec (a ++ b) k = match x with Some v => Some v | None => None end.
Proof. intros. unfold spec. rewrite EP.last_effect_app, H. destruct x; auto. Qed.

Lemma spec_app_none : forall a b k, last_effect k b = None -> spec (a ++ b) k = spec a k.
Proof. intros. unfold spec. rewrite EP.last_effect_app, H. auto. Qed.

Lemma skipn_incl : forall (A : Type) n (l : list A), incl (skipn n l) l.
Proof. intros A n l x Hx. rewrite <- (firstn_skipn n l). apply in_or_app. auto. Qed.

Lemma utabs_layers : forall s hd hs m, CInv s hd hs -> In m (utabs (eng s)) -> In m (mem_layers (eng s)).
Proof.
  intros s hd hs m C Hm. unfold utabs in Hm. unfold mem_layers. apply in_app_iff in Hm.
  destruct Hm as [Hm|[<-|[]]]. 2: simpl; auto.
  right. apply -> in_rev. destruct (ci_pend _ _ _ C) as (pre & E). rewrite E. apply in_or_app. auto.
Qed.

Lemma utabs_ok : forall s hd hs m, CInv s hd hs -> In m (utabs (eng s)) -> mt_ok m.
Proof.
  intros s hd hs m C Hm. pose proof (c2_eng _ (ci_ok _ _ _ C)) as E. unfold utabs in Hm.
  apply in_app_iff in Hm. destruct Hm as [Hm|[<-|[]]].
  - pose proof (eo_pending _ E) as P. rewrite Forall_forall in P. auto.
  - apply (eo_active _ E).
Qed.

(* every read of the running database returns the latest acknowledged write *)
Theorem cget_spec : forall s hd hs k, CInv s hd hs -> cget s k = spec (hd ++ hflat (concat hs)) k.
Proof.
  intros s hd hs k C. unfold cget. rewrite <- get_lost.
  rewrite cget_split by (apply (eo_ssts _ (c2_eng _ (ci_ok _ _ _ C)))).
  unfold mem_read. rewrite (EP.mems_get_inv _ _ k (ci_inv _ _ _ C)). fold (hflat (concat hs)).
  unfold latest. fold (hflat (concat hs)).
  destruct (last_effect k (hflat (concat hs))) as [x|] eqn:L.
  - rewrite (spec_app_some _ _ _ _ L). destruct x; auto.
  - rewrite (spec_app_none _ _ _ L). simpl ssts. rewrite (ci_ssts _ _ _ C).
    rewrite <- (spec_app_none hd (hflat (concat hs)) k L). apply (ci_di _ _ _ C).
    intros m Hm.
    assert (M : mems_get k (mem_layers (eng s)) = None).
    { change (mem_layers (eng s)) with (mem_layers (lost (eng s))).
      rewrite (EP.mems_get_inv _ _ k (ci_inv _ _ _ C)). exact L. }
    apply mt_get_none. eapply utabs_ok; eauto.
    apply (proj1 (mems_get_none _ _) M). eapply utabs_layers; eauto.
Qed.

(* ---------- writes ---------- *)

Definition snoc_last {A : Type} (l : list (list A)) (x : list A) : list (list A) :=
  match rev l with
  | [] => [x]
  | f :: r => rev r ++ [f ++ x]
  end.

Lemma concat_snoc_last : forall (A : Type) (l : list (list A)) x, concat (snoc_last l x) = concat l ++ x.
Proof.
  intros. unfold snoc_last. destruct (rev l) as [|f r] eqn:E.
  - apply (f_equal (@rev _)) in E. rewrite rev_involutive in E. subst l. simpl. rewrite app_nil_r. auto.
  - apply (f_equal (@rev _)) in E. rewrite rev_involutive in E. subst l. simpl.
    rewrite !concat_app. simpl. rewrite !app_nil_r, app_assoc. auto.
Qed.

Lemma map_snoc_last : forall (A B : Type) (g : list A -> list B) l x,
  (forall a b, g (a ++ b) = g a ++ g b) ->
  map g (snoc_last l x) = snoc_last (map g l) (g x).
Proof.
  intros. unfold snoc_last. rewrite <- map_rev. destruct (rev l) as [|f r] eqn:E.
  - reflexivity.
  - simpl. rewrite map_app, map_rev. simpl. rewrite H. reflexivity.
Qed.

Lemma log_append_snoc : forall files es, log_append files es = snoc_last files es.
Proof. reflexivity. Qed.

Lemma last_effect_absent : forall k l, (forall p, In p l -> fst p <> k) -> last_effect k l = None.
Proof.
  induction l as [|[k' v] r IH]; simpl; intros; auto. rewrite IH by auto.
  destruct (beq k' k) eqn:E; auto. apply beq_iff in E. exfalso. apply (H (k', v)); auto.
Qed.

Lemma tab_has_set_imm : forall k m, tab_has k (mt_set_imm m) <-> tab_has k m.
Proof. unfold tab_has. simpl. tauto. Qed.

Lemma mt_add_size : forall m e, mt_imm m = false -> mt_size (mt_add m e) <> 0.
Proof. intros. unfold mt_add. rewrite H. simpl. unfold esize. lia. Qed.

Section Write.
  Variables (s : cst) (hd : list (bytes * option bytes)) (hs : list EP.hist).
  Variables (ops : list bop) (e' : st) (q : N) (tr' : list bytes).
  Hypothesis C : CInv s hd hs.
  Hypothesis Hne : ops <> [].
  Hypothesis Hw : apply_batch (eng s) ops = (e', WrOk q).

  Let e := eng s.
  Let ws := EP.write_state e ops.
  Let s' := mkC e' (disk s) tr' (cc s) (retirable s).
  Let p : N * wop := (q, WBatch ops).

  Lemma write_facts : (MaxSeq <=? wal_next e) = false /\ q = wal_next e /\ e' = maybe_schedule ws.
  Proof.
    destruct (MaxSeq <=? wal_next e) eqn:M.
    - unfold e in *. rewrite EP.apply_batch_overflow in Hw; auto. discriminate.
    - unfold e in *. rewrite EP.apply_batch_ok in Hw; auto. inversion Hw; subst. auto.
  Qed.

  Lemma ws_fields :
    cfg ws = cfg e /\ wal_files ws = log_append (wal_files e) (map (bop_entry q) ops) /\
    imms ws = imms e /\ pending ws = pending e /\ ssts ws = ssts e /\ clock ws = clock e /\
    mt_imm (active ws) = false /\
    mt_entries (active ws) = MP.build_from (mt_entries (active e)) (map (bop_mentry q) ops).
  Proof.
    destruct write_facts as (_ & Q & _). unfold ws, EP.write_state. rewrite <- Q.
    destruct (EP.add_all_spec q ops (upd_wal e (q + 1) (log_append (wal_files e) (map (bop_entry q) ops))))
      as (H1 & H2 & H3 & H4 & H5 & H6 & H7 & H8 & H9 & H10 & H11).
    assert (M : mt_imm (active e) = false) by (apply (EP.inv_active_mut _ _ (ci_inv _ _ _ C))).
    destruct (H11 M) as [A B]. repeat split; auto.
  Qed.

  Lemma e'_fields :
    wal_files e' = wal_files ws /\ ssts e' = ssts e /\ clock e' = clock e /\ cfg e' = cfg e /\
    ((flush_pending ws = false /\ active e' = active ws /\ pending e' = pending e /\ imms e' = imms e) \/
     (active e' = mt_empty /\ pending e' = pending e ++ [mt_set_imm (active ws)] /\
      imms e' = imms e ++ [mt_set_imm (active ws)])).
  Proof.
    destruct write_facts as (_ & _ & E). destruct ws_fields as (F1 & F2 & F3 & F4 & F5 & F6 & F7 & F8).
    rewrite E. unfold maybe_schedule. destruct (flush_pending ws) eqn:FP.
    - simpl. repeat split; auto; try (right; rewrite F3, F4; auto).
    - repeat split; auto; try (left; auto).
  Qed.

  Lemma q_small : q < MaxSeq.
  Proof. destruct write_facts as (M & Q & _). apply N.leb_gt in M. lia. Qed.

  Theorem CInv_write : CInv s' hd (snoc_last hs [p]).
  Proof.
    destruct write_facts as (M & Q & E). destruct ws_fields as (F1 & F2 & F3 & F4 & F5 & F6 & F7 & F8).
    destruct e'_fields as (G1 & G2 & G3 & G4 & G5).
    pose proof (ci_ok _ _ _ C) as [OK1 OK2 OK3].
    assert (E' : e' = fst (apply_batch e ops)) by (unfold e; rewrite Hw; auto).
    assert (HI : EP.Inv (lost e') (concat hs ++ [p])).
    { apply (EP.Inv_apply_batch (lost e) (concat hs) ops (WBatch ops) (lost e') q); auto.
      apply (ci_inv _ _ _ C). unfold e. rewrite lost_apply_batch, Hw. reflexivity. }
    constructor; unfold s'; cbn [eng disk cc retirable].
    - constructor; cbn [eng disk cc]; auto. rewrite E'. apply apply_batch_ok2; auto. rewrite G3. auto.
    - rewrite concat_snoc_last. exact HI.
    - etransitivity. apply map_snoc_last. apply EP.wentries_app.
      pose proof (ci_wal _ _ _ C) as W. unfold EP.hist in W. rewrite W, EP.wentries_single. rewrite G1, F2. reflexivity.
    - rewrite E'. rewrite EP.lost_log_apply_batch. apply (ci_lost _ _ _ C).
    - rewrite G2. apply (ci_ssts _ _ _ C).
    - destruct (ci_pend _ _ _ C) as (pre & P). destruct G5 as [(_ & _ & P1 & P2)|(_ & P1 & P2)].
      + exists pre. rewrite P1, P2. auto.
      + exists pre. rewrite P1, P2. unfold e. rewrite P. rewrite app_assoc. auto.
    - destruct G5 as [(_ & _ & P1 & _)|(_ & P1 & _)]; rewrite P1.
      + apply (ci_imm _ _ _ C).
      + apply Forall_app. split. apply (ci_imm _ _ _ C). repeat constructor.
    - intros m Hm Hz.
      assert (Mut : mt_imm (active e) = false) by (apply (EP.inv_active_mut _ _ (ci_inv _ _ _ C))).
      assert (Aws : mt_size (active ws) <> 0).
      { destruct ops as [|o r]; try congruence.
        unfold ws, EP.write_state, EP.add_all. simpl fold_left.
        assert (G : forall (l : list bop) st0, mt_imm (active st0) = false -> mt_size (active st0) <> 0 ->
                    mt_size (active (fold_left (fun a o0 => set_last (pool_add a (bop_mentry (wal_next e) o0)) (wal_next e)) l st0)) <> 0).
        { induction l; simpl; intros; auto. apply IHl; simpl. unfold mt_add. rewrite H. reflexivity.
          apply mt_add_size; auto. }
        apply G; simpl.
        - unfold mt_add. fold e. rewrite Mut. reflexivity.
        - apply mt_add_size. exact Mut. }
      unfold utabs in Hm. destruct G5 as [(_ & P0 & P1 & _)|(P0 & P1 & _)]; rewrite P0, P1 in Hm.
      + apply in_app_iff in Hm. destruct Hm as [Hm|[<-|[]]]. 2: congruence.
        apply (ci_size _ _ _ C); auto. unfold utabs. apply in_or_app. auto.
      + rewrite <- app_assoc in Hm. apply in_app_iff in Hm. destruct Hm as [Hm|[<-|[<-|[]]]]; auto.
        apply (ci_size _ _ _ C); auto. unfold utabs. apply in_or_app. auto.
        simpl in Hz. congruence.
    - destruct G5 as [(_ & P0 & _)|(P0 & _)]; rewrite P0.
      + unfold ws, EP.write_state. apply EP.add_all_seq_inv. pose proof q_small. pose proof EP.MaxSeq_small. lia.
        apply (ci_seq _ _ _ C).
      + unfold MP.seq_inv. simpl. constructor.
    - rewrite concat_snoc_last, map_app, Forall_app. split. apply (ci_hseq _ _ _ C).
      simpl. constructor; auto. apply q_small.
    - intros k Hk.
      (* the key is in no unwritten table before the write, and the write does not touch it *)
      assert (Hact : forall x, In x (mt_entries (active ws)) -> mk x <> k).
      { intros x Hx Hkx. destruct G5 as [(_ & P0 & P1 & _)|(P0 & P1 & _)].
        - apply (Hk (active e')). unfold utabs. apply in_or_app. simpl; auto. exists x. rewrite P0. auto.
        - apply (Hk (mt_set_imm (active ws))). unfold utabs. rewrite P1. apply in_or_app. left. apply in_or_app. simpl; auto.
          exists x. auto. }
      assert (Hold : forall m, In m (utabs e) -> ~ tab_has k m).
      { intros m Hm (x & Hx & Hkx). unfold utabs in Hm. apply in_app_iff in Hm. destruct Hm as [Hm|[<-|[]]].
        - apply (Hk m). unfold utabs. destruct G5 as [(_ & _ & P1 & _)|(_ & P1 & _)]; rewrite P1.
          apply in_or_app; auto. apply in_or_app. left. apply in_or_app. auto. exists x. auto.
        - apply (Hact x); auto. rewrite F8. apply EP.build_from_in. auto. }
      assert (Hops : forall o, In o ops -> fst o <> k).
      { intros o Ho Hko. apply (Hact (bop_mentry q o)). rewrite F8. apply EP.build_from_in. right. apply in_map. auto.
        rewrite EP.mk_bop_mentry. auto. }
      rewrite concat_snoc_last, hflat_app. change (hflat [p]) with (ops ++ []). rewrite app_nil_r, app_assoc.
      rewrite (spec_app_none _ ops k (last_effect_absent _ _ Hops)).
      apply (ci_di _ _ _ C). exact Hold.
  Qed.
End Write.

(* ---------- compaction steps ---------- *)

Lemma Inv_set_clock : forall e h c, EP.Inv e h -> EP.Inv (set_clock e c) h.
Proof. intros e h c [A B C D E F G H I J]. constructor; auto. Qed.

Lemma CInv_compact : forall s hd hs t z, CInv s hd hs ->
  selected (c_maxmem (cfg (eng s))) (cc s) (disk s) t ->
  let outs := task_outputs (keep_of (tracked s)) (cc s) (clock (eng s)) z t in
  CInv (mkC (set_clock (eng s) (clock (eng s) + N.of_nat (length outs)))
            (remove_files (t_inputs t) (disk s) ++ outs) (tracked s) (cc s) (retirable s)) hd hs.
Proof.
  intros s hd hs t z C S outs. pose proof (ci_ok _ _ _ C) as [A B D].
  assert (P : forall k, dread (remove_files (t_inputs t) (disk s) ++ outs) k = dread (disk s) k).
  { intro k. apply (merge_preserves (disk s) (clock (eng s)) (c_maxmem (cfg (eng s))) (cc s) t); auto. }
  constructor; cbn [eng disk cc retirable].
  - constructor; cbn [eng disk cc]; auto. apply set_clock_ok2; auto.
    apply (task_keeps_wf (disk s) (clock (eng s)) (c_maxmem (cfg (eng s))) (cc s) t); auto.
  - change (lost (set_clock (eng s) (clock (eng s) + N.of_nat (length outs))))
      with (set_clock (lost (eng s)) (clock (eng s) + N.of_nat (length outs))).
    apply Inv_set_clock. apply (ci_inv _ _ _ C).
  - apply (ci_wal _ _ _ C).
  - apply (ci_lost _ _ _ C).
  - intro k. rewrite P. apply (ci_ssts _ _ _ C).
  - apply (ci_pend _ _ _ C).
  - apply (ci_imm _ _ _ C).
  - apply (ci_size _ _ _ C).
  - apply (ci_seq _ _ _ C).
  - apply (ci_hseq _ _ _ C).
  - intros k Hk. rewrite P. apply (ci_di _ _ _ C). exact Hk.
Qed.

Lemma CInv_trigger : forall s hd hs z, CInv s hd hs -> CInv (ctrigger s z) hd hs.
Proof.
  intros. unfold ctrigger. destruct (select _ _ _) eqn:E; auto.
  apply CInv_compact; auto. left. auto.
Qed.

Lemma CInv_range : forall s hd hs lo hi z, CInv s hd hs -> CInv (crange s lo hi z) hd hs.
Proof.
  intros. unfold crange. destruct (select_range _ _ _) eqn:E; auto.
  apply CInv_compact; auto. right. eauto.
Qed.

(* ---------- reading a directory to which a flush has added tables ---------- *)

Lemma fresh_sorted : forall a l b, fresh a l b -> StronglySorted (fun x y => s_ts x < s_ts y) l.
Proof.
  induction 1. constructor. constructor; auto.
  destruct (fresh_props _ _ _ H3) as [_ P]. rewrite Forall_forall. intros y Hy.
  destruct (P y Hy) as (_ & R & _). lia.
Qed.

Lemma with_sizes_in_sst : forall l i z t, In t l -> exists f, In f (with_sizes i z l) /\ d_sst f = t.
Proof.
  induction l; simpl; intros. tauto. destruct H as [->|H].
  - eexists. split. left. reflexivity. reflexivity.
  - destruct (IHl (S i) z t H) as (f & A & B). eauto.
Qed.

Lemma dread_add_fresh : forall dir c news c' i z k, WF dir c -> fresh c news c' ->
  dread (dir ++ with_sizes i z news) k =
  match first_hit k (map s_entries (rev news)) with
  | Some e => sval e
  | None => dread dir k
  end.
Proof.
  intros dir c news c' i z k W F.
  destruct (fresh_props _ _ _ F) as [ND FP].
  assert (NDs : NoDup (map dts (with_sizes i z news))).
  { unfold dts. rewrite <- (map_map d_sst s_ts), with_sizes_sst. auto. }
  unfold dread at 1, read.
  destruct (first_hit k (map s_entries (rev news))) as [e|] eqn:E.
  - pose proof (StronglySorted_rev _ _ _ (fresh_sorted _ _ _ F)) as SR.
    destruct (first_hit_inv _ k _ e SR E) as (t & Ht & Hl & Hall).
    apply in_rev in Ht. destruct (with_sizes_in_sst news i z t Ht) as (f & Hf & Ef).
    rewrite (dir_top (dir ++ with_sizes i z news) k f e); auto.
    + apply in_or_app. auto.
    + unfold d_entries. rewrite Ef. auto.
    + intros g Hg Hh. apply in_app_iff in Hg. destruct Hg as [Hg|Hg].
      * right. unfold dnewer, snewer. rewrite Ef. destruct (FP t Ht) as (L0 & R & _).
        pose proof (wf_clock _ _ W g Hg). unfold dts in H. lia.
      * destruct (with_sizes_in _ _ _ _ Hg) as [Hgs _].
        destruct (Hall (d_sst g)) as [Q|Q].
        -- apply -> in_rev. auto.
        -- exact Hh.
        -- left. eapply NoDup_map_inj; eauto. unfold dts. rewrite Q, Ef. auto.
        -- right. unfold dnewer, snewer. rewrite Ef.
           destruct (FP t Ht) as (L0 & _). destruct (FP _ Hgs) as (L0' & _). right. split; auto. lia.
  - assert (Hnew : forall g, In g (with_sizes i z news) -> ~ dholds k g).
    { intros g Hg Hh. destruct (with_sizes_in _ _ _ _ Hg) as [Hgs _].
      apply (first_hit_none_inv k (rev news) E (d_sst g)). apply -> in_rev. auto. exact Hh. }
    unfold dread, read.
    destruct (first_hit k (map s_entries (precl dir))) as [e0|] eqn:E0.
    + destruct (top_of_dir dir c k e0 W E0) as (f0 & Hf0 & Hl0 & Hall0).
      rewrite (dir_top (dir ++ with_sizes i z news) k f0 e0); auto.
      * apply in_or_app. auto.
      * intros g Hg Hh. apply in_app_iff in Hg. destruct Hg as [Hg|Hg]; auto. exfalso. eapply Hnew; eauto.
    + rewrite dir_nobody; auto. intros g Hg Hh. apply in_app_iff in Hg. destruct Hg as [Hg|Hg].
      eapply (dir_nobody_inv dir k E0); eauto. eapply Hnew; eauto.
Qed.

(* ---------- what a flush writes ---------- *)

Definition tfile (m : memtable) : list sentry :=
  if mt_size m =? 0 then [] else collect (mt_iter_entries m).
Definition optfile (m : memtable) : list (list sentry) :=
  match tfile m with [] => [] | es => [es] end.
Definition newtab (num ts : N) (m : memtable) : list sst :=
  match tfile m with [] => [] | es => [mkSst 0 num ts es] end.

Lemma flush_table_files : forall e m,
  ssts (flush_table e m) = ssts e ++ newtab (next_file e) (clock e) m /\
  clock (flush_table e m) = clock e + N.of_nat (length (newtab (next_file e) (clock e) m)) /\
  same_mem e (flush_table e m).
Proof.
  intros. unfold flush_table, newtab, tfile. destruct (mt_size m =? 0).
  { simpl. rewrite app_nil_r, N.add_0_r. repeat split; auto. }
  destruct (collect (mt_iter_entries m)).
  { simpl. rewrite app_nil_r, N.add_0_r. repeat split; auto. }
  simpl. repeat split; auto.
Qed.

Lemma fold_flush_files : forall ps e, exists news,
  ssts (fold_left flush_table ps e) = ssts e ++ news /\
  clock (fold_left flush_table ps e) = clock e + N.of_nat (length news) /\
  map s_entries news = flat_map optfile ps /\
  same_mem e (fold_left flush_table ps e).
Proof.
  induction ps; simpl; intros.
  - exists []. rewrite app_nil_r, N.add_0_r. repeat split; auto.
  - destruct (flush_table_files e a) as (A1 & B1 & C1).
    destruct (IHps (flush_table e a)) as (n2 & A2 & B2 & D2 & C2).
    exists (newtab (next_file e) (clock e) a ++ n2). rewrite A2, A1, app_assoc. split; auto.
    split. rewrite B2, B1, app_length, Nat2N.inj_add. lia.
    split. rewrite map_app, D2. f_equal. unfold newtab, optfile. destruct (tfile a); auto.
    destruct C1, C2. constructor; congruence.
Qed.

Definition flush_tables (e : st) : list memtable :=
  match pending e with [] => [active e] | ps => ps end.

Lemma flush_files : forall e, (mt_size (active e) = 0 -> mt_entries (active e) = []) ->
  exists news,
    ssts (flush e) = ssts e ++ news /\
    clock (flush e) = clock e + N.of_nat (length news) /\
    map s_entries news = flat_map optfile (flush_tables e) /\
    active (flush e) = active e /\ imms (flush e) = imms e /\ pending (flush e) = [] /\ cfg (flush e) = cfg e /\
    (wal_files (flush e) = wal_files e \/ wal_files (flush e) = wal_files e ++ [[]]).
Proof.
  intros e Hz. unfold flush, flush_tables. destruct (pending e) eqn:P.
  - destruct (0 <? mt_size (active e)) eqn:Z.
    + destruct (fold_flush_files [active e] (rotate e)) as (n & A & B & D & [S1 S2 S3 S4 S5]).
      simpl in *. exists n. repeat split; auto. congruence.
    + exists []. apply N.ltb_ge in Z. assert (mt_size (active e) = 0) by lia.
      rewrite app_nil_r, N.add_0_r. simpl. unfold optfile, tfile. rewrite H. simpl. repeat split; auto.
  - destruct (fold_flush_files (m :: l) (rotate (clear_pending e))) as (n & A & B & D & [S1 S2 S3 S4 S5]).
    simpl in *. exists n. repeat split; auto.
Qed.

Lemma collect_nil : forall l, MP.sorted l -> collect l = [] -> l = [].
Proof.
  intros l Hs H. destruct l as [|x r]; auto. exfalso.
  pose proof (collect_lookup (mk x) (x :: r) Hs) as L. rewrite H in L. simpl in L.
  rewrite (proj2 (beq_iff _ _) eq_refl) in L. discriminate.
Qed.

Record tab_ok (m : memtable) : Prop := mkTO {
  to_sorted : mt_ok m;
  to_vis : mt_iter_entries m = mt_entries m;
  to_size : mt_size m = 0 -> mt_entries m = []
}.

(* the table file of a memtable, if one is written, reads as the memtable *)
Lemma first_hit_single : forall k t, first_hit k [t] = lookup k t.
Proof. intros. simpl. destruct (lookup k t); auto. Qed.

Lemma optfile_reads : forall m k, tab_ok m ->
  option_map sval (first_hit k (optfile m)) = mt_get m k.
Proof.
  intros m k [Hs Hv Hz]. unfold optfile, tfile.
  assert (E : mt_entries m = [] -> mt_get m k = None).
  { intro E. unfold mt_get. rewrite E. reflexivity. }
  destruct (mt_size m =? 0) eqn:Z.
  - apply N.eqb_eq in Z. simpl. symmetry. apply E. auto.
  - pose proof (flushed_reads_as_table m k Hs Hv) as F.
    destruct (collect (mt_iter_entries m)) as [|x r] eqn:C.
    + simpl. symmetry. apply E. rewrite Hv in C. apply collect_nil; auto.
    + rewrite first_hit_single. exact F.
Qed.

Lemma files_read_as_tables : forall ps k, Forall tab_ok ps ->
  option_map sval (first_hit k (rev (flat_map optfile ps))) = mems_get k (rev ps).
Proof.
  induction ps using rev_ind; intros k H. reflexivity.
  apply Forall_app in H. destruct H as [H Hx]. inversion Hx; subst.
  rewrite flat_map_app, !rev_app_distr. simpl. rewrite app_nil_r.
  assert (R : rev (optfile x) = optfile x).
  { unfold optfile. destruct (tfile x); reflexivity. }
  rewrite R, first_hit_app. pose proof (optfile_reads x k H2) as O.
  destruct (first_hit k (optfile x)); simpl in *.
  - rewrite <- O. reflexivity.
  - rewrite <- O. apply IHps. auto.
Qed.

(* ---------- flush ---------- *)

Lemma lost_log_flush_table : forall e m, lost_log (flush_table e m) = lost_log e.
Proof. intros. unfold flush_table. destruct (mt_size m =? 0); auto. destruct (collect _); auto. Qed.

Lemma lost_log_flush : forall e, lost_log (flush e) = lost_log e.
Proof.
  intros. unfold flush. destruct (pending e).
  - destruct (0 <? mt_size (active e)); auto. rewrite lost_log_flush_table. auto.
  - assert (G : forall ps x, lost_log (fold_left flush_table ps x) = lost_log x).
    { induction ps; simpl; intros; auto. rewrite IHps. apply lost_log_flush_table. }
    rewrite G. auto.
Qed.

Definition ov (x : option (option bytes)) (d : option bytes) : option bytes :=
  match x with Some y => y | None => d end.

Lemma utab_ok : forall s hd hs m, CInv s hd hs -> In m (utabs (eng s)) -> tab_ok m.
Proof.
  intros s hd hs m C Hm. constructor.
  - eapply utabs_ok; eauto.
  - unfold utabs in Hm. apply in_app_iff in Hm. destruct Hm as [Hm|[<-|[]]].
    + apply EP.iter_imm. pose proof (ci_imm _ _ _ C) as I. rewrite Forall_forall in I. auto.
    + apply MP.iter_all. apply (ci_seq _ _ _ C).
  - apply (ci_size _ _ _ C). auto.
Qed.

Lemma flush_tables_utabs : forall e m, In m (flush_tables e) -> In m (utabs e).
Proof.
  unfold flush_tables, utabs. intros. destruct (pending e) eqn:P. simpl in *. auto.
  apply in_or_app. auto.
Qed.

Section Flush.
  Variables (s : cst) (hd : list (bytes * option bytes)) (hs : list EP.hist) (z : list N).
  Hypothesis C : CInv s hd hs.
  Let e := eng s.
  Let H := hd ++ hflat (concat hs).
  Let T := flush_tables e.

  Lemma flush_disk_reads : forall k,
    dread (disk (cflush s z)) k = ov (mems_get k (rev T)) (dread (disk s) k) /\
    read (map s_entries (rev (ssts (flush e)))) k = ov (mems_get k (rev T)) (dread (disk s) k).
  Proof.
    intro k. pose proof (ci_ok _ _ _ C) as [A B D].
    destruct (flush_files e) as (news & F1 & F2 & F3 & F4 & F5 & F6 & F7 & F8).
    { apply (ci_size _ _ _ C). unfold utabs. apply in_or_app. simpl. auto. }
    destruct (flush_fresh e A) as (news' & G1 & G2 & _).
    assert (news' = news). { rewrite F1 in G1. apply app_inv_head in G1. auto. } subst news'.
    assert (TO : Forall tab_ok T).
    { rewrite Forall_forall. intros m Hm. eapply utab_ok; eauto. apply flush_tables_utabs. auto. }
    assert (R : first_hit k (map s_entries (rev news)) = first_hit k (rev (flat_map optfile T))).
    { rewrite map_rev, F3. reflexivity. }
    pose proof (files_read_as_tables T k TO) as FR.
    split.
    - unfold cflush. cbn [disk]. fold e. rewrite F1, skipn_app_exact.
      rewrite (dread_add_fresh (disk s) (clock e) news (clock (flush e)) 0 z k B G2). rewrite R.
      destruct (first_hit k (rev (flat_map optfile T))); simpl in FR; rewrite <- FR; reflexivity.
    - rewrite F1, rev_app_distr, map_app. unfold read. rewrite first_hit_app, R.
      destruct (first_hit k (rev (flat_map optfile T))); simpl in FR; rewrite <- FR; simpl; auto.
      apply (ci_ssts _ _ _ C).
  Qed.

  (* the latest write of a key held by one of the tables being written, not by the active one *)
  Lemma pending_latest : forall k x, pending e <> [] -> ~ tab_has k (active e) ->
    mems_get k (rev (pending e)) = Some x -> last_effect k (hflat (concat hs)) = Some x.
  Proof.
    intros k x Hp Ha Hm.
    pose proof (EP.mems_get_inv _ _ k (ci_inv _ _ _ C)) as L. unfold latest in L. fold (hflat (concat hs)) in L.
    rewrite <- L. change (mem_layers (lost (eng s))) with (mem_layers e). unfold mem_layers.
    destruct (ci_pend _ _ _ C) as (pre & P). fold e in P. rewrite P, rev_app_distr. simpl.
    assert (N : mt_get (active e) k = None).
    { apply mt_get_none; auto. apply (eo_active _ (c2_eng _ (ci_ok _ _ _ C))). }
    rewrite N, EP.mems_get_app, Hm. reflexivity.
  Qed.

  Lemma active_latest : forall k x, mt_get (active e) k = Some x -> last_effect k (hflat (concat hs)) = Some x.
  Proof.
    intros k x Hm.
    pose proof (EP.mems_get_inv _ _ k (ci_inv _ _ _ C)) as L. unfold latest in L. fold (hflat (concat hs)) in L.
    rewrite <- L. change (mem_layers (lost (eng s))) with (mem_layers e). unfold mem_layers. simpl. rewrite Hm. auto.
  Qed.

  Theorem CInv_flush : exists hs',
    CInv (cflush s z) hd hs' /\ concat hs' = concat hs /\
    pending (eng (cflush s z)) = [] /\
    length (wal_files (eng (cflush s z))) = length hs' /\
    (pending e = [] -> forall k, dread (disk (cflush s z)) k = spec H k).
  Proof.
    pose proof (ci_ok _ _ _ C) as OK. destruct OK as [A B D].
    destruct (flush_files e) as (news & F1 & F2 & F3 & F4 & F5 & F6 & F7 & F8).
    { apply (ci_size _ _ _ C). unfold utabs. apply in_or_app. simpl. auto. }
    set (hs' := if Nat.eqb (length (wal_files (flush e))) (length (wal_files e)) then hs else hs ++ [[]]).
    assert (Hc : concat hs' = concat hs).
    { unfold hs'. destruct (Nat.eqb _ _); auto. rewrite concat_app. simpl. rewrite app_nil_r. auto. }
    assert (Hw : map EP.wentries hs' = wal_files (flush e)).
    { unfold hs'. destruct F8 as [W|W]; rewrite W.
      - rewrite Nat.eqb_refl. apply (ci_wal _ _ _ C).
      - assert (Nat.eqb (length (wal_files e ++ [[]])) (length (wal_files e)) = false).
        { apply Nat.eqb_neq. rewrite app_length. simpl. lia. }
        rewrite H0. rewrite map_app. simpl. f_equal. apply (ci_wal _ _ _ C). }
    assert (Act : forall k, mt_get (active e) k = None <-> ~ tab_has k (active e)).
    { intro k. apply mt_get_none. apply (eo_active _ A). }
    exists hs'. split; [|split; [auto|split; [exact F6|split]]].
    - constructor; unfold cflush; cbn [eng disk cc retirable]; fold e.
      + apply (cflush_ok2 s z (ci_ok _ _ _ C)).
      + rewrite Hc. rewrite <- lost_flush. apply EP.Inv_flush. apply (ci_inv _ _ _ C).
      + exact Hw.
      + rewrite lost_log_flush. apply (ci_lost _ _ _ C).
      + intro k. destruct (flush_disk_reads k) as [R1 R2]. unfold cflush in R1. cbn [disk] in R1. fold e in R1.
        rewrite R1, R2. reflexivity.
      + exists (imms e). rewrite F5, F6, app_nil_r. auto.
      + rewrite F6. constructor.
      + intros m Hm. unfold utabs in Hm. rewrite F6, F4 in Hm. simpl in Hm. destruct Hm as [<-|[]].
        apply (ci_size _ _ _ C). unfold utabs. apply in_or_app. simpl. auto.
      + rewrite F4. apply (ci_seq _ _ _ C).
      + rewrite Hc. apply (ci_hseq _ _ _ C).
      + intros k Hk. rewrite Hc.
        assert (Ha : ~ tab_has k (active e)).
        { apply Hk. unfold utabs. rewrite F6, F4. simpl. auto. }
        destruct (flush_disk_reads k) as [R1 _]. unfold cflush in R1. cbn [disk] in R1. fold e in R1.
        rewrite R1. unfold T, flush_tables. destruct (pending e) as [|p0 ps] eqn:P.
        * simpl. rewrite (proj2 (Act k) Ha). simpl. apply (ci_di _ _ _ C).
          intros m Hm. unfold utabs in Hm. fold e in Hm. rewrite P in Hm. simpl in Hm. destruct Hm as [<-|[]]. auto.
        * destruct (mems_get k (rev (p0 :: ps))) as [x|] eqn:M.
          -- simpl. rewrite <- P in M. rewrite (spec_app_some hd _ k x (pending_latest k x ltac:(rewrite P; discriminate) Ha M)).
             destruct x; auto.
          -- simpl. apply (ci_di _ _ _ C). intros m Hm. unfold utabs in Hm. fold e in Hm. rewrite P in Hm.
             apply in_app_iff in Hm. destruct Hm as [Hm|[<-|[]]]; auto.
             apply mt_get_none. eapply utabs_ok; eauto. unfold utabs. fold e. rewrite P. apply in_or_app. auto.
             apply (proj1 (mems_get_none _ _) M). apply -> in_rev. auto.
    - unfold cflush. cbn [eng]. fold e. rewrite <- Hw. rewrite map_length. auto.
    - intros P k. destruct (flush_disk_reads k) as [R1 _]. rewrite R1. unfold T, flush_tables. rewrite P.
      simpl. destruct (mt_get (active e) k) as [x|] eqn:M.
      + simpl. unfold H. rewrite (spec_app_some hd _ k x (active_latest k x M)). destruct x; auto.
      + simpl. apply (ci_di _ _ _ C). intros m Hm. unfold utabs in Hm. fold e in Hm. rewrite P in Hm. simpl in Hm.
        destruct Hm as [<-|[]]. apply Act. auto.
  Qed.
End Flush.

(* ---------- reopen ---------- *)

Definition tab_inv (m : memtable) : Prop := (mt_size m = 0 -> mt_entries m = []) /\ MP.seq_inv m.

Lemma tab_inv_empty : tab_inv mt_empty.
Proof. split; auto. unfold MP.seq_inv. simpl. constructor. Qed.

Lemma tab_inv_add : forall m x, tab_inv m -> MP.seq_ok x -> tab_inv (mt_add m x).
Proof.
  intros m x [A B] Hx. split.
  - unfold mt_add. destruct (mt_imm m) eqn:I; auto. simpl. unfold esize. lia.
  - apply MP.mt_add_seq_inv; auto.
Qed.

Lemma tab_inv_imm : forall m, tab_inv m -> tab_inv (mt_set_imm m).
Proof. intros m [A B]. split; auto. Qed.

Lemma recover_tables_inv : forall c es tables maxseq r q,
  Forall tab_inv tables -> (forall a m, In a es -> wentry_mentry a = Some m -> MP.seq_ok m) ->
  recover_tables c es tables maxseq = Some (r, q) -> Forall tab_inv r.
Proof.
  induction es; simpl; intros. inversion H1; subst. auto.
  destruct tables as [|cur older]; try discriminate. inversion H; subst.
  assert (Hm : forall m, wentry_mentry a = Some m -> MP.seq_ok m) by (intros; eapply H0; eauto).
  destruct (c_memsize c <=? mt_size cur).
  - destruct (c_maxmem c <=? _); try discriminate.
    eapply IHes in H1; eauto. constructor; [|constructor; [apply tab_inv_imm; auto|auto]].
    destruct (wentry_mentry a) eqn:E. apply tab_inv_add; auto. apply tab_inv_empty. apply tab_inv_empty.
  - eapply IHes in H1; eauto. constructor; auto. destruct (wentry_mentry a) eqn:E; auto.
    apply tab_inv_add; auto.
Qed.

Lemma SS_skipn : forall (A : Type) (R : A -> A -> Prop) n l, StronglySorted R l -> StronglySorted R (skipn n l).
Proof.
  induction n; destruct l; simpl; intros; auto. inversion H; subst. auto.
Qed.

Lemma concat_map_wentries : forall hs, concat (map EP.wentries hs) = EP.wentries (concat hs).
Proof. induction hs; simpl; auto. rewrite IHhs, EP.wentries_app. auto. Qed.

Section Reopen.
  (* e1: the engine about to be reopened (its log possibly shortened by a retirement); the state
     s supplies the directory *)
  Variables (s : cst) (e1 : st) (hd1 : list (bytes * option bytes)) (hs1 : list EP.hist) (r1 : nat).
  Hypothesis OK : cst_ok2 s.
  Hypothesis Hsorted : StronglySorted N.lt (map fst (concat hs1)).
  Hypothesis Hnonempty : Forall (fun p => effects (snd p) <> []) (concat hs1).
  Hypothesis Hwal : map EP.wentries hs1 = wal_files e1.
  Hypothesis Hlost : lost_log e1 = false.
  Hypothesis Hseq : Forall (fun q => q < MaxSeq) (map fst (concat hs1)).
  Hypothesis Hdi : forall k, (forall x, In x (EP.entries (concat hs1)) -> mk x <> k) ->
                   dread (disk s) k = spec (hd1 ++ hflat (concat hs1)) k.
  Let D := map d_sst (dsort (disk s)).
  Let e2 := reopen (set_ssts e1 D).
  Hypothesis Hrec : lost_log e2 = false.
  Hypothesis Hclock : clock e1 = clock (eng s).
  Hypothesis Heok : eng_ok2 e2.

  Let hs2 := match hs1 with [] => [[]] | _ => hs1 end.

  Theorem CInv_reopen_core : CInv (mkC e2 (disk s) [] (cc s) r1) hd1 hs2.
  Proof.
    assert (Hc2 : concat hs2 = concat hs1).
    { unfold hs2. destruct hs1; auto. }
    destruct (EP.recovered (lost (set_ssts e1 D))) as [[tbls maxseq]|] eqn:R.
    2: { exfalso. change (EP.recovered (lost (set_ssts e1 D))) with (EP.recovered (set_ssts e1 D)) in R.
         pose proof (EP.reopen_none _ R) as E. fold e2 in E.
         assert (lost_log e2 = true) by (rewrite E; reflexivity). congruence. }
    assert (DI : EP.DiskInv (lost (set_ssts e1 D)) (concat hs1)).
    { constructor; auto.
      - simpl. rewrite <- Hwal. apply concat_map_wentries.
      - simpl. discriminate. }
    pose proof (EP.Inv_reopen_disk _ _ _ _ DI R) as I2. rewrite lost_reopen in I2. fold e2 in I2.
    pose proof (EP.reopen_some _ _ _ R) as E2. rewrite lost_reopen in E2. fold e2 in E2.
    assert (F : active e2 = match tbls with a :: _ => a | [] => mt_empty end /\
                imms e2 = map mt_set_imm (rev (tl tbls)) /\ pending e2 = map mt_set_imm (rev (tl tbls)) /\
                ssts e2 = sst_sort D /\ wal_files e2 = match wal_files e1 with [] => [[]] | f => f end /\
                clock e2 = clock e1).
    {       assert (A1 : active (lost e2) = active e2) by reflexivity.
      assert (A2 : imms (lost e2) = imms e2) by reflexivity.
      assert (A3 : pending (lost e2) = pending e2) by reflexivity.
      assert (A4 : ssts (lost e2) = ssts e2) by reflexivity.
      assert (A5 : wal_files (lost e2) = wal_files e2) by reflexivity.
      assert (A6 : clock (lost e2) = clock e2) by reflexivity.
      rewrite E2 in A1, A2, A3, A4, A5, A6. simpl in *. repeat split; auto. }
    destruct F as (F1 & F2 & F3 & F4 & F5 & F6).
    (* the recovered tables *)
    assert (TI : Forall tab_inv tbls).
    { unfold EP.recovered in R. eapply recover_tables_inv in R; eauto.
      - constructor. apply tab_inv_empty. constructor.
      - intros a m Ha Hm. unfold MP.seq_ok.
        assert (Ha' : In a (EP.wentries (concat hs1))).
        { rewrite <- concat_map_wentries, Hwal. simpl in Ha. unfold EP.reopen_files in Ha. simpl in Ha.
          destruct (wal_files e1); auto. }
        apply EP.in_wentries in Ha'. destruct Ha' as (p & o & Hp & Ho & ->).
        rewrite EP.wentry_mentry_bop in Hm. inversion Hm; subst. rewrite EP.mseq_bop_mentry.
        rewrite Forall_forall in Hseq. pose proof (Hseq (fst p) (in_map fst _ _ Hp)). pose proof EP.MaxSeq_small. lia. }
    constructor; cbn [eng disk cc retirable].
    - destruct OK as [A B C0]. constructor; cbn [eng disk cc]; auto. rewrite F6, Hclock. auto.
    - rewrite Hc2. exact I2.
    - rewrite F5, <- Hwal. unfold hs2. destruct hs1; reflexivity.
    - exact Hrec.
    - intro k. rewrite F4. reflexivity.
    - exists []. rewrite F2, F3. auto.
    - rewrite F3. rewrite Forall_forall. intros m Hm. apply in_map_iff in Hm. destruct Hm as (m0 & <- & _). reflexivity.
    - intros m Hm. unfold utabs in Hm. rewrite F3, F1 in Hm. apply in_app_iff in Hm.
      rewrite Forall_forall in TI. destruct Hm as [Hm|[<-|[]]].
      + apply in_map_iff in Hm. destruct Hm as (m0 & <- & Hm0). simpl. apply TI.
        apply in_rev in Hm0. destruct tbls; simpl in *. tauto. auto.
      + destruct tbls. auto. apply TI. simpl. auto.
    - rewrite F1. destruct tbls. unfold MP.seq_inv. simpl. constructor.
      rewrite Forall_forall in TI. apply TI. simpl. auto.
    - rewrite Hc2. exact Hseq.
    - intros k Hk. rewrite Hc2. apply Hdi. intros x Hx Hkx.
      destruct (EP.inv_layers _ _ I2) as (segs & HF & HC).
      rewrite <- HC in Hx. apply in_concat in Hx. destruct Hx as (seg & Hseg & Hxs).
      (* the layer of that segment holds x *)
      assert (exists m, In m (imms e2 ++ [active e2]) /\ In x (mt_entries m)).
      { clear - HF Hseg Hxs. change (imms (lost e2)) with (imms e2) in HF. change (active (lost e2)) with (active e2) in HF.
        induction HF. destruct Hseg. destruct Hseg as [<-|Hseg].
        - exists x0. split. simpl; auto. unfold EP.layer_ok in H. rewrite H. apply MP.build_in. auto.
        - destruct (IHHF Hseg) as (m & A & B). exists m. split; auto. simpl; auto. }
      destruct H as (m & Hm & Hxm). apply (Hk m).
      + unfold utabs. rewrite F3, <- F2. auto.
      + exists x. auto.
  Qed.
End Reopen.

(* ---------- assembling the steps ---------- *)

Lemma CInv_ext : forall s s' hd hs, eng s' = eng s -> disk s' = disk s -> cc s' = cc s ->
  CInv s hd hs -> CInv s' hd hs.
Proof.
  intros s s' hd hs E1 E2 E3 [A B C D E F G H I J K]. destruct A as [A1 A2 A3].
  constructor; rewrite ?E1, ?E2; auto. constructor; rewrite ?E1, ?E2, ?E3; auto.
Qed.

Lemma Inv_lost : forall e h, EP.Inv e h -> EP.Inv (lost e) h.
Proof. intros e h [A B C D E F G H I J]. constructor; auto. simpl. discriminate. Qed.

Lemma CInv_init : forall c k, cfg_ok k -> CInv (cinit c k) [] [[]].
Proof.
  intros c k Hk. pose proof (reachable_wf c k [] Hk) as OK. unfold crun in OK. simpl in OK.
  constructor; simpl; auto;
    try (apply Inv_lost; apply EP.Inv_init);
    try (exists []; reflexivity);
    try (intros m [<-|[]] _; reflexivity);
    try (unfold MP.seq_inv; simpl; constructor);
    try (intros k0 _; unfold dread, read; rewrite dir_nobody; [reflexivity|intros g []]).
Qed.

Definition Hof (hd : list (bytes * option bytes)) (hs : list EP.hist) := hd ++ hflat (concat hs).

(* a write that is acknowledged or refused, an empty batch *)
Lemma CInv_batch : forall s hd hs ops tr', CInv s hd hs ->
  exists hs', CInv (mkC (fst (apply_batch (eng s) ops)) (disk s) tr' (cc s) (retirable s)) hd hs'.
Proof.
  intros s hd hs ops tr' C. destruct ops as [|o r].
  - exists hs. apply (CInv_ext s); auto.
  - destruct (apply_batch (eng s) (o :: r)) as [e' [q|]] eqn:E.
    + eexists. apply (CInv_write s hd hs (o :: r) e' q tr' C); auto. discriminate.
    + exists hs. pose proof (EP.apply_batch_no_effect _ _ _ E). subst e'. apply (CInv_ext s); auto.
Qed.

Lemma CInv_full : forall s hd hs z, CInv s hd hs -> exists hs',
  CInv (cfull s z) hd hs' /\ concat hs' = concat hs /\
  (forall k, dread (disk (cfull s z)) k = spec (Hof hd hs) k) /\
  retirable (cfull s z) = (length hs' - 1)%nat.
Proof.
  intros s hd hs z C. unfold cfull.
  destruct (CInv_flush s hd hs z C) as (h1 & C1 & E1 & P1 & L1 & F1).
  destruct (pending (eng s)) eqn:P.
  - exists h1. split; [|split; [auto|split]].
    + apply (CInv_ext (cflush s z)); auto.
    + intro k. cbn [disk]. apply F1. auto.
    + cbn [retirable eng]. rewrite L1. auto.
  - destruct (CInv_flush _ hd h1 (skipn (nfresh s) z) C1) as (h2 & C2 & E2 & P2 & L2 & F2).
    exists h2. split; [|split; [congruence|split]].
    + apply (CInv_ext (cflush (cflush s z) (skipn (nfresh s) z))); auto.
    + intro k. cbn [disk]. unfold Hof. rewrite <- E1. apply F2. auto.
    + cbn [retirable eng]. rewrite L2. auto.
Qed.

Lemma SS_app_r : forall (A : Type) (R : A -> A -> Prop) a b, StronglySorted R (a ++ b) -> StronglySorted R b.
Proof. induction a; simpl; intros; auto. inversion H; subst. auto. Qed.

Lemma utab_entries_in_hist : forall s hd hs m x, CInv s hd hs -> In m (utabs (eng s)) ->
  In x (mt_entries m) -> In x (EP.entries (concat hs)).
Proof.
  intros s hd hs m x C Hm Hx. apply (EP.layer_entries_in_hist (lost (eng s)) (concat hs) m x (ci_inv _ _ _ C)); auto.
  simpl. pose proof (utabs_layers s hd hs m C Hm) as L. unfold mem_layers in L. destruct L as [<-|L]; auto.
  right. apply in_rev. auto.
Qed.

Lemma CInv_reopen_false : forall s hd hs, CInv s hd hs -> lost_log (eng (creopen s false)) = false ->
  exists hs', CInv (creopen s false) hd hs' /\ concat hs' = concat hs.
Proof.
  intros s hd hs C Hl. pose proof (ci_ok _ _ _ C) as OK.
  pose proof (cstep_ok2 (CReopen false) s OK) as OK'. simpl in OK'.
  pose proof (ci_inv _ _ _ C) as I.
  exists (match hs with [] => [[]] | _ => hs end). split.
  - assert (H6 : forall k, (forall x, In x (EP.entries (concat hs)) -> mk x <> k) ->
                 dread (disk s) k = spec (hd ++ hflat (concat hs)) k).
    { intros k Hk. apply (ci_di _ _ _ C). intros m Hm (x & Hx & Hkx).
      eapply Hk; eauto. eapply utab_entries_in_hist; eauto. }
    apply (CInv_reopen_core s (eng s) hd hs (retirable s) OK (EP.inv_sorted _ _ I) (EP.inv_nonempty _ _ I)
             (ci_wal _ _ _ C) (ci_lost _ _ _ C) (ci_hseq _ _ _ C) H6 Hl eq_refl (c2_eng _ OK')).
  - destruct hs; auto.
Qed.

Lemma skipn_map : forall (A B : Type) (f : A -> B) n l, skipn n (map f l) = map f (skipn n l).
Proof. induction n; destruct l; simpl; auto. Qed.

Lemma CInv_full_retire : forall s hd hs z, CInv s hd hs ->
  lost_log (eng (creopen (cfull s z) true)) = false ->
  exists hd' hs', CInv (creopen (cfull s z) true) hd' hs' /\ Hof hd' hs' = Hof hd hs.
Proof.
  intros s hd hs z C Hl. destruct (CInv_full s hd hs z C) as (h1 & C1 & E1 & F1 & R1).
  set (s1 := cfull s z) in *. pose proof (ci_ok _ _ _ C1) as OK.
  pose proof (cstep_ok2 (CReopen true) s1 OK) as OK'. simpl in OK'.
  pose proof (ci_inv _ _ _ C1) as I.
  set (j := retirable s1) in *.
  set (e1 := upd_wal (eng s1) (wal_next (eng s1)) (skipn j (wal_files (eng s1)))).
  assert (Split : concat h1 = concat (firstn j h1) ++ concat (skipn j h1)).
  { rewrite <- concat_app, firstn_skipn. auto. }
  set (hd1 := hd ++ hflat (concat (firstn j h1))).
  set (hs1 := skipn j h1).
  assert (HH : Hof hd1 hs1 = Hof hd hs).
  { unfold Hof, hd1, hs1. rewrite <- app_assoc, <- hflat_app, <- Split, E1. auto. }
  exists hd1, (match hs1 with [] => [[]] | _ => hs1 end). split.
  - assert (H1 : StronglySorted N.lt (map fst (concat hs1))).
    { pose proof (EP.inv_sorted _ _ I) as S. rewrite Split, map_app in S. eapply SS_app_r; eauto. }
    assert (H2 : Forall (fun p => effects (snd p) <> []) (concat hs1)).
    { pose proof (EP.inv_nonempty _ _ I) as S. rewrite Split in S. apply Forall_app in S. tauto. }
    assert (H3 : map EP.wentries hs1 = wal_files e1).
    { unfold e1, hs1. cbn [wal_files upd_wal]. rewrite <- (ci_wal _ _ _ C1). symmetry. apply skipn_map. }
    assert (H4 : lost_log e1 = false) by (apply (ci_lost _ _ _ C1)).
    assert (H5 : Forall (fun q => q < MaxSeq) (map fst (concat hs1))).
    { pose proof (ci_hseq _ _ _ C1) as S. rewrite Split, map_app in S. apply Forall_app in S. tauto. }
    assert (H6 : forall k, (forall x, In x (EP.entries (concat hs1)) -> mk x <> k) ->
                 dread (disk s1) k = spec (hd1 ++ hflat (concat hs1)) k).
    { intros k _. fold (Hof hd1 hs1). rewrite HH. apply F1. }
    apply (CInv_reopen_core s1 e1 hd1 hs1 0%nat OK H1 H2 H3 H4 H5 H6 Hl eq_refl (c2_eng _ OK')).
  - unfold Hof in *. rewrite <- HH. destruct hs1; auto.
Qed.

(* ---------- programs ---------- *)

(* log retirement (CReopen true) happens only right after a full flush: that is when every
   record of the retired files is in a table AND no older memtable can be written after a newer
   table (known finding KF-C12-7 is the other case) *)
Fixpoint legit (ops : list cop) : Prop :=
  match ops with
  | [] => True
  | CFull _ :: rest => match rest with CReopen true :: r => legit r | _ => legit rest end
  | CReopen true :: _ => False
  | _ :: r => legit r
  end.

(* no recovery ran out of memtable budget (C02's known finding D11) *)
Definition noloss (s : cst) (ops : list cop) : Prop :=
  forall n, lost_log (eng (fold_left cstep (firstn n ops) s)) = false.

Lemma noloss_head : forall s o r, noloss s (o :: r) -> lost_log (eng (cstep s o)) = false.
Proof. intros. apply (H 1%nat). Qed.
Lemma noloss_tail : forall s o r, noloss s (o :: r) -> noloss (cstep s o) r.
Proof. intros s o r H n. apply (H (S n)). Qed.

Lemma CInv_step_simple : forall o s hd hs, CInv s hd hs -> o <> CReopen true ->
  lost_log (eng (cstep s o)) = false ->
  exists hd' hs', CInv (cstep s o) hd' hs' /\
    (match o with CPut _ _ | CDel _ | CBatch _ | CCommit _ => True | _ => Hof hd' hs' = Hof hd hs end).
Proof.
  destruct o; intros s0 hd hs C Hn Hl; cbn [cstep] in *.
  - unfold cput. rewrite EP.put_as_batch.
    destruct (CInv_batch s0 hd hs [(k, Some v)] (tracked s0) C) as (hs' & C').
    exists hd, hs'. split; auto. destruct (apply_batch (eng s0) [(k, Some v)]). exact C'.
  - unfold cdel. rewrite EP.del_as_batch.
    destruct (apply_batch (eng s0) [(k, None)]) as [e' r] eqn:E.
    destruct (CInv_batch s0 hd hs [(k, None)] (if is_ok r then k :: tracked s0 else tracked s0) C) as (hs' & C').
    rewrite E in C'. exists hd, hs'. split; auto.
  - unfold cbatch. destruct (apply_batch (eng s0) ops) as [e' r] eqn:E.
    destruct (CInv_batch s0 hd hs ops (if is_ok r then rev (del_keys ops) ++ tracked s0 else tracked s0) C) as (hs' & C').
    rewrite E in C'. exists hd, hs'. split; auto.
  - unfold ccommit. rewrite EP.tx_commit_as_batch.
    destruct (CInv_batch s0 hd hs (buffer_ops ops) (tracked s0) C) as (hs' & C').
    exists hd, hs'. split; auto. destruct (apply_batch (eng s0) (buffer_ops ops)). exact C'.
  - destruct (CInv_flush s0 hd hs sizes C) as (hs' & C' & E & _). exists hd, hs'. split; auto.
    unfold Hof. rewrite E. auto.
  - destruct (CInv_full s0 hd hs sizes C) as (hs' & C' & E & _). exists hd, hs'. split; auto.
    unfold Hof. rewrite E. auto.
  - exists hd, hs. split; auto. apply CInv_trigger; auto.
  - exists hd, hs. split; auto. apply CInv_range; auto.
  - destruct retire. congruence.
    destruct (CInv_reopen_false s0 hd hs C Hl) as (hs' & C' & E). exists hd, hs'. split; auto.
    unfold Hof. rewrite E. auto.
  - exists hd, hs. split; auto.
Qed.

Lemma CInv_steps : forall n ops, (length ops <= n)%nat -> forall s hd hs,
  CInv s hd hs -> legit ops -> noloss s ops ->
  exists hd' hs', CInv (fold_left cstep ops s) hd' hs'.
Proof.
  induction n; intros ops Hlen s hd hs C L NL.
  - destruct ops; simpl in *; try lia. eauto.
  - destruct ops as [|o r]. simpl. eauto.
    assert (Simple : o <> CReopen true -> legit r ->
                     exists hd' hs', CInv (fold_left cstep (o :: r) s) hd' hs').
    { intros Ho Lr. destruct (CInv_step_simple o s hd hs C Ho (noloss_head _ _ _ NL)) as (hd1 & hs1 & C1 & _).
      simpl. apply (IHn r) with hd1 hs1; auto. simpl in Hlen. lia. apply noloss_tail; auto. }
    destruct o; try (apply Simple; [discriminate|exact L]).
    + (* CFull: alone, or followed by the retirement *)
      destruct r as [|o2 r2]. apply Simple. discriminate. exact L.
      destruct o2; try (apply Simple; [discriminate|exact L]).
      destruct retire. 2: apply Simple; [discriminate|exact L].
      simpl in L. simpl.
      assert (Hl : lost_log (eng (creopen (cfull s sizes) true)) = false) by (apply (NL 2%nat)).
      destruct (CInv_full_retire s hd hs sizes C Hl) as (hd1 & hs1 & C1 & _).
      apply (IHn r2) with hd1 hs1; auto. simpl in Hlen. lia.
      intro m. apply (NL (S (S m))).
    + destruct retire. simpl in L. tauto. apply Simple. discriminate. exact L.
Qed.

Definition run_ok (c : config) (k : ccfg) (ops : list cop) : Prop :=
  cfg_ok k /\ legit ops /\ noloss (cinit c k) ops.

Theorem reachable_CInv : forall c k ops, run_ok c k ops -> exists hd hs, CInv (crun c k ops) hd hs.
Proof.
  intros c k ops (A & B & D). unfold crun.
  apply (CInv_steps (length ops) ops (le_n _) (cinit c k) [] [[]]); auto. apply CInv_init; auto.
Qed.

(* every read returns the latest acknowledged write: the ground truth behind the theorem *)
Theorem reads_latest : forall c k ops, run_ok c k ops ->
  exists H, forall key, cget (crun c k ops) key = spec H key.
Proof.
  intros. destruct (reachable_CInv c k ops H) as (hd & hs & C). exists (Hof hd hs).
  intro key. apply cget_spec. auto.
Qed.

(* C12, last sentence, in full: the database reopened on the (compacted) files reads the same as
   before — log kept, or the flushed log files retired after a full flush *)
Theorem reopen_reads_same : forall c k ops, run_ok c k ops ->
  let s := crun c k ops in
  (lost_log (eng (creopen s false)) = false ->
   forall key, cget (creopen s false) key = cget s key) /\
  (forall z, lost_log (eng (creopen (cfull s z) true)) = false ->
   forall key, cget (creopen (cfull s z) true) key = cget s key).
Proof.
  intros c k ops R s. destruct (reachable_CInv c k ops R) as (hd & hs & C). fold s in C. split.
  - intros Hl key. destruct (CInv_reopen_false s hd hs C Hl) as (hs' & C' & E).
    rewrite (cget_spec _ _ _ key C'), (cget_spec _ _ _ key C). rewrite E. auto.
  - intros z Hl key. destruct (CInv_full_retire s hd hs z C Hl) as (hd' & hs' & C' & E).
    rewrite (cget_spec _ _ _ key C'), (cget_spec _ _ _ key C). unfold Hof in E. rewrite E. auto.
Qed.

(* ---------- non-vacuity ---------- *)

Fixpoint prefixes_ok (s : cst) (ops : list cop) : bool :=
  negb (lost_log (eng s)) && match ops with [] => true | o :: r => prefixes_ok (cstep s o) r end.

Lemma prefixes_ok_noloss : forall ops s, prefixes_ok s ops = true -> noloss s ops.
Proof.
  induction ops; simpl; intros s H n; apply andb_prop in H; destruct H as [A B].
  - destruct n; simpl; apply negb_true_iff; auto.
  - destruct n; simpl. apply negb_true_iff; auto. apply IHops. auto.
Qed.

Definition ex_prog : list cop :=
  [CPut kx [1]; CFull []; CPut kx [2]; CDel ka; CFull []; CTrigger []; CFull []; CReopen true;
   CPut ka [3]; CFlush []; CReopen false; CCommit [(kx, None)]; CFull []; CRange ka kx []].

Example run_ok_example : run_ok cfg2 cc_off ex_prog.
Proof.
  split. unfold cfg_ok. simpl. lia. split. simpl. auto.
  apply prefixes_ok_noloss. vm_compute. reflexivity.
Qed.

Example reopen_reads_same_example :
  let s := crun cfg2 cc_off ex_prog in
  lost_log (eng (creopen s false)) = false /\ lost_log (eng (creopen (cfull s []) true)) = false /\
  cget s kx = None /\ cget s ka = Some [3] /\
  cget (creopen (cfull s []) true) ka = Some [3] /\ cget (creopen s false) kx = None.
Proof. vm_compute. auto 7. Qed.
