(* CompactionFull.v — C12, last sentence, in full for the repaired code: after any program
   (writes, flushes, automatic/triggered/range compactions, restarts, log retirement right after
   a full flush) a reopen reads exactly what the running database read — log kept, or every
   flushed log file retired. Proved through the ground truth: every read equals the latest
   acknowledged write. *)
From Coq Require Import Lia Sorted.
From KV Require Import Spec.
From KV Require EngineProofs.
From KV Require Import Compaction CompactionProofs CompactionMerge CompactionReach CompactionReopen.
Open Scope N_scope.

(* ---------- the engine state with the "log lost" flag set: EngineProofs.Inv then says nothing
   about the tables (after a retirement they hold keys the remaining log does not know) ---------- *)

Definition lost (e : st) : st :=
  mkSt (cfg e) (wal_next e) (wal_files e) (last_seq e) (active e) (imms e) (pending e)
       (flush_pending e) (ssts e) (next_file e) (clock e) true.

Lemma lost_fold_add : forall (ops : list bop) q e,
  fold_left (fun a o => set_last (pool_add a (bop_mentry q o)) q) ops (lost e) =
  lost (fold_left (fun a o => set_last (pool_add a (bop_mentry q o)) q) ops e).
Proof. induction ops; simpl; intros; auto. rewrite <- IHops. reflexivity. Qed.

Lemma lost_maybe_schedule : forall e, maybe_schedule (lost e) = lost (maybe_schedule e).
Proof. intros. unfold maybe_schedule. simpl. destruct (flush_pending e); reflexivity. Qed.

Lemma lost_apply_batch : forall e ops,
  apply_batch (lost e) ops = (lost (fst (apply_batch e ops)), snd (apply_batch e ops)).
Proof.
  intros. unfold apply_batch. destruct ops as [|b r]. reflexivity.
  simpl wal_next. destruct (MaxSeq <=? wal_next e). reflexivity.
  cbn [fst snd]. f_equal.
  change (upd_wal (lost e) (wal_next e + 1) (log_append (wal_files (lost e)) (map (bop_entry (wal_next e)) (b :: r))))
    with (lost (upd_wal e (wal_next e + 1) (log_append (wal_files e) (map (bop_entry (wal_next e)) (b :: r))))).
  rewrite lost_fold_add, lost_maybe_schedule. reflexivity.
Qed.

Lemma lost_flush_table : forall e m, flush_table (lost e) m = lost (flush_table e m).
Proof.
  intros. unfold flush_table. destruct (mt_size m =? 0). reflexivity.
  destruct (collect (mt_iter_entries m)); reflexivity.
Qed.

Lemma lost_fold_flush : forall ps e, fold_left flush_table ps (lost e) = lost (fold_left flush_table ps e).
Proof. induction ps; simpl; intros; auto. rewrite lost_flush_table. auto. Qed.

Lemma lost_flush : forall e, flush (lost e) = lost (flush e).
Proof.
  intros. unfold flush. simpl pending. destruct (pending e).
  - simpl active. destruct (0 <? mt_size (active e)). 2: reflexivity.
    change (rotate (lost e)) with (lost (rotate e)). apply lost_flush_table.
  - change (rotate (clear_pending (lost e))) with (lost (rotate (clear_pending e))). apply lost_fold_flush.
Qed.

Lemma lost_reopen : forall e, reopen (lost e) = lost (reopen e).
Proof.
  intros. unfold reopen. simpl. destruct (recover_tables _ _ _ _) as [[? ?]|]; reflexivity.
Qed.

Lemma get_lost : forall e k, get (lost e) k = get e k.
Proof. reflexivity. Qed.

Module EP := EngineProofs.
Module MP := MemtableProofs.

(* ---------- memtables ---------- *)

Definition tab_has (k : bytes) (m : memtable) : Prop := exists e, In e (mt_entries m) /\ mk e = k.

Lemma first_key_none : forall k l, MP.first_key k l = None <-> forall e, In e l -> mk e <> k.
Proof.
  induction l; simpl. { split; auto; try (intros _ e []). }
  destruct (beq (mk a) k) eqn:E.
  - split. discriminate. intro H. apply beq_iff in E. exfalso. apply (H a); auto.
  - rewrite IHl. split; intros H e; [intros [<-|He]|intro He]; auto.
    intro C. rewrite C in E. rewrite (proj2 (beq_iff _ _) eq_refl) in E. discriminate.
Qed.

Lemma first_key_some : forall k l e, MP.first_key k l = Some e -> In e l /\ mk e = k.
Proof.
  induction l; simpl; intros. discriminate. destruct (beq (mk a) k) eqn:E.
  - inversion H; subst. split; auto. apply beq_iff; auto.
  - apply IHl in H. tauto.
Qed.

Lemma mt_get_none : forall m k, mt_ok m -> (mt_get m k = None <-> ~ tab_has k m).
Proof.
  intros m k Hs. unfold mt_get. rewrite (MP.find_sorted k _ Hs).
  destruct (MP.first_key k (mt_entries m)) eqn:E.
  - split. discriminate. intro H. exfalso. apply H. apply first_key_some in E. exists m0. auto.
  - split; auto. intros _ (e & He & Hk). apply (proj1 (first_key_none _ _)) in E. eapply E; eauto.
Qed.

Lemma mems_get_none : forall k layers, mems_get k layers = None <-> forall m, In m layers -> mt_get m k = None.
Proof.
  induction layers; simpl. { split; auto; try (intros _ m []). }
  destruct (mt_get a k) eqn:E.
  - split. discriminate. intro H. rewrite (H a) in E; auto. discriminate.
  - rewrite IHlayers. split; intros H m; [intros [<-|Hm]|intro Hm]; auto.
Qed.

(* the first layer that has the key decides *)
Lemma mems_get_first : forall k a b m, (forall x, In x a -> mt_get x k = None) ->
  mems_get k (a ++ m :: b) = match mt_get m k with Some x => Some x | None => mems_get k b end.
Proof.
  induction a; simpl; intros; auto. rewrite (H a); auto.
Qed.

(* ---------- what a flushed table holds: the version Get finds in the memtable ---------- *)

Fixpoint firsts (prev : option bytes) (l : list mentry) : list sentry :=
  match l with
  | [] => []
  | x :: r => if match prev with Some p => beq p (mk x) | None => false end
              then firsts prev r
              else to_sentry x :: firsts (Some (mk x)) r
  end.

Lemma collect_aux_firsts : forall l acc,
  MP.sorted l ->
  (forall last acc', acc = last :: acc' ->
     Forall (fun x => beq (sk last) (mk x) = true -> mseq x <= sseq last) l) ->
  collect_aux acc l = rev acc ++ firsts (match acc with [] => None | last :: _ => Some (sk last) end) l.
Proof.
  induction l as [|x r IH]; simpl; intros acc Hs Hl. rewrite app_nil_r. auto.
  apply MP.sorted_cons_inv in Hs. destruct Hs as [Hs Hx].
  assert (Hxr : Forall (fun y => beq (mk x) (mk y) = true -> mseq y <= mseq x) r).
  { rewrite Forall_forall in *. intros y Hy E. apply Hx in Hy. apply MP.ele_iff in Hy.
    apply beq_iff in E. destruct Hy as [Hy|[_ Hy]]; auto. rewrite E, cb_refl in Hy. discriminate. }
  destruct acc as [|last acc'].
  - rewrite IH; auto. intros ? ? E. inversion E; subst. rewrite sk_to_sentry. simpl. auto.
  - specialize (Hl _ _ eq_refl). inversion Hl as [|? ? Hlx Hlr]; subst.
    destruct (beq (sk last) (mk x)) eqn:E.
    + assert (L : (sseq last <? mseq x) = false). { apply N.ltb_ge. auto. }
      rewrite L. rewrite IH; auto. intros ? ? Q. inversion Q; subst. auto.
    + rewrite IH; auto. simpl. rewrite <- app_assoc. simpl. rewrite sk_to_sentry. auto.
      intros ? ? Q. inversion Q; subst. rewrite sk_to_sentry. simpl. auto.
Qed.

Lemma firsts_lookup : forall k l prev, MP.sorted l ->
  (forall p x, prev = Some p -> In x l -> bcmp p (mk x) <> Gt) ->
  lookup k (firsts prev l) =
  if match prev with Some p => beq p k | None => false end then None
  else option_map to_sentry (MP.first_key k l).
Proof.
  induction l as [|x r IH]; simpl; intros prev Hs Hp.
  - destruct (match prev with Some p => beq p k | None => false end); auto.
  - apply MP.sorted_cons_inv in Hs. destruct Hs as [Hs Hx].
    assert (Hxr : forall y, In y r -> bcmp (mk x) (mk y) <> Gt).
    { intros y Hy. rewrite Forall_forall in Hx. apply Hx in Hy. apply MP.ele_iff in Hy.
      destruct Hy as [Hy|[Hy _]]. rewrite Hy. congruence. rewrite Hy, cb_refl. congruence. }
    destruct (match prev with Some p => beq p (mk x) | None => false end) eqn:Skip.
    + (* x continues the run of prev *)
      destruct prev as [p|]; try discriminate. apply beq_iff in Skip. subst p.
      rewrite IH; auto. 2: { intros p y E Hy. inversion E; subst. apply Hxr; auto. }
      destruct (beq (mk x) k) eqn:E; auto.
    + unfold lookup. simpl. fold (lookup k (firsts (Some (mk x)) r)). rewrite sk_to_sentry.
      rewrite IH; auto. 2: { intros p y E Hy. inversion E; subst. apply Hxr; auto. }
      destruct (beq (mk x) k) eqn:E.
      * apply beq_iff in E. subst k. rewrite Skip. auto.
      * destruct (match prev with Some p => beq p k | None => false end) eqn:Pk; auto.
        (* prev = k: the rest of the list is above k *)
        destruct prev as [p|]; try discriminate. apply beq_iff in Pk. subst p.
        assert (N : MP.first_key k r = None).
        { apply first_key_none. intros e He C.
          assert (bcmp k (mk x) = Lt).
          { specialize (Hp k x eq_refl (or_introl eq_refl)).
            destruct (bcmp k (mk x)) eqn:B; auto; try congruence.
            apply cb_eq in B. subst k. rewrite (proj2 (beq_iff _ _) eq_refl) in E. discriminate. }
          specialize (Hxr e He). rewrite C in Hxr. apply cb_lt_gt in H. congruence. }
        rewrite N. auto.
Qed.

Lemma collect_lookup : forall k l, MP.sorted l ->
  lookup k (collect l) = option_map to_sentry (MP.first_key k l).
Proof.
  intros. unfold collect. rewrite collect_aux_firsts; auto. 2: intros; discriminate.
  simpl. rewrite firsts_lookup; auto. intros; discriminate.
Qed.

Definition sval_of (e : mentry) : option bytes := match mkind e with KDel => None | KVal => Some (mval e) end.

(* the table file of a memtable reads as the memtable *)
Lemma flushed_reads_as_table : forall m k, mt_ok m -> mt_iter_entries m = mt_entries m ->
  option_map sval (lookup k (collect (mt_iter_entries m))) = mt_get m k.
Proof.
  intros m k Hs Hv. rewrite Hv, collect_lookup by auto. unfold mt_get. rewrite (MP.find_sorted k _ Hs).
  destruct (MP.first_key k (mt_entries m)); simpl; auto.
Qed.
