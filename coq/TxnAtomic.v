(* TxnAtomic.v — C03, concurrent atomicity: a labelled transition system over the storage
   model of Engine.v whose atomic steps are the critical sections the code establishes with
   its locks, and the executable history checker [atomic_check] for recorded histories.
   Model only (executable definitions); the proofs are in TxnAtomicProofs.v.

   MODELLING ASSUMPTION (re-derived from the source on every run: coq/gen/TxnLocks.v and the
   lemmas locks_... of TxnAtomicProofs.v): Manager.ApplyBatch / Put / Delete hold Manager.mu
   exclusively from before the WAL append until after the last memtable insert (and the
   scheduling of a flush); Manager.Get and Manager.GetIterator hold Manager.mu shared.
   Hence a write is ONE step of the system and a Get is one step; that Go's RWMutex gives
   mutual exclusion and happens-before is trusted (Go memory model).

   Read-write transactions hold the transaction manager's txLock exclusively from Begin to the
   end of Commit/Rollback, read-only transactions hold it shared from Begin to their end:
   a commit step is enabled only while no read-only transaction is open. Writes that do not
   go through a transaction (Engine.Put/Delete/ApplyBatch) take no transaction lock.

   SCANS. An iterator is created in one shared section of Manager.mu (it captures the
   memtables, a snapshot sequence number for the mutable one, and the SSTable list) and is read
   afterwards without any lock. Which scans are observers of C03:
   - a scan inside a read-only transaction, against transactional writers: no commit can run
     while the transaction is open, so the scan is one step [LRoScan] (a sound abstraction only
     while no write that bypasses the transaction lock is made during the transaction: the
     guard of the theorem that mentions it);
   - a "later" scan, made while no write is in flight: it is [LRead] of its keys;
   - a scan that is running WHILE a batch is inserted is not an observer of C03 (it is
     constrained by C05 only). The faithful iterator steps [LIterNew]/[LIterRead] are kept to
     record, as a machine-checked observation, that the memtable snapshot does not isolate
     such a scan from later writes (TxnAtomicProofs.iter_sees_later_write). *)
From KV Require Export Spec Engine.
Open Scope N_scope.

(* ---------- labels ---------- *)
Inductive label :=
| LApply (ops : list bop)          (* Engine.Put / Delete / ApplyBatch: one exclusive section *)
| LCommit (ops : list bop)         (* Commit of a read-write transaction whose body was ops *)
| LAbort (ops : list bop)          (* rollback, failed commit, abandoned transaction *)
| LFlush                           (* FlushMemTables (background or explicit) *)
| LRotate                          (* log rotation on its own *)
| LRead (c : nat) (ks : list bytes) (vs : list (option bytes))
                                   (* client c reads inside ONE shared section of Manager.mu;
                                      a single Get is the case of one key *)
| LRoBegin (r : nat)               (* read-only transaction r takes txLock shared *)
| LRoGet (r : nat) (k : bytes) (v : option bytes)
| LRoScan (r : nat) (ks : list bytes) (vs : list (option bytes))
                                   (* a scan inside read-only transaction r *)
| LRoEnd (r : nat)
| LIterNew (i : nat)               (* Manager.GetIterator *)
| LIterRead (i : nat) (k : bytes) (v : option bytes).
                                   (* the iterator, positioned on k, reports v (None: k is not
                                      returned by the scan) *)

(* ---------- iterators ---------- *)
(* it_pos: position of the memtable that was active at creation in [imms ++ [active]]
   (the pool's table list only grows at its end); it_snap: Iterator.snapshotSeq of that
   table's iterator; it_ssts: the readers captured at creation *)
Record iter := mkIter { it_pos : nat; it_snap : N; it_ssts : list sst }.

Definition iter_new (s : st) : iter :=
  mkIter (length (imms s)) (mt_snapshot (active s)) (ssts s).

Definition all_tables (s : st) : list memtable := imms s ++ [active s].

(* the memtable sources of the iterator as they are when it is read, newest first *)
Definition iter_tables (it : iter) (s : st) : list memtable :=
  match nth_error (all_tables s) (it_pos it) with
  | Some a =>
      mkMT (filter (visible (it_snap it)) (mt_entries a)) 0 0 true
        :: rev (firstn (it_pos it) (all_tables s))
  | None => []
  end.

(* what the merged iterator reports for key k: the newest source that has a visible version
   of k decides (hierarchical iterator; its correctness as a merge is C05) *)
Definition iter_get (it : iter) (s : st) (k : bytes) : option bytes :=
  match mems_get k (iter_tables it s) with
  | Some (Some v) => Some v
  | Some None => None
  | None => match ssts_get k (rev (it_ssts it)) with
            | Some (Some v) => Some v
            | _ => None
            end
  end.

(* ---------- state and steps ---------- *)
Record cst := mkC { eng : st; ro_open : list nat; iters : list (nat * iter) }.

Definition cinit (c : config) : cst := mkC (init c) [] [].

Definition obeq (a b : option bytes) : bool :=
  match a, b with
  | None, None => true
  | Some x, Some y => beq x y
  | _, _ => false
  end.

Fixpoint obs_eqb (a b : list (option bytes)) : bool :=
  match a, b with
  | [], [] => true
  | x :: a', y :: b' => obeq x y && obs_eqb a' b'
  | _, _ => false
  end.

Definition mem_nat (r : nat) (l : list nat) : bool := existsb (Nat.eqb r) l.
Definition remove_nat (r : nat) (l : list nat) : list nat := filter (fun x => negb (Nat.eqb r x)) l.

Fixpoint iter_lookup (i : nat) (l : list (nat * iter)) : option iter :=
  match l with
  | [] => None
  | (j, it) :: r => if Nat.eqb i j then Some it else iter_lookup i r
  end.

Definition with_eng (s : cst) (e : st) : cst := mkC e (ro_open s) (iters s).

(* None: the label is not enabled in s, or its recorded observation is not what the model
   returns *)
Definition cstep (s : cst) (l : label) : option cst :=
  match l with
  | LApply ops => Some (with_eng s (fst (apply_batch (eng s) ops)))
  | LCommit ops =>
      match ro_open s with
      | [] => Some (with_eng s (fst (tx_commit (eng s) ops)))
      | _ :: _ => None
      end
  | LAbort _ => Some s
  | LFlush => Some (with_eng s (flush (eng s)))
  | LRotate => Some (with_eng s (rotate (eng s)))
  | LRead _ ks vs => if obs_eqb vs (map (get (eng s)) ks) then Some s else None
  | LRoBegin r =>
      if mem_nat r (ro_open s) then None else Some (mkC (eng s) (r :: ro_open s) (iters s))
  | LRoGet r k v =>
      if mem_nat r (ro_open s) && obeq v (get (eng s) k) then Some s else None
  | LRoScan r ks vs =>
      if mem_nat r (ro_open s) && obs_eqb vs (map (get (eng s)) ks) then Some s else None
  | LRoEnd r =>
      if mem_nat r (ro_open s) then Some (mkC (eng s) (remove_nat r (ro_open s)) (iters s)) else None
  | LIterNew i => Some (mkC (eng s) (ro_open s) ((i, iter_new (eng s)) :: iters s))
  | LIterRead i k v =>
      match iter_lookup i (iters s) with
      | Some it => if obeq v (iter_get it (eng s) k) then Some s else None
      | None => None
      end
  end.

Fixpoint crun (s : cst) (tr : list label) : option cst :=
  match tr with
  | [] => Some s
  | l :: r => match cstep s l with
              | Some s' => crun s' r
              | None => None
              end
  end.

(* ---------- the acknowledged history of a trace, at write granularity ---------- *)
Inductive wkind := KTx | KDirect.
Definition hentry := (wkind * list bop)%type.

Definition hwrites (H : list hentry) : list wop := map (fun e => WBatch (snd e)) H.

Definition lwrites (s : cst) (l : label) : list hentry :=
  match l with
  | LApply ops =>
      match ops, snd (apply_batch (eng s) ops) with
      | _ :: _, WrOk _ => [(KDirect, ops)]
      | _, _ => []
      end
  | LCommit ops =>
      match buffer_ops ops, snd (tx_commit (eng s) ops) with
      | _ :: _, WrOk _ => [(KTx, buffer_ops ops)]
      | _, _ => []
      end
  | _ => []
  end.

Fixpoint twrites (s : cst) (tr : list label) : list hentry :=
  match tr with
  | [] => []
  | l :: r => lwrites s l ++ match cstep s l with
                             | Some s' => twrites s' r
                             | None => []
                             end
  end.

(* ---------- recorded histories and the checker ---------- *)
(* how the reads of one observation are related in time:
   MSection: all inside one shared section (one Get, one iterator, one consistent scan);
   MRoTx:    reads of one read-only transaction — between two of them only writes that take
             no transaction lock can be acknowledged;
   MFree:    separate reads of one client, in program order;
   MEach:    every read on its own (a scan that races writers: each key is as after SOME prefix
             inside the window — everything acknowledged before the scan began is there) *)
Inductive omode := MSection | MRoTx | MFree | MEach.

Definition read := (bytes * option bytes)%type.

(* o_lo: number of writes acknowledged before the observation began; o_hi: number of writes
   started before it ended *)
Record obs := mkObs { o_mode : omode; o_lo : nat; o_hi : nat; o_reads : list read }.

Definition read_ok (H : list hentry) (n : nat) (r : read) : bool :=
  obeq (spec_get (firstn n (hwrites H)) (fst r)) (snd r).

Definition is_direct (e : hentry) : bool := match fst e with KDirect => true | KTx => false end.

(* may a reader that saw the first n writes see the first m writes at its next read? *)
Definition reach (H : list hentry) (md : omode) (n m : nat) : bool :=
  match md with
  | MSection => Nat.eqb n m
  | MFree => Nat.leb n m
  | MRoTx => Nat.leb n m && forallb is_direct (firstn (m - n) (skipn n H))
  | MEach => true
  end.

Definition cand_range (lo hi : nat) : list nat := seq lo (S hi - lo).

(* the prefixes that can explain the reads so far, given the set S for the reads before *)
Fixpoint feasible (H : list hentry) (md : omode) (cands S : list nat) (rs : list read) : list nat :=
  match rs with
  | [] => S
  | r :: rs' =>
      feasible H md cands
        (filter (fun m => read_ok H m r && existsb (fun n => reach H md n m) S) cands) rs'
  end.

Definition atomic_check (H : list hentry) (o : obs) : bool :=
  let cands := cand_range (o_lo o) (o_hi o) in
  match o_reads o with
  | [] => true
  | r :: rs =>
      match feasible H (o_mode o) cands (filter (fun m => read_ok H m r) cands) rs with
      | [] => false
      | _ :: _ => true
      end
  end.

(* index of the first observation the checker rejects *)
Fixpoint first_reject (H : list hentry) (os : list obs) (i : nat) : option nat :=
  match os with
  | [] => None
  | o :: r => if atomic_check H o then first_reject H r (S i) else Some i
  end.
