(* BytesProofs.v — lemmas about Bytes.v *)
From KV Require Import Bytes.
From Coq Require Import Lia ZifyN ZifyNat.
Open Scope N_scope.

Lemma unle_le : forall n x, x < 256 ^ N.of_nat n -> unle (le n x) = x.
Proof.
  induction n as [|n IH]; intros x Hx.
  - simpl in *. lia.
  - cbn [le unle].
    rewrite IH.
    + pose proof (N.div_mod x 256). lia.
    + replace (N.of_nat (S n)) with (N.succ (N.of_nat n)) in Hx by lia.
      rewrite N.pow_succ_r' in Hx.
      apply N.div_lt_upper_bound; lia.
Qed.

Lemma le_length : forall n x, length (le n x) = n.
Proof. induction n; intros; simpl; auto. Qed.
