(* BytesProofs.v — lemmas about Bytes.v *)
From KV Require Import Bytes.
From Coq Require Import Lia ZifyN ZifyNat.
Open Scope N_scope.

Lemma unle_le : forall n x, x < 256 ^ N.of_nat n -> unle (le n x) = x.
Proof.
  induction n as [|n IH]; intros x Hx.
  - simpl in *. lia.
  - cbn [le unle].
    rewrite IH.
    + pose proof (N.div_mod x 256). lia.
    + replace (N.of_nat (S n)) with (N.succ (N.of_nat n)) in Hx by lia.
      rewrite N.pow_succ_r' in Hx.
      apply N.div_lt_upper_bound; lia.
Qed.

Lemma le_length : forall n x, length (le n x) = n.
Proof. induction n; intros; simpl; auto. Qed.

(* ---- appended: bounds for crc32, fixed-width corollaries of unle_le, list helpers ---- *)

Lemma lxor_lt_pow2 : forall a b n, a < 2 ^ n -> b < 2 ^ n -> N.lxor a b < 2 ^ n.
Proof.
  intros a b n Ha Hb.
  destruct (N.eq_dec (N.lxor a b) 0) as [E|E].
  - rewrite E. apply N.neq_0_lt_0. apply N.pow_nonzero. discriminate.
  - apply N.log2_lt_pow2; [lia|].
    pose proof (N.log2_lxor a b) as Hl.
    assert (Hn : 0 < n).
    { destruct (N.eq_dec n 0) as [->|]; [|lia].
      change (2 ^ 0) with 1 in Ha, Hb.
      assert (a = 0) by lia. assert (b = 0) by lia. subst. simpl in E. congruence. }
    assert (Ha' : N.log2 a < n).
    { destruct (N.eq_dec a 0) as [->|Na]; [simpl; lia|]. apply N.log2_lt_pow2; lia. }
    assert (Hb' : N.log2 b < n).
    { destruct (N.eq_dec b 0) as [->|Nb]; [simpl; lia|]. apply N.log2_lt_pow2; lia. }
    lia.
Qed.

Lemma crc_bit_bound : forall c, c < 2 ^ 32 -> crc_bit c < 2 ^ 32.
Proof.
  intros c Hc. unfold crc_bit.
  assert (Hs : N.shiftr c 1 < 2 ^ 32).
  { rewrite N.shiftr_div_pow2. change (2 ^ 1) with 2.
    apply N.div_lt_upper_bound; lia. }
  destruct (N.odd c); [|exact Hs].
  apply lxor_lt_pow2; [exact Hs|]. unfold crc_poly. reflexivity.
Qed.

Lemma crc_byte_bound : forall c b, c < 2 ^ 32 -> crc_byte c b < 2 ^ 32.
Proof.
  intros c b Hc. unfold crc_byte.
  do 8 apply crc_bit_bound.
  apply lxor_lt_pow2; [exact Hc|].
  assert (b mod 256 < 256) by (apply N.mod_lt; lia).
  change (2 ^ 32) with 4294967296. lia.
Qed.

Lemma crc32_bound : forall l, crc32 l < 2 ^ 32.
Proof.
  intros l. unfold crc32.
  apply lxor_lt_pow2; [|reflexivity].
  assert (G : forall l c, c < 2 ^ 32 -> fold_left crc_byte l c < 2 ^ 32).
  { clear l. induction l as [|b l IH]; intros c Hc; [exact Hc|].
    cbn [fold_left]. apply IH. apply crc_byte_bound. exact Hc. }
  apply G. reflexivity.
Qed.

Lemma unle_le8 : forall x, x < 2 ^ 64 -> unle (le 8 x) = x.
Proof. intros x Hx. apply unle_le. exact Hx. Qed.

Lemma unle_le4 : forall x, x < 2 ^ 32 -> unle (le 4 x) = x.
Proof. intros x Hx. apply unle_le. exact Hx. Qed.

Lemma unle_le2 : forall x, x < 65536 -> unle (le 2 x) = x.
Proof. intros x Hx. apply unle_le. exact Hx. Qed.

Lemma firstn_app_exact : forall (A : Type) (a b : list A) n,
  n = length a -> firstn n (a ++ b) = a.
Proof.
  intros A a b n ->. rewrite firstn_app, firstn_all.
  replace (length a - length a)%nat with 0%nat by lia. cbn. apply app_nil_r.
Qed.

Lemma skipn_app_exact : forall (A : Type) (a b : list A) n,
  n = length a -> skipn n (a ++ b) = b.
Proof.
  intros A a b n ->. rewrite skipn_app, skipn_all.
  replace (length a - length a)%nat with 0%nat by lia. reflexivity.
Qed.

Lemma skipn_add : forall (A : Type) (a b : nat) (l : list A),
  skipn (a + b) l = skipn b (skipn a l).
Proof.
  intros A a. induction a as [|a IH]; intros b l; [reflexivity|].
  destruct l as [|x l]; [destruct b; reflexivity|]. cbn [Nat.add skipn]. apply IH.
Qed.

Lemma len_app : forall a b : bytes, len (a ++ b) = len a + len b.
Proof. intros a b. unfold len. rewrite app_length. lia. Qed.

Lemma len_le : forall n x, len (le n x) = N.of_nat n.
Proof. intros n x. unfold len. rewrite le_length. reflexivity. Qed.
