(* ServiceProofs.v — theorems about the Service model (C19) *)
From KV Require Import Service.
