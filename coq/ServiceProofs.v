(* ServiceProofs.v — theorems about the Service model (property C19).
   Part A: the generated facts agree with the model. Part B: limits. Part C: handles.
   Part D: scans. Part E: simulation of the embedded specification. Part F: deviations. *)
From Coq Require Import ZArith String Lia.
From KV Require Import Bytes BytesProofs Spec Memtable WalCodec Engine EngineProofs Iter IterProofs ScanSpec ScanProofs Service.
From KV.gen Require Import ServiceLimits.
Open Scope N_scope.
Open Scope list_scope.
Local Notation find := Memtable.find.

(* ------------------------------------------------------------------------------------ *)
(* Part A: facts regenerated from the Go source on every run                              *)
(* ------------------------------------------------------------------------------------ *)

(* every comparison of a length with a limit in service.go is the one the model makes
   (len > limit rejects, so len = limit passes), RPC by RPC, in source order *)
Lemma limit_checks_as_modelled : svc_limit_checks = modelled_limit_checks.
Proof. reflexivity. Qed.

(* the length-zero rejections: exactly the key checks (and BatchWrite's early return) *)
Lemma zero_checks_as_modelled :
  filter (fun x => match snd x with OpEq => true | _ => false end) svc_zero_checks =
  [("Get", "req.Key", OpEq); ("Put", "req.Key", OpEq); ("Delete", "req.Key", OpEq);
   ("BatchWrite", "req.Operations", OpEq); ("BatchWrite", "op.Key", OpEq);
   ("TxGet", "req.Key", OpEq); ("TxPut", "req.Key", OpEq); ("TxDelete", "req.Key", OpEq)]%string.
Proof. reflexivity. Qed.

(* the limits of the code are the documented ones: keys of 1..4096 bytes, values up to 10 MB,
   1000 operations per batch *)
Lemma limits_documented :
  max_key code_limits = 4096 /\ max_val code_limits = 10 * 1024 * 1024 /\ max_batch code_limits = 1000.
Proof. repeat split; reflexivity. Qed.

(* ------------------------------------------------------------------------------------ *)
(* Part B: limits                                                                         *)
(* ------------------------------------------------------------------------------------ *)

Lemma valid_key_spec : forall L k, valid_key L k = true <-> 1 <= len k <= max_key L.
Proof.
  intros L k. unfold valid_key. rewrite andb_true_iff, negb_true_iff, N.eqb_neq, N.leb_le. lia.
Qed.

Lemma valid_val_spec : forall L v, valid_val L v = true <-> len v <= max_val L.
Proof. intros L v. unfold valid_val. apply N.leb_le. Qed.

(* exactly at the boundary: size = limit passes, limit + 1 does not; an empty key never passes *)
Theorem limit_boundaries : forall L k v,
  (len k = max_key L -> 1 <= max_key L -> valid_key L k = true) /\
  (len k = max_key L + 1 -> valid_key L k = false) /\
  (len k = 0 -> valid_key L k = false) /\
  (len v = max_val L -> valid_val L v = true) /\
  (len v = max_val L + 1 -> valid_val L v = false).
Proof.
  intros L k v. repeat split; intros.
  - apply valid_key_spec. lia.
  - destruct (valid_key L k) eqn:E; [apply valid_key_spec in E; lia|reflexivity].
  - destruct (valid_key L k) eqn:E; [apply valid_key_spec in E; lia|reflexivity].
  - apply valid_val_spec. lia.
  - destruct (valid_val L v) eqn:E; [apply valid_val_spec in E; lia|reflexivity].
Qed.

(* the arguments of a request are within the key / value / batch limits *)
Definition op_within (L : limits) (o : bwop) : bool :=
  valid_key L (bw_key o) && (if bw_type o =? 0 then valid_val L (bw_val o) else true).

Definition within_limits (L : limits) (q : request) : bool :=
  match q with
  | QGet k | QDelete k _ | QTxGet _ k | QTxDelete _ k => valid_key L k
  | QPut k v _ | QTxPut _ k v => valid_key L k && valid_val L v
  | QBatch ops _ => (N.of_nat (length ops) <=? max_batch L) && forallb (op_within L) ops
  | _ => true
  end.

Definition rejection (r : response) : Prop := (exists e, r = PErr e) \/ r = PBlocked.

Lemma batch_ops_bad : forall L ops acc,
  forallb (op_within L) ops = false -> exists e, batch_ops L ops acc = inr e.
Proof.
  intros L ops. induction ops as [|o r IH]; intros acc H; [discriminate|].
  cbn [forallb] in H. cbn [batch_ops]. unfold op_within in H at 1.
  destruct (valid_key L (bw_key o)) eqn:K; cbn [negb andb] in *; [|eauto].
  destruct (bw_type o =? 0) eqn:T0.
  - destruct (valid_val L (bw_val o)) eqn:V; cbn [andb] in H; [apply IH; exact H|eauto].
  - cbn [andb] in H. destruct (bw_type o =? 1); [apply IH; exact H|eauto].
Qed.

(* C19_limits: a request outside the limits is refused and nothing changes — neither the
   engine nor the registry. The refusal is an error; only a BatchWrite that first has to wait
   for the transaction lock answers "blocked" (its operations are validated after the begin). *)
Ltac rej := split; [reflexivity|split; [left; eexists; reflexivity|intros _; eexists; reflexivity]].

Theorem limits_reject : forall L ss q,
  within_limits L q = false ->
  fst (service_step L ss q) = ss /\ rejection (snd (service_step L ss q)) /\
  (any_open ss = false -> exists e, snd (service_step L ss q) = PErr e).
Proof.
  intros L ss q W. unfold service_step. destruct (fits L q); [|rej].
  unfold rejection.
  destruct q as [k|k v s|k s|ops s|o|ro|h|h|h k|h k v|h k|h o| |f|]; cbn [within_limits] in W; try discriminate;
    cbn [handler].
  - rewrite W. rej.
  - apply andb_false_iff in W. destruct (valid_key L k); cbn [negb].
    + destruct W as [W|W]; [discriminate|]. rewrite W. rej.
    + rej.
  - rewrite W. rej.
  - apply andb_false_iff in W.
    destruct ops as [|o0 r]; [destruct W as [W|W]; [apply N.leb_gt in W; cbn in W; lia|discriminate]|].
    destruct (max_batch L <? N.of_nat (length (o0 :: r))) eqn:B; [rej|].
    destruct W as [W|W]; [apply N.leb_gt in W; apply N.ltb_ge in B; lia|].
    destruct (any_open ss) eqn:A; [split; [reflexivity|split; [right; reflexivity|discriminate]]|].
    destruct (batch_ops_bad L (o0 :: r) [] W) as (e & E). rewrite E. rej.
  - destruct (lookup_h ss h) as [[id t]|]; [|rej].
    rewrite W. rej.
  - destruct (lookup_h ss h) as [[id t]|]; [|rej].
    destruct (is_rw t); cbn [negb]; [|rej].
    apply andb_false_iff in W. destruct (valid_key L k); cbn [negb].
    + destruct W as [W|W]; [discriminate|]. rewrite W. rej.
    + rej.
  - destruct (lookup_h ss h) as [[id t]|]; [|rej].
    destruct (is_rw t); cbn [negb]; [|rej].
    rewrite W. rej.
Qed.

(* a BatchWrite is validated as a whole before anything is applied: a bad operation anywhere in
   it — also behind hundreds of good ones — leaves the engine untouched *)
Corollary batch_all_or_nothing : forall L ss good bad rest s,
  op_within L bad = false ->
  s_eng (fst (service_step L ss (QBatch (good ++ bad :: rest) s))) = s_eng ss.
Proof.
  intros L ss good bad rest s Hb.
  assert (W : within_limits L (QBatch (good ++ bad :: rest) s) = false).
  { cbn [within_limits]. apply andb_false_iff. right. rewrite forallb_app. cbn [forallb].
    rewrite Hb. cbn [andb]. apply andb_false_r. }
  destruct (limits_reject L ss _ W) as (E & _). rewrite E. reflexivity.
Qed.

(* non-vacuity with small limits (keys 1..4, values <= 6, batches <= 3, any message) *)
Definition L0 : limits := mkLim 4 6 3 1000.
Definition ss0 : sstate := sinit (mkCfg 1000 10) None.

Example limits_ex :
  map (fun q => snd (service_step L0 ss0 q))
      [QPut [1;2;3;4] [1;2;3;4;5;6] false; QPut [1;2;3;4;5] [1] false; QPut [1] [1;2;3;4;5;6;7] true;
       QPut [] [1] false; QGet [1;2;3;4;5]; QDelete [] true;
       QBatch [mkBw 0 [1] [1]; mkBw 1 [2] []; mkBw 0 [3] []] false;
       QBatch [mkBw 0 [1] [1]; mkBw 1 [2] []; mkBw 0 [3] []; mkBw 0 [4] []] false;
       QBatch [mkBw 0 [1] [1]; mkBw 0 [1;2;3;4;5] [1]] false;
       QBatch [mkBw 0 [1] [1]; mkBw 0 [2] [1;2;3;4;5;6;7]] false;
       QBatch [mkBw 1 [2] [1;2;3;4;5;6;7]; mkBw 2 [2] []] false]
  = [POk; PErr EKey; PErr EValue; PErr EKey; PErr EKey; PErr EKey; POk; PErr EBatch; PErr EKey; PErr EValue;
     PErr EOpType].
Proof. vm_compute. reflexivity. Qed.

(* the limits of the code on real sizes: a 4096-byte key passes, 4097 bytes do not *)
Example key_limit_ex :
  (snd (service_step code_limits ss0 (QPut (repeat 7 4096) [1] false)),
   snd (service_step code_limits ss0 (QPut (repeat 7 4097) [1] false)),
   snd (service_step code_limits ss0 (QGet (repeat 7 4097))))
  = (POk, PErr EKey, PErr EKey).
Proof. vm_compute. reflexivity. Qed.

(* ------------------------------------------------------------------------------------ *)
(* Part C: handles                                                                        *)
(* ------------------------------------------------------------------------------------ *)

(* every registered id was handed out already *)
Definition reg_ok (ss : sstate) : Prop := Forall (fun x => fst x <= s_next ss) (s_reg ss).

(* the requests addressed to a handle *)
Definition on_handle (h : handle) (q : request) : Prop :=
  q = QCommit h \/ q = QRollback h \/ (exists k, q = QTxGet h k) \/ (exists k v, q = QTxPut h k v) \/
  (exists k, q = QTxDelete h k) \/ (exists o, q = QTxScan h o).

(* an id that is not registered and will never be handed out again *)
Definition dead (ss : sstate) (h : handle) : Prop :=
  match h with
  | HId n => reg_find n (s_reg ss) = None /\ n <= s_next ss
  | HBad _ => True
  end.

Lemma reg_find_remove_same : forall id r, reg_find id (reg_remove id r) = None.
Proof.
  intros id r. induction r as [|[i t] r IH]; [reflexivity|]. cbn [reg_remove].
  destruct (i =? id) eqn:E; [exact IH|]. cbn [reg_find]. rewrite E. exact IH.
Qed.

Lemma reg_find_remove_other : forall id id' r, id <> id' -> reg_find id (reg_remove id' r) = reg_find id r.
Proof.
  intros id id' r H. induction r as [|[i t] r IH]; [reflexivity|]. cbn [reg_remove reg_find].
  destruct (i =? id') eqn:E.
  - apply N.eqb_eq in E. subst i. destruct (id' =? id) eqn:E2; [apply N.eqb_eq in E2; congruence|exact IH].
  - cbn [reg_find]. destruct (i =? id); [reflexivity|exact IH].
Qed.

Lemma reg_find_set : forall id id' t r,
  reg_find id (reg_set id' t r) = match reg_find id r with
                                  | Some t0 => if id =? id' then (if existsb (fun x => fst x =? id') r then Some t else Some t0) else Some t0
                                  | None => None
                                  end.
Proof.
  intros id id' t r. induction r as [|[i t0] r IH]; [reflexivity|]. cbn [reg_set reg_find existsb fst].
  destruct (i =? id') eqn:E.
  - apply N.eqb_eq in E. subst i. cbn [reg_find]. destruct (id' =? id) eqn:E2.
    + apply N.eqb_eq in E2. subst id'. rewrite N.eqb_refl. reflexivity.
    + destruct (reg_find id r); [|reflexivity]. rewrite N.eqb_sym, E2. reflexivity.
  - cbn [reg_find orb]. destruct (i =? id) eqn:E2.
    + apply N.eqb_eq in E2. subst i. rewrite E. reflexivity.
    + exact IH.
Qed.

Lemma reg_find_set_none : forall id id' t r, reg_find id r = None -> reg_find id (reg_set id' t r) = None.
Proof. intros. rewrite reg_find_set, H. reflexivity. Qed.

Lemma reg_find_app : forall id a b,
  reg_find id (a ++ b) = match reg_find id a with Some t => Some t | None => reg_find id b end.
Proof.
  intros id a b. induction a as [|[i t] a IH]; [reflexivity|]. cbn [app reg_find].
  destruct (i =? id); [reflexivity|exact IH].
Qed.

Lemma Forall_reg_remove : forall (P : N * txrec -> Prop) id r, Forall P r -> Forall P (reg_remove id r).
Proof.
  intros P id r H. induction H as [|[i t] r Hx Hr IH]; [constructor|]. cbn [reg_remove].
  destruct (i =? id); [exact IH|constructor; assumption].
Qed.

Lemma Forall_reg_set : forall (P : N * txrec -> Prop) id t r,
  (forall t0, P (id, t0) -> P (id, t)) -> Forall P r -> Forall P (reg_set id t r).
Proof.
  intros P id t r Hp H. induction H as [|[i t0] r Hx Hr IH]; [constructor|]. cbn [reg_set].
  destruct (i =? id) eqn:E.
  - apply N.eqb_eq in E. subst i. constructor; [eapply Hp; exact Hx|exact Hr].
  - constructor; assumption.
Qed.

Lemma lookup_h_some : forall ss h id t, lookup_h ss h = Some (id, t) -> h = HId id /\ reg_find id (s_reg ss) = Some t.
Proof.
  intros ss [n|s] id t H; cbn [lookup_h] in H; [|discriminate].
  destruct (reg_find n (s_reg ss)) eqn:E; [|discriminate]. inversion H. subst. split; [reflexivity|exact E].
Qed.

Lemma lookup_h_dead : forall ss h, dead ss h -> lookup_h ss h = None.
Proof. intros ss [n|s] D; cbn [lookup_h]; [destruct D as (E & _); rewrite E|]; reflexivity. Qed.

(* the registry and the counter after one request *)
Lemma handler_reg : forall L ss q,
  let ss' := fst (handler L ss q) in
  s_next ss <= s_next ss' /\
  (reg_ok ss -> reg_ok ss') /\
  (forall h, dead ss h -> dead ss' h) /\
  s_info ss' = s_info ss.
Proof.
  intros L ss q.
  assert (Same : forall e, let ss' := set_eng ss e in
            s_next ss <= s_next ss' /\ (reg_ok ss -> reg_ok ss') /\ (forall h, dead ss h -> dead ss' h) /\ s_info ss' = s_info ss).
  { intros e. cbn. repeat split; [lia|tauto|tauto]. }
  assert (Id : s_next ss <= s_next ss /\ (reg_ok ss -> reg_ok ss) /\ (forall h, dead ss h -> dead ss h) /\ s_info ss = s_info ss).
  { repeat split; [lia|tauto|tauto]. }
  assert (Rem : forall id e, let ss' := set_eng (set_reg ss (reg_remove id (s_reg ss))) e in
            s_next ss <= s_next ss' /\ (reg_ok ss -> reg_ok ss') /\ (forall h, dead ss h -> dead ss' h) /\ s_info ss' = s_info ss).
  { intros id e. cbn. repeat split; [lia| |].
    - unfold reg_ok. cbn. apply Forall_reg_remove.
    - intros [n|s] D; [|exact I]. cbn in *. destruct D as (D1 & D2). split; [|exact D2].
      destruct (N.eq_dec n id) as [->|Hne]; [apply reg_find_remove_same|].
      rewrite reg_find_remove_other by exact Hne. exact D1. }
  assert (Upd : forall id t, let ss' := set_reg ss (reg_set id t (s_reg ss)) in
            s_next ss <= s_next ss' /\ (reg_ok ss -> reg_ok ss') /\ (forall h, dead ss h -> dead ss' h) /\ s_info ss' = s_info ss).
  { intros id t. cbn. repeat split; [lia| |].
    - unfold reg_ok. cbn. apply Forall_reg_set. intros t0 H. exact H.
    - intros [n|s] D; [|exact I]. cbn in *. destruct D as (D1 & D2). split; [|exact D2].
      apply reg_find_set_none. exact D1. }
  destruct q as [k|k v s|k s|ops s|o|ro|h|h|h k|h k v|h k|h o| |f|]; cbn [handler].
  - destruct (valid_key L k); exact Id.
  - destruct (valid_key L k); cbn [negb]; [|exact Id]. destruct (valid_val L v); cbn [negb]; [|exact Id].
    unfold eng_write. cbn [fst]. apply Same.
  - destruct (valid_key L k); cbn [negb]; [|exact Id]. unfold eng_write. cbn [fst]. apply Same.
  - destruct ops as [|o0 r]; [exact Id|]. destruct (max_batch L <? _); [exact Id|].
    destruct (any_open ss); [exact Id|]. destruct (batch_ops L (o0 :: r) []); [|exact Id].
    unfold eng_write. cbn [fst]. apply Same.
  - destruct (rw_open ss); exact Id.
  - destruct (if ro then rw_open ss else any_open ss); [exact Id|]. cbn [fst s_next s_reg s_info].
    repeat split; [lia| |].
    + unfold reg_ok. cbn. intros H. apply Forall_app. split.
      * eapply Forall_impl; [|exact H]. cbn. intros a Ha. lia.
      * constructor; [cbn; lia|constructor].
    + intros [n|s] D; [|exact I]. cbn in *. destruct D as (D1 & D2). split; [|lia].
      rewrite reg_find_app, D1. cbn [reg_find]. destruct (s_next ss + 1 =? n) eqn:E; [apply N.eqb_eq in E; lia|reflexivity].
  - destruct (lookup_h ss h) as [[id t]|]; [|exact Id]. destruct (t_mode t).
    + cbn [fst]. pose proof (Rem id (s_eng ss)) as R. cbn in R. cbn. exact R.
    + unfold eng_write. cbn [fst]. pose proof (Rem id (fst (tx_commit (s_eng ss) (t_buf t)))) as R. cbn in R. cbn. exact R.
  - destruct (lookup_h ss h) as [[id t]|]; [|exact Id]. cbn [fst].
    pose proof (Rem id (s_eng ss)) as R. cbn in R. cbn. exact R.
  - destruct (lookup_h ss h) as [[id t]|]; [|exact Id]. destruct (valid_key L k); exact Id.
  - destruct (lookup_h ss h) as [[id t]|]; [|exact Id]. destruct (is_rw t); cbn [negb]; [|exact Id].
    destruct (valid_key L k); cbn [negb]; [|exact Id]. destruct (valid_val L v); cbn [negb]; [|exact Id].
    cbn [fst]. apply Upd.
  - destruct (lookup_h ss h) as [[id t]|]; [|exact Id]. destruct (is_rw t); cbn [negb]; [|exact Id].
    destruct (valid_key L k); cbn [negb]; [|exact Id]. cbn [fst]. apply Upd.
  - destruct (lookup_h ss h) as [[id t]|]; exact Id.
  - destruct (rw_open ss); exact Id.
  - destruct (any_open ss); [exact Id|]. cbn [fst]. apply Same.
  - match goal with |- context [fst ?x] => replace (fst x) with ss by (destruct (s_info ss); reflexivity) end.
    exact Id.
Qed.

Lemma sstep_reg : forall L ss o,
  let ss' := fst (sstep L ss o) in
  (reg_ok ss -> reg_ok ss') /\ (forall h, dead ss h -> dead ss' h) /\ s_info ss' = s_info ss.
Proof.
  intros L ss [q|]; cbn [sstep].
  - unfold service_step. destruct (fits L q).
    + destruct (handler L ss q) as [ss' r] eqn:E. cbn [fst].
      pose proof (handler_reg L ss q) as H. rewrite E in H. cbn [fst] in H. tauto.
    + cbn [fst]. tauto.
  - cbn. tauto.
Qed.

Lemma srun_cons : forall L ss o r,
  fst (srun L ss (o :: r)) = fst (srun L (fst (sstep L ss o)) r).
Proof.
  intros. cbn [srun]. destruct (sstep L ss o) as [ss1 x]. cbn [fst].
  destruct (srun L ss1 r). reflexivity.
Qed.

Lemma srun_reg : forall L prog ss,
  let ss' := fst (srun L ss prog) in
  (reg_ok ss -> reg_ok ss') /\ (forall h, dead ss h -> dead ss' h) /\ s_info ss' = s_info ss.
Proof.
  intros L prog. induction prog as [|o r IH]; intros ss; [cbn; tauto|].
  cbn zeta. rewrite srun_cons. pose proof (sstep_reg L ss o) as S. pose proof (IH (fst (sstep L ss o))) as R.
  cbn zeta in *. destruct S as (S1 & S2 & S3). destruct R as (R1 & R2 & R3).
  repeat split; [tauto|intros; apply R2, S2; assumption|congruence].
Qed.

Lemma reg_ok_init : forall c p, reg_ok (sinit c p).
Proof. intros. constructor. Qed.

(* a request on a dead handle: "transaction not found", nothing changes *)
Lemma dead_handle_request : forall L ss h q,
  dead ss h -> on_handle h q ->
  fst (service_step L ss q) = ss /\
  (fits L q = true -> snd (service_step L ss q) = PErr ENoTx) /\
  (fits L q = false -> snd (service_step L ss q) = PErr EMsg).
Proof.
  intros L ss h q D O. pose proof (lookup_h_dead ss h D) as E. unfold service_step.
  destruct O as [->|[->|[(k & ->)|[(k & v & ->)|[(k & ->)|(o & ->)]]]]];
    (destruct (fits L _); cbn [handler]; [rewrite E|]; repeat split; congruence).
Qed.

(* C19_handle_dead: after CommitTransaction or RollbackTransaction of a registered handle —
   whatever the commit itself returned — the handle is dead, and it stays dead through every
   later program: each request on it answers "transaction not found" and changes nothing *)
Theorem handle_dead : forall L ss h q,
  reg_ok ss -> lookup_h ss h <> None -> (q = QCommit h \/ q = QRollback h) -> fits L q = true ->
  forall prog q',
    let ss2 := fst (srun L (fst (service_step L ss q)) prog) in
    on_handle h q' ->
    fst (service_step L ss2 q') = ss2 /\
    (fits L q' = true -> snd (service_step L ss2 q') = PErr ENoTx).
Proof.
  intros L ss h q Rok Hl Hq F prog q' ss2 O.
  assert (D : dead (fst (service_step L ss q)) h).
  { destruct (lookup_h ss h) as [[id t]|] eqn:E; [|congruence].
    destruct (lookup_h_some ss h id t E) as (-> & Ef).
    assert (Hid : id <= s_next ss).
    { unfold reg_ok in Rok. rewrite Forall_forall in Rok.
      clear - Ef Rok. induction (s_reg ss) as [|[i t0] r IH]; [discriminate|]. cbn [reg_find] in Ef.
      destruct (i =? id) eqn:E1.
      - apply N.eqb_eq in E1. subst i. apply (Rok (id, t0)). left. reflexivity.
      - apply IH; [|exact Ef]. intros x Hx. apply Rok. right. exact Hx. }
    unfold service_step. rewrite F.
    destruct Hq as [->| ->]; cbn [handler]; rewrite E.
    - destruct (t_mode t); unfold eng_write; cbn; (split; [apply reg_find_remove_same|exact Hid]).
    - cbn. split; [apply reg_find_remove_same|exact Hid]. }
  pose proof (srun_reg L prog (fst (service_step L ss q))) as (_ & R & _). specialize (R h D). fold ss2 in R.
  destruct (dead_handle_request L ss2 h q' R O) as (A & B & _). split; assumption.
Qed.

(* a handle the registry never issued (any other string, or an id of the future) *)
Theorem unknown_handle : forall L ss h q,
  lookup_h ss h = None -> on_handle h q -> fits L q = true ->
  service_step L ss q = (ss, PErr ENoTx).
Proof.
  intros L ss h q E O F. unfold service_step.
  destruct O as [->|[->|[(k & ->)|[(k & v & ->)|[(k & ->)|(o & ->)]]]]]; rewrite F; cbn [handler]; rewrite E; reflexivity.
Qed.

(* non-vacuity: begin, write, commit, then every request on the id; a second begin gets a new id *)
Example handle_dead_ex :
  snd (srun L0 ss0 (map SReq
    [QBegin false; QTxPut (HId 1) [1] [2]; QTxGet (HId 1) [1]; QCommit (HId 1);
     QTxGet (HId 1) [1]; QTxPut (HId 1) [1] [3]; QTxDelete (HId 1) [1]; QTxScan (HId 1) (mkScan [] [] [] [] 0);
     QCommit (HId 1); QRollback (HId 1); QBegin true; QGet [1]; QTxGet (HBad [116;120;45;48;49]) [1];
     QTxPut (HId 2) [1] [1]; QRollback (HId 2); QRollback (HId 2); QTxGet (HId 7) [1]]))
  = [PBegun 1; POk; PValue (Some [2]); POk;
     PErr ENoTx; PErr ENoTx; PErr ENoTx; PErr ENoTx; PErr ENoTx; PErr ENoTx; PBegun 2; PValue (Some [2]);
     PErr ENoTx; PErr EROTx; POk; PErr ENoTx; PErr ENoTx].
Proof. vm_compute. reflexivity. Qed.

(* ------------------------------------------------------------------------------------ *)
(* Part D: the engine under a service program; what a scan returns                         *)
(* ------------------------------------------------------------------------------------ *)

Definition bop_of (o : bwop) : bop := (bw_key o, if bw_type o =? 0 then Some (bw_val o) else None).

(* the engine program one service step amounts to *)
Definition eops (L : limits) (ss : sstate) (o : sop) : list op :=
  match o with
  | SFlush => [OFlush]
  | SReq q =>
    if negb (fits L q) then [] else
    match q with
    | QPut k v _ => if valid_key L k && valid_val L v then [OPut k v] else []
    | QDelete k _ => if valid_key L k then [ODel k] else []
    | QBatch ops _ =>
        match ops with
        | [] => []
        | _ => if max_batch L <? N.of_nat (length ops) then [] else if any_open ss then [] else
               match batch_ops L ops [] with inl b => [OCommit b] | inr _ => [] end
        end
    | QCommit h => match lookup_h ss h with
                   | Some (_, t) => if is_rw t then [OCommit (t_buf t)] else []
                   | None => []
                   end
    | QCompact force => if any_open ss then [] else if force then [OCommit []; OFlush] else [OCommit []]
    | _ => []
    end
  end.

Lemma sstep_eng : forall L ss o, s_eng (fst (sstep L ss o)) = fold_left step (eops L ss o) (s_eng ss).
Proof.
  intros L ss [q|]; cbn [sstep eops]; [|reflexivity].
  unfold service_step. destruct (fits L q); cbn [negb]; [|reflexivity].
  destruct (handler L ss q) as [ss' r] eqn:E. cbn [fst].
  assert (E' : ss' = fst (handler L ss q)) by (rewrite E; reflexivity). subst ss'. clear E r.
  destruct q as [k|k v s|k s|ops s|o|ro|h|h|h k|h k v|h k|h o| |f|]; cbn [handler].
  - destruct (valid_key L k); reflexivity.
  - destruct (valid_key L k); cbn [negb andb]; [|reflexivity]. destruct (valid_val L v); reflexivity.
  - destruct (valid_key L k); reflexivity.
  - destruct ops as [|o0 r]; [reflexivity|]. destruct (max_batch L <? _); [reflexivity|].
    destruct (any_open ss); [reflexivity|]. destruct (batch_ops L (o0 :: r) []); reflexivity.
  - destruct (rw_open ss); reflexivity.
  - destruct (if ro then rw_open ss else any_open ss); reflexivity.
  - destruct (lookup_h ss h) as [[id t]|]; [|reflexivity]. unfold is_rw. destruct (t_mode t); reflexivity.
  - destruct (lookup_h ss h) as [[id t]|]; reflexivity.
  - destruct (lookup_h ss h) as [[id t]|]; [|reflexivity]. destruct (valid_key L k); reflexivity.
  - destruct (lookup_h ss h) as [[id t]|]; [|reflexivity]. destruct (is_rw t); cbn [negb]; [|reflexivity].
    destruct (valid_key L k); cbn [negb]; [|reflexivity]. destruct (valid_val L v); reflexivity.
  - destruct (lookup_h ss h) as [[id t]|]; [|reflexivity]. destruct (is_rw t); cbn [negb]; [|reflexivity].
    destruct (valid_key L k); reflexivity.
  - destruct (lookup_h ss h) as [[id t]|]; reflexivity.
  - destruct (rw_open ss); reflexivity.
  - destruct (any_open ss); [reflexivity|]. destruct f; reflexivity.
  - destruct (s_info ss); reflexivity.
Qed.

Fixpoint etrace (L : limits) (ss : sstate) (prog : list sop) : list op :=
  match prog with
  | [] => []
  | o :: r => eops L ss o ++ etrace L (fst (sstep L ss o)) r
  end.

Lemma srun_eng : forall L prog ss,
  s_eng (fst (srun L ss prog)) = fold_left step (etrace L ss prog) (s_eng ss).
Proof.
  intros L prog. induction prog as [|o r IH]; intros ss; [reflexivity|].
  rewrite srun_cons, IH. cbn [etrace]. rewrite fold_left_app, sstep_eng. reflexivity.
Qed.

Corollary srun_eng_init : forall L c p prog,
  s_eng (fst (srun L (sinit c p) prog)) = run c (etrace L (sinit c p) prog).
Proof. intros. rewrite srun_eng. reflexivity. Qed.

Definition no_reopen (o : op) : Prop := o <> OReopen.

Lemma eops_no_reopen : forall L ss o, Forall no_reopen (eops L ss o).
Proof.
  intros L ss [q|]; cbn [eops]; [|repeat constructor; discriminate].
  destruct (negb (fits L q)); [constructor|].
  destruct q as [k|k v s|k s|ops s|o|ro|h|h|h k|h k v|h k|h o| |f|];
    repeat match goal with
           | |- Forall _ (if ?b then _ else _) => destruct b
           | |- Forall _ (match ?x with _ => _ end) => destruct x
           end;
    repeat constructor; discriminate.
Qed.

Lemma etrace_no_reopen : forall L prog ss, Forall no_reopen (etrace L ss prog).
Proof.
  intros L prog. induction prog as [|o r IH]; intros ss; [constructor|]. cbn [etrace].
  apply Forall_app. split; [apply eops_no_reopen|apply IH].
Qed.

Lemma lost_log_step_keep : forall s o, no_reopen o -> lost_log (step s o) = lost_log s.
Proof.
  intros s o H. destruct o as [k v|k|ops|ops|ops| | |k]; cbn [step]; try reflexivity.
  - rewrite put_as_batch. apply lost_log_apply_batch.
  - rewrite del_as_batch. apply lost_log_apply_batch.
  - apply lost_log_apply_batch.
  - rewrite tx_commit_as_batch. apply lost_log_apply_batch.
  - destruct (flush_spec s) as (_ & _ & _ & _ & _ & _ & G7 & _). exact G7.
  - exfalso. apply H. reflexivity.
Qed.

Lemma lost_log_run_keep : forall ops s, Forall no_reopen ops -> lost_log (fold_left step ops s) = lost_log s.
Proof.
  induction ops as [|o r IH]; intros s H; [reflexivity|]. inversion H; subst. cbn [fold_left].
  rewrite IH by assumption. apply lost_log_step_keep. assumption.
Qed.

(* the engine of a service never sets its log aside: that only happens at a reopen *)
Lemma service_log_kept : forall L c p prog, lost_log (run c (etrace L (sinit c p) prog)) = false.
Proof. intros. unfold run. rewrite lost_log_run_keep by apply etrace_no_reopen. reflexivity. Qed.

(* ---- which keys a scan request selects ---- *)

(* a prefix and/or a suffix filter the whole key space (start_key / end_key are not looked at);
   without them the range [start, end) applies, an empty bound meaning none *)
Definition scan_sel (o : scanopts) : option bytes * option bytes * (bytes -> bool) :=
  match so_prefix o, so_suffix o with
  | [], [] => (bound (so_start o), bound (so_end o), fun _ => true)
  | p, q => (None, None, fun k => has_prefix p k && has_suffix q k)
  end.

Definition spec_rows (h : list wop) (buf : list bop) (o : scanopts) : list (bytes * bytes) :=
  let '(lo, hi, sel) := scan_sel o in
  spec_scan_limit (overlay h buf) lo hi sel (lim_of (so_limit o)).

Lemma spec_scan_limit_ext : forall h lo hi sel sel' limit,
  (forall k, sel k = sel' k) -> spec_scan_limit h lo hi sel limit = spec_scan_limit h lo hi sel' limit.
Proof.
  intros h lo hi sel sel' limit E. unfold spec_scan_limit, spec_scan.
  rewrite (filter_ext (fun k => in_range lo hi k && sel k) (fun k => in_range lo hi k && sel' k))
    by (intros k; rewrite E; reflexivity).
  reflexivity.
Qed.

Lemma has_suffix_nil : forall k, has_suffix [] k = true.
Proof. intros k. unfold has_suffix. cbn [rev]. destruct (rev k); reflexivity. Qed.

Lemma has_prefix_nil : forall k, has_prefix [] k = true.
Proof. intros k. destruct k; reflexivity. Qed.

(* C19_scan_semantics: for every combination of prefix, suffix, start, end and limit, a Scan (buf
   = []) or TxScan (buf = the handle's buffered operations) over an engine that ran the program
   ops returns the live keys of the selected set — ascending, each once, with the latest value,
   the transaction's own operations applied on top —, cut to the first `limit` LIVE keys when
   limit > 0 (a limit <= 0 does not limit) *)
Theorem scan_semantics : forall c ops buf o, lost_log (run c ops) = false ->
  scan_rows (run c ops) buf o = spec_rows (acked (init c) ops) buf o.
Proof.
  intros c ops buf o Hl. unfold scan_rows, spec_rows, scan_sel.
  destruct (so_prefix o) as [|p0 p] eqn:Ep; destruct (so_suffix o) as [|q0 q] eqn:Eq.
  - destruct (so_start o) as [|a0 a] eqn:Ea; destruct (so_end o) as [|e0 e] eqn:Ee.
    + cbn [bound]. apply tx_scan_full. exact Hl.
    + apply tx_scan_range. exact Hl.
    + apply tx_scan_range. exact Hl.
    + apply tx_scan_range. exact Hl.
  - rewrite tx_scan_suffix by exact Hl. apply spec_scan_limit_ext. intros k. rewrite has_prefix_nil. reflexivity.
  - rewrite tx_scan_prefix by exact Hl. apply spec_scan_limit_ext. intros k. rewrite has_suffix_nil, andb_true_r. reflexivity.
  - apply tx_scan_prefix_suffix. exact Hl.
Qed.

(* the same for the state a service program leads to *)
Corollary scan_semantics_service : forall L c p prog buf o,
  let ss := fst (srun L (sinit c p) prog) in
  scan_rows (s_eng ss) buf o = spec_rows (acked (init c) (etrace L (sinit c p) prog)) buf o.
Proof.
  intros L c p prog buf o ss. unfold ss. rewrite srun_eng_init.
  apply scan_semantics. apply service_log_kept.
Qed.

(* what differs from composing the embedded iterators: a range next to a prefix or a suffix is
   dropped by the service (documented for the prefix: "when provided, start_key/end_key are
   ignored"), whereas an embedded user can filter a range iterator and gets the intersection
   (ScanProofs.eng_scan_filtered). Witness: keys a, ab, b; prefix "a", range [ab, b) *)
Example prefix_ignores_range :
  let ss := fst (srun L0 ss0 (map SReq [QPut [97] [1] false; QPut [97;98] [2] false; QPut [98] [3] false])) in
  snd (service_step L0 ss (QScan (mkScan [97] [] [97;98] [98] 0))) = PRows [([97], [1]); ([97;98], [2])] /\
  scan (filtered_iter (eng_range_it (Some [97;98]) (Some [98])) (prefix_filter [97])) 0 (eng_iter (s_eng ss))
    = [([97;98], [2])].
Proof. vm_compute. split; reflexivity. Qed.

(* non-vacuity: data in an SSTable, an immutable and the active memtable, a deleted key, an empty
   value, a transaction overlay; every option kind, limits around the number of live keys *)
Example scan_semantics_ex :
  let prog := [SReq (QPut [97] [1] false); SReq (QPut [97;98] [] false); SReq (QPut [98;97] [3] false); SFlush;
               SReq (QPut [98] [4] false); SReq (QDelete [97] true); SReq (QPut [99;97;98] [5] false);
               SReq (QBegin false); SReq (QTxPut (HId 1) [97;97] [6]); SReq (QTxDelete (HId 1) [98])] in
  let ss := fst (srun L0 (sinit (mkCfg 40 10) None) prog) in
  map (fun o => snd (service_step L0 ss (QTxScan (HId 1) o)))
      [mkScan [] [] [] [] 0; mkScan [97] [] [] [] 0; mkScan [] [97;98] [] [] 0; mkScan [97] [98] [] [] 0;
       mkScan [] [] [97;98] [99] 0; mkScan [] [] [] [98] 0; mkScan [] [] [98] [] 0; mkScan [] [] [98] [97] 0;
       mkScan [] [] [] [] 2; mkScan [] [] [] [] (-3); mkScan [97] [] [122] [122] 1]
  = [PRows [([97;97],[6]); ([97;98],[]); ([98;97],[3]); ([99;97;98],[5])];
     PRows [([97;97],[6]); ([97;98],[])];
     PRows [([97;98],[]); ([99;97;98],[5])];
     PRows [([97;98],[])];
     PRows [([97;98],[]); ([98;97],[3])];
     PRows [([97;97],[6]); ([97;98],[])];
     PRows [([98;97],[3]); ([99;97;98],[5])];
     PRows [];
     PRows [([97;97],[6]); ([97;98],[])];
     PRows [([97;97],[6]); ([97;98],[]); ([98;97],[3]); ([99;97;98],[5])];
     PRows [([97;97],[6])]].
Proof. vm_compute. reflexivity. Qed.

(* ------------------------------------------------------------------------------------ *)
(* Part E: the service simulates the embedded API                                         *)
(* ------------------------------------------------------------------------------------ *)

(* The embedded API, specified over the history of acknowledged writes (Spec.v): a read returns
   the latest write, a scan the live keys of the selected set, a transaction sees the history
   with its own operations on top and commits them as one batch; transactions are objects the
   caller holds (here: the same table of open transactions, without the notion of an unknown
   one) and share the transaction lock. No sizes, no wire. *)
Record astate := mkAS { a_hist : list wop; a_reg : list (N * txrec); a_next : N; a_info : option provider }.

Definition a_rw_open (a : astate) : bool := existsb (fun x => is_rw (snd x)) (a_reg a).
Definition a_any_open (a : astate) : bool := match a_reg a with [] => false | _ => true end.
Definition a_write (a : astate) (w : list wop) : astate := mkAS (a_hist a ++ w) (a_reg a) (a_next a) (a_info a).
Definition a_set_reg (a : astate) (r : list (N * txrec)) : astate := mkAS (a_hist a) r (a_next a) (a_info a).
Definition a_find (a : astate) (h : handle) : option (N * txrec) :=
  match h with
  | HId n => match reg_find n (a_reg a) with Some t => Some (n, t) | None => None end
  | HBad _ => None
  end.

(* Commit: the buffered operations, last one per key, as one batch; nothing when there are none *)
Definition commit_w (b : list bop) : list wop :=
  match buffer_ops b with [] => [] | bo => [WBatch bo] end.

Definition embedded_step (a : astate) (q : request) : astate * response :=
  match q with
  | QGet k => (a, PValue (spec_get (a_hist a) k))
  | QPut k v _ => (a_write a [WPut k v], POk)
  | QDelete k _ => (a_write a [WDel k], POk)
  | QBatch ops _ =>                      (* BeginTransaction(false); Put/Delete ...; Commit *)
      match ops with
      | [] => (a, POk)
      | _ => if a_any_open a then (a, PBlocked) else (a_write a (commit_w (map bop_of ops)), POk)
      end
  | QScan o => if a_rw_open a then (a, PBlocked) else (a, PRows (spec_rows (a_hist a) [] o))
  | QBegin ro =>
      if (if ro then a_rw_open a else a_any_open a) then (a, PBlocked)
      else let id := a_next a + 1 in
           (mkAS (a_hist a) (a_reg a ++ [(id, mkTxr (if ro then MRO else MRW) [])]) id (a_info a), PBegun id)
  | QCommit h =>
      match a_find a h with
      | None => (a, PErr ENoTx)
      | Some (id, t) =>
        let a1 := a_set_reg a (reg_remove id (a_reg a)) in
        (if is_rw t then a_write a1 (commit_w (t_buf t)) else a1, POk)
      end
  | QRollback h =>
      match a_find a h with
      | None => (a, PErr ENoTx)
      | Some (id, _) => (a_set_reg a (reg_remove id (a_reg a)), POk)
      end
  | QTxGet h k =>
      match a_find a h with
      | None => (a, PErr ENoTx)
      | Some (_, t) => (a, PValue (spec_get (overlay (a_hist a) (t_buf t)) k))
      end
  | QTxPut h k v =>
      match a_find a h with
      | None => (a, PErr ENoTx)
      | Some (id, t) =>
        if is_rw t then (a_set_reg a (reg_set id (mkTxr MRW (t_buf t ++ [(k, Some v)])) (a_reg a)), POk)
        else (a, PErr EROTx)             (* ErrReadOnlyTransaction *)
      end
  | QTxDelete h k =>
      match a_find a h with
      | None => (a, PErr ENoTx)
      | Some (id, t) =>
        if is_rw t then (a_set_reg a (reg_set id (mkTxr MRW (t_buf t ++ [(k, None)])) (a_reg a)), POk)
        else (a, PErr EROTx)
      end
  | QTxScan h o =>
      match a_find a h with
      | None => (a, PErr ENoTx)
      | Some (_, t) => (a, PRows (spec_rows (a_hist a) (t_buf t) o))
      end
  | QStats =>                            (* key count and size over a read-only scan; the layer counts the
                                            service cannot see are 0 *)
      if a_rw_open a then (a, PBlocked)
      else let rows := spec_rows (a_hist a) [] (mkScan [] [] [] [] 0) in
           (a, PStats (N.of_nat (length rows)) (rows_size rows) 0 0)
  | QCompact _ => if a_any_open a then (a, PBlocked) else (a, POk)     (* maintenance never changes the data *)
  | QNodeInfo =>
      match a_info a with
      | None => (a, PInfo 0 [] [] 0 false)
      | Some p => (a, PInfo (role_code (p_role p)) (p_primary p) (p_replicas p) (p_seq p) (p_ro p))
      end
  end.

(* what the service puts in front of the embedded operation: the transport's size check, the
   key / value / batch limits, the lookup of the handle. None = the request is let through. *)
Definition gate (L : limits) (ss : sstate) (q : request) : option err :=
  if negb (fits L q) then Some EMsg else
  match q with
  | QGet k | QDelete k _ => if valid_key L k then None else Some EKey
  | QPut k v _ => if negb (valid_key L k) then Some EKey else if negb (valid_val L v) then Some EValue else None
  | QBatch ops _ =>
      match ops with
      | [] => None
      | _ => if max_batch L <? N.of_nat (length ops) then Some EBatch
             else if any_open ss then None     (* waits for the lock before it looks at the operations *)
             else match batch_ops L ops [] with inr e => Some e | inl _ => None end
      end
  | QCommit h | QRollback h | QTxScan h _ =>
      match lookup_h ss h with None => Some ENoTx | Some _ => None end
  | QTxGet h k =>
      match lookup_h ss h with None => Some ENoTx | Some _ => if valid_key L k then None else Some EKey end
  | QTxPut h k v =>
      match lookup_h ss h with
      | None => Some ENoTx
      | Some (_, t) => if negb (is_rw t) then None
                       else if negb (valid_key L k) then Some EKey
                       else if negb (valid_val L v) then Some EValue else None
      end
  | QTxDelete h k =>
      match lookup_h ss h with
      | None => Some ENoTx
      | Some (_, t) => if negb (is_rw t) then None else if negb (valid_key L k) then Some EKey else None
      end
  | _ => None
  end.

(* the abstraction: the history the engine has acknowledged, the registry as it is *)
Definition abs (c : config) (tr : list op) (ss : sstate) : astate :=
  mkAS (acked (init c) tr) (s_reg ss) (s_next ss) (s_info ss).

Lemma acked_app : forall a b s, acked s (a ++ b) = acked s a ++ acked (fold_left step a s) b.
Proof.
  induction a as [|o r IH]; intros b s; [reflexivity|]. cbn [app acked fold_left].
  rewrite IH, app_assoc. reflexivity.
Qed.

Lemma acked_snoc : forall c tr e,
  acked (init c) (tr ++ e) = acked (init c) tr ++ acked (run c tr) e.
Proof. intros. apply acked_app. Qed.

Lemma run_snoc : forall c tr e, run c (tr ++ e) = fold_left step e (run c tr).
Proof. intros. unfold run. apply fold_left_app. Qed.

Lemma batch_ops_ok : forall L ops acc b, batch_ops L ops acc = inl b -> b = acc ++ map bop_of ops.
Proof.
  intros L ops. induction ops as [|o r IH]; intros acc b H; cbn [batch_ops] in H.
  - inversion H. rewrite app_nil_r. reflexivity.
  - destruct (negb (valid_key L (bw_key o))); [discriminate|]. cbn [map]. unfold bop_of at 1.
    destruct (bw_type o =? 0).
    + destruct (valid_val L (bw_val o)); [|discriminate]. apply IH in H. rewrite H, <- app_assoc. reflexivity.
    + destruct (bw_type o =? 1); [|discriminate]. apply IH in H. rewrite H, <- app_assoc. reflexivity.
Qed.

Lemma put_ok : forall s k v, (MaxSeq <=? wal_next s) = false -> exists q, snd (put s k v) = WrOk q.
Proof. intros s k v M. unfold put. rewrite M. eexists. reflexivity. Qed.

Lemma del_ok : forall s k, (MaxSeq <=? wal_next s) = false -> exists q, snd (del s k) = WrOk q.
Proof. intros s k M. unfold del. rewrite M. eexists. reflexivity. Qed.

Lemma tx_commit_ok : forall s b, (MaxSeq <=? wal_next s) = false -> exists q, snd (tx_commit s b) = WrOk q.
Proof.
  intros s b M. unfold tx_commit. destruct (buffer_ops b) as [|o r]; [eexists; reflexivity|].
  rewrite apply_batch_ok by (assumption || discriminate). eexists. reflexivity.
Qed.

Lemma acked_commit : forall s b, (MaxSeq <=? wal_next s) = false -> acked s [OCommit b] = commit_w b.
Proof.
  intros s b M. cbn [acked ack1]. rewrite app_nil_r. unfold commit_w.
  destruct (tx_commit_ok s b M) as (q & E). rewrite E. destruct (buffer_ops b); reflexivity.
Qed.

Lemma buf_last_spec : forall k l, buf_last k l = last_effect k l.
Proof.
  intros k l. induction l as [|[k' v] r IH]; [reflexivity|]. cbn [buf_last last_effect fst snd]. rewrite IH. reflexivity.
Qed.

(* a transaction read = the latest write of the history with the buffer on top *)
Lemma tx_read_spec : forall c tr buf k, lost_log (run c tr) = false ->
  tx_read (run c tr) buf k = spec_get (overlay (acked (init c) tr) buf) k.
Proof.
  intros c tr buf k Hl. unfold tx_read, spec_get. rewrite latest_overlay, buf_last_spec.
  destruct (last_effect k buf) as [[v|]|]; try reflexivity.
  rewrite (C01_read_latest c tr k Hl). reflexivity.
Qed.

Lemma spec_get_flat : forall h1 h2 k, flat h1 = flat h2 -> spec_get h1 k = spec_get h2 k.
Proof. intros h1 h2 k E. unfold spec_get, latest. rewrite E. reflexivity. Qed.

Lemma scan_rows_full : forall s, scan_rows s [] (mkScan [] [] [] [] 0) = scan tx_it 0 (tx_full s []).
Proof. reflexivity. Qed.

Ltac same_abs := unfold abs; cbn; rewrite ?app_nil_r; reflexivity.

(* C19_simulation, one step. On a state whose engine ran the program tr (no log set aside, the
   sequence numbers not exhausted), a request is either turned away by what the service adds —
   with an error and no change — or answered exactly as the embedded specification answers it
   on the history acknowledged so far, and the two states correspond again. *)
Theorem simulation_step : forall L c tr ss q,
  s_eng ss = run c tr -> lost_log (run c tr) = false -> (MaxSeq <=? wal_next (s_eng ss)) = false ->
  match gate L ss q with
  | Some e => service_step L ss q = (ss, PErr e)
  | None =>
      s_eng (fst (service_step L ss q)) = run c (tr ++ eops L ss (SReq q)) /\
      embedded_step (abs c tr ss) q =
        (abs c (tr ++ eops L ss (SReq q)) (fst (service_step L ss q)), snd (service_step L ss q))
  end.
Proof.
  intros L c tr ss q He Hl M.
  assert (Eng : s_eng (fst (service_step L ss q)) = run c (tr ++ eops L ss (SReq q))).
  { rewrite run_snoc, <- He. pose proof (sstep_eng L ss (SReq q)) as S. cbn [sstep] in S.
    destruct (service_step L ss q). exact S. }
  unfold gate. unfold service_step in *. cbn [eops] in *.
  destruct (fits L q) eqn:F; cbn [negb] in *; [|reflexivity].
  destruct q as [k|k v s|k s|ops s|o|ro|h|h|h k|h k v|h k|h o| |f|]; cbn [handler embedded_step] in *.
  - (* Get *) destruct (valid_key L k); [|reflexivity]. split; [exact Eng|].
    rewrite He, (C01_read_latest c tr k Hl). same_abs.
  - (* Put *) destruct (valid_key L k); cbn [negb andb] in *; [|reflexivity].
    destruct (valid_val L v); cbn [negb] in *; [|reflexivity]. split; [exact Eng|].
    unfold eng_write, abs, a_write. cbn [fst snd s_reg s_next s_info set_eng a_hist a_reg a_next a_info].
    rewrite acked_snoc. cbn [acked ack1]. rewrite <- He. destruct (put_ok (s_eng ss) k v M) as (q & E).
    rewrite E, app_nil_r. reflexivity.
  - (* Delete *) destruct (valid_key L k); cbn [negb] in *; [|reflexivity]. split; [exact Eng|].
    unfold eng_write, abs, a_write. cbn [fst snd s_reg s_next s_info set_eng a_hist a_reg a_next a_info].
    rewrite acked_snoc. cbn [acked ack1]. rewrite <- He. destruct (del_ok (s_eng ss) k M) as (q & E).
    rewrite E, app_nil_r. reflexivity.
  - (* BatchWrite *) destruct ops as [|o0 r]; [split; [exact Eng|same_abs]|].
    destruct (max_batch L <? N.of_nat (length (o0 :: r))); [reflexivity|].
    unfold a_any_open, abs at 1. cbn [a_reg]. fold (any_open ss).
    destruct (any_open ss); [split; [exact Eng|same_abs]|].
    destruct (batch_ops L (o0 :: r) []) as [b|e] eqn:B; [|reflexivity]. split; [exact Eng|].
    apply batch_ops_ok in B. cbn [app] in B. subst b.
    unfold eng_write, abs, a_write. cbn [fst snd s_reg s_next s_info set_eng a_hist a_reg a_next a_info].
    rewrite acked_snoc, <- He, (acked_commit _ _ M).
    destruct (tx_commit_ok (s_eng ss) (map bop_of (o0 :: r)) M) as (q & E). rewrite E. reflexivity.
  - (* Scan *) unfold a_rw_open, abs at 1. cbn [a_reg]. fold (rw_open ss).
    destruct (rw_open ss); [split; [exact Eng|same_abs]|]. split; [exact Eng|].
    rewrite He, (scan_semantics c tr [] o Hl). same_abs.
  - (* Begin *) unfold a_rw_open, a_any_open, abs at 1 2. cbn [a_reg]. fold (rw_open ss). fold (any_open ss).
    destruct (if ro then rw_open ss else any_open ss); split; try exact Eng; same_abs.
  - (* Commit *) unfold a_find, abs at 1. cbn [a_reg]. unfold lookup_h in *.
    destruct h as [n|s]; [|reflexivity]. destruct (reg_find n (s_reg ss)) as [t|]; [|reflexivity].
    split; [exact Eng|]. unfold is_rw in *. destruct (t_mode t).
    + same_abs.
    + unfold eng_write, abs, a_write, a_set_reg. cbn [fst snd s_reg s_next s_info set_eng set_reg a_hist a_reg a_next a_info].
      rewrite acked_snoc, <- He, (acked_commit _ _ M).
      destruct (tx_commit_ok (s_eng ss) (t_buf t) M) as (q & E). rewrite E. reflexivity.
  - (* Rollback *) unfold a_find, abs at 1. cbn [a_reg]. unfold lookup_h in *.
    destruct h as [n|s]; [|reflexivity]. destruct (reg_find n (s_reg ss)) as [t|]; [|reflexivity].
    split; [exact Eng|same_abs].
  - (* TxGet *) unfold a_find, abs at 1. cbn [a_reg]. unfold lookup_h in *.
    destruct h as [n|s]; [|reflexivity]. destruct (reg_find n (s_reg ss)) as [t|]; [|reflexivity].
    destruct (valid_key L k); [|reflexivity]. split; [exact Eng|].
    rewrite He, (tx_read_spec c tr (t_buf t) k Hl). same_abs.
  - (* TxPut *) unfold a_find, abs at 1. cbn [a_reg]. unfold lookup_h in *.
    destruct h as [n|s]; [|reflexivity]. destruct (reg_find n (s_reg ss)) as [t|]; [|reflexivity].
    destruct (is_rw t); cbn [negb] in *; [|split; [exact Eng|same_abs]].
    destruct (valid_key L k); cbn [negb] in *; [|reflexivity].
    destruct (valid_val L v); cbn [negb] in *; [|reflexivity]. split; [exact Eng|same_abs].
  - (* TxDelete *) unfold a_find, abs at 1. cbn [a_reg]. unfold lookup_h in *.
    destruct h as [n|s]; [|reflexivity]. destruct (reg_find n (s_reg ss)) as [t|]; [|reflexivity].
    destruct (is_rw t); cbn [negb] in *; [|split; [exact Eng|same_abs]].
    destruct (valid_key L k); cbn [negb] in *; [|reflexivity]. split; [exact Eng|same_abs].
  - (* TxScan *) unfold a_find, abs at 1. cbn [a_reg]. unfold lookup_h in *.
    destruct h as [n|s]; [|reflexivity]. destruct (reg_find n (s_reg ss)) as [t|]; [|reflexivity].
    split; [exact Eng|]. rewrite He, (scan_semantics c tr (t_buf t) o Hl). same_abs.
  - (* GetStats *) unfold a_rw_open, abs at 1. cbn [a_reg]. fold (rw_open ss).
    destruct (rw_open ss); [split; [exact Eng|same_abs]|]. split; [exact Eng|].
    pose proof (scan_semantics c tr [] (mkScan [] [] [] [] 0) Hl) as S.
    rewrite <- (scan_rows_full (s_eng ss)), He, S. same_abs.
  - (* Compact *) unfold a_any_open, abs at 1. cbn [a_reg]. fold (any_open ss).
    destruct (any_open ss); [split; [exact Eng|same_abs]|]. split; [exact Eng|].
    unfold abs. cbn [fst snd s_reg s_next s_info set_eng]. rewrite acked_snoc.
    destruct f; cbn [acked ack1 buffer_ops fold_left]; rewrite ?app_nil_r; reflexivity.
  - (* GetNodeInfo *) split; [exact Eng|]. unfold abs at 1. cbn [a_info]. destruct (s_info ss); same_abs.
Qed.

(* the simulation closes over programs: the initial states correspond, a flush of the engine
   changes nothing the embedded specification can see, and every request keeps the
   correspondence (simulation_step) *)
Lemma abs_init : forall c p, abs c [] (sinit c p) = mkAS [] [] 0 p.
Proof. reflexivity. Qed.

Lemma simulation_flush : forall c tr ss,
  s_eng ss = run c tr ->
  s_eng (fst (sstep code_limits ss SFlush)) = run c (tr ++ [OFlush]) /\
  abs c (tr ++ [OFlush]) (fst (sstep code_limits ss SFlush)) = abs c tr ss.
Proof.
  intros c tr ss He. cbn [sstep fst set_eng s_eng]. rewrite run_snoc, <- He. split; [reflexivity|].
  unfold abs. cbn [s_reg s_next s_info]. rewrite acked_snoc. cbn [acked ack1]. rewrite app_nil_r. reflexivity.
Qed.

Lemma srun_app_fst : forall L a b ss, fst (srun L ss (a ++ b)) = fst (srun L (fst (srun L ss a)) b).
Proof.
  intros L a. induction a as [|o r IH]; intros b ss; [reflexivity|].
  cbn [app]. rewrite !srun_cons. apply IH.
Qed.

Lemma etrace_app : forall L a b ss,
  etrace L ss (a ++ b) = etrace L ss a ++ etrace L (fst (srun L ss a)) b.
Proof.
  intros L a. induction a as [|o r IH]; intros b ss; [reflexivity|].
  cbn [app etrace]. rewrite srun_cons, IH, app_assoc. reflexivity.
Qed.

(* C19_simulation for the states a service reaches: after any program of requests and flushes *)
Theorem simulation : forall L c p prog q,
  let ss := fst (srun L (sinit c p) prog) in
  (MaxSeq <=? wal_next (s_eng ss)) = false ->
  match gate L ss q with
  | Some e => service_step L ss q = (ss, PErr e)
  | None =>
      embedded_step (abs c (etrace L (sinit c p) prog) ss) q =
        (abs c (etrace L (sinit c p) (prog ++ [SReq q])) (fst (srun L (sinit c p) (prog ++ [SReq q]))),
         snd (service_step L ss q))
  end.
Proof.
  intros L c p prog q ss M.
  pose proof (simulation_step L c (etrace L (sinit c p) prog) ss q (srun_eng_init L c p prog)
                (service_log_kept L c p prog) M) as S.
  destruct (gate L ss q); [exact S|]. destruct S as (_ & S). rewrite S.
  rewrite etrace_app, srun_app_fst. fold ss. cbn [etrace]. rewrite app_nil_r.
  rewrite srun_cons. cbn [srun sstep fst]. destruct (service_step L ss q). reflexivity.
Qed.

(* non-vacuity: a program through all layers with a transaction; the embedded specification run
   on the abstract state gives the service's answers *)
Example simulation_ex :
  let prog := [SReq (QPut [97] [1] false); SReq (QPut [98] [] true); SFlush; SReq (QDelete [97] false);
               SReq (QBatch [mkBw 0 [99] [3]; mkBw 1 [98] []; mkBw 0 [99] [4]] false);
               SReq (QBegin false); SReq (QTxPut (HId 1) [97] [5])] in
  let ss := fst (srun L0 (sinit (mkCfg 40 10) None) prog) in
  let a := abs (mkCfg 40 10) (etrace L0 (sinit (mkCfg 40 10) None) prog) ss in
  a_hist a = [WPut [97] [1]; WPut [98] []; WDel [97]; WBatch [([98], None); ([99], Some [4])]] /\
  map (fun q => snd (embedded_step a q)) [QGet [99]; QTxGet (HId 1) [97]; QGet [97]; QTxScan (HId 1) (mkScan [] [] [] [] 0)]
  = map (fun q => snd (service_step L0 ss q)) [QGet [99]; QTxGet (HId 1) [97]; QGet [97]; QTxScan (HId 1) (mkScan [] [] [] [] 0)] /\
  map (fun q => snd (service_step L0 ss q)) [QGet [99]; QTxGet (HId 1) [97]; QGet [97]; QTxScan (HId 1) (mkScan [] [] [] [] 0)]
  = [PValue (Some [4]); PValue (Some [5]); PValue None; PRows [([97], [5]); ([99], [4])]].
Proof. vm_compute. repeat split; reflexivity. Qed.

(* an empty value is a value: through Put, BatchWrite and TxPut it reads back as found-and-empty
   from Get, TxGet, Scan and TxScan, before and after a flush *)
Example empty_value_ex :
  let prog := [SReq (QPut [1] [] false); SReq (QBatch [mkBw 0 [2] []] false); SReq (QBegin false);
               SReq (QTxPut (HId 1) [3] []); SReq (QTxGet (HId 1) [3]); SReq (QTxScan (HId 1) (mkScan [] [] [] [] 0));
               SReq (QCommit (HId 1)); SFlush; SReq (QGet [1]); SReq (QGet [2]); SReq (QGet [3]);
               SReq (QScan (mkScan [] [] [] [] 0))] in
  snd (srun L0 ss0 prog) =
  [POk; POk; PBegun 1; POk; PValue (Some []); PRows [([1], []); ([2], []); ([3], [])]; POk;
   PValue (Some []); PValue (Some []); PValue (Some []); PRows [([1], []); ([2], []); ([3], [])]].
Proof. vm_compute. reflexivity. Qed.

(* ------------------------------------------------------------------------------------ *)
(* Part F: the transport admits what the limits admit; regression notes                    *)
(* ------------------------------------------------------------------------------------ *)

Lemma f_len_ge : forall n, n <= f_len n.
Proof. intros n. unfold f_len. destruct (n =? 0) eqn:E; [apply N.eqb_eq in E|]; lia. Qed.

Lemma varint_len_f_le : forall fuel n, varint_len_f fuel n <= N.of_nat fuel + 1.
Proof.
  induction fuel as [|f IH]; intros n; cbn [varint_len_f]; [cbn; lia|].
  destruct (n <? 128); [lia|]. specialize (IH (n / 128)). lia.
Qed.

Lemma f_len_le : forall n, f_len n <= n + 11.
Proof.
  intros n. unfold f_len. destruct (n =? 0); [lia|]. unfold varint_len.
  pose proof (varint_len_f_le 9 n) as H. change (N.of_nat 9 + 1) with 10 in H. lia.
Qed.

Lemma ndigits_f_le : forall fuel n, ndigits_f fuel n <= N.of_nat fuel + 1.
Proof.
  induction fuel as [|f IH]; intros n; cbn [ndigits_f]; [cbn; lia|].
  destruct (n <? 10); [lia|]. specialize (IH (n / 10)). lia.
Qed.

(* a single write inside the key and value limits always passes the transport of the server as
   cmd/kevo builds it (since /repo 7ff1cd3: 16 MB; before, see BeforeFixes.transport_refuted):
   Put, and TxPut on an id in the registry's spelling *)
Theorem single_write_fits : forall k v s n,
  valid_key code_limits k = true -> valid_val code_limits v = true ->
  fits code_limits (QPut k v s) = true /\ fits code_limits (QTxPut (HId n) k v) = true.
Proof.
  intros k v s n Hk Hv. apply valid_key_spec in Hk. apply valid_val_spec in Hv.
  assert (Kk : max_key code_limits = 4096) by reflexivity.
  assert (Kv : max_val code_limits = 10485760) by reflexivity.
  assert (Km : 10490000 <= max_msg code_limits) by (apply N.leb_le; vm_compute; reflexivity).
  rewrite Kk in Hk. rewrite Kv in Hv.
  pose proof (f_len_le (len k)) as A. pose proof (f_len_le (len v)) as B.
  pose proof (f_len_le (3 + ndigits n)) as C. pose proof (ndigits_f_le 19 n) as D. change (N.of_nat 19 + 1) with 20 in D.
  unfold ndigits in C.
  assert (Fb : f_bool s <= 2) by (destruct s; cbn; lia).
  unfold fits. cbn [req_size]. unfold f_bytes, f_handle. cbn [h_len]. unfold ndigits.
  split; apply N.leb_le; lia.
Qed.

(* a request is refused by the transport only if it is larger than the limit: the general gap
   lemma, for any limits whose receive limit lies below the value limit *)
Lemma transport_gap : forall L ss k v s,
  max_msg L < len v -> len v <= max_val L -> valid_key L k = true ->
  within_limits L (QPut k v s) = true /\ service_step L ss (QPut k v s) = (ss, PErr EMsg).
Proof.
  intros L ss k v s Hm Hv Hk. split.
  - cbn [within_limits]. rewrite Hk. apply valid_val_spec in Hv. rewrite Hv. reflexivity.
  - unfold service_step, fits. cbn [req_size].
    assert (G : (f_bytes k + f_bytes v + f_bool s <=? max_msg L) = false).
    { apply N.leb_gt. unfold f_bytes at 2. pose proof (f_len_ge (len v)). lia. }
    rewrite G. reflexivity.
Qed.

Lemma len_repeat : forall (x : N) n, len (repeat x n) = N.of_nat n.
Proof. intros. unfold len. rewrite repeat_length. reflexivity. Qed.

(* Compact never changes what the embedded specification sees, with or without force *)
Theorem compact_keeps_data : forall L c tr ss f,
  s_eng ss = run c tr -> any_open ss = false -> fits L (QCompact f) = true ->
  snd (service_step L ss (QCompact f)) = POk /\
  abs c (tr ++ eops L ss (SReq (QCompact f))) (fst (service_step L ss (QCompact f))) = abs c tr ss.
Proof.
  intros L c tr ss f He A F. unfold service_step. rewrite F. cbn [handler eops]. rewrite F, A. cbn [negb].
  split; [reflexivity|]. unfold abs. cbn [fst s_reg s_next s_info set_eng]. rewrite acked_snoc.
  destruct f; cbn [acked ack1 buffer_ops fold_left]; rewrite ?app_nil_r; reflexivity.
Qed.

Example compact_ex :
  let ss := fst (srun code_limits ss0 [SReq (QPut [97] [1] false); SReq (QCompact true)]) in
  snd (service_step code_limits ss (QScan (mkScan [] [] [] [] 0))) = PRows [([97], [1])] /\
  length (ssts (s_eng ss)) = 1%nat.
Proof. vm_compute. split; reflexivity. Qed.

(* What the server sends back: a response that carries a stored value (GetResponse, TxGetResponse:
   the value and a flag; a Scan / TxScan entry: the key and the value) is at most key + value + 14
   bytes on the wire (two length-delimited protobuf fields: 1 tag byte and a length varint of at
   most 5 bytes each, plus a 2-byte bool field). Every key and value the service ADMITS can be
   sent back under the send limit cmd/kevo/server.go configures (grpc.MaxSendMsgSize, read from
   the source on every run; None = grpc's default, MaxInt32): otherwise a value that was written
   over the network and reads fine through the embedded API could never be read over the network. *)
Definition sendable (n : N) : bool :=
  match svc_server_max_send with Some m => n <=? m | None => n <=? 2147483647 end.
Definition resp_wire_bound (k v : bytes) : N := len k + len v + 14.

Lemma send_limit_covers : sendable (svc_maxKeySize + svc_maxValueSize + 14) = true.
Proof. vm_compute. reflexivity. Qed.

Theorem admitted_values_can_be_sent : forall k v,
  valid_key code_limits k = true -> valid_val code_limits v = true ->
  sendable (resp_wire_bound k v) = true.
Proof.
  intros k v Hk Hv. generalize send_limit_covers. unfold sendable, resp_wire_bound.
  unfold valid_key, valid_val in *. cbn [max_key max_val code_limits] in *.
  apply andb_prop in Hk as [_ Hk]. apply N.leb_le in Hk. apply N.leb_le in Hv.
  destruct svc_server_max_send as [m|]; intros H; apply N.leb_le in H; apply N.leb_le; lia.
Qed.

Example admitted_values_can_be_sent_ex :
  valid_key code_limits (repeat 1 4096) = true /\ sendable (resp_wire_bound [107] [1;2;3]) = true /\
  sendable (svc_maxKeySize + svc_maxValueSize + 14) = true /\ sendable 4294967296 = false.
Proof. vm_compute. repeat split; reflexivity. Qed.

(* The two deviations the check found on the tree it was built against, as statements about the
   code of that tree (regression notes: the corpus cases transport-limit.case and
   compact-marker.case fail again when a fix is reverted). *)
Module BeforeFixes.
  (* before /repo 7ff1cd3 the server had no grpc.MaxRecvMsgSize option: gRPC's default applied *)
  Definition limits_before : limits :=
    mkLim svc_maxKeySize svc_maxValueSize svc_maxBatchSize grpc_default_max_recv.

  Theorem transport_refuted : exists k v,
    within_limits limits_before (QPut k v false) = true /\
    (forall ss, service_step limits_before ss (QPut k v false) = (ss, PErr EMsg)) /\
    (forall a, embedded_step a (QPut k v false) = (a_write a [WPut k v], POk)).
  Proof.
    exists [107]. remember (N.to_nat (max_msg limits_before + 1)) as n eqn:En.
    exists (repeat 0 n).
    assert (Hl : len (repeat 0 n) = max_msg limits_before + 1) by (rewrite len_repeat, En; apply N2Nat.id).
    assert (A : max_msg limits_before < len (repeat 0 n)) by (rewrite Hl; lia).
    assert (B : len (repeat 0 n) <= max_val limits_before) by (rewrite Hl; apply N.leb_le; vm_compute; reflexivity).
    assert (C : valid_key limits_before [107] = true) by (vm_compute; reflexivity).
    split; [apply (transport_gap limits_before ss0 _ _ false A B C)|]. split.
    - intros ss. apply (transport_gap limits_before ss _ _ false A B C).
    - intros a. reflexivity.
  Qed.

  (* before /repo 2b4302e Compact(force) committed "__compact_marker__" = "force" *)
  Definition marker_key : bytes := [95;95;99;111;109;112;97;99;116;95;109;97;114;107;101;114;95;95].
  Definition marker_val : bytes := [102;111;114;99;101].
  Definition compact_before (ss : sstate) (force : bool) : sstate * response :=
    if any_open ss then (ss, PBlocked)
    else eng_write ss (tx_commit (s_eng ss) (if force then [(marker_key, Some marker_val)] else [])).

  Theorem compact_force_refuted :
    let ss1 := fst (compact_before ss0 true) in
    snd (compact_before ss0 true) = POk /\
    snd (service_step code_limits ss1 (QScan (mkScan [] [] [] [] 0))) = PRows [(marker_key, marker_val)] /\
    snd (service_step code_limits ss1 (QGet marker_key)) = PValue (Some marker_val) /\
    snd (service_step code_limits (fst (service_step code_limits ss0 (QCompact true))) (QScan (mkScan [] [] [] [] 0)))
      = PRows [].
  Proof. vm_compute. repeat split; reflexivity. Qed.
End BeforeFixes.
