(* ReadOnlyProofs.v — theorems about the read-only discipline model (ReadOnly.v) and the
   generated API fact table (gen/Api.v). Property C16. *)
From Coq Require Import List NArith Bool String Lia.
From KV Require Import Bytes Engine ReadOnly.
From KV.gen Require Import Api.
From KV.gen Require ApplierFacts.
Import ListNotations.
Open Scope N_scope.
Open Scope list_scope.

(* ====================================================================================== *)
(* Part 1 — the fact table generated from the Go source                                   *)
(* ====================================================================================== *)

Definition mutates (m : api_row) : bool := a_writes m || a_begins_rw m.
Definition is_facade (m : api_row) : bool := match a_api m with Facade => true | Service => false end.

(* every facade method that reaches a storage mutation or a read-write begin is either one of
   the *Internal bypasses or guarded by the read-only flag *)
Definition facade_row_ok (m : api_row) : bool :=
  negb (is_facade m) || negb (mutates m) || a_internal m || a_guarded m.

Lemma facade_rows_ok : forallb facade_row_ok api_table = true.
Proof. vm_compute. reflexivity. Qed.

Theorem guarded_table : forall m, In m api_table -> is_facade m = true -> mutates m = true ->
  a_internal m = true \/ a_guarded m = true.
Proof.
  intros m Hin Hf Hm.
  pose proof (proj1 (forallb_forall _ _) facade_rows_ok m Hin) as H.
  unfold facade_row_ok in H. rewrite Hf, Hm in H. simpl in H.
  apply orb_true_iff in H. exact H.
Qed.

(* non-vacuity: the table has guarded mutators, bypasses and plain readers *)
Example guarded_table_nonvacuous :
  (exists m, In m api_table /\ is_facade m = true /\ mutates m = true /\ a_guarded m = true /\ a_internal m = false) /\
  (exists m, In m api_table /\ is_facade m = true /\ mutates m = true /\ a_guarded m = false /\ a_internal m = true) /\
  (exists m, In m api_table /\ is_facade m = true /\ mutates m = false).
Proof.
  assert (H : existsb (fun m => is_facade m && mutates m && a_guarded m && negb (a_internal m)) api_table = true /\
              existsb (fun m => is_facade m && mutates m && negb (a_guarded m) && a_internal m) api_table = true /\
              existsb (fun m => is_facade m && negb (mutates m)) api_table = true)
    by (vm_compute; auto).
  destruct H as (H1 & H2 & H3).
  apply existsb_exists in H1. apply existsb_exists in H2. apply existsb_exists in H3.
  destruct H1 as (m1 & I1 & E1). destruct H2 as (m2 & I2 & E2). destruct H3 as (m3 & I3 & E3).
  repeat (apply andb_true_iff in E1; destruct E1 as (E1 & ?)).
  repeat (apply andb_true_iff in E2; destruct E2 as (E2 & ?)).
  apply andb_true_iff in E3. destruct E3 as (E3 & E3').
  repeat split.
  - exists m1. repeat split; auto. now apply negb_true_iff.
  - exists m2. repeat split; auto. now apply negb_true_iff.
  - exists m3. repeat split; auto. now apply negb_true_iff.
Qed.

(* what the service may call on the engine: a facade method that is a reader or a guarded
   mutator, hands out no capability, does not set the flag and is no bypass. A name that is
   not a facade method at all cannot be invoked (the ad-hoc interface assertion fails). *)
Definition find_facade (name : string) : option api_row :=
  find (fun m => is_facade m && String.eqb (a_name m) name) api_table.

Definition safe_engine_method (name : string) : bool :=
  match find_facade name with
  | None => true
  | Some r => (negb (mutates r) || a_guarded r) && negb (a_leaks r) && negb (a_setsflag r) && negb (a_internal r)
  end.

Definition service_row_ok (m : api_row) : bool :=
  is_facade m || (negb (a_leaks m) && forallb safe_engine_method (a_engine_calls m)).

Lemma service_rows_ok : forallb service_row_ok api_table = true.
Proof. vm_compute. reflexivity. Qed.

Theorem service_routes : forall m, In m api_table -> is_facade m = false ->
  a_leaks m = false /\ forall c, In c (a_engine_calls m) -> safe_engine_method c = true.
Proof.
  intros m Hin Hf.
  pose proof (proj1 (forallb_forall _ _) service_rows_ok m Hin) as H.
  unfold service_row_ok in H. rewrite Hf in H. simpl in H.
  apply andb_true_iff in H. destruct H as (H1 & H2). split.
  - now apply negb_true_iff.
  - intros c Hc. exact (proj1 (forallb_forall _ _) H2 c Hc).
Qed.

Example service_routes_nonvacuous :
  exists m, In m api_table /\ is_facade m = false /\ mutates m = true /\ a_engine_calls m <> [].
Proof.
  assert (H : existsb (fun m => negb (is_facade m) && mutates m && negb (match a_engine_calls m with [] => true | _ => false end)) api_table = true)
    by (vm_compute; auto).
  apply existsb_exists in H. destruct H as (m & I & E).
  repeat (apply andb_true_iff in E; destruct E as (E & ?)).
  exists m. repeat split; auto.
  - now apply negb_true_iff.
  - destruct (a_engine_calls m); [discriminate | congruence].
Qed.

(* the interface the service is typed against exposes no capability, flag setter or bypass *)
Definition iface_row_ok (m : api_row) : bool :=
  negb (is_facade m && a_iface m) || (negb (a_leaks m) && negb (a_setsflag m) && negb (a_internal m)).

Lemma iface_rows_ok : forallb iface_row_ok api_table = true.
Proof. vm_compute. reflexivity. Qed.

Theorem iface_safe : forall m, In m api_table -> is_facade m = true -> a_iface m = true ->
  a_leaks m = false /\ a_setsflag m = false /\ a_internal m = false.
Proof.
  intros m Hin Hf Hi.
  pose proof (proj1 (forallb_forall _ _) iface_rows_ok m Hin) as H.
  unfold iface_row_ok in H. rewrite Hf, Hi in H. simpl in H.
  repeat (apply andb_true_iff in H; destruct H as (H & ?)).
  repeat split; now apply negb_true_iff.
Qed.

(* the registry begins transactions by reflection: the names it looks up are safe too *)
Theorem reflective_safe : forall c, In c registry_reflective_calls -> safe_engine_method c = true.
Proof.
  assert (H : forallb safe_engine_method registry_reflective_calls = true) by (vm_compute; reflexivity).
  intros c Hc. exact (proj1 (forallb_forall _ _) H c Hc).
Qed.

(* the *Internal bypasses are called from the replication package only *)
Theorem internal_only_replication : forall p, In p internal_callers -> fst p = "pkg/replication"%string.
Proof.
  assert (H : forallb (fun p => String.eqb (fst p) "pkg/replication") internal_callers = true) by (vm_compute; reflexivity).
  intros p Hp. apply String.eqb_eq. exact (proj1 (forallb_forall _ _) H p Hp).
Qed.

(* The replica's applier (pkg/replication/engine_applier.go) reaches the engine through ad-hoc
   interface assertions; step_repl models the paths taken when they succeed (PutInternal /
   DeleteInternal: the read-only flag is not touched). gofacts/applier.go lists every asserted
   interface with whether *engine.EngineFacade really satisfies it (names AND signatures, decided
   by go/types): all must be satisfied, and the two internal paths must be among them — otherwise
   the applier falls through to SetReadOnly(false) ... SetReadOnly(true) around a guarded call. *)
Definition assertion_ok (r : string * string * bool) : bool := snd r.
Theorem applier_paths_satisfied :
  forallb assertion_ok ApplierFacts.applier_assertions = true /\
  In ("applyInReadOnlyMode"%string, "PutInternal"%string, true) ApplierFacts.applier_assertions /\
  In ("applyInReadOnlyMode"%string, "DeleteInternal"%string, true) ApplierFacts.applier_assertions.
Proof.
  split; [vm_compute; reflexivity|].
  split; vm_compute; tauto.
Qed.

Example internal_callers_nonvacuous : internal_callers <> [].
Proof. vm_compute. discriminate. Qed.

(* capability leaks of the facade outside the interface: only the WAL accessor the primary's
   replication uses is left (GetTransactionManager hands out a guarded wrapper since /repo
   b9d5905; its BeginTransaction is a row of the table and falls under guarded_table) *)
Definition leak_names : list string :=
  map a_name (filter (fun m => is_facade m && a_leaks m) api_table).

Theorem leaks_known : incl leak_names ["GetWAL"%string].
Proof.
  assert (H : forallb (fun s => existsb (String.eqb s) ["GetWAL"%string]) leak_names = true)
    by (vm_compute; reflexivity).
  intros s Hs. pose proof (proj1 (forallb_forall _ _) H s Hs) as E.
  apply existsb_exists in E. destruct E as (x & Hx & Ex). apply String.eqb_eq in Ex. now subst.
Qed.

(* the wrapper's begin is in the table, reaches a read-write begin and is guarded *)
Example wrapper_row_present :
  existsb (fun m => is_facade m && String.eqb (a_name m) "guardedTxManager.BeginTransaction"
                    && a_begins_rw m && a_guarded m) api_table = true.
Proof. vm_compute. reflexivity. Qed.

(* ====================================================================================== *)
(* Part 2 — behaviour                                                                     *)
(* ====================================================================================== *)

(* a node running as a replica: flag set and no read-write transaction open *)
Definition ro_inv (n : node) : Prop := ro n = true /\ rw_open n = false.

Definition handle_open (n : node) (h : nat) : bool :=
  match nth_error (txs n) h with Some t => tx_open t | None => false end.

(* the client calls that attempt a mutation (on an existing target) *)
Definition must_reject (n : node) (c : cop) : bool :=
  match c with
  | CPut _ _ | CDel _ | CBatch _ | SPut _ _ | SDel _ => true
  | SBatch ops => match ops with [] => false | _ => true end
  | CTxPut h _ _ | CTxDel h _ => handle_open n h
  | CGeneric true true => true
  | _ => false
  end.

(* the only thing a client call contributes to the engine state of a replica: Compact(force)
   flushes the memtables (maintenance; EngineProofs.C01_flush_invariant: no read changes) *)
Definition maint (c : cop) (e : st) : st :=
  match c with SCompact true => flush e | _ => e end.

(* the actions of a replica: any client call through the facade, the accessor or the
   service, any applied entry, SetReadOnly(true). Excluded: an entry point the model does not
   know and the fact table calls an unguarded mutator (guarded_table shows there is none), and
   clearing the flag (only Manager.setEngineReadOnly calls SetReadOnly, at start-up). *)
Definition safe_act (a : act) : bool :=
  match a with
  | AClient (CGeneric true false) => false
  | AClient _ => true
  | ARepl _ => true
  | ASetRO b => b
  end.

Lemma safe_act_exceptions : forall a, safe_act a = false ->
  a = AClient (CGeneric true false) \/ a = ASetRO false.
Proof.
  intros a H. destruct a as [c| |b]; simpl in H; try discriminate.
  - destruct c; try discriminate. destruct mutates0, guarded; try discriminate. now left.
  - destruct b; [discriminate | now right].
Qed.

Lemma existsb_app_false : forall {A} (f : A -> bool) l x,
  existsb f l = false -> f x = false -> existsb f (l ++ [x]) = false.
Proof. intros. rewrite existsb_app. simpl. now rewrite H, H0. Qed.

Lemma existsb_upd_false : forall {A} (f : A -> bool) l i x,
  existsb f l = false -> f x = false -> existsb f (upd_nth l i x) = false.
Proof.
  induction l; intros i x H Hx; simpl in *; auto.
  apply orb_false_iff in H. destruct H as (Ha & Hl).
  destruct i; simpl.
  - now rewrite Hx, Hl.
  - now rewrite Ha, IHl.
Qed.

Lemma existsb_nth_false : forall {A} (f : A -> bool) l i x,
  existsb f l = false -> nth_error l i = Some x -> f x = false.
Proof.
  induction l; intros i x H Hn; destruct i; simpl in *; try discriminate;
    apply orb_false_iff in H; destruct H as (Ha & Hl).
  - now inversion Hn; subst.
  - eauto.
Qed.

Lemma open_is_ro : forall n h t, rw_open n = false -> nth_error (txs n) h = Some t ->
  tx_open t = true -> tx_mode t = TxRO.
Proof.
  intros n h t H Hn Ho. unfold rw_open in H.
  pose proof (existsb_nth_false _ _ _ _ H Hn) as E. unfold is_open_rw in E.
  rewrite Ho in E. simpl in E. destruct (tx_mode t); [reflexivity | discriminate].
Qed.

Lemma close_not_rw : forall t, is_open_rw (close_tx t) = false.
Proof. reflexivity. Qed.

(* one client call on a replica: the data is untouched, a mutation attempt gets a read-only
   error, and the node is still a replica afterwards *)
Lemma client_step : forall n c, ro_inv n -> safe_act (AClient c) = true ->
  let x := step_client n c in
  ro_inv (fst x) /\ eng (fst x) = maint c (eng n) /\ (must_reject n c = true -> ro_class (snd x) = true).
Proof.
  intros n c (Hro & Hrw) Hs. unfold ro_inv.
  destruct c; simpl in *; rewrite ?Hro; simpl.
  all: try (solve [repeat split; auto; discriminate]).
  - (* CBegin *) unfold begin_tx. rewrite Hro, Hrw. simpl. repeat split; auto; try discriminate.
    unfold rw_open. simpl. now apply existsb_app_false.
  - (* CTxPut *) unfold tx_write, handle_open. destruct (nth_error (txs n) h) as [t|] eqn:E; simpl.
    2: { repeat split; auto; discriminate. }
    destruct (tx_open t) eqn:Ho; simpl.
    2: { repeat split; auto; discriminate. }
    rewrite (open_is_ro _ _ _ Hrw E Ho). simpl. repeat split; auto.
  - (* CTxDel *) unfold tx_write, handle_open. destruct (nth_error (txs n) h) as [t|] eqn:E; simpl.
    2: { repeat split; auto; discriminate. }
    destruct (tx_open t) eqn:Ho; simpl.
    2: { repeat split; auto; discriminate. }
    rewrite (open_is_ro _ _ _ Hrw E Ho). simpl. repeat split; auto.
  - (* CTxCommit *) unfold tx_commit_h. destruct (nth_error (txs n) h) as [t|] eqn:E; simpl.
    2: { repeat split; auto; discriminate. }
    destruct (tx_open t) eqn:Ho; simpl.
    2: { repeat split; auto; discriminate. }
    rewrite (open_is_ro _ _ _ Hrw E Ho). simpl. repeat split; auto; try discriminate.
    unfold rw_open. simpl. apply existsb_upd_false; auto.
  - (* CTxRollback *) unfold tx_rollback_h. destruct (nth_error (txs n) h) as [t|] eqn:E; simpl.
    2: { repeat split; auto; discriminate. }
    destruct (tx_open t) eqn:Ho; simpl.
    2: { repeat split; auto; discriminate. }
    repeat split; auto; try discriminate.
    unfold rw_open. simpl. apply existsb_upd_false; auto.
  - (* SBatch *) destruct ops; simpl.
    1: { repeat split; auto; discriminate. }
    unfold oneshot. rewrite Hro, Hrw. simpl. repeat split; auto.
  - (* SBegin *) unfold begin_tx. rewrite Hro, Hrw. simpl. repeat split; auto; try discriminate.
    unfold rw_open. simpl. now apply existsb_app_false.
  - (* SCompact *) unfold oneshot. rewrite Hro, Hrw. destruct force; simpl; repeat split; auto; discriminate.
  - (* CLeakBegin *) unfold begin_tx. rewrite Hro, Hrw. simpl. repeat split; auto; try discriminate.
    unfold rw_open. simpl. now apply existsb_app_false.
  - (* CGeneric *) destruct mutates0; simpl.
    2: { repeat split; auto; discriminate. }
    destruct guarded; [|discriminate]. simpl. rewrite Hro. simpl. repeat split; auto.
Qed.

(* one action of a replica trace *)
Theorem ro_step : forall n a, ro_inv n -> safe_act a = true ->
  let x := step_act n a in
  ro_inv (fst x) /\
  match a with
  | AClient c => eng (fst x) = maint c (eng n) /\ (must_reject n c = true -> ro_class (snd x) = true)
  | ARepl r => (eng (fst x), snd x) = apply_eng (eng n) r
  | ASetRO _ => eng (fst x) = eng n
  end.
Proof.
  intros n a Hinv Hs. destruct a; simpl in *.
  - pose proof (client_step n c Hinv Hs) as H. simpl in H. tauto.
  - destruct Hinv as (Hro & Hrw). unfold ro_inv, step_repl. simpl.
    destruct (apply_eng (eng n) r); simpl. auto.
  - destruct b; [|discriminate]. destruct Hinv as (Hro & Hrw). unfold ro_inv. simpl. auto.
Qed.

(* whole traces: any interleaving of client calls with replication apply *)
(* what a trace does to the data: the applied entries, and a flush for each Compact(force) *)
Fixpoint repl_only (l : list act) : list rop :=
  match l with
  | [] => []
  | ARepl r :: t => r :: repl_only t
  | AClient (SCompact true) :: t => RSync :: repl_only t
  | _ :: t => repl_only t
  end.

Definition run_repl (e : st) (l : list rop) : st := fold_left (fun e r => fst (apply_eng e r)) l e.

Fixpoint all_rejected (n : node) (l : list act) : Prop :=
  match l with
  | [] => True
  | a :: r =>
    (match a with AClient c => must_reject n c = true -> ro_class (snd (step_act n a)) = true | _ => True end)
    /\ all_rejected (fst (step_act n a)) r
  end.

Theorem ro_trace : forall l n, ro_inv n -> forallb safe_act l = true ->
  let x := run_acts n l in
  ro_inv (fst x) /\ eng (fst x) = run_repl (eng n) (repl_only l) /\ all_rejected n l.
Proof.
  induction l as [|a l IH]; intros n Hinv Hs; simpl in *.
  - auto.
  - apply andb_true_iff in Hs. destruct Hs as (Ha & Hl).
    pose proof (ro_step n a Hinv Ha) as (Hinv' & Hstep). simpl in Hstep.
    specialize (IH (fst (step_act n a)) Hinv' Hl). simpl in IH.
    destruct IH as (I1 & I2 & I3).
    split; [exact I1|]. split.
    + rewrite I2. destruct a as [c|r|b]; simpl in *.
      * destruct Hstep as (E & _). rewrite E.
        destruct c; try reflexivity. destruct force; reflexivity.
      * reflexivity.
      * reflexivity.
    + split; [|exact I3]. destruct a; auto. tauto.
Qed.

(* non-vacuity of ro_trace: a replica trace in which every kind of client call occurs, entries
   are applied in between, and the data ends up being exactly the applied entries *)
Definition cfg0 : config := mkCfg 1000000 1000.
Definition rc_replica : rcfg := mkRcfg true true RReplica [49] [50] true.
Definition kA : bytes := [97].
Definition kB : bytes := [98].
Definition v1 : bytes := [1].
Definition v2 : bytes := [2].
Definition demo_trace : list act :=
  [ARepl (RPutE kA v1); AClient (CPut kA v2); AClient (SBegin false); AClient (CTxPut 0 kB v2);
   ARepl (RPutE kB v1); AClient (CTxCommit 0); AClient (SBatch [(kA, None)]); AClient (SCompact true);
   ARepl (RDelE kA); ARepl RSync; AClient (CDel kB); AClient (CBatch [(kA, Some v2)]);
   AClient (CLeakBegin false); AClient (CTxPut 1 kA v2); AClient (CTxCommit 1); ARepl (RMergeE kB v2)].

Example ro_trace_nonvacuous :
  let n0 := start rc_replica (init cfg0) in
  ro_inv n0 /\ forallb safe_act demo_trace = true /\
  let x := run_acts n0 demo_trace in
  node_get (fst x) kA = None /\ node_get (fst x) kB = Some v1 /\
  snd x = [ROk; RRoErr; ROk; RRoTx; ROk; ROk; RRoTx; ROk; ROk; ROk; RRoErr; RRoErr; ROk; RRoTx; ROk; ROk].
Proof. vm_compute. repeat split; reflexivity. Qed.

(* replicated operations still apply: the applier changes the data exactly as the engine's own
   write path does, whatever the flag says, and leaves the flag alone *)
Theorem apply_takes_effect : forall n r,
  step_repl n r = (set_eng n (fst (apply_eng (eng n) r)), snd (apply_eng (eng n) r)).
Proof. reflexivity. Qed.

(* every Apply is one facade call, so its unfolding into actions is the one-step apply: there
   is no point inside an Apply at which another thread could observe a cleared flag *)
Theorem expand_uninterrupted : forall n r b,
  expand b r = [ARepl r] /\ fst (run_acts n (expand b r)) = fst (step_repl n r).
Proof. intros. split; reflexivity. Qed.

Example apply_nonvacuous :
  let n0 := start rc_replica (init cfg0) in
  node_get (fst (step_repl n0 (RPutE kA v1))) kA = Some v1 /\
  node_get (fst (step_repl (fst (step_repl n0 (RPutE kA v1))) (RDelE kA))) kA = None /\
  (* a merge entry is accepted and changes nothing *)
  step_repl (fst (step_repl n0 (RPutE kA v1))) (RMergeE kA v2) = (fst (step_repl n0 (RPutE kA v1)), ROk) /\
  node_get (fst (run_acts n0 (expand true (RMergeE kA v2)))) kA = None.
Proof. vm_compute. repeat split; reflexivity. Qed.

(* a merge entry never changes the node, whatever its state *)
Theorem merge_no_effect : forall n k v, step_repl n (RMergeE k v) = (n, ROk).
Proof. intros. destruct n. reflexivity. Qed.

(* reads are served from the data whatever the flag says *)
Theorem reads_unaffected : forall n k univ,
  node_get n k = get (eng n) k /\
  node_scan n univ = node_scan (set_ro n (negb (ro n))) univ.
Proof. intros. split; reflexivity. Qed.

(* ---------- node information ---------- *)

Theorem node_info_truthful : forall n, has_mgr (rc n) = true ->
  i_role (node_info n) = mode (rc n) /\
  i_ro (node_info n) = ro n /\
  (mode (rc n) = RReplica -> i_paddr (node_info n) = primary_addr (rc n)) /\
  (mode (rc n) = RStandalone -> i_paddr (node_info n) = []).
Proof.
  intros n H. unfold node_info. rewrite H. simpl. repeat split; intros E; rewrite E; reflexivity.
Qed.

(* the reported flag is the one the guards read: "read-only" is reported iff a client put is
   refused with the read-only error *)
Theorem node_info_matches_behaviour : forall n k v, has_mgr (rc n) = true ->
  (i_ro (node_info n) = true <-> snd (step_client n (CPut k v)) = RRoErr).
Proof.
  intros n k v H. unfold node_info. rewrite H. simpl. destruct (ro n); simpl.
  - tauto.
  - split; [discriminate|]. unfold wr. destruct (snd (put (eng n) k v)); discriminate.
Qed.

(* a node started as an enabled replica with ForceReadOnly is a replica in the sense of ro_inv
   and says so *)
Theorem replica_start : forall c e, mode c = RReplica -> enabled c = true -> force_ro c = true ->
  ro_inv (start c e) /\ (has_mgr c = true -> node_info (start c e) = mkInfo RReplica (primary_addr c) true).
Proof.
  intros c e Hm He Hf. unfold start, ro_inv, node_info. rewrite Hm, He, Hf. simpl.
  repeat split. intros ->. simpl. rewrite Hm. reflexivity.
Qed.

Example node_info_nonvacuous :
  node_info (start rc_replica (init cfg0)) = mkInfo RReplica [49] true /\
  node_info (start (mkRcfg true true RPrimary [49] [50] true) (init cfg0)) = mkInfo RPrimary [50] false /\
  node_info (start (mkRcfg true true RStandalone [49] [50] true) (init cfg0)) = mkInfo RStandalone [] false /\
  node_info (start (mkRcfg false false RStandalone [] [] true) (init cfg0)) = mkInfo RStandalone [] false.
Proof. vm_compute. repeat split; reflexivity. Qed.

(* ---------- regression documentation: the two defects this check found ---------- *)
(* Both were repaired in /repo (b9d5905, 574c666); the model above describes the repaired code
   and ro_trace holds without exceptions for the accessor and for Merge entries. The module
   below keeps the old behaviour as explicit definitions and replays the two witnesses on it,
   so that the corpus cases leak-txmanager.case and race-merge.case stay explained. Nothing
   outside this module depends on it. *)
Module BeforeFixes.

  (* F1, before b9d5905: GetTransactionManager() returned the bare manager, whose begin does not
     look at the engine's flag *)
  Definition begin_unguarded (n : node) (want_ro : bool) : node * res :=
    if (if want_ro then rw_open n else any_open n) then (n, RBlocked)
    else (set_txs n (txs n ++ [mkTx (if want_ro then TxRO else TxRW) [] true false]), ROk).

  Example leak_witness :
    let n0 := start rc_replica (init cfg0) in
    let n1 := fst (begin_unguarded n0 false) in
    let x := run_acts n1 [AClient (CTxPut 0 kA v1); AClient (CTxCommit 0)] in
    ro_inv n0 /\ snd x = [ROk; ROk] /\ node_get (fst x) kA = Some v1 /\ node_get n0 kA = None /\
    ro (fst x) = true.
  Proof. vm_compute. repeat split; reflexivity. Qed.

  (* the repaired begin refuses the same program *)
  Example leak_closed :
    let n0 := start rc_replica (init cfg0) in
    let x := run_acts n0 [AClient (CLeakBegin false); AClient (CTxPut 0 kA v1); AClient (CTxCommit 0)] in
    snd x = [ROk; RRoTx; ROk] /\ node_get (fst x) kA = None.
  Proof. vm_compute. repeat split; reflexivity. Qed.

  (* F2, before 574c666: Apply of a Merge entry on a read-only engine was SetReadOnly(false);
     engine.Put (the guarded one); SetReadOnly(true). (574c666 routed it through PutInternal;
     8b33636 then made a merge entry have no effect at all, as on the primary.) *)
  Definition expand_old (is_ro : bool) (r : rop) : list act :=
    match r with
    | RMergeE k v => if is_ro then [ASetRO false; AClient (CPut k v); ASetRO true] else [ARepl r]
    | _ => [ARepl r]
    end.

  Example merge_window_witness :
    let n0 := start rc_replica (init cfg0) in
    let e := expand_old (ro n0) (RMergeE kA v1) in
    (* a client put scheduled between the first and the second facade call of Apply *)
    let t := firstn 1 e ++ [AClient (CPut kB v2)] ++ skipn 1 e in
    let x := run_acts n0 t in
    ro_inv n0 /\ must_reject n0 (CPut kB v2) = true /\
    nth_error (snd x) 1 = Some ROk /\ node_get (fst x) kB = Some v2 /\
    node_get (fst (step_repl n0 (RMergeE kA v1))) kB = None /\ ro (fst x) = true.
  Proof. vm_compute. repeat split; reflexivity. Qed.

  (* the repaired unfolding leaves no such point *)
  Example merge_window_closed :
    let n0 := start rc_replica (init cfg0) in
    let x := run_acts n0 (expand (ro n0) (RMergeE kA v1) ++ [AClient (CPut kB v2)]) in
    snd x = [ROk; RRoErr] /\ node_get (fst x) kA = None /\ node_get (fst x) kB = None.
  Proof. vm_compute. repeat split; reflexivity. Qed.

End BeforeFixes.

(* why ro_inv asks for "no read-write transaction open": one begun before the flag is set
   still commits afterwards (not reachable through cmd/kevo: the flag is set before the
   service is registered) *)
Example late_commit :
  let n0 := start (mkRcfg true true RPrimary [49] [50] true) (init cfg0) in
  let x := run_acts n0 [AClient (CBegin false); AClient (CTxPut 0 kA v1); ASetRO true; AClient (CTxCommit 0)] in
  ro (fst x) = true /\ node_get (fst x) kA = Some v1.
Proof. vm_compute. split; reflexivity. Qed.

(* a replica configured with ForceReadOnly = false accepts client writes (and says read_only =
   false): the premise force_ro of replica_start is needed *)
Example not_forced :
  let n0 := start (mkRcfg true true RReplica [49] [50] false) (init cfg0) in
  snd (step_client n0 (CPut kA v1)) = ROk /\ i_ro (node_info n0) = false /\ i_role (node_info n0) = RReplica.
Proof. vm_compute. repeat split; reflexivity. Qed.
