(* SSTFile.v — byte-exact model of a whole SSTable file: writer.go Writer.Finish (data blocks,
   filter section, index block, footer), footer.go Encode/Decode, bloom_filter.go
   (NewBloomFilter(0.01, 1000), Add, Contains, SaveToFile, LoadBloomFilter), reader.go
   OpenReader (footer, validateHeaderStructure, index block, filter section) and the view of
   an opened file as a logical table (SSTable.v) over which Reader.NewIterator and Reader.Get
   run. Model only; theorems are in SSTFileProofs.v. *)
From KV Require Export Bytes Engine Xxhash Block SSTable.
From KV.gen Require Import Consts.
Open Scope N_scope.

(* ---------- bloom filter ---------- *)

Definition fnv_off : N := 14695981039346656037.
Definition fnv_prime : N := 1099511628211.
(* hash/fnv New64a: xor the byte, then multiply (the prime is the left factor only because
   binary multiplication recurses on it and it has seven 1 bits) *)
Definition fnv_step (h x : N) : N := w64 (fnv_prime * N.lxor h x).
Definition fnv_from (h : N) (b : bytes) : N := fold_left fnv_step b h.
Definition fnv1a (b : bytes) : N := fnv_from fnv_off b.

(* size in bits, number of hash functions, expected elements, insertions, bit array *)
Record bloom := mkBl { bl_size : N; bl_k : N; bl_n : N; bl_ins : N; bl_bits : bytes }.

(* BloomFilter.hash: FNV-1a of key ++ (i as 8 little-endian bytes), modulo the size; kh is the
   FNV state after the key (fnv_from fnv_off key), computed once per key *)
Definition bl_hash_from (size : N) (kh : N) (i : N) : N := fnv_from kh (le 8 i) mod size.
Definition bl_hash (size : N) (key : bytes) (i : N) : N := bl_hash_from size (fnv1a key) i.

(* NewBloomFilter(0.01, 1000): calculateOptimalSize/HashFuncs are floating point; their
   results for these arguments are 9586 bits and 7 functions (checked on every run: the
   serialized header is compared byte for byte) *)
Definition bl_m : N := 9586.
Definition bl_kk : N := 7.
Definition bl_new : bloom := mkBl bl_m bl_kk 1000 0 (repeat 0 (N.to_nat ((bl_m + 7) / 8))).

Fixpoint set_nth (l : bytes) (i : nat) (f : N -> N) : bytes :=
  match l, i with
  | [], _ => []
  | x :: r, O => f x :: r
  | x :: r, S j => x :: set_nth r j f
  end.

Definition set_bit (bits : bytes) (p : N) : bytes :=
  set_nth bits (N.to_nat (p / 8)) (fun x => N.lor x (2 ^ (p mod 8))).
(* bits beyond the stored bytes are zero (the array is allocated zeroed and filled from the
   file as far as it goes); the guard keeps the model from converting huge indexes to nat *)
Definition test_bit (bits : bytes) (p : N) : bool :=
  if len bits <=? p / 8 then false
  else N.testbit (nth (N.to_nat (p / 8)) bits 0) (p mod 8).

Fixpoint bl_add_loop (fuel : nat) (size : N) (kh : N) (i : N) (bits : bytes) : bytes :=
  match fuel with
  | O => bits
  | S f => bl_add_loop f size kh (i + 1) (set_bit bits (bl_hash_from size kh i))
  end.
Definition bl_add (b : bloom) (key : bytes) : bloom :=
  mkBl (bl_size b) (bl_k b) (bl_n b) (bl_ins b + 1)
       (bl_add_loop (N.to_nat (bl_k b)) (bl_size b) (fnv1a key) 0 (bl_bits b)).

(* Contains: for i < k, stop at the first unset bit (k <= 64 for every loaded filter) *)
Fixpoint bl_contains_loop (fuel : nat) (b : bloom) (kh : N) (i : N) : bool :=
  match fuel with
  | O => true
  | S f => if bl_k b <=? i then true
           else if test_bit (bl_bits b) (bl_hash_from (bl_size b) kh i) then bl_contains_loop f b kh (i + 1)
           else false
  end.
Definition bl_contains (b : bloom) (key : bytes) : bool := bl_contains_loop 65 b (fnv1a key) 0.

(* SaveToFile *)
Definition bl_bytes (b : bloom) : bytes :=
  le 8 (bl_size b) ++ le 8 (bl_k b) ++ le 8 (bl_n b) ++ le 8 (bl_ins b) ++ bl_bits b.

(* the filter the writer builds for one data block *)
Definition bl_of_block (b : block) : bloom := fold_left bl_add (map sk b) bl_new.

(* LoadBloomFilter on the bytes of one filter (the header is accepted only if it describes
   exactly the bit array stored behind it; None = error, the reader then skips the filter) *)
Definition bl_max_k : N := 64.

Definition bl_load (fb : bytes) : option bloom :=
  if len fb <? 32 then None else                    (* io.ReadFull(header) *)
  let size := unle (firstn 8 fb) in
  let k := unle (firstn 8 (skipn 8 fb)) in
  let n := unle (firstn 8 (skipn 16 fb)) in
  let ins := unle (firstn 8 (skipn 24 fb)) in
  if (size =? 0) || (k =? 0) || (bl_max_k <? k) then None else
  if (18446744073709551608 <? size) || negb ((size + 7) / 8 =? len fb - 32) then None else
  Some (mkBl size k n ins (skipn 32 fb)).

(* ---------- footer ---------- *)

Definition FSIZE : N := footer_FooterSize.
Definition FMAGIC : N := footer_FooterMagic.
Definition FVERSION : N := footer_CurrentVersion.

Definition enc_footer (ts ioff isize nent boff bsize : N) : bytes :=
  let b := le 8 FMAGIC ++ le 4 FVERSION ++ le 8 ts ++ le 8 ioff ++ le 4 isize ++ le 4 nent ++
           le 4 0 ++ le 4 0 ++ le 8 boff ++ le 4 bsize ++ [0; 0; 0; 0] in
  b ++ le 8 (xxh64 b).

Record footer := mkFt { ft_version : N; ft_ts : N; ft_ioff : N; ft_isize : N; ft_nent : N;
                        ft_boff : N; ft_bsize : N }.

Inductive oerr := ETooSmall | EMagic | EFooterSum | EStructure | EIndex (e : berr) | EBloomSize.

(* footer.Decode *)
Definition dec_footer (d : bytes) : footer + oerr :=
  if len d <? FSIZE then inr ETooSmall else
  let magic := unle (slice d 0 8) in
  let version := unle (slice d 8 4) in
  let legacy := version <? 2 in
  let boff := if legacy then 0 else unle (slice d 44 8) in
  let bsize := if legacy then 0 else unle (slice d 52 4) in
  let ck := if legacy then unle (slice d 44 8) else unle (slice d 60 8) in
  if negb (magic =? FMAGIC) then inr EMagic else
  let expect := if legacy then xxh64 (slice d 0 44) else xxh64 (slice d 0 60) in
  if negb (ck =? expect) then inr EFooterSum else
  inl (mkFt version (unle (slice d 12 8)) (unle (slice d 20 8)) (unle (slice d 28 4))
            (unle (slice d 32 4)) boff bsize).

(* validateHeaderStructure *)
Definition validate_header (ft : footer) (fsize : N) : bool :=
  let iend := ft_ioff ft + ft_isize ft in
  let fstart := fsize - FSIZE in
  (ft_ioff ft <? fsize) && negb (ft_isize ft =? 0) && (iend <=? fsize) && (iend <=? fstart) &&
  (if 0 <? ft_boff ft
   then (ft_boff ft <? fsize) && negb (ft_bsize ft =? 0) &&
        (ft_boff ft + ft_bsize ft <=? fsize) && (ft_boff ft + ft_bsize ft <=? fstart)
   else true) &&
  negb (ft_nent ft =? 0).

(* ---------- writer ---------- *)

(* the data blocks with their offsets *)
Fixpoint place_blocks (bs : list bytes) (off : N) : list (N * bytes) :=
  match bs with
  | [] => []
  | b :: r => (off, b) :: place_blocks r (off + len b)
  end.

Definition locator (off size : N) : bytes := le 8 off ++ le 4 size.

(* the pieces of a file: data blocks (offset, bytes), filters (block offset, filter bytes),
   index block, footer *)
Record fparts := mkFP { fp_blocks : list (N * bytes); fp_filters : list (N * bytes);
                        fp_index : bytes; fp_footer : bytes }.

Definition filter_entry (ob : N * bytes) : bytes := le 8 (fst ob) ++ le 4 (len (snd ob)) ++ snd ob.
Definition filters_bytes (fs : list (N * bytes)) : bytes := concat (map filter_entry fs).

Definition unopt (o : option bytes) : bytes := match o with Some b => b | None => [] end.
Definition is_some (o : option bytes) : bool := match o with Some _ => true | None => false end.

(* None: Finish fails *)
Definition file_parts (bloom : bool) (ts : N) (es : list sentry) : option fparts :=
  let blocks := cut es in
  let encs := map encode_block blocks in
  if forallb is_some encs then
    let placed := place_blocks (map unopt encs) 0 in
    let dlen := len (concat (map snd placed)) in
    let filters :=
      if bloom then map (fun ob => (fst ob, bl_bytes (bl_of_block (snd ob)))) (combine (map fst placed) blocks)
      else [] in
    let flen := len (filters_bytes filters) in
    let has := bloom && negb (match blocks with [] => true | _ => false end) in
    let ients := map (fun pb => mkS (bfirst (snd pb)) 0 (Some (locator (fst (fst pb)) (len (snd (fst pb))))))
                     (combine placed blocks) in
    match encode_block ients with
    | None => None
    | Some ib =>
      Some (mkFP placed filters ib
                 (enc_footer ts (dlen + flen) (len ib) (N.of_nat (length es))
                             (if has then dlen else 0) (if has then flen else 0)))
    end
  else None.

Definition parts_bytes (p : fparts) : bytes :=
  concat (map snd (fp_blocks p)) ++ filters_bytes (fp_filters p) ++ fp_index p ++ fp_footer p.

Definition encode_file (bloom : bool) (ts : N) (es : list sentry) : option bytes :=
  option_map parts_bytes (file_parts bloom ts es).

(* ---------- reader ---------- *)

(* the loop of OpenReader over the filter section; p = position in the section *)
Fixpoint load_filters (fuel : nat) (sec : bytes) (p : N) (acc : list (N * bloom)) : list (N * bloom) + oerr :=
  match fuel with
  | O => inl (rev acc)
  | S f =>
    let total := len sec in
    if total <=? p then inl (rev acc) else
    if total <? p + 12 then inl (rev acc) else
    let boff := unle (slice sec p 8) in
    let fsz := unle (slice sec (p + 8) 4) in
    let p1 := p + 12 in
    (* validateBloomFilterSize *)
    if (fsz =? 0) || (total <? fsz) || (total <? p1 + fsz) || (67108864 <? fsz) then inr EBloomSize else
    match bl_load (slice sec p1 fsz) with
    | None => load_filters f sec (p1 + fsz) acc        (* this filter is skipped *)
    | Some b => load_filters f sec (p1 + fsz) ((boff, b) :: acc)
    end
  end.

Record reader := mkRd { rd_data : bytes; rd_footer : footer; rd_index : breader;
                        rd_hasf : bool; rd_filters : list (N * bloom) }.

Definition open_file (d : bytes) : reader + oerr :=
  let fsize := len d in
  if fsize <? FSIZE then inr ETooSmall else
  match dec_footer (slice d (fsize - FSIZE) FSIZE) with
  | inr e => inr e
  | inl ft =>
    if negb (validate_header ft fsize) then inr EStructure else
    match new_reader (slice d (ft_ioff ft) (ft_isize ft)) with
    | inr e => inr (EIndex e)
    | inl ix =>
      let has := (0 <? ft_boff ft) && (0 <? ft_bsize ft) in
      if has then
        match load_filters (S (N.to_nat (ft_bsize ft))) (slice d (ft_boff ft) (ft_bsize ft)) 0 [] with
        | inr e => inr e
        | inl fs => inl (mkRd d ft ix true fs)
        end
      else inl (mkRd d ft ix false [])
    end
  end.

(* BlockFetcher.FetchBlock: the decoded entries of the data block, None if reading or
   block.NewReader fails *)
Definition fetch_block (d : bytes) (off size : N) : option (list sentry) :=
  if len d <? off + size then None else decode_block (slice d off size).

(* ParseBlockLocator *)
Definition parse_locator (v : option bytes) : option (N * N) :=
  match v with
  | Some b => if len b <? 12 then None else Some (unle (firstn 8 b), unle (firstn 4 (skipn 8 b)))
  | None => None
  end.

Fixpoint find_filter (fs : list (N * bloom)) (off : N) : option bloom :=
  match fs with
  | [] => None
  | (o, b) :: r => if o =? off then Some b else find_filter r off
  end.

(* the opened file as a logical table: index keys from the index block, data blocks decoded
   on demand (bad = cannot be fetched), filters looked up by block offset *)
Definition view (r : reader) : table :=
  let ients := block_scan (rd_index r) in
  let locs := map (fun e => parse_locator (sval e)) ients in
  let blocks := map (fun l => match l with
                              | Some (off, size) => fetch_block (rd_data r) off size
                              | None => None
                              end) locs in
  mkT (map sk ients)
      (map (fun o => match o with Some b => b | None => [] end) blocks)
      (rd_hasf r)
      (fun j => match nth j locs None with
                | Some (off, _) => option_map bl_contains (find_filter (rd_filters r) off)
                | None => None
                end)
      (fun j => match nth j blocks (Some []) with Some _ => false | None => true end).

Definition read_file (d : bytes) : table + oerr :=
  match open_file d with inl r => inl (view r) | inr e => inr e end.

(* one byte of the file altered *)
Fixpoint upd (d : bytes) (i : nat) (b : N) : bytes :=
  match d, i with
  | [], _ => []
  | _ :: r, O => b :: r
  | x :: r, S j => x :: upd r j b
  end.
