(* SSTableProofs.v — C11, logical layer: for EVERY partition of a strictly ascending entry
   list into non-empty blocks, the table iterator (SeekToFirst/Next/Seek/SeekToLast) and
   Reader.Get of SSTable.v read back exactly the list; the writer's cut rule produces such a
   partition. No axioms. *)
From Coq Require Import List NArith Arith PeanoNat Bool Lia Sorted.
From KV Require Import Bytes Engine SSTable MemtableProofs.
From KV.gen Require Import Consts.
Import ListNotations.
Open Scope N_scope.

(* ------------------------------------------------------------------------------------- *)
(* 0. order and list helpers                                                              *)
(* ------------------------------------------------------------------------------------- *)

Definition klt (a b : sentry) : Prop := blt (sk a) (sk b) = true.

Lemma ascending_cons : forall a r, ascending (a :: r) = true ->
  ascending r = true /\ match r with b :: _ => klt a b | [] => True end.
Proof.
  intros a [|b r] H; cbn in *; [auto|].
  apply andb_true_iff in H. destruct H as [H1 H2]. split; assumption.
Qed.

Lemma ascending_strong : forall es, ascending es = true -> StronglySorted klt es.
Proof.
  induction es as [|a r IH]; intros H; [constructor|].
  apply ascending_cons in H. destruct H as [Hr Hh].
  specialize (IH Hr). constructor; [exact IH|].
  destruct r as [|b r]; [constructor|].
  apply StronglySorted_inv in IH. destruct IH as [_ Hb].
  constructor; [exact Hh|].
  eapply Forall_impl; [|exact Hb]. intros c Hc. unfold klt in *. eapply blt_trans; eauto.
Qed.

Lemma ss_app_inv : forall (l1 l2 : list sentry), StronglySorted klt (l1 ++ l2) ->
  StronglySorted klt l1 /\ StronglySorted klt l2 /\
  (forall x y, In x l1 -> In y l2 -> klt x y).
Proof.
  induction l1 as [|a l1 IH]; intros l2 H; cbn in *.
  - split; [constructor|]. split; [exact H|]. intros x y [].
  - apply StronglySorted_inv in H. destruct H as [H Ha].
    destruct (IH _ H) as [S1 [S2 C]]. split; [|split].
    + constructor; [exact S1|]. apply Forall_app in Ha. tauto.
    + exact S2.
    + intros x y [->|Hx] Hy.
      * rewrite Forall_forall in Ha. apply Ha. apply in_or_app. right. exact Hy.
      * apply C; assumption.
Qed.

Lemma ble_false_blt : forall a b, ble a b = false -> blt b a = true.
Proof. intros a b H. rewrite ble_negb_blt in H. apply negb_false_iff in H. exact H. Qed.

Lemma blt_ble_false : forall a b, blt b a = true -> ble a b = false.
Proof. intros a b H. rewrite ble_negb_blt, H. reflexivity. Qed.

Lemma ble_true_not_blt : forall a b, ble a b = true -> blt b a = false.
Proof. intros a b H. rewrite ble_negb_blt in H. apply negb_true_iff in H. exact H. Qed.

Lemma blt_ble : forall a b, blt a b = true -> ble a b = true.
Proof. intros a b H. rewrite ble_negb_blt. rewrite (blt_asym _ _ H). reflexivity. Qed.

Lemma ble_refl : forall a, ble a a = true.
Proof. intros a. rewrite ble_negb_blt, blt_irrefl. reflexivity. Qed.

(* a <= b < c -> a < c ;  a < b <= c -> a < c *)
Lemma ble_blt_trans : forall a b c, ble a b = true -> blt b c = true -> blt a c = true.
Proof.
  intros a b c H1 H2. apply ble_true_not_blt in H1.
  destruct (blt_trichotomy a b) as [L|[E|G]].
  - eapply blt_trans; eauto.
  - subst. exact H2.
  - congruence.
Qed.

Lemma blt_ble_trans : forall a b c, blt a b = true -> ble b c = true -> blt a c = true.
Proof.
  intros a b c H1 H2. apply ble_true_not_blt in H2.
  destruct (blt_trichotomy b c) as [L|[E|G]].
  - eapply blt_trans; eauto.
  - subst. exact H1.
  - congruence.
Qed.

Lemma beq_ble : forall a b, beq a b = true -> ble b a = true /\ ble a b = true.
Proof. intros a b H. apply beq_true_iff in H. subst. split; apply ble_refl. Qed.

Lemma blt_not_beq : forall a b, blt a b = true -> beq a b = false.
Proof.
  intros a b H. apply beq_false_iff. intros ->. rewrite blt_irrefl in H. discriminate.
Qed.

Lemma find_app_l : forall (A : Type) (p : A -> bool) l1 l2 x,
  find p l1 = Some x -> find p (l1 ++ l2) = Some x.
Proof.
  induction l1 as [|a l1 IH]; intros l2 x H; cbn in *; [discriminate|].
  destruct (p a); [exact H|]. apply IH. exact H.
Qed.

Lemma find_app_none : forall (A : Type) (p : A -> bool) l1 l2,
  Forall (fun y => p y = false) l1 -> find p (l1 ++ l2) = find p l2.
Proof.
  induction l1 as [|a l1 IH]; intros l2 H; cbn; [reflexivity|].
  inversion H; subst. rewrite H2. apply IH. assumption.
Qed.

Lemma find_none_forall : forall (A : Type) (p : A -> bool) l,
  Forall (fun y => p y = false) l -> find p l = None.
Proof.
  intros A p l H. rewrite <- (app_nil_r l). rewrite find_app_none by exact H. reflexivity.
Qed.

Lemma nth_error_middle : forall (A : Type) (l l' : list A) a,
  nth_error (l ++ a :: l') (length l) = Some a.
Proof.
  intros A l l' a. rewrite nth_error_app2 by lia. rewrite Nat.sub_diag. reflexivity.
Qed.

Lemma concat_middle : forall (A : Type) (p : list (list A)) b q,
  concat (p ++ b :: q) = concat p ++ b ++ concat q.
Proof. intros. rewrite concat_app. cbn. reflexivity. Qed.

(* ------------------------------------------------------------------------------------- *)
(* 1. the writer's cut rule yields a partition into non-empty blocks                      *)
(* ------------------------------------------------------------------------------------- *)

Definition nonempty_blocks (bs : list block) : Prop := Forall (fun b => b <> []) bs.

Lemma cut_from_concat : forall es b, concat (cut_from b es) = rev (bs_rev b) ++ es.
Proof.
  induction es as [|e es IH]; intros b; cbn [cut_from].
  - destruct (bs_rev b) as [|x r] eqn:E; cbn; [reflexivity|].
    rewrite !app_nil_r. reflexivity.
  - destruct (sstable_IndexKeyInterval <=? bs_est (bs_add b e)).
    + cbn [concat]. rewrite IH. cbn. rewrite <- app_assoc. reflexivity.
    + rewrite IH. cbn. rewrite <- app_assoc. reflexivity.
Qed.

Lemma cut_from_nonempty : forall es b, nonempty_blocks (cut_from b es).
Proof.
  induction es as [|e es IH]; intros b; cbn [cut_from].
  - destruct (bs_rev b) as [|x r] eqn:E; [constructor|].
    constructor; [|constructor]. intros H. apply (f_equal (@length _)) in H.
    cbn in H. rewrite app_length in H. cbn in H. lia.
  - destruct (sstable_IndexKeyInterval <=? bs_est (bs_add b e)).
    + constructor; [|apply IH]. cbn. intros H. apply (f_equal (@length _)) in H.
      rewrite app_length in H. cbn in H. lia.
    + apply IH.
Qed.

Theorem cut_partition : forall es, concat (cut es) = es /\ nonempty_blocks (cut es).
Proof.
  intros es. unfold cut. split; [rewrite cut_from_concat; reflexivity|apply cut_from_nonempty].
Qed.

(* ------------------------------------------------------------------------------------- *)
(* 2. find_ge / find_le on projected key lists, in zipper form                            *)
(* ------------------------------------------------------------------------------------- *)

Lemma find_ge_some : forall (A : Type) (f : A -> bytes) t l i,
  find_ge t (map f l) = Some i ->
  exists pre x post, l = pre ++ x :: post /\ length pre = i /\ ble t (f x) = true /\
                     Forall (fun y => ble t (f y) = false) pre.
Proof.
  intros A f t. induction l as [|a l IH]; intros i H; cbn in H; [discriminate|].
  destruct (ble t (f a)) eqn:E.
  - inversion H; subst. exists [], a, l. repeat split; auto.
  - destruct (find_ge t (map f l)) as [i'|] eqn:F; cbn in H; [|discriminate].
    inversion H; subst. destruct (IH _ eq_refl) as (pre & x & post & -> & Hl & Hx & Hp).
    exists (a :: pre), x, post. cbn. repeat split; auto.
Qed.

Lemma find_ge_none : forall (A : Type) (f : A -> bytes) t l,
  find_ge t (map f l) = None -> Forall (fun y => ble t (f y) = false) l.
Proof.
  intros A f t. induction l as [|a l IH]; intros H; cbn in H; [constructor|].
  destruct (ble t (f a)) eqn:E; [discriminate|].
  destruct (find_ge t (map f l)) eqn:F; cbn in H; [discriminate|].
  constructor; auto.
Qed.

Lemma find_le_some : forall (A : Type) (f : A -> bytes) t l j,
  find_le t (map f l) = Some j ->
  exists pre x post, l = pre ++ x :: post /\ length pre = j /\ ble (f x) t = true /\
                     match post with y :: _ => ble (f y) t = false | [] => True end.
Proof.
  intros A f t. induction l as [|a l IH]; intros j H; cbn in H; [discriminate|].
  destruct (ble (f a) t) eqn:E; [|discriminate].
  destruct (find_le t (map f l)) as [i'|] eqn:F.
  - inversion H; subst. destruct (IH _ eq_refl) as (pre & x & post & -> & Hl & Hx & Hp).
    exists (a :: pre), x, post. cbn. repeat split; auto.
  - inversion H; subst. exists [], a, l. repeat split; auto.
    destruct l as [|y l]; [exact I|]. cbn in F. destruct (ble (f y) t); [discriminate|reflexivity].
Qed.

Lemma find_le_none : forall (A : Type) (f : A -> bytes) t l,
  find_le t (map f l) = None -> match l with y :: _ => ble (f y) t = false | [] => True end.
Proof.
  intros A f t [|a l] H; [exact I|]. cbn in H. destruct (ble (f a) t); [discriminate|reflexivity].
Qed.

(* ------------------------------------------------------------------------------------- *)
(* 3. iterator states as zippers over the block list                                      *)
(* ------------------------------------------------------------------------------------- *)

Definition keys_ok (es : list sentry) : Prop := Forall (fun e => key_nonempty (sk e) = true) es.

Record wf_table (tb : table) : Prop := {
  wf_nonempty : nonempty_blocks (t_blocks tb);
  wf_keys : keys_ok (concat (t_blocks tb));
  wf_good : forall j, t_bad tb j = false;    (* every data block can be fetched *)
  wf_ikeys : ikeys tb = map bfirst (t_blocks tb)
}.

Definition st_at (j i : nat) : titer :=
  mkTI true (mkBI true (Some j)) (Some (j, mkBI true (Some i))) false.
Definition st_end : titer := mkTI true (mkBI true None) None false.

(* the iterator stands on e, with `before` already passed and `after` still to come *)
Definition rep (tb : table) (it : titer) (before : list sentry) (e : sentry) (after : list sentry) : Prop :=
  exists pre_bs pre_es post_es post_bs,
    t_blocks tb = pre_bs ++ (pre_es ++ e :: post_es) :: post_bs /\
    before = concat pre_bs ++ pre_es /\ after = post_es ++ concat post_bs /\
    it = st_at (length pre_bs) (length pre_es).

Lemma rep_entries : forall tb it before e after,
  rep tb it before e after -> concat (t_blocks tb) = before ++ e :: after.
Proof.
  intros tb it before e after (pb & pe & qe & qb & Hb & -> & -> & _).
  rewrite Hb, concat_middle. rewrite <- !app_assoc. cbn. reflexivity.
Qed.

Lemma keys_ok_in : forall es e, keys_ok es -> In e es -> key_nonempty (sk e) = true.
Proof. intros es e H. unfold keys_ok in H. rewrite Forall_forall in H. apply H. Qed.

Lemma bfirst_nonempty : forall tb b, wf_table tb -> In b (t_blocks tb) ->
  key_nonempty (bfirst b) = true.
Proof.
  intros tb b [Hn Hk _ _] Hin. unfold nonempty_blocks in Hn. rewrite Forall_forall in Hn.
  specialize (Hn _ Hin). destruct b as [|e b]; [congruence|]. cbn.
  eapply keys_ok_in; [exact Hk|]. apply in_concat. exists (e :: b). split; [exact Hin|left; reflexivity].
Qed.

Lemma ikeys_middle : forall tb pb b qb, wf_table tb -> t_blocks tb = pb ++ b :: qb ->
  ikeys tb = map bfirst pb ++ bfirst b :: map bfirst qb.
Proof. intros tb pb b qb W H. rewrite (wf_ikeys _ W). rewrite H, map_app. reflexivity. Qed.

Lemma bkeys_middle : forall tb pb b qb, t_blocks tb = pb ++ b :: qb ->
  bkeys tb (length pb) = map sk b.
Proof. intros tb pb b qb H. unfold bkeys. rewrite H, nth_middle. reflexivity. Qed.

Lemma nth_block_middle : forall tb pb b qb, t_blocks tb = pb ++ b :: qb ->
  nth (length pb) (t_blocks tb) [] = b.
Proof. intros tb pb b qb H. rewrite H. apply nth_middle. Qed.

Lemma ix_valid_middle : forall tb pb b qb, wf_table tb -> t_blocks tb = pb ++ b :: qb ->
  bi_valid (ikeys tb) (mkBI true (Some (length pb))) = true.
Proof.
  intros tb pb b qb W H. unfold bi_valid, bi_key. cbn [bi_cur].
  rewrite (ikeys_middle _ _ _ _ W H).
  replace (length pb) with (length (map bfirst pb)) by apply map_length.
  rewrite nth_error_middle. eapply bfirst_nonempty; [exact W|].
  rewrite H. apply in_or_app. right. left. reflexivity.
Qed.

Lemma load_middle : forall tb pb b qb, wf_table tb -> t_blocks tb = pb ++ b :: qb ->
  ti_load tb (mkBI true (Some (length pb))) = (Some (length pb, bi_fresh), false).
Proof.
  intros tb pb b qb W H. unfold ti_load. rewrite (ix_valid_middle _ _ _ _ W H). cbn [bi_cur].
  rewrite (wf_good _ W). reflexivity.
Qed.

Lemma rep_in : forall tb it before e after, rep tb it before e after ->
  In e (concat (t_blocks tb)).
Proof.
  intros. rewrite (rep_entries _ _ _ _ _ H). apply in_or_app. right. left. reflexivity.
Qed.

Lemma rep_cur : forall tb it before e after, wf_table tb ->
  rep tb it before e after -> ti_cur tb it = Some e /\ ti_valid tb it = true.
Proof.
  intros tb it before e after W R.
  pose proof (keys_ok_in _ _ (wf_keys _ W) (rep_in _ _ _ _ _ R)) as Hk.
  destruct R as (pb & pe & qe & qb & Hb & _ & _ & ->).
  assert (V : ti_valid tb (st_at (length pb) (length pe)) = true).
  { unfold ti_valid, st_at. cbn [ti_init ti_blk andb].
    unfold bi_valid, bi_key. cbn [bi_cur]. rewrite (bkeys_middle _ _ _ _ Hb).
    rewrite map_app. cbn [map].
    replace (length pe) with (length (map sk pe)) by apply map_length.
    rewrite nth_error_middle. exact Hk. }
  split; [|exact V]. unfold ti_cur. rewrite V. unfold st_at. cbn [ti_blk bi_cur].
  rewrite (nth_block_middle _ _ _ _ Hb). apply nth_error_middle.
Qed.

Lemma end_cur : forall tb, ti_cur tb st_end = None /\ ti_valid tb st_end = false.
Proof. intros tb. unfold ti_cur, ti_valid, st_end. cbn. split; reflexivity. Qed.

Lemma end_next : forall tb, ti_next tb st_end = (st_end, false).
Proof. intros tb. unfold ti_next, st_end, ti_load, bi_valid, bi_key. cbn. reflexivity. Qed.

(* moving to the first entry of the block after pb ++ [b] *)
Lemma app_cons_assoc : forall (A : Type) (p : list A) b q, p ++ b :: q = (p ++ [b]) ++ q.
Proof. intros. rewrite <- app_assoc. reflexivity. Qed.

Lemma length_snoc : forall (A : Type) (p : list A) b, length (p ++ [b]) = S (length p).
Proof. intros. rewrite app_length. cbn. lia. Qed.

(* one step of the index iterator from block |pb| *)
Lemma ix_next_middle : forall tb pb b qb, wf_table tb -> t_blocks tb = pb ++ b :: qb ->
  bi_next (ikeys tb) (mkBI true (Some (length pb))) =
  match qb with
  | [] => (mkBI true None, false)
  | _ :: _ => (mkBI true (Some (S (length pb))), true)
  end.
Proof.
  intros tb pb b qb W H. unfold bi_next. cbn [bi_init bi_cur negb].
  rewrite (wf_ikeys _ W). rewrite H, map_length, app_length. cbn [length].
  destruct qb as [|b' qb]; cbn [length].
  - replace (Nat.ltb (S (length pb)) (length pb + 1)) with false; [reflexivity|].
    symmetry. apply Nat.ltb_ge. lia.
  - replace (Nat.ltb (S (length pb)) (length pb + S (S (length qb)))) with true; [reflexivity|].
    symmetry. apply Nat.ltb_lt. lia.
Qed.

Lemma first_of_block : forall tb pb e r qb, wf_table tb -> t_blocks tb = pb ++ (e :: r) :: qb ->
  bi_first (bkeys tb (length pb)) = mkBI true (Some 0%nat) /\
  bi_valid (bkeys tb (length pb)) (mkBI true (Some 0%nat)) = true.
Proof.
  intros tb pb e r qb W H. rewrite (bkeys_middle _ _ _ _ H). cbn. split; [reflexivity|].
  unfold bi_valid, bi_key. cbn. eapply keys_ok_in; [exact (wf_keys _ W)|].
  rewrite H, concat_middle. apply in_or_app. right. left. reflexivity.
Qed.

Lemma block_nonempty_in : forall tb b, wf_table tb -> In b (t_blocks tb) -> exists e r, b = e :: r.
Proof.
  intros tb b W Hin. pose proof (wf_nonempty _ W) as Hn. unfold nonempty_blocks in Hn.
  rewrite Forall_forall in Hn. specialize (Hn _ Hin). destruct b as [|e r]; [congruence|eauto].
Qed.

(* advanceToNextBlock / seekInNextBlocks from block |pb| *)
Lemma advance_middle : forall tb pb b qb, wf_table tb -> t_blocks tb = pb ++ b :: qb ->
  ti_advance tb (mkBI true (Some (length pb))) false =
  match qb with
  | [] => (st_end, false)
  | _ :: _ => (st_at (S (length pb)) 0, true)
  end.
Proof.
  intros tb pb b qb W H. unfold ti_advance. cbn [ix_next_valid].
  rewrite (ix_next_middle _ _ _ _ W H). destruct qb as [|b' qb]; [reflexivity|].
  assert (H' : t_blocks tb = (pb ++ [b]) ++ b' :: qb) by (rewrite H; apply app_cons_assoc).
  pose proof (ix_valid_middle _ _ _ _ W H') as V. rewrite length_snoc in V. rewrite V.
  pose proof (load_middle _ _ _ _ W H') as L. rewrite length_snoc in L. rewrite L.
  destruct (block_nonempty_in tb b' W) as (e & r & ->).
  { rewrite H. apply in_or_app. right. right. left. reflexivity. }
  destruct (first_of_block _ _ _ _ _ W H') as [F1 F2]. rewrite length_snoc in F1, F2.
  rewrite F1, F2. reflexivity.
Qed.

Lemma seek_next_middle : forall tb pb b qb f, wf_table tb -> t_blocks tb = pb ++ b :: qb ->
  ti_seek_next tb (S f) (mkBI true (Some (length pb))) =
  match qb with
  | [] => (st_end, false)
  | _ :: _ => (st_at (S (length pb)) 0, true)
  end.
Proof.
  intros tb pb b qb f W H. cbn [ti_seek_next].
  rewrite (ix_next_middle _ _ _ _ W H). destruct qb as [|b' qb]; [reflexivity|].
  assert (H' : t_blocks tb = (pb ++ [b]) ++ b' :: qb) by (rewrite H; apply app_cons_assoc).
  pose proof (load_middle _ _ _ _ W H') as L. rewrite length_snoc in L. rewrite L.
  destruct (block_nonempty_in tb b' W) as (e & r & ->).
  { rewrite H. apply in_or_app. right. right. left. reflexivity. }
  destruct (first_of_block _ _ _ _ _ W H') as [F1 F2]. rewrite length_snoc in F1, F2.
  rewrite F1, F2. reflexivity.
Qed.

(* the state at the first entry of the block that follows pb ++ [b] represents ... *)
Lemma rep_block_start : forall tb pb b e r qb, t_blocks tb = pb ++ b :: (e :: r) :: qb ->
  rep tb (st_at (S (length pb)) 0) (concat pb ++ b) e (r ++ concat qb).
Proof.
  intros tb pb b e r qb H. exists (pb ++ [b]), [], r, qb. repeat split.
  - rewrite H. cbn. apply app_cons_assoc.
  - rewrite concat_app. cbn. rewrite !app_nil_r. reflexivity.
  - rewrite length_snoc. reflexivity.
Qed.

(* ------------------------------------------------------------------------------------- *)
(* 4. Next                                                                                *)
(* ------------------------------------------------------------------------------------- *)

Lemma rep_next : forall tb it before e after, wf_table tb -> rep tb it before e after ->
  match after with
  | [] => ti_next tb it = (st_end, false)
  | e' :: after' => rep tb (fst (ti_next tb it)) (before ++ [e]) e' after' /\ snd (ti_next tb it) = true
  end.
Proof.
  intros tb it before e after W (pb & pe & qe & qb & Hb & -> & -> & ->).
  unfold ti_next, st_at. cbn [ti_init negb ti_blk ti_ix ti_err].
  rewrite (bkeys_middle _ _ _ _ Hb).
  unfold bi_next. cbn [bi_init negb bi_cur].
  rewrite map_length, app_length. cbn [length].
  destruct qe as [|e' qe]; cbn [length app].
  - replace (Nat.ltb (S (length pe)) (length pe + 1)) with false
      by (symmetry; apply Nat.ltb_ge; lia).
    rewrite (advance_middle _ _ _ _ W Hb).
    destruct qb as [|b' qb]; cbn [concat]; [reflexivity|].
    destruct (block_nonempty_in tb b' W) as (e' & r & ->).
    { rewrite Hb. apply in_or_app. right. right. left. reflexivity. }
    cbn [fst snd app]. split; [|reflexivity].
    pose proof (rep_block_start _ _ _ _ _ _ Hb) as R.
    rewrite <- app_assoc. exact R.
  - replace (Nat.ltb (S (length pe)) (length pe + S (S (length qe)))) with true
      by (symmetry; apply Nat.ltb_lt; lia).
    cbn [fst snd]. split; [|reflexivity].
    exists pb, (pe ++ [e]), qe, qb. repeat split.
    + rewrite Hb. rewrite <- app_assoc. reflexivity.
    + rewrite app_assoc. reflexivity.
    + rewrite length_snoc. reflexivity.
Qed.

(* forward iteration from a represented position yields exactly the rest *)
Lemma collect_rep : forall tb after it before e fuel, wf_table tb -> rep tb it before e after ->
  (length after < fuel)%nat -> collect tb fuel it = e :: after.
Proof.
  intros tb after. induction after as [|e' after IH]; intros it before e fuel W R Hf.
  - destruct fuel as [|fuel]; [cbn in Hf; lia|]. cbn [collect].
    destruct (rep_cur _ _ _ _ _ W R) as [C _]. rewrite C.
    pose proof (rep_next _ _ _ _ _ W R) as N. cbn in N. rewrite N. cbn [fst].
    destruct fuel; cbn [collect]; [reflexivity|].
    destruct (end_cur tb) as [C' _]. rewrite C'. reflexivity.
  - destruct fuel as [|fuel]; [cbn in Hf; lia|]. cbn [collect].
    destruct (rep_cur _ _ _ _ _ W R) as [C _]. rewrite C.
    pose proof (rep_next _ _ _ _ _ W R) as N. cbn in N. destruct N as [N _].
    f_equal. eapply IH; [exact W|exact N|]. cbn in Hf. lia.
Qed.

Lemma collect_end : forall tb fuel, collect tb fuel st_end = [].
Proof. intros tb [|f]; cbn [collect]; [reflexivity|]. destruct (end_cur tb) as [C _]. rewrite C. reflexivity. Qed.

Lemma nexts_end : forall tb n, nexts tb n st_end = st_end.
Proof.
  intros tb n. induction n as [|n IH]; [reflexivity|]. cbn [nexts]. rewrite end_next. exact IH.
Qed.

Lemma nexts_rep : forall tb n it before e after, wf_table tb -> rep tb it before e after ->
  ti_cur tb (nexts tb n it) = nth_error (e :: after) n.
Proof.
  intros tb n. induction n as [|n IH]; intros it before e after W R.
  - cbn. apply (rep_cur _ _ _ _ _ W R).
  - cbn [nexts nth_error]. pose proof (rep_next _ _ _ _ _ W R) as N.
    destruct after as [|e' after].
    + rewrite N. cbn [fst]. rewrite nexts_end. destruct (end_cur tb) as [C _]. rewrite C.
      destruct n; reflexivity.
    + destruct N as [N _]. apply (IH _ _ _ _ W N).
Qed.

(* ------------------------------------------------------------------------------------- *)
(* 5. SeekToFirst, SeekToLast                                                             *)
(* ------------------------------------------------------------------------------------- *)

Lemma rep_first : forall tb e r qb, wf_table tb -> t_blocks tb = (e :: r) :: qb ->
  rep tb (ti_seek_first tb) [] e (r ++ concat qb).
Proof.
  intros tb e r qb W H.
  assert (H' : t_blocks tb = [] ++ (e :: r) :: qb) by exact H.
  unfold ti_seek_first.
  assert (F : bi_first (ikeys tb) = mkBI true (Some 0%nat)).
  { rewrite (wf_ikeys _ W). rewrite H. reflexivity. }
  rewrite F. pose proof (load_middle _ _ _ _ W H') as L. cbn [length] in L. rewrite L.
  destruct (first_of_block _ _ _ _ _ W H') as [F1 _]. cbn [length] in F1. rewrite F1.
  exists [], [], r, qb. repeat split. exact H.
Qed.

Lemma next_fresh : forall tb, ti_next tb (ti_new tb) = (ti_seek_first tb, ti_valid tb (ti_seek_first tb)).
Proof. intros tb. reflexivity. Qed.

Lemma valid_run_all : forall ks, Forall (fun k => key_nonempty k = true) ks -> valid_run ks = length ks.
Proof.
  induction ks as [|k ks IH]; intros H; [reflexivity|]. inversion H; subst. cbn [valid_run]. rewrite H2.
  cbn [length]. rewrite IH by assumption. reflexivity.
Qed.

Lemma ikeys_nonempty : forall tb, wf_table tb -> Forall (fun k => key_nonempty k = true) (ikeys tb).
Proof.
  intros tb W. rewrite (wf_ikeys _ W). rewrite Forall_map. rewrite Forall_forall. intros b Hb.
  eapply bfirst_nonempty; eauto.
Qed.

Lemma list_last_split : forall (A : Type) (l : list A), l <> [] -> exists p x, l = p ++ [x].
Proof.
  intros A l H. destruct (exists_last H) as (p & x & ->). eauto.
Qed.

Lemma rep_last : forall tb, wf_table tb -> t_blocks tb <> [] ->
  exists before e, concat (t_blocks tb) = before ++ [e] /\ rep tb (ti_seek_last tb) before e [].
Proof.
  intros tb W Hne. destruct (list_last_split _ _ Hne) as (pb & b & Hb).
  destruct (block_nonempty_in tb b W) as (e0 & r0 & Eb).
  { rewrite Hb. apply in_or_app. right. left. reflexivity. }
  assert (Hbne : b <> []) by (rewrite Eb; discriminate).
  destruct (list_last_split _ _ Hbne) as (pe & e & Hbe).
  exists (concat pb ++ pe), e. split.
  - rewrite Hb, concat_app. cbn. rewrite app_nil_r, Hbe, app_assoc. reflexivity.
  - unfold ti_seek_last. rewrite (valid_run_all _ (ikeys_nonempty _ W)).
    rewrite (wf_ikeys _ W). rewrite map_length, Hb, app_length. cbn [length].
    replace (length pb + 1)%nat with (S (length pb)) by lia.
    rewrite (wf_good _ W). rewrite (bkeys_middle tb pb b [] Hb).
    assert (BL : bi_last (map sk b) = mkBI true (Some (length pe))).
    { rewrite Hbe, map_app. unfold bi_last. cbn [map]. rewrite app_length, map_length. cbn [length].
      destruct (map sk pe ++ [sk e]) eqn:E.
      - apply (f_equal (@length _)) in E. rewrite app_length in E. cbn in E. lia.
      - do 2 f_equal. lia. }
    rewrite BL.
    exists pb, pe, [], []. repeat split.
    rewrite <- Hbe. exact Hb.
Qed.

(* ------------------------------------------------------------------------------------- *)
(* 6. Seek                                                                                *)
(* ------------------------------------------------------------------------------------- *)

Definition all_lt (t : bytes) (es : list sentry) : Prop := Forall (fun y => ble t (sk y) = false) es.

Definition sorted_table (tb : table) : Prop := StronglySorted klt (concat (t_blocks tb)).

(* entries of the blocks before a block are below its first key; those after are above *)
Lemma sorted_blocks_before : forall tb pb e r qb, sorted_table tb ->
  t_blocks tb = pb ++ (e :: r) :: qb -> forall x, In x (concat pb) -> klt x e.
Proof.
  intros tb pb e r qb S H x Hx. unfold sorted_table in S. rewrite H, concat_middle in S.
  apply ss_app_inv in S. destruct S as (_ & _ & C). apply C; [exact Hx|].
  cbn. left. reflexivity.
Qed.

Lemma sorted_block_after : forall tb pb b e r qb, sorted_table tb ->
  t_blocks tb = pb ++ b :: (e :: r) :: qb -> forall x, In x b -> klt x e.
Proof.
  intros tb pb b e r qb S H x Hx. unfold sorted_table in S. rewrite H, concat_middle in S.
  apply ss_app_inv in S. destruct S as (_ & S & _).
  cbn [concat] in S. apply ss_app_inv in S. destruct S as (_ & _ & C).
  apply C; [exact Hx|]. cbn. left. reflexivity.
Qed.

Lemma sorted_within : forall tb pb pe e qe qb, sorted_table tb ->
  t_blocks tb = pb ++ (pe ++ e :: qe) :: qb ->
  (forall x, In x pe -> klt x e) /\ (forall y, In y (qe ++ concat qb) -> klt e y) /\
  (forall x, In x (concat pb) -> klt x e).
Proof.
  intros tb pb pe e qe qb S H. unfold sorted_table in S. rewrite H, concat_middle in S.
  apply ss_app_inv in S. destruct S as (_ & S & C1).
  rewrite <- app_assoc in S. cbn [app] in S.
  apply ss_app_inv in S. destruct S as (_ & S & C2).
  apply StronglySorted_inv in S. destruct S as [_ S]. rewrite Forall_forall in S.
  repeat split.
  - intros x Hx. apply C2; [exact Hx|left; reflexivity].
  - intros y Hy. apply S. exact Hy.
  - intros x Hx. apply C1; [exact Hx|]. apply in_or_app. left. apply in_or_app. right. left. reflexivity.
Qed.

(* Seek lands on the first entry >= t (everything before is < t), or off the end with
   everything < t *)
Lemma seek_spec : forall tb t, wf_table tb -> sorted_table tb -> t_blocks tb <> [] ->
  (exists before e after, rep tb (fst (ti_seek tb t)) before e after /\ snd (ti_seek tb t) = true /\
                          all_lt t before /\ ble t (sk e) = true) \/
  (ti_seek tb t = (st_end, false) /\ all_lt t (concat (t_blocks tb))).
Proof.
  intros tb t W S Hne. unfold ti_seek, bi_seek_prev.
  destruct (find_le t (ikeys tb)) as [j|] eqn:FL.
  - (* block j is the last whose first key is <= t *)
    pose proof FL as FL'. rewrite (wf_ikeys _ W) in FL'.
    destruct (find_le_some _ bfirst t (t_blocks tb) j FL') as (pb & b & qb & Hb & Hl & Hk & Hq).
    subst j.
    rewrite (ix_valid_middle _ _ _ _ W Hb). rewrite (load_middle _ _ _ _ W Hb).
    rewrite (bkeys_middle _ _ _ _ Hb). unfold bi_seek. cbn [bi_cur].
    destruct (block_nonempty_in tb b W) as (e0 & r0 & Eb).
    { rewrite Hb. apply in_or_app. right. left. reflexivity. }
    assert (Hpb : all_lt t (concat pb)).
    { unfold all_lt. rewrite Forall_forall. intros x Hx. apply blt_ble_false.
      subst b. pose proof (sorted_blocks_before _ _ _ _ _ S Hb x Hx) as L. unfold klt in L.
      cbn in Hk. eapply blt_ble_trans; eauto. }
    destruct (find_ge t (map sk b)) as [i|] eqn:FG.
    + destruct (find_ge_some _ _ _ _ _ FG) as (pe & e & qe & Hbe & Hi & He & Hpe).
      left. exists (concat pb ++ pe), e, (qe ++ concat qb). cbn [fst snd]. repeat split.
      * exists pb, pe, qe, qb. subst i. rewrite <- Hbe. repeat split. exact Hb.
      * apply Forall_app. split; assumption.
      * exact He.
    + pose proof (find_ge_none _ _ _ _ FG) as Hall.
      rewrite (seek_next_middle _ _ _ _ _ W Hb).
      destruct qb as [|b' qb].
      * right. split; [reflexivity|]. rewrite Hb, concat_middle. cbn. rewrite app_nil_r.
        apply Forall_app. split; assumption.
      * left. destruct (block_nonempty_in tb b' W) as (e' & r' & ->).
        { rewrite Hb. apply in_or_app. right. right. left. reflexivity. }
        exists (concat pb ++ b), e', (r' ++ concat qb). cbn [fst snd]. repeat split.
        -- apply rep_block_start. exact Hb.
        -- apply Forall_app. split; assumption.
        -- cbn in Hq. apply blt_ble. apply ble_false_blt. exact Hq.
  - (* t is below the first key of the table *)
    pose proof FL as FL'. rewrite (wf_ikeys _ W) in FL'.
    pose proof (find_le_none _ bfirst t (t_blocks tb) FL') as H0.
    replace (bi_valid (ikeys tb) (mkBI true None)) with false by reflexivity.
    destruct (t_blocks tb) as [|b qb] eqn:Hb; [congruence|].
    assert (Hb' : t_blocks tb = [] ++ b :: qb) by exact Hb.
    assert (F : bi_first (ikeys tb) = mkBI true (Some 0%nat)).
    { rewrite (wf_ikeys _ W). rewrite Hb. reflexivity. }
    rewrite F.
    pose proof (load_middle _ _ _ _ W Hb') as L. cbn [length] in L. rewrite L.
    pose proof (bkeys_middle _ _ _ _ Hb') as BK. cbn [length] in BK. rewrite BK.
    destruct (block_nonempty_in tb b W) as (e0 & r0 & ->).
    { rewrite Hb. left. reflexivity. }
    cbn [bfirst] in H0. unfold bi_seek. cbn [map find_ge].
    assert (E : ble t (sk e0) = true) by (apply blt_ble; apply ble_false_blt; exact H0).
    rewrite E. cbn [bi_cur].
    left. exists [], e0, (r0 ++ concat qb). cbn [fst snd]. repeat split.
    + exists [], [], r0, qb. repeat split. exact Hb.
    + constructor.
    + exact E.
Qed.

Fixpoint drop_lt (t : bytes) (es : list sentry) : list sentry :=
  match es with
  | [] => []
  | e :: r => if ble t (sk e) then es else drop_lt t r
  end.

Lemma drop_lt_app : forall t l1 l2, all_lt t l1 -> drop_lt t (l1 ++ l2) = drop_lt t l2.
Proof.
  intros t l1 l2 H. induction H as [|x l1 Hx _ IH]; [reflexivity|]. cbn. rewrite Hx. exact IH.
Qed.

Lemma first_ge_drop : forall t es, first_ge t es = hd_error (drop_lt t es).
Proof.
  intros t es. unfold first_ge. induction es as [|e r IH]; [reflexivity|]. cbn.
  destruct (ble t (sk e)); [reflexivity|exact IH].
Qed.

(* ------------------------------------------------------------------------------------- *)
(* 7. Get                                                                                 *)
(* ------------------------------------------------------------------------------------- *)

Definition keq (k : bytes) (e : sentry) : bool := beq (sk e) k.

Lemma scan_valid_find : forall k b, keys_ok b -> scan_valid k b = find (keq k) b.
Proof.
  intros k b H. induction H as [|e b He _ IH]; [reflexivity|]. cbn. rewrite He. unfold keq at 1.
  destruct (beq (sk e) k); [reflexivity|exact IH].
Qed.

Lemma search_block_find : forall b k, keys_ok b -> search_block b k = find (keq k) b.
Proof.
  intros b k Hk. unfold search_block. rewrite (scan_valid_find _ _ Hk).
  destruct (find_ge k (map sk b)) as [i|] eqn:FG; [|reflexivity].
  destruct (find_ge_some _ _ _ _ _ FG) as (pe & e & qe & -> & Hi & He & Hpe). subst i.
  rewrite nth_error_middle. destruct (beq (sk e) k) eqn:E; [|reflexivity].
  rewrite find_app_none.
  - cbn. unfold keq at 1. rewrite E. reflexivity.
  - eapply Forall_impl; [|exact Hpe]. intros y Hy. unfold keq.
    destruct (beq (sk y) k) eqn:B; [|reflexivity]. apply beq_ble in B. destruct B as [B _]. congruence.
Qed.

(* the reader has, for every data block, a filter that contains all keys of the block *)
Definition filters_ok (tb : table) : Prop :=
  t_hasf tb = true -> forall j b f, nth_error (t_blocks tb) j = Some b ->
    t_filter tb j = Some f -> forall e, In e b -> f (sk e) = true.

Lemma keys_ok_block : forall tb b, wf_table tb -> In b (t_blocks tb) -> keys_ok b.
Proof.
  intros tb b W Hin. pose proof (wf_keys _ W) as K. unfold keys_ok in *. rewrite Forall_forall in *.
  intros e He. apply K. apply in_concat. eauto.
Qed.

Lemma get_spec : forall tb k, wf_table tb -> sorted_table tb -> filters_ok tb ->
  t_get tb k = lookup k (concat (t_blocks tb)).
Proof.
  intros tb k W S F. unfold t_get, lookup, bi_seek_prev. fold (keq k).
  destruct (find_le k (ikeys tb)) as [j|] eqn:FL.
  - pose proof FL as FL'. rewrite (wf_ikeys _ W) in FL'.
    destruct (find_le_some _ bfirst k (t_blocks tb) j FL') as (pb & b & qb & Hb & Hl & Hk & Hq).
    subst j.
    rewrite (ix_valid_middle _ _ _ _ W Hb). cbn [bi_cur].
    rewrite (nth_block_middle _ _ _ _ Hb). rewrite (wf_good _ W).
    assert (Kb : keys_ok b).
    { eapply keys_ok_block; [exact W|]. rewrite Hb. apply in_or_app. right. left. reflexivity. }
    rewrite (search_block_find _ _ Kb).
    destruct (block_nonempty_in tb b W) as (e0 & r0 & Eb).
    { rewrite Hb. apply in_or_app. right. left. reflexivity. }
    (* no entry outside block b has key k *)
    assert (Hpb : Forall (fun y => keq k y = false) (concat pb)).
    { rewrite Forall_forall. intros x Hx. unfold keq. apply blt_not_beq. subst b.
      pose proof (sorted_blocks_before _ _ _ _ _ S Hb x Hx) as L. unfold klt in L.
      cbn in Hk. eapply blt_ble_trans; eauto. }
    assert (Hqb : Forall (fun y => keq k y = false) (concat qb)).
    { destruct qb as [|b' qb]; [constructor|].
      destruct (block_nonempty_in tb b' W) as (e' & r' & ->).
      { rewrite Hb. apply in_or_app. right. right. left. reflexivity. }
      cbn in Hq. apply ble_false_blt in Hq.
      assert (Hb2 : t_blocks tb = (pb ++ [b]) ++ (e' :: r') :: qb) by (rewrite Hb; apply app_cons_assoc).
      destruct (sorted_within tb (pb ++ [b]) [] e' r' qb S Hb2) as (_ & A & _).
      rewrite Forall_forall. intros y Hy. unfold keq. rewrite beq_sym. apply blt_not_beq.
      cbn [concat] in Hy. destruct Hy as [<-|Hy]; [exact Hq|].
      eapply blt_trans; [exact Hq|]. apply A. exact Hy. }
    assert (L : find (keq k) (concat (t_blocks tb)) = find (keq k) b).
    { rewrite Hb, concat_middle. rewrite (find_app_none _ _ _ _ Hpb).
      destruct (find (keq k) b) as [x|] eqn:Fb.
      - apply find_app_l. exact Fb.
      - rewrite find_app_none; [apply find_none_forall; exact Hqb|].
        clear - Fb. induction b as [|y b IH]; [constructor|]. cbn in Fb.
        destruct (keq k y) eqn:E; [discriminate|]. constructor; auto. }
    rewrite L.
    destruct (t_hasf tb) eqn:HF.
    + destruct (t_filter tb (length pb)) as [f|] eqn:Ff; [|reflexivity].
      assert (Fin : forall e, In e b -> f (sk e) = true).
      { apply (F HF (length pb) b f); [rewrite Hb; apply nth_error_middle|exact Ff]. }
      destruct (f k) eqn:Fk; [reflexivity|].
      (* the filter says no: then k is not a key of b *)
      destruct (find (keq k) b) as [x|] eqn:Fb; [|reflexivity].
      apply find_some in Fb. destruct Fb as [Hin Hx]. unfold keq in Hx. apply beq_true_iff in Hx.
      specialize (Fin _ Hin). congruence.
    + reflexivity.
  - (* k is below the first key: no entry has key k *)
    pose proof FL as FL'. rewrite (wf_ikeys _ W) in FL'.
    pose proof (find_le_none _ bfirst k (t_blocks tb) FL') as H0.
    replace (bi_valid (ikeys tb) (mkBI true None)) with false by reflexivity.
    destruct (t_blocks tb) as [|b qb] eqn:Hb; [reflexivity|].
    assert (Hin : In b (t_blocks tb)) by (rewrite Hb; left; reflexivity).
    destruct (block_nonempty_in tb b W Hin) as (e0 & r0 & ->).
    cbn [bfirst] in H0. apply ble_false_blt in H0.
    rewrite find_none_forall; [reflexivity|].
    assert (Hb' : t_blocks tb = [] ++ ([] ++ e0 :: r0) :: qb) by exact Hb.
    destruct (sorted_within tb [] [] e0 r0 qb S Hb') as (_ & A & _).
    cbn [concat]. rewrite Forall_forall. intros y Hy. unfold keq. rewrite beq_sym. apply blt_not_beq.
    cbn [app] in Hy. destruct Hy as [<-|Hy]; [exact H0|].
    eapply blt_trans; [exact H0|]. apply A. exact Hy.
Qed.

(* ------------------------------------------------------------------------------------- *)
(* 8. the theorems of C11 (logical layer), for an arbitrary partition                     *)
(* ------------------------------------------------------------------------------------- *)

(* es is strictly ascending with non-empty keys, tb holds a partition of es into non-empty blocks *)
Record holds (tb : table) (es : list sentry) : Prop := {
  h_asc : ascending es = true;
  h_keys : keys_ok es;
  h_part : concat (t_blocks tb) = es;
  h_blocks : nonempty_blocks (t_blocks tb);
  h_good : forall j, t_bad tb j = false;
  h_ikeys : ikeys tb = map bfirst (t_blocks tb)
}.

Lemma holds_wf : forall tb es, holds tb es -> wf_table tb /\ sorted_table tb.
Proof.
  intros tb es [A K P B G I]. split.
  - constructor; [exact B|rewrite P; exact K|exact G|exact I].
  - unfold sorted_table. rewrite P. apply ascending_strong. exact A.
Qed.

Lemma holds_blocks_ne : forall tb es, holds tb es -> es <> [] -> t_blocks tb <> [].
Proof. intros tb es H Hne E. apply Hne. rewrite <- (h_part _ _ H), E. reflexivity. Qed.

Theorem iterate_partition : forall tb es, holds tb es ->
  collect tb (S (length es)) (ti_seek_first tb) = es /\
  collect tb (S (length es)) (fst (ti_next tb (ti_new tb))) = es.
Proof.
  intros tb es H. destruct (holds_wf _ _ H) as [W Srt].
  assert (G : collect tb (S (length es)) (ti_seek_first tb) = es).
  { destruct (t_blocks tb) as [|b qb] eqn:Hb.
    - pose proof (h_part _ _ H) as P. rewrite Hb in P. cbn in P. subst es.
      cbn [collect length]. unfold ti_seek_first. rewrite (wf_ikeys _ W), Hb. reflexivity.
    - destruct (block_nonempty_in tb b W) as (e & r & ->); [rewrite Hb; left; reflexivity|].
      pose proof (rep_first _ _ _ _ W Hb) as R.
      pose proof (rep_entries _ _ _ _ _ R) as E. rewrite (h_part _ _ H) in E. cbn [app] in E.
      rewrite E at 2. eapply collect_rep; [exact W|exact R|].
      rewrite E. cbn [length]. lia. }
  split; [exact G|]. rewrite next_fresh. exact G.
Qed.

Theorem seek_partition : forall tb es t, holds tb es -> es <> [] ->
  collect tb (S (length es)) (fst (ti_seek tb t)) = drop_lt t es /\
  ti_cur tb (fst (ti_seek tb t)) = first_ge t es /\
  snd (ti_seek tb t) = ti_valid tb (fst (ti_seek tb t)) /\
  forall n, ti_cur tb (nexts tb n (fst (ti_seek tb t))) = nth_error (drop_lt t es) n.
Proof.
  intros tb es t H Hne. destruct (holds_wf _ _ H) as [W Srt].
  pose proof (holds_blocks_ne _ _ H Hne) as Bne.
  destruct (seek_spec tb t W Srt Bne) as [(before & e & after & R & Hs & Hb & He)|[Hs Hall]].
  - pose proof (rep_entries _ _ _ _ _ R) as E. rewrite (h_part _ _ H) in E.
    assert (D : drop_lt t es = e :: after).
    { rewrite E, drop_lt_app by exact Hb. cbn. rewrite He. reflexivity. }
    destruct (rep_cur _ _ _ _ _ W R) as [C V].
    split; [|split; [|split]].
    + rewrite D. eapply collect_rep; [exact W|exact R|].
      rewrite E, app_length. cbn [length]. lia.
    + rewrite C, first_ge_drop, D. reflexivity.
    + rewrite Hs, V. reflexivity.
    + intros n. rewrite D. apply (nexts_rep _ _ _ _ _ _ W R).
  - rewrite (h_part _ _ H) in Hall.
    assert (D : drop_lt t es = []).
    { rewrite <- (app_nil_r es), drop_lt_app by exact Hall. reflexivity. }
    rewrite Hs. cbn [fst snd]. destruct (end_cur tb) as [C V].
    split; [|split; [|split]].
    + rewrite D. apply collect_end.
    + rewrite C, first_ge_drop, D. reflexivity.
    + rewrite V. reflexivity.
    + intros n. rewrite D, nexts_end, C. destruct n; reflexivity.
Qed.

Theorem seek_last_partition : forall tb es, holds tb es -> es <> [] ->
  ti_cur tb (ti_seek_last tb) = Some (last es (mkS [] 0 None)) /\
  ti_next tb (ti_seek_last tb) = (st_end, false) /\
  ti_valid tb st_end = false.
Proof.
  intros tb es H Hne. destruct (holds_wf _ _ H) as [W Srt].
  pose proof (holds_blocks_ne _ _ H Hne) as Bne.
  destruct (rep_last tb W Bne) as (before & e & E & R).
  rewrite (h_part _ _ H) in E. destruct (rep_cur _ _ _ _ _ W R) as [C _].
  split; [|split].
  - rewrite C, E, last_last. reflexivity.
  - apply (rep_next _ _ _ _ _ W R).
  - apply end_cur.
Qed.

Theorem get_partition : forall tb es k, holds tb es -> filters_ok tb -> t_get tb k = lookup k es.
Proof.
  intros tb es k H F. destruct (holds_wf _ _ H) as [W Srt].
  rewrite <- (h_part _ _ H). apply get_spec; assumption.
Qed.

(* found iff written *)
Lemma lookup_found_iff : forall k es, ascending es = true ->
  (forall e, In e es -> sk e = k -> lookup k es = gres_of e) /\
  (lookup k es = GNotFound <-> ~ exists e, In e es /\ sk e = k).
Proof.
  intros k es A. pose proof (ascending_strong _ A) as S. split.
  - intros e Hin Hk. unfold lookup.
    destruct (in_split _ _ Hin) as (l1 & l2 & ->).
    rewrite find_app_none.
    + cbn. subst k. rewrite beq_refl. reflexivity.
    + apply ss_app_inv in S. destruct S as (_ & _ & C). rewrite Forall_forall. intros y Hy.
      apply blt_not_beq. subst k. apply C; [exact Hy|left; reflexivity].
  - unfold lookup. destruct (find (fun e => beq (sk e) k) es) as [x|] eqn:F.
    + apply find_some in F. destruct F as [Hin Hx]. apply beq_true_iff in Hx. split.
      * unfold gres_of. destruct (sval x); discriminate.
      * intros N. exfalso. apply N. eauto.
    + split; [|reflexivity]. intros _ (e & Hin & Hk).
      eapply find_none in F; [|exact Hin]. cbn in F. subst k. rewrite beq_refl in F. discriminate.
Qed.

(* ------------------------------------------------------------------------------------- *)
(* 9. the writer                                                                          *)
(* ------------------------------------------------------------------------------------- *)

Section Writer.
  Variable fh : block -> bytes -> bool.
  (* the only property of the per-block filter that is used: no false negatives *)
  Hypothesis fh_complete : forall b e, In e b -> fh b (sk e) = true.

  Lemma write_holds : forall bloom es, ascending es = true -> keys_ok es -> holds (write fh bloom es) es.
  Proof.
    intros bloom es A K. destruct (cut_partition es) as [P N].
    constructor; [exact A|exact K|exact P|exact N|reflexivity|reflexivity].
  Qed.

  Lemma write_filters : forall bloom es, filters_ok (write fh bloom es).
  Proof.
    intros bloom es HF j b f Hj Hf e He. cbn in *. apply andb_true_iff in HF. destruct HF as [HB _].
    subst bloom. rewrite Hj in Hf. cbn in Hf. inversion Hf; subst f.
    apply fh_complete. exact He.
  Qed.

  Theorem write_iterate : forall bloom es, ascending es = true -> keys_ok es ->
    collect (write fh bloom es) (S (length es)) (ti_seek_first (write fh bloom es)) = es /\
    collect (write fh bloom es) (S (length es)) (fst (ti_next (write fh bloom es) (ti_new (write fh bloom es)))) = es.
  Proof. intros. apply iterate_partition. apply write_holds; assumption. Qed.

  Theorem write_seek : forall bloom es t, ascending es = true -> keys_ok es -> es <> [] ->
    let tb := write fh bloom es in
    collect tb (S (length es)) (fst (ti_seek tb t)) = drop_lt t es /\
    ti_cur tb (fst (ti_seek tb t)) = first_ge t es /\
    snd (ti_seek tb t) = ti_valid tb (fst (ti_seek tb t)) /\
    forall n, ti_cur tb (nexts tb n (fst (ti_seek tb t))) = nth_error (drop_lt t es) n.
  Proof. intros. apply seek_partition; [apply write_holds; assumption|assumption]. Qed.

  Theorem write_seek_last : forall bloom es, ascending es = true -> keys_ok es -> es <> [] ->
    let tb := write fh bloom es in
    ti_cur tb (ti_seek_last tb) = Some (last es (mkS [] 0 None)) /\
    ti_next tb (ti_seek_last tb) = (st_end, false) /\ ti_valid tb st_end = false.
  Proof. intros. apply seek_last_partition; [apply write_holds; assumption|assumption]. Qed.

  Theorem write_get : forall bloom es k, ascending es = true -> keys_ok es ->
    t_get (write fh bloom es) k = lookup k es.
  Proof. intros. apply get_partition; [apply write_holds; assumption|apply write_filters]. Qed.
End Writer.

(* ------------------------------------------------------------------------------------- *)
(* 10. behaviour of the reader when the filter of a block is missing                      *)
(* ------------------------------------------------------------------------------------- *)

(* A block for which no filter is registered (the filter could not be loaded) is searched:
   Get stays exact when any subset of the filters is missing. *)
Theorem get_missing_filters : forall tb es k (missing : nat -> bool),
  holds tb es -> filters_ok tb ->
  let tb' := mkT (t_ikeys tb) (t_blocks tb) (t_hasf tb)
                 (fun j => if missing j then None else t_filter tb j) (t_bad tb) in
  t_get tb' k = lookup k es.
Proof.
  intros tb es k missing H F tb'. apply get_partition.
  - destruct H as [A K P B G I]. constructor; assumption.
  - intros HF j b f Hj Hf. cbn in Hf. destruct (missing j); [discriminate|].
    apply (F HF j b f Hj Hf).
Qed.

(* ------------------------------------------------------------------------------------- *)
(* 11. guards and non-vacuity                                                             *)
(* ------------------------------------------------------------------------------------- *)

Lemma wf_keys_ok : forall es, forallb wf_sentry es = true -> keys_ok es.
Proof.
  intros es H. unfold keys_ok. rewrite Forall_forall. intros e He.
  rewrite forallb_forall in H. specialize (H _ He). unfold wf_sentry in H.
  repeat (apply andb_true_iff in H; destruct H as [H ?]).
  destruct (sk e); [cbn in H; discriminate|reflexivity].
Qed.

Definition ex_a := mkS [97] 7 (Some [1;2]).
Definition ex_b := mkS [97;0] 3 None.
Definition ex_c := mkS [98] 18446744073709551615 (Some []).
Definition ex_d := mkS [255;255] 0 (Some [9]).
Definition ex_es := [ex_a; ex_b; ex_c; ex_d].
(* an arbitrary partition (not the writer's), filters that know only their own keys *)
Definition ex_tb : table :=
  mkT [[97]; [97;0]; [255;255]] [[ex_a]; [ex_b; ex_c]; [ex_d]] true
      (fun j => Some (fun k => existsb (fun e => beq (sk e) k) (nth j [[ex_a]; [ex_b; ex_c]; [ex_d]] [])))
      (fun _ => false).

Example ex_holds : holds ex_tb ex_es.
Proof.
  constructor; [reflexivity| |reflexivity| |reflexivity|reflexivity].
  - apply wf_keys_ok. reflexivity.
  - repeat constructor; discriminate.
Qed.

Example ex_filters : filters_ok ex_tb.
Proof.
  intros _ j b f Hj Hf. cbn in Hf. inversion Hf; subst f. clear Hf.
  destruct j as [|[|[|j]]]; cbn in Hj; try (destruct j; discriminate);
    inversion Hj; subst b; intros e He; cbn in He;
    repeat (destruct He as [<-|He]; [vm_compute; reflexivity|]); destruct He.
Qed.

Example ex_iterate : collect ex_tb 5 (ti_seek_first ex_tb) = ex_es.
Proof. vm_compute. reflexivity. Qed.
Example ex_seek_between : ti_cur ex_tb (fst (ti_seek ex_tb [97;0;0])) = Some ex_c.
Proof. vm_compute. reflexivity. Qed.
Example ex_seek_boundary : ti_cur ex_tb (fst (ti_seek ex_tb [97;0])) = Some ex_b.
Proof. vm_compute. reflexivity. Qed.
Example ex_seek_past : ti_seek ex_tb [255;255;0] = (st_end, false).
Proof. vm_compute. reflexivity. Qed.
Example ex_seek_last : ti_cur ex_tb (ti_seek_last ex_tb) = Some ex_d.
Proof. vm_compute. reflexivity. Qed.
Example ex_get : t_get ex_tb [97;0] = GTomb /\ t_get ex_tb [98] = GVal [] /\
                 t_get ex_tb [97;1] = GNotFound /\ t_get ex_tb [1] = GNotFound.
Proof. vm_compute. repeat split. Qed.

(* the cut rule: an entry whose estimate reaches 65536 closes its block (1 + 65503 + 16 + 4 + 12) *)
Example ex_cut :
  let big := mkS [97] 1 (Some (N.iter 65503 (cons 0) [])) in
  let almost := mkS [97] 1 (Some (N.iter 65502 (cons 0) [])) in
  map (map sk) (cut [big; ex_c]) = [[[97]]; [[98]]] /\
  map (map sk) (cut [almost; ex_c]) = [[[97]; [98]]].
Proof. vm_compute. split; reflexivity. Qed.

(* outside the guard "key non-empty": the empty key is accepted by the writer (it is the
   smallest key) but Valid() is false on it, so a table that starts with it looks empty to
   forward iteration, Seek and SeekToLast, and Get does not find the empty key *)
Definition ex_empty := mkS [] 5 (Some [1]).
(* before f30cabd the iterator treated the empty key as "not positioned" and this table read as
   empty (the former C11_empty_key_refuted); now the empty key is a key like any other *)
Theorem C11_empty_key_ok :
  let es := [ex_empty; ex_a] in
  let tb := write (fun _ _ => true) true es in
  ascending es = true /\
  collect tb 3 (ti_seek_first tb) = es /\
  ti_cur tb (fst (ti_seek tb [97])) = Some ex_a /\
  ti_cur tb (ti_seek_last tb) = Some ex_a /\
  t_get tb [] = GVal [1] /\ t_get tb [97] = gres_of ex_a.
Proof. vm_compute. repeat split. Qed.

(* ------------------------------------------------------------------------------------- *)
(* 12. the statements exported to Props/C11.v for the written table                       *)
(* ------------------------------------------------------------------------------------- *)

Theorem thm_iterate : forall fh bloom es,
  ascending es = true -> forallb wf_sentry es = true ->
  let tb := write fh bloom es in
  collect tb (S (length es)) (ti_seek_first tb) = es /\
  collect tb (S (length es)) (fst (ti_next tb (ti_new tb))) = es.
Proof. intros fh bloom es A W. apply write_iterate; [exact A|apply wf_keys_ok; exact W]. Qed.

Theorem thm_seek : forall fh bloom es t,
  ascending es = true -> forallb wf_sentry es = true -> es <> [] ->
  let tb := write fh bloom es in
  ti_cur tb (fst (ti_seek tb t)) = first_ge t es /\
  snd (ti_seek tb t) = ti_valid tb (fst (ti_seek tb t)).
Proof.
  intros fh bloom es t A W N. destruct (write_seek fh bloom es t A (wf_keys_ok _ W) N) as (_ & H1 & H2 & _).
  split; assumption.
Qed.

Theorem thm_next_after_seek : forall fh bloom es t,
  ascending es = true -> forallb wf_sentry es = true -> es <> [] ->
  let tb := write fh bloom es in
  collect tb (S (length es)) (fst (ti_seek tb t)) = drop_lt t es /\
  forall n, ti_cur tb (nexts tb n (fst (ti_seek tb t))) = nth_error (drop_lt t es) n.
Proof.
  intros fh bloom es t A W N. destruct (write_seek fh bloom es t A (wf_keys_ok _ W) N) as (H0 & _ & _ & H3).
  split; assumption.
Qed.

Theorem thm_seek_last : forall fh bloom es,
  ascending es = true -> forallb wf_sentry es = true -> es <> [] ->
  let tb := write fh bloom es in
  ti_cur tb (ti_seek_last tb) = Some (last es (mkS [] 0 None)) /\
  ti_next tb (ti_seek_last tb) = (st_end, false) /\ ti_valid tb st_end = false.
Proof. intros fh bloom es A W N. apply write_seek_last; [exact A|apply wf_keys_ok; exact W|exact N]. Qed.

Theorem thm_get : forall fh, (forall b e, In e b -> fh b (sk e) = true) ->
  forall bloom es k, ascending es = true -> forallb wf_sentry es = true ->
  t_get (write fh bloom es) k = lookup k es.
Proof. intros fh Hf bloom es k A W. apply write_get; [exact Hf|exact A|apply wf_keys_ok; exact W]. Qed.
