(* Txn.v — C04: transactions under the single reader-writer isolation lock.
   Model only (executable definitions and the Prop-level statements they are used in);
   lemmas and theorems live in TxnProofs.v.

   Anchors: pkg/transaction/manager.go   (BeginTransaction: RLock for read-only, Lock for
            read-write, taken before the transaction is handed out),
            pkg/transaction/transaction.go (Get: private buffer first, then storage; Put/Delete:
            active check, then read-only check, then buffer; Commit: active CAS, ApplyBatch of the
            buffered operations in key order, then release; Rollback: clear, release;
            release*Lock: CAS on the has*Lock flag, so exactly once),
            pkg/transaction/buffer.go      (map key -> last operation; Operations() sorted by key).

   Parts:  A  committed store, private buffer, the view a transaction reads
           B  the sequential specification of ONE transaction run alone (spec_step), and the
              serial execution of a list of transactions (serial_run)
           C  the concurrent model: labelled transition system over the committed store, the
              RWMutex (reader count, writer flag) and the per-transaction state with its lock flag
           D  recorded histories, the definition of serializability used by every theorem, and
              the executable checker ser_check *)
From KV Require Import Bytes.
Open Scope N_scope.

Definition key := bytes.
Definition value := bytes.

(* ------------------------------------------------------------------------------------- *)
(* A. store, buffer, view                                                                  *)
(* ------------------------------------------------------------------------------------- *)

(* committed store: live keys only, ascending by bcmp (= bytes.Compare) *)
Definition store := list (key * value).

Fixpoint st_get (k : key) (s : store) : option value :=
  match s with
  | [] => None
  | (k', v) :: r => if beq k k' then Some v else st_get k r
  end.

Fixpoint st_put (k : key) (v : value) (s : store) : store :=
  match s with
  | [] => [(k, v)]
  | (k', v') :: r =>
      match bcmp k k' with
      | Lt => (k, v) :: s
      | Eq => (k, v) :: r
      | Gt => (k', v') :: st_put k v r
      end
  end.

Fixpoint st_del (k : key) (s : store) : store :=
  match s with
  | [] => []
  | (k', v') :: r => if beq k k' then st_del k r else (k', v') :: st_del k r
  end.

(* private buffer: last operation per key (None = delete), ascending by key as
   Buffer.Operations() returns it *)
Definition buffer := list (key * option value).

Fixpoint buf_get (k : key) (b : buffer) : option (option value) :=
  match b with
  | [] => None
  | (k', ov) :: r => if beq k k' then Some ov else buf_get k r
  end.

Fixpoint buf_set (k : key) (ov : option value) (b : buffer) : buffer :=
  match b with
  | [] => [(k, ov)]
  | (k', ov') :: r =>
      match bcmp k k' with
      | Lt => (k, ov) :: b
      | Eq => (k, ov) :: r
      | Gt => (k', ov') :: buf_set k ov r
      end
  end.

Definition apply_op (s : store) (o : key * option value) : store :=
  match snd o with
  | Some v => st_put (fst o) v s
  | None => st_del (fst o) s
  end.

(* Commit: storage.ApplyBatch of the buffered operations; also the overlay a scan sees *)
Definition apply_buf (b : buffer) (s : store) : store := fold_left apply_op b s.

(* [lo, hi) with None = unbounded (nil slice in Go) *)
Definition in_range (lo hi : option key) (k : key) : bool :=
  (match lo with None => true | Some l => ble l k end) &&
  (match hi with None => true | Some h => blt k h end).

Definition scan (lo hi : option key) (b : buffer) (s : store) : list (key * value) :=
  filter (fun kv => in_range lo hi (fst kv)) (apply_buf b s).

(* Get: buffer first (a buffered delete reads as not found), then storage *)
Definition read (k : key) (b : buffer) (s : store) : option value :=
  match buf_get k b with
  | Some ov => ov
  | None => st_get k s
  end.

(* ------------------------------------------------------------------------------------- *)
(* B. sequential specification                                                             *)
(* ------------------------------------------------------------------------------------- *)

Inductive mode := RO | RW.

Inductive call :=
| CBegin (m : mode)
| CGet (k : key)
| CPut (k : key) (v : value)
| CDel (k : key)
| CScan (lo hi : option key)          (* NewIterator / NewRangeIterator drained front to back *)
| CCommit
| CRollback.

Inductive result :=
| ROk
| RVal (v : option value)              (* Get: value or ErrKeyNotFound *)
| RRows (l : list (key * value))       (* scan: live pairs in order *)
| RClosed                              (* ErrTransactionClosed *)
| RReadOnly.                           (* ErrReadOnlyTransaction *)

Record txspec := { x_mode : mode; x_buf : buffer; x_active : bool }.

Definition new_tx (m : mode) : txspec := {| x_mode := m; x_buf := []; x_active := true |}.
Definition with_buf (x : txspec) (b : buffer) : txspec :=
  {| x_mode := x_mode x; x_buf := b; x_active := x_active x |}.
Definition closed_tx (x : txspec) (b : buffer) : txspec :=
  {| x_mode := x_mode x; x_buf := b; x_active := false |}.

(* one call of a transaction that runs alone against store S; None = not a call of a begun
   transaction (a second Begin) *)
Definition spec_step (S : store) (x : txspec) (c : call) : option (store * txspec * result) :=
  match c with
  | CBegin _ => None
  | CGet k =>
      if x_active x then Some (S, x, RVal (read k (x_buf x) S)) else Some (S, x, RClosed)
  | CPut k v =>
      if x_active x then
        match x_mode x with
        | RO => Some (S, x, RReadOnly)
        | RW => Some (S, with_buf x (buf_set k (Some v) (x_buf x)), ROk)
        end
      else Some (S, x, RClosed)
  | CDel k =>
      if x_active x then
        match x_mode x with
        | RO => Some (S, x, RReadOnly)
        | RW => Some (S, with_buf x (buf_set k None (x_buf x)), ROk)
        end
      else Some (S, x, RClosed)
  | CScan lo hi =>
      if x_active x then Some (S, x, RRows (scan lo hi (x_buf x) S))
      else Some (S, x, RRows [])                   (* emptyIterator *)
  | CCommit =>
      if x_active x then
        match x_mode x with
        | RO => Some (S, closed_tx x (x_buf x), ROk)
        | RW => Some (apply_buf (x_buf x) S, closed_tx x (x_buf x), ROk)
        end
      else Some (S, x, RClosed)
  | CRollback =>
      if x_active x then Some (S, closed_tx x [], ROk) else Some (S, x, RClosed)
  end.

Definition opt_eqb {A} (f : A -> A -> bool) (a b : option A) : bool :=
  match a, b with
  | None, None => true
  | Some x, Some y => f x y
  | _, _ => false
  end.

Fixpoint rows_eqb (a b : list (key * value)) : bool :=
  match a, b with
  | [], [] => true
  | (k, v) :: a', (k', v') :: b' => beq k k' && beq v v' && rows_eqb a' b'
  | _, _ => false
  end.

Definition result_eqb (a b : result) : bool :=
  match a, b with
  | ROk, ROk => true
  | RVal x, RVal y => opt_eqb beq x y
  | RRows x, RRows y => rows_eqb x y
  | RClosed, RClosed => true
  | RReadOnly, RReadOnly => true
  | _, _ => false
  end.

(* recorded event: one completed call of transaction h_tx with the result the caller got;
   h_inv is a ticket taken before the call was issued, h_ret one taken after it returned *)
Record hev := { h_tx : nat; h_call : call; h_res : result; h_inv : N; h_ret : N }.
Definition history := list hev.

(* the calls of one transaction after its Begin, run alone, must produce the recorded results *)
Fixpoint spec_steps (S : store) (x : txspec) (evs : list hev) : option (store * txspec) :=
  match evs with
  | [] => Some (S, x)
  | e :: r =>
      match spec_step S x (h_call e) with
      | Some (S', x', res) => if result_eqb res (h_res e) then spec_steps S' x' r else None
      | None => None
      end
  end.

Definition spec_tx (S : store) (evs : list hev) : option (store * txspec) :=
  match evs with
  | [] => None
  | e :: r =>
      match h_call e, h_res e with
      | CBegin m, ROk => spec_steps S (new_tx m) r
      | _, _ => None
      end
  end.

(* the events of transaction t, in the order of the history *)
Definition proj (h : history) (t : nat) : list hev := filter (fun e => Nat.eqb (h_tx e) t) h.

(* running the transactions one at a time in the given order; None = some recorded result
   differs from what the serial execution returns *)
Fixpoint serial_run (S : store) (h : history) (order : list nat) : option store :=
  match order with
  | [] => Some S
  | t :: r =>
      match spec_tx S (proj h t) with
      | Some (S', _) => serial_run S' h r
      | None => None
      end
  end.

(* ------------------------------------------------------------------------------------- *)
(* C. concurrent model                                                                     *)
(* ------------------------------------------------------------------------------------- *)

(* per-transaction state: the data part and hasReadLock/hasWriteLock (one flag: the mode
   says which) *)
Record txst := { t_spec : txspec; t_lock : bool }.

(* s_readers / s_writer: the state of Manager.txLock *)
Record state := {
  s_store : store;
  s_readers : nat;
  s_writer : bool;
  s_txs : list (nat * txst)            (* in order of creation *)
}.

Definition init (S0 : store) : state :=
  {| s_store := S0; s_readers := 0; s_writer := false; s_txs := [] |}.

Fixpoint find_tx (t : nat) (l : list (nat * txst)) : option txst :=
  match l with
  | [] => None
  | (t', x) :: r => if Nat.eqb t t' then Some x else find_tx t r
  end.

Fixpoint upd_tx (t : nat) (x : txst) (l : list (nat * txst)) : list (nat * txst) :=
  match l with
  | [] => []
  | (t', x') :: r => if Nat.eqb t t' then (t', x) :: r else (t', x') :: upd_tx t x r
  end.

(* One API call as one atomic step. Begin is enabled only when the lock allows the mode
   (None = the caller is blocked, or the id is not fresh); every other call runs the data
   semantics of part B on the committed store and the caller's own buffer. Commit/Rollback
   clear the active flag and (Commit, RW) apply the batch; the lock itself is dropped by the
   separate internal step [release], as in the code, where Unlock follows ApplyBatch. *)
Definition exec (s : state) (t : nat) (c : call) : option (state * result) :=
  match c with
  | CBegin m =>
      match find_tx t (s_txs s) with
      | Some _ => None
      | None =>
          match m with
          | RO =>
              if s_writer s then None
              else Some ({| s_store := s_store s; s_readers := S (s_readers s); s_writer := false;
                            s_txs := s_txs s ++ [(t, {| t_spec := new_tx RO; t_lock := true |})] |}, ROk)
          | RW =>
              if s_writer s || negb (Nat.eqb (s_readers s) 0) then None
              else Some ({| s_store := s_store s; s_readers := s_readers s; s_writer := true;
                            s_txs := s_txs s ++ [(t, {| t_spec := new_tx RW; t_lock := true |})] |}, ROk)
          end
      end
  | _ =>
      match find_tx t (s_txs s) with
      | None => None
      | Some x =>
          match spec_step (s_store s) (t_spec x) c with
          | Some (S', x', r) =>
              Some ({| s_store := S'; s_readers := s_readers s; s_writer := s_writer s;
                       s_txs := upd_tx t {| t_spec := x'; t_lock := t_lock x |} (s_txs s) |}, r)
          | None => None
          end
      end
  end.

(* releaseReadLock / releaseWriteLock of a transaction that is no longer active *)
Definition release (s : state) (t : nat) : option state :=
  match find_tx t (s_txs s) with
  | None => None
  | Some x =>
      if t_lock x && negb (x_active (t_spec x)) then
        let txs' := upd_tx t {| t_spec := t_spec x; t_lock := false |} (s_txs s) in
        match x_mode (t_spec x) with
        | RO => Some {| s_store := s_store s; s_readers := pred (s_readers s);
                        s_writer := s_writer s; s_txs := txs' |}
        | RW => Some {| s_store := s_store s; s_readers := s_readers s;
                        s_writer := false; s_txs := txs' |}
        end
      else None
  end.

Inductive label :=
| LCall (t : nat) (c : call) (r : result)
| LRel (t : nat).

Definition step (s : state) (l : label) (s' : state) : Prop :=
  match l with
  | LCall t c r => exec s t c = Some (s', r)
  | LRel t => release s t = Some s'
  end.

Inductive steps : state -> list label -> state -> Prop :=
| steps_nil : forall s, steps s [] s
| steps_cons : forall s l s' tr s'', step s l s' -> steps s' tr s'' -> steps s (l :: tr) s''.

(* executable version of [steps] (used for the non-vacuity examples) *)
Fixpoint run_trace (s : state) (tr : list label) : option state :=
  match tr with
  | [] => Some s
  | LCall t c r :: rest =>
      match exec s t c with
      | Some (s', r') => if result_eqb r' r then run_trace s' rest else None
      | None => None
      end
  | LRel t :: rest =>
      match release s t with
      | Some s' => run_trace s' rest
      | None => None
      end
  end.

(* the history of a trace: the calls, stamped with their position (invocation = return) *)
Fixpoint hist_from (n : N) (tr : list label) : history :=
  match tr with
  | [] => []
  | LCall t c r :: rest =>
      {| h_tx := t; h_call := c; h_res := r; h_inv := n; h_ret := n |} :: hist_from (n + 1) rest
  | LRel _ :: rest => hist_from (n + 1) rest
  end.
Definition hist_of (tr : list label) : history := hist_from 0 tr.

(* ------------------------------------------------------------------------------------- *)
(* D. serializability of a history; checker                                                *)
(* ------------------------------------------------------------------------------------- *)

(* every call of t1 had returned before the first call of t2 was issued *)
Definition finished_before (h : history) (t1 t2 : nat) : Prop :=
  forall e1 e2, In e1 h -> In e2 h -> h_tx e1 = t1 -> h_tx e2 = t2 -> h_ret e1 < h_inv e2.

Definition precedes (order : list nat) (a b : nat) : Prop :=
  exists l1 l2 l3, order = l1 ++ a :: l2 ++ b :: l3.

Definition rt_consistent (h : history) (order : list nat) : Prop :=
  forall t1 t2, In t1 order -> In t2 order -> t1 <> t2 ->
                finished_before h t1 t2 -> precedes order t1 t2.

(* within one transaction the listed order of the calls is their order in time *)
Fixpoint seq_ok (l : list hev) : Prop :=
  match l with
  | [] => True
  | e :: r => h_inv e <= h_ret e /\ (forall e', In e' r -> h_ret e < h_inv e') /\ seq_ok r
  end.
Definition hist_wf (h : history) : Prop := forall t, seq_ok (proj h t).

(* THE definition: the transactions of h can be run one at a time, in an order that
   respects real time, so that every call returns what was recorded *)
Definition serializable (S0 : store) (h : history) : Prop :=
  exists order : list nat,
    NoDup order /\
    (forall t, In t order <-> In t (map h_tx h)) /\
    rt_consistent h order /\
    serial_run S0 h order <> None.

(* ---- checker: candidate order = order in which the Begin calls appear in h ---- *)
Fixpoint begin_order (h : history) : list nat :=
  match h with
  | [] => []
  | e :: r =>
      match h_call e with
      | CBegin _ => h_tx e :: begin_order r
      | _ => begin_order r
      end
  end.

Fixpoint nodupb (l : list nat) : bool :=
  match l with
  | [] => true
  | x :: r => negb (existsb (Nat.eqb x) r) && nodupb r
  end.

Definition fin_before_b (h : history) (t1 t2 : nat) : bool :=
  forallb (fun e1 => forallb (fun e2 => h_ret e1 <? h_inv e2) (proj h t2)) (proj h t1).

Fixpoint rt_check (h : history) (order : list nat) : bool :=
  match order with
  | [] => true
  | t :: r => forallb (fun t' => negb (fin_before_b h t' t)) r && rt_check h r
  end.

Fixpoint seq_ok_b (l : list hev) : bool :=
  match l with
  | [] => true
  | e :: r => (h_inv e <=? h_ret e) && forallb (fun e' => h_ret e <? h_inv e') r && seq_ok_b r
  end.

Definition wf_check (h : history) : bool :=
  forallb (fun t => seq_ok_b (proj h t)) (begin_order h).

Definition ser_check (S0 : store) (h : history) : bool :=
  let order := begin_order h in
  nodupb order &&
  forallb (fun e => existsb (Nat.eqb (h_tx e)) order) h &&
  wf_check h &&
  rt_check h order &&
  match serial_run S0 h order with Some _ => true | None => false end.

(* diagnosis for the runner's REJECT line (not used by any theorem) *)
Inductive why :=
| WAccept
| WDupBegin
| WNoBegin (t : nat)
| WClock (t : nat)
| WRealTime (t1 t2 : nat)
| WRead (t : nat) (idx : nat) (expected : option result).

Fixpoint first_bad (S : store) (x : txspec) (evs : list hev) (i : nat) : (option (store * txspec)) * nat * option result :=
  match evs with
  | [] => (Some (S, x), i, None)
  | e :: r =>
      match spec_step S x (h_call e) with
      | Some (S', x', res) =>
          if result_eqb res (h_res e) then first_bad S' x' r (Datatypes.S i) else (None, i, Some res)
      | None => (None, i, None)
      end
  end.

Fixpoint serial_why (S : store) (h : history) (order : list nat) : why :=
  match order with
  | [] => WAccept
  | t :: r =>
      match proj h t with
      | [] => WNoBegin t
      | e :: evs =>
          match h_call e, h_res e with
          | CBegin m, ROk =>
              match first_bad S (new_tx m) evs 1%nat with
              | (Some (S', _), _, _) => serial_why S' h r
              | (None, i, ex) => WRead t i ex
              end
          | _, _ => WRead t 0%nat None
          end
      end
  end.

Fixpoint rt_why (h : history) (order : list nat) : why :=
  match order with
  | [] => WAccept
  | t :: r =>
      match find (fun t' => fin_before_b h t' t) r with
      | Some t' => WRealTime t' t
      | None => rt_why h r
      end
  end.

Definition ser_why (S0 : store) (h : history) : why :=
  let order := begin_order h in
  if negb (nodupb order) then WDupBegin
  else match find (fun e => negb (existsb (Nat.eqb (h_tx e)) order)) h with
       | Some e => WNoBegin (h_tx e)
       | None =>
           match find (fun t => negb (seq_ok_b (proj h t))) order with
           | Some t => WClock t
           | None =>
               match rt_why h order with
               | WAccept => serial_why S0 h order
               | w => w
               end
           end
       end.
