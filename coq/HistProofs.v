(* HistProofs.v — soundness of the linearizability checker of Hist.v:
     lin_check fuel h = true -> linearizable_per_key h
   (completeness is not claimed; the check measures that real histories are accepted), and
   the easy half of locality: a linearization of the whole history projects to every key. *)
From Coq Require Import Lia Permutation.
From KV Require Import Bytes Spec MemtableProofs Hist.
Open Scope N_scope.

(* ---------- small facts ---------- *)

Lemma obeq_true_iff : forall a b, obeq a b = true <-> a = b.
Proof.
  intros [x|] [y|]; cbn [obeq]; split; intros H; try discriminate; try reflexivity.
  - apply beq_true_iff in H. congruence.
  - injection H as ->. apply beq_refl.
Qed.

Lemma FOP_app_single : forall (A : Type) (R : A -> A -> Prop) l x,
  ForallOrdPairs R l -> Forall (fun a => R a x) l -> ForallOrdPairs R (l ++ [x]).
Proof.
  intros A R l x H. induction H as [|a l Ha Hl IH]; intros Hx; cbn [app].
  - constructor; constructor.
  - inversion Hx; subst. constructor.
    + apply Forall_app. split; [exact Ha|]. constructor; [assumption|constructor].
    + apply IH. assumption.
Qed.

Lemma legal_app : forall (S : Type) (apply : S -> orec -> option S) l1 l2 s,
  legal S apply s (l1 ++ l2) <->
  exists s', (fold_left (fun a o => match a with Some x => apply x o | None => None end) l1 (Some s)
              = Some s') /\ legal S apply s' l2.
Proof.
  intros S apply l1. induction l1 as [|o r IH]; intros l2 s; cbn [app legal fold_left].
  - split; [intros H; exists s; auto|intros (s' & E & H); congruence].
  - destruct (apply s o) as [s1|] eqn:E.
    + apply IH.
    + split; [contradiction|]. intros (s' & F & _).
      exfalso. clear -F. induction r as [|x r IH]; cbn [fold_left] in F; [discriminate|auto].
Qed.

(* ---------- min_ret / eligibility ---------- *)

Lemma min_ret_spec : forall rem p, In p rem -> is_pending (snd p) = false ->
  exists m, min_ret rem = Some m /\ m <= o_ret (snd p).
Proof.
  induction rem as [|[i o] r IH]; intros p [] Hp.
  - subst p. cbn [snd] in Hp. cbn [min_ret]. rewrite Hp. cbn [snd].
    destruct (min_ret r) as [m|].
    + destruct (o_ret o <? m) eqn:C.
      * eexists. split; [reflexivity|]. lia.
      * eexists. split; [reflexivity|]. apply N.ltb_ge in C. exact C.
    + eexists. split; [reflexivity|]. lia.
  - destruct (IH p H Hp) as (m & E & L). cbn [min_ret]. rewrite E.
    destruct (is_pending o); [eauto|].
    destruct (o_ret o <? m) eqn:C.
    + eexists. split; [reflexivity|]. apply N.ltb_lt in C. lia.
    + eexists. split; [reflexivity|]. exact L.
Qed.

Lemma eligible_not_before : forall rem o p,
  eligible (min_ret rem) o = true -> In p rem -> ~ returns_before (snd p) o.
Proof.
  intros rem o p E Hin [Hp Hlt].
  destruct (min_ret_spec rem p Hin Hp) as (m & Em & L).
  unfold eligible in E. rewrite Em in E. apply N.ltb_lt in E. lia.
Qed.

(* ---------- the search ---------- *)

Definition sound_result (rem : list (N * orec)) (s : rstate) (r : verdict * (N * cache)) : Prop :=
  fst r = VAccept ->
  exists l dropped,
    Permutation rem (l ++ dropped) /\
    Forall (fun p => is_pending (snd p) = true) dropped /\
    rt_ok (map snd l) /\ legal _ reg_apply s (map snd l).

Lemma try_ops_sound : forall rec mr mask s rem rem0,
  mr = min_ret rem ->
  (forall rem' mask' s' bc', sound_result rem' s' (rec rem' mask' s' bc')) ->
  forall post pre bc,
    incl (rev pre ++ post) rem ->
    sound_result (rev pre ++ post) s (try_ops rec mr mask s rem0 pre post bc).
Proof.
  intros rec mr mask s rem rem0 Hmr Hrec. induction post as [|p post IH]; intros pre bc Hincl.
  - cbn [try_ops]. intros H. cbn [fst] in H. discriminate.
  - assert (Hnext : forall bc', sound_result (rev pre ++ p :: post) s
                                 (try_ops rec mr mask s rem0 (p :: pre) post bc')).
    { intros bc'. specialize (IH (p :: pre) bc'). cbn [rev] in IH. rewrite <- app_assoc in IH.
      cbn [app] in IH. apply IH. exact Hincl. }
    cbn [try_ops].
    destruct (eligible mr (snd p) && (negb (skip_op (snd p)) && negb (blocked s (snd p) rem0))) eqn:El;
      [|apply Hnext].
    apply andb_prop in El. destruct El as [El _].
    destruct (reg_apply s (snd p)) as [s'|] eqn:Ap; [|apply Hnext].
    set (r := rec (rev_append pre post) (N.lor mask (N.shiftl 1 (fst p))) s' bc).
    pose proof (Hrec (rev_append pre post) (N.lor mask (N.shiftl 1 (fst p))) s' bc) as Hr.
    fold r in Hr.
    destruct (fst r) eqn:V.
    + (* accepted below: p first, then the linearization of the rest *)
      intros _. destruct (Hr V) as (l & dropped & HP & HD & HR & HL).
      rewrite rev_append_rev in HP.
      exists (p :: l), dropped. split; [|split; [exact HD|split]].
      * cbn [app]. apply Permutation_sym. eapply Permutation_trans.
        { apply perm_skip. apply Permutation_sym. exact HP. }
        apply Permutation_middle.
      * cbn [map]. constructor; [|exact HR].
        rewrite Forall_forall. intros b Hb. apply in_map_iff in Hb.
        destruct Hb as (q & <- & Hq).
        subst mr. apply (eligible_not_before rem (snd p) q El).
        apply Hincl.
        assert (Hq' : In q (rev pre ++ post)).
        { eapply Permutation_in; [apply Permutation_sym; exact HP|].
          apply in_or_app. left. exact Hq. }
        apply in_app_or in Hq'. apply in_or_app. destruct Hq' as [Hq'|Hq']; [left; exact Hq'|].
        right. right. exact Hq'.
      * cbn [map legal]. rewrite Ap. exact HL.
    + destruct (is_noop (snd p)).
      * intros H. cbn [fst] in H. discriminate.
      * apply Hnext.
    + intros H. rewrite V in H. discriminate.
Qed.

Lemma search_sound : forall d rem mask s bc, sound_result rem s (search d rem mask s bc).
Proof.
  induction d as [|d IH]; intros rem mask s bc.
  - cbn [search]. intros H. discriminate.
  - cbn [search].
    destruct (all_pending rem) eqn:AP.
    + intros _. exists [], rem. split; [apply Permutation_refl|]. split; [|split].
      * unfold all_pending in AP. rewrite forallb_forall in AP. apply Forall_forall. exact AP.
      * constructor.
      * exact I.
    + destruct (fst bc =? 0); [intros H; discriminate|].
      destruct (cache_mem (snd bc) mask s); [intros H; discriminate|].
      apply (try_ops_sound (search d) (min_ret rem) mask s rem rem eq_refl IH rem [] _).
      cbn [rev app]. apply incl_refl.
Qed.

(* ---------- per key ---------- *)

Lemma map_snd_number : forall l i, map snd (number i l) = l.
Proof. induction l as [|o r IH]; intros i; cbn [number map snd]; [reflexivity|]. rewrite IH. reflexivity. Qed.

Theorem check_key_sound : forall fuel k h,
  check_key fuel k h = VAccept -> linearizable_reg None (key_ops k h).
Proof.
  intros fuel k h H. unfold check_key in H.
  destruct (search_sound _ _ _ _ _ H) as (l & dropped & HP & HD & HR & HL).
  exists (map snd l). split; [|split; assumption].
  exists (map snd dropped). split.
  - rewrite <- map_app. rewrite <- (map_snd_number (key_ops k h) 0) at 1.
    apply Permutation_map. exact HP.
  - rewrite Forall_forall in *. intros o Ho. apply in_map_iff in Ho.
    destruct Ho as (p & <- & Hp). exact (HD p Hp).
Qed.

Lemma add_key_in : forall k ks x, In x (add_key k ks) <-> x = k \/ In x ks.
Proof.
  intros k ks x. induction ks as [|y r IH]; cbn [add_key].
  - cbn [In]. intuition.
  - destruct (beq y k) eqn:B.
    + apply beq_true_iff in B. subst y. cbn [In]. intuition.
    + cbn [In]. rewrite IH. intuition.
Qed.

Lemma keys_of_in : forall h o, In o h -> In (o_key o) (keys_of h).
Proof.
  intros h o. unfold keys_of.
  assert (G : forall l acc, (In o l \/ In (o_key o) acc) ->
                            In (o_key o) (fold_left (fun ks x => add_key (o_key x) ks) l acc)).
  { induction l as [|x r IH]; intros acc [Hin|Hacc]; cbn [fold_left].
    - contradiction.
    - exact Hacc.
    - destruct Hin as [->|Hin].
      + apply IH. right. apply add_key_in. left. reflexivity.
      + apply IH. left. exact Hin.
    - apply IH. right. apply add_key_in. right. exact Hacc. }
  intros Hin. apply G. left. exact Hin.
Qed.

Lemma key_ops_nil : forall k h, ~ In k (keys_of h) -> key_ops k h = [].
Proof.
  intros k h Hn. unfold key_ops.
  destruct (filter (fun o => beq (o_key o) k) h) as [|o r] eqn:F; [reflexivity|].
  exfalso. assert (Ho : In o (filter (fun o => beq (o_key o) k) h)) by (rewrite F; left; reflexivity).
  apply filter_In in Ho. destruct Ho as [Hin Hk]. apply beq_true_iff in Hk. subst k.
  apply Hn. apply keys_of_in. exact Hin.
Qed.

Lemma linearizable_nil : forall (S : Type) apply (s : S), linearizable_from S apply s [].
Proof.
  intros. exists []. split; [|split].
  - exists []. split; constructor.
  - constructor.
  - exact I.
Qed.

(* soundness of the checker: acceptance proves every key's sub-history linearizable *)
Theorem lin_check_sound : forall fuel h, lin_check fuel h = true -> linearizable_per_key h.
Proof.
  intros fuel h H k. unfold lin_check, lin_verdicts in H. rewrite forallb_forall in H.
  destruct (in_dec (list_eq_dec N.eq_dec) k (keys_of h)) as [Hin|Hn].
  - specialize (H (k, check_key fuel k h)). cbn [snd] in H.
    assert (A : accepted (check_key fuel k h) = true).
    { apply H. apply in_map_iff. exists k. split; [reflexivity|exact Hin]. }
    apply (check_key_sound fuel). destruct (check_key fuel k h); try discriminate. reflexivity.
  - rewrite (key_ops_nil k h Hn). apply linearizable_nil.
Qed.

(* a rejection is specific: some key's verdict is not VAccept *)
Lemma lin_check_false : forall fuel h, lin_check fuel h = false ->
  exists k v, In (k, v) (lin_verdicts fuel h) /\ accepted v = false.
Proof.
  intros fuel h H. unfold lin_check in H.
  assert (G : forall l : list (bytes * verdict), forallb (fun kv => accepted (snd kv)) l = false ->
              exists k v, In (k, v) l /\ accepted v = false).
  { induction l as [|[k v] r IH]; cbn [forallb snd]; [discriminate|].
    destruct (accepted v) eqn:A; cbn [andb]; intros F.
    - destruct (IH F) as (k' & v' & Hin & Hv). exists k', v'. split; [right; exact Hin|exact Hv].
    - exists k, v. split; [left; reflexivity|exact A]. }
  apply G. exact H.
Qed.

(* ---------- the easy half of locality ---------- *)
(* A linearization of the whole history against the map specification projects to a
   linearization of every key's sub-history against the register specification: what the
   checker demands per key is implied by what C06_linearizable proves of the model. (The
   converse, Herlihy & Wing's locality theorem, is not proved here.) *)

Lemma Permutation_filter_ : forall (A : Type) (f : A -> bool) l l',
  Permutation l l' -> Permutation (filter f l) (filter f l').
Proof.
  intros A f l l' H. induction H; cbn [filter].
  - constructor.
  - destruct (f x); [apply perm_skip|]; exact IHPermutation.
  - destruct (f x), (f y); try apply Permutation_refl. apply perm_swap.
  - eapply Permutation_trans; eassumption.
Qed.

Lemma FOP_filter : forall (A : Type) (R : A -> A -> Prop) (f : A -> bool) l,
  ForallOrdPairs R l -> ForallOrdPairs R (filter f l).
Proof.
  intros A R f l H. induction H as [|a l Ha Hl IH]; cbn [filter]; [constructor|].
  destruct (f a); [|exact IH]. constructor; [|exact IH].
  rewrite Forall_forall in *. intros x Hx. apply filter_In in Hx. apply Ha. tauto.
Qed.

Lemma flat_app_ : forall a b, flat (a ++ b) = flat a ++ flat b.
Proof. intros. unfold flat. apply flat_map_app. Qed.

Lemma last_effect_app_ : forall k a b,
  last_effect k (a ++ b) =
  match last_effect k b with Some x => Some x | None => last_effect k a end.
Proof.
  intros k a b. induction a as [|[k' v] a IH]; cbn [app last_effect].
  - destruct (last_effect k b); reflexivity.
  - rewrite IH. destruct (last_effect k b); reflexivity.
Qed.

Lemma spec_get_put : forall w k v k',
  spec_get (w ++ [WPut k v]) k' = if beq k k' then Some v else spec_get w k'.
Proof.
  intros w k v k'. unfold spec_get, latest. rewrite flat_app_, last_effect_app_.
  unfold flat at 1. cbn [flat_map effects app last_effect]. destruct (beq k k'); reflexivity.
Qed.

Lemma spec_get_del : forall w k k',
  spec_get (w ++ [WDel k]) k' = if beq k k' then None else spec_get w k'.
Proof.
  intros w k k'. unfold spec_get, latest. rewrite flat_app_, last_effect_app_.
  unfold flat at 1. cbn [flat_map effects app last_effect]. destruct (beq k k'); reflexivity.
Qed.

(* one step of the map specification, seen from key k *)
Lemma spec_apply_project : forall w o w' k,
  spec_apply w o = Some w' ->
  if beq (o_key o) k
  then reg_apply (spec_get w k) o = Some (spec_get w' k)
  else spec_get w' k = spec_get w k.
Proof.
  intros w o w' k H. unfold spec_apply in H. unfold reg_apply.
  destruct (beq (o_key o) k) eqn:B.
  - apply beq_true_iff in B. subst k.
    destruct (o_kind o) as [v| |], (o_res o) as [| | |rv|]; try discriminate;
      try (injection H as <-; rewrite ?spec_get_put, ?spec_get_del, ?beq_refl; reflexivity).
    + destruct (obeq (spec_get w (o_key o)) (Some rv)); [|discriminate]. injection H as <-. reflexivity.
    + destruct (obeq (spec_get w (o_key o)) None); [|discriminate]. injection H as <-. reflexivity.
  - destruct (o_kind o) as [v| |], (o_res o) as [| | |rv|]; try discriminate;
      try (injection H as <-; rewrite ?spec_get_put, ?spec_get_del, ?B; reflexivity).
    + destruct (obeq (spec_get w (o_key o)) (Some rv)); [|discriminate]. injection H as <-. reflexivity.
    + destruct (obeq (spec_get w (o_key o)) None); [|discriminate]. injection H as <-. reflexivity.
Qed.

Lemma legal_project : forall l w k,
  legal _ spec_apply w l -> legal _ reg_apply (spec_get w k) (key_ops k l).
Proof.
  induction l as [|o l IH]; intros w k H; cbn [legal key_ops filter] in *; [exact I|].
  destruct (spec_apply w o) as [w'|] eqn:A; [|contradiction].
  pose proof (spec_apply_project w o w' k A) as P.
  destruct (beq (o_key o) k).
  - cbn [legal]. rewrite P. apply IH. exact H.
  - rewrite <- P. apply IH. exact H.
Qed.

Theorem linearizable_projects : forall w0 h,
  linearizable w0 h -> forall k, linearizable_reg (spec_get w0 k) (key_ops k h).
Proof.
  intros w0 h (l & (dropped & HP & HD) & HR & HL) k.
  exists (key_ops k l). split; [|split].
  - exists (key_ops k dropped). split.
    + unfold key_ops. rewrite <- filter_app. apply Permutation_filter_. exact HP.
    + rewrite Forall_forall in *. intros o Ho. apply filter_In in Ho. apply HD. tauto.
  - apply FOP_filter. exact HR.
  - apply legal_project. exact HL.
Qed.

(* from an empty database every key starts absent: exactly what lin_check assumes *)
Corollary linearizable_per_key_of_linearizable : forall h,
  linearizable [] h -> linearizable_per_key h.
Proof. intros h H k. exact (linearizable_projects [] h H k). Qed.

(* ---------- examples (non-vacuity) ---------- *)
Module HistExamples.
  Definition k1 : bytes := [107; 49].
  Definition v (n : N) : bytes := [n].
  Definition op t kd rs c r := mkOp t k1 kd rs c r.

  (* two overlapping puts, a get that sees the one that was called later: linearizable *)
  Definition h_ok : history :=
    [op 1 (KPut (v 1)) ROk 0 5; op 2 (KPut (v 2)) ROk 1 4; op 3 KGet (RVal (v 1)) 6 7;
     op 1 KDel RFail 8 9; op 2 KGet (RVal (v 1)) 10 11; op 3 (KPut (v 3)) RPending 12 0;
     op 1 KGet (RVal (v 3)) 13 14].
  Example lin_check_accepts : lin_check 1000 h_ok = true.
  Proof. vm_compute. reflexivity. Qed.
  Example h_ok_linearizable : linearizable_per_key h_ok.
  Proof. exact (lin_check_sound 1000 h_ok lin_check_accepts). Qed.

  (* stale read: put 1 returned, put 2 returned, then a get returns 1 *)
  Definition h_stale : history :=
    [op 1 (KPut (v 1)) ROk 0 1; op 2 (KPut (v 2)) ROk 2 3; op 3 KGet (RVal (v 1)) 4 5].
  Example lin_check_rejects_stale : lin_verdicts 1000 h_stale = [(k1, VReject)].
  Proof. vm_compute. reflexivity. Qed.

  (* effect of a failed write *)
  Definition h_failed : history :=
    [op 1 (KPut (v 1)) ROk 0 1; op 2 (KPut (v 2)) RFail 2 3; op 3 KGet (RVal (v 2)) 4 5].
  Example lin_check_rejects_failed : lin_verdicts 1000 h_failed = [(k1, VReject)].
  Proof. vm_compute. reflexivity. Qed.

  (* lost acknowledged write *)
  Definition h_lost : history :=
    [op 1 (KPut (v 1)) ROk 0 1; op 3 KGet RNotFound 4 5].
  Example lin_check_rejects_lost : lin_verdicts 1000 h_lost = [(k1, VReject)].
  Proof. vm_compute. reflexivity. Qed.

  (* duplicated effect: 1, then 2, then 1 again without a second put of 1 *)
  Definition h_dup : history :=
    [op 1 (KPut (v 1)) ROk 0 1; op 3 KGet (RVal (v 1)) 2 3; op 2 (KPut (v 2)) ROk 4 5;
     op 3 KGet (RVal (v 2)) 6 7; op 3 KGet (RVal (v 1)) 8 9].
  Example lin_check_rejects_dup : lin_verdicts 1000 h_dup = [(k1, VReject)].
  Proof. vm_compute. reflexivity. Qed.

  (* out of fuel is its own verdict *)
  Example lin_check_fuel : lin_verdicts 2 h_ok = [(k1, VFuel)].
  Proof. vm_compute. reflexivity. Qed.
End HistExamples.
