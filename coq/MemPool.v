(* MemPool.v — the memtable pool (pkg/memtable/mempool.go) on its own: the active table, the
   immutable tables in the order they were switched out (oldest first), Get through them in read
   precedence (active first, then the immutable tables newest first), GetMemTables in the same
   order. The storage manager's use of the pool is Engine.v (mem_layers / mems_get are the same
   functions: pool_layers_engine, pool_get_engine below). Property C18 (observe_at:
   MemTablePool.Get / GetMemTables / SwitchToNewMemTable). *)
From KV Require Export Bytes Memtable Engine.
Open Scope N_scope.

Record mpool := mkPool { pl_active : memtable; pl_imms : list memtable }.

Definition pl_empty : mpool := mkPool mt_empty [].
Definition pl_put (p : mpool) (k v : bytes) (s : N) : mpool := mkPool (mt_put (pl_active p) k v s) (pl_imms p).
Definition pl_del (p : mpool) (k : bytes) (s : N) : mpool := mkPool (mt_del (pl_active p) k s) (pl_imms p).
(* SwitchToNewMemTable: the active table becomes the newest immutable one *)
Definition pl_switch (p : mpool) : mpool := mkPool mt_empty (pl_imms p ++ [mt_set_imm (pl_active p)]).
(* GetMemTables: read precedence *)
Definition pl_tables (p : mpool) : list memtable := pl_active p :: rev (pl_imms p).
Definition pl_get (p : mpool) (k : bytes) : option (option bytes) := mems_get k (pl_tables p).

Lemma pool_layers_engine : forall s, mem_layers s = pl_tables (mkPool (active s) (imms s)).
Proof. reflexivity. Qed.
