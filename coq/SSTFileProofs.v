(* SSTFileProofs.v — C11, file layer: footer round trip; a single altered byte in a block
   (data or index) or in the footer is rejected unless the checksum comparison itself accepts
   the altered bytes (stated concretely); the table iterator and Get only ever return entries
   of blocks that passed block.NewReader; the concrete per-block filter has no false
   negatives; a witness that the unprotected filter section can hide a written key from Get.
   No axioms. *)
From Coq Require Import List NArith Arith PeanoNat Bool Lia ZifyN ZifyNat.
From KV Require Import Bytes BytesProofs Engine Xxhash Block BlockProofs SSTable SSTableProofs SSTFile.
From KV.gen Require Import Consts.
Import ListNotations.
Open Scope N_scope.

(* ------------------------------------------------------------------------------------- *)
(* 0. altering one byte                                                                   *)
(* ------------------------------------------------------------------------------------- *)

Lemma upd_length : forall d i x, length (upd d i x) = length d.
Proof. induction d as [|y d IH]; intros [|i] x; cbn; auto. Qed.

Lemma upd_app_l : forall a b i x, (i < length a)%nat -> upd (a ++ b) i x = upd a i x ++ b.
Proof.
  induction a as [|y a IH]; intros b i x H; [cbn in H; lia|].
  destruct i as [|i]; cbn; [reflexivity|]. f_equal. apply IH. cbn in H. lia.
Qed.

Lemma upd_app_r : forall a b j x, upd (a ++ b) (length a + j) x = a ++ upd b j x.
Proof. induction a as [|y a IH]; intros b j x; cbn; [reflexivity|]. f_equal. apply IH. Qed.

Lemma upd_neq : forall d i x, (i < length d)%nat -> nth i d 0 <> x -> upd d i x <> d.
Proof.
  induction d as [|y d IH]; intros [|i] x H N; cbn in *; try lia.
  - intros E. inversion E. congruence.
  - intros E. inversion E as [E']. revert E'. apply IH; [lia|exact N].
Qed.

Lemma nth_upd_bytes : forall d i x, (i < length d)%nat -> Forall (fun b => b < 256) d -> x < 256 ->
  Forall (fun b => b < 256) (upd d i x).
Proof.
  induction d as [|y d IH]; intros [|i] x H F X; cbn in *; try lia; inversion F; subst.
  - constructor; assumption.
  - constructor; [assumption|]. apply IH; [lia|assumption|assumption].
Qed.

Lemma le_bytes : forall n x, Forall (fun b => b < 256) (le n x).
Proof.
  induction n as [|n IH]; intros x; cbn [le]; constructor; [|apply IH].
  apply N.mod_lt. discriminate.
Qed.

Lemma unle_inj : forall a b, length a = length b ->
  Forall (fun x => x < 256) a -> Forall (fun x => x < 256) b -> unle a = unle b -> a = b.
Proof.
  induction a as [|x a IH]; intros [|y b] L Fa Fb E; cbn in L; try discriminate; [reflexivity|].
  inversion Fa; subst. inversion Fb; subst. cbn [unle] in E.
  assert (x = y) by lia. subst y. f_equal. apply IH; try assumption; lia.
Qed.

(* ------------------------------------------------------------------------------------- *)
(* 1. a block with one altered byte                                                       *)
(* ------------------------------------------------------------------------------------- *)

Lemma firstn_8_all : forall c : bytes, length c = 8%nat -> firstn 8 c = c.
Proof. intros c H. rewrite <- H. apply firstn_all. Qed.

(* NewReader on payload ++ 8 checksum bytes: rejected unless the checksum matches *)
Lemma new_reader_sum : forall P c8, length c8 = 8%nat -> 4 <= len P ->
  xxh64 P <> unle c8 -> new_reader (P ++ c8) = inr BChecksum.
Proof.
  intros P c8 L8 LP NE. unfold new_reader.
  assert (Lc : len c8 = 8) by (unfold len; rewrite L8; reflexivity).
  rewrite len_app, Lc. unfold BFOOT, block_BlockFooterSize.
  replace (len P + 8 <? 12) with false by (symmetry; apply N.ltb_ge; lia).
  replace (len P + 8 - 12 + 4) with (len P) by lia.
  replace (len P + 8 - 8) with (len P) by lia.
  assert (S : slice (P ++ c8) (len P) 8 = c8).
  { unfold slice. rewrite skipn_len_app. change (N.to_nat 8) with 8%nat. apply firstn_8_all. exact L8. }
  rewrite S. rewrite firstn_len_app.
  replace (xxh64 P =? unle c8) with false by (symmetry; apply N.eqb_neq; exact NE).
  reflexivity.
Qed.

(* Every block written by Finish is payload ++ XXH64(payload). If one byte is altered, NewReader
   fails with a checksum error, unless the altered payload has the same XXH64 as the original
   (the only way an altered block can be accepted). *)
Theorem block_detect : forall body rs i x,
  let pre := body ++ concat (map (le 4) rs) ++ le 4 (N.of_nat (length rs)) in
  let d := enc_trailer body rs in
  (i < length d)%nat -> x < 256 -> nth i d 0 <> x ->
  new_reader (upd d i x) = inr BChecksum \/
  ((i < length pre)%nat /\ upd pre i x <> pre /\ xxh64 (upd pre i x) = xxh64 pre).
Proof.
  intros body rs i x pre d Hi Hx Hn. subst d. unfold enc_trailer in *. fold pre in Hi, Hn |- *.
  set (ck := xxh64 pre) in *.
  assert (L8 : length (le 8 ck) = 8%nat) by apply le_length.
  assert (LP : 4 <= len pre).
  { unfold pre. rewrite !len_app, len_le. lia. }
  destruct (Nat.lt_ge_cases i (length pre)) as [Hlt|Hge].
  - (* the altered byte is in the payload *)
    rewrite upd_app_l by exact Hlt.
    rewrite app_nth1 in Hn by exact Hlt.
    destruct (N.eq_dec (xxh64 (upd pre i x)) ck) as [E|NE].
    + right. split; [exact Hlt|]. split; [apply upd_neq; assumption|exact E].
    + left. apply new_reader_sum.
      * exact L8.
      * unfold len. rewrite upd_length. exact LP.
      * rewrite unle_le8 by apply xxh64_bound. exact NE.
  - (* the altered byte is in the stored checksum *)
    left. replace i with (length pre + (i - length pre))%nat by lia.
    rewrite upd_app_r.
    rewrite app_length, L8 in Hi.
    assert (Hj : (i - length pre < length (le 8 ck))%nat) by (rewrite L8; lia).
    rewrite app_nth2 in Hn by exact Hge.
    apply new_reader_sum.
    + rewrite upd_length. exact L8.
    + exact LP.
    + fold ck. intros E.
      assert (E' : unle (upd (le 8 ck) (i - length pre) x) = unle (le 8 ck)).
      { rewrite unle_le8 by apply xxh64_bound. symmetry. exact E. }
      apply unle_inj in E'.
      * revert E'. apply upd_neq; assumption.
      * apply upd_length.
      * apply nth_upd_bytes; [exact Hj|apply le_bytes|exact Hx].
      * apply le_bytes.
Qed.

(* ------------------------------------------------------------------------------------- *)
(* 2. footer                                                                              *)
(* ------------------------------------------------------------------------------------- *)

(* the twelve fields of the 68-byte footer, by position *)
Lemma footer_slices : forall f0 f1 f2 f3 f4 f5 f6 f7 f8 f9 f10 f11 : bytes,
  length f0 = 8%nat -> length f1 = 4%nat -> length f2 = 8%nat -> length f3 = 8%nat ->
  length f4 = 4%nat -> length f5 = 4%nat -> length f6 = 4%nat -> length f7 = 4%nat ->
  length f8 = 8%nat -> length f9 = 4%nat -> length f10 = 4%nat -> length f11 = 8%nat ->
  let d := f0 ++ f1 ++ f2 ++ f3 ++ f4 ++ f5 ++ f6 ++ f7 ++ f8 ++ f9 ++ f10 ++ f11 in
  len d = 68 /\ slice d 0 8 = f0 /\ slice d 8 4 = f1 /\ slice d 12 8 = f2 /\ slice d 20 8 = f3 /\
  slice d 28 4 = f4 /\ slice d 32 4 = f5 /\ slice d 44 8 = f8 /\ slice d 52 4 = f9 /\
  slice d 60 8 = f11 /\
  slice d 0 60 = f0 ++ f1 ++ f2 ++ f3 ++ f4 ++ f5 ++ f6 ++ f7 ++ f8 ++ f9 ++ f10.
Proof.
  intros f0 f1 f2 f3 f4 f5 f6 f7 f8 f9 f10 f11 H0 H1 H2 H3 H4 H5 H6 H7 H8 H9 H10 H11.
  repeat (match goal with
          | H : length ?f = S _ |- _ => destruct f; [discriminate H|cbn [length] in H; apply Nat.succ_inj in H]
          | H : length ?f = O |- _ => destruct f; [clear H|discriminate H]
          end).
  vm_compute. repeat split.
Qed.

Definition footer_fields_ok (ts ioff isize nent boff bsize : N) : Prop :=
  ts < 2 ^ 64 /\ ioff < 2 ^ 64 /\ isize < 2 ^ 32 /\ nent < 2 ^ 32 /\ boff < 2 ^ 64 /\ bsize < 2 ^ 32.

Theorem footer_roundtrip : forall ts ioff isize nent boff bsize,
  footer_fields_ok ts ioff isize nent boff bsize ->
  dec_footer (enc_footer ts ioff isize nent boff bsize) = inl (mkFt 2 ts ioff isize nent boff bsize).
Proof.
  intros ts ioff isize nent boff bsize (Hts & Hio & His & Hne & Hbo & Hbs).
  unfold enc_footer. rewrite <- !app_assoc.
  set (b60 := le 8 FMAGIC ++ le 4 FVERSION ++ le 8 ts ++ le 8 ioff ++ le 4 isize ++ le 4 nent ++
              le 4 0 ++ le 4 0 ++ le 8 boff ++ le 4 bsize ++ [0; 0; 0; 0]).
  destruct (footer_slices (le 8 FMAGIC) (le 4 FVERSION) (le 8 ts) (le 8 ioff) (le 4 isize) (le 4 nent)
              (le 4 0) (le 4 0) (le 8 boff) (le 4 bsize) [0;0;0;0] (le 8 (xxh64 b60)))
    as (L & S0 & S1 & S2 & S3 & S4 & S5 & S8 & S9 & S11 & S60); try apply le_length; try reflexivity.
  cbv zeta in *. unfold dec_footer. rewrite L, S0, S1, S2, S3, S4, S5, S8, S9, S11, S60.
  fold b60. unfold FSIZE, footer_FooterSize.
  replace (68 <? 68) with false by reflexivity.
  rewrite !unle_le8, !unle_le4 by (try assumption; try apply xxh64_bound; vm_compute; reflexivity).
  change (FVERSION <? 2) with false. cbv iota. rewrite !N.eqb_refl. reflexivity.
Qed.

(* what an accepted footer satisfies *)
Lemma dec_footer_accepts : forall d ft, dec_footer d = inl ft ->
  unle (slice d 0 8) = FMAGIC /\
  (if unle (slice d 8 4) <? 2
   then unle (slice d 44 8) = xxh64 (slice d 0 44)
   else unle (slice d 60 8) = xxh64 (slice d 0 60)).
Proof.
  intros d ft H. unfold dec_footer in H.
  destruct (len d <? FSIZE); [discriminate|].
  destruct (unle (slice d 0 8) =? FMAGIC) eqn:M; cbn [negb] in H; [|discriminate].
  apply N.eqb_eq in M. split; [exact M|].
  destruct (unle (slice d 8 4) <? 2).
  - destruct (unle (slice d 44 8) =? xxh64 (slice d 0 44)) eqn:C; cbn [negb] in H; [|discriminate].
    apply N.eqb_eq. exact C.
  - destruct (unle (slice d 60 8) =? xxh64 (slice d 0 60)) eqn:C; cbn [negb] in H; [|discriminate].
    apply N.eqb_eq. exact C.
Qed.

Lemma slice_app_l : forall (a b : bytes) n, n <= len a -> slice (a ++ b) 0 n = firstn (N.to_nat n) a.
Proof.
  intros a b n H. unfold slice. change (N.to_nat 0) with 0%nat. cbn [skipn].
  rewrite firstn_app. replace (N.to_nat n - length a)%nat with 0%nat by (unfold len in H; lia).
  cbn [firstn]. apply app_nil_r.
Qed.

(* One altered byte in a footer written by Encode: Decode fails, unless the checksum comparison
   accepts the altered bytes — either the 60 covered bytes collide under XXH64, or the version
   field was altered to a legacy version and the legacy comparison (bytes 44..51 against the
   XXH64 of the first 44 bytes) happens to hold. *)
Theorem footer_detect : forall ts ioff isize nent boff bsize i x,
  footer_fields_ok ts ioff isize nent boff bsize ->
  let b60 := le 8 FMAGIC ++ le 4 FVERSION ++ le 8 ts ++ le 8 ioff ++ le 4 isize ++ le 4 nent ++
             le 4 0 ++ le 4 0 ++ le 8 boff ++ le 4 bsize ++ [0; 0; 0; 0] in
  let d := enc_footer ts ioff isize nent boff bsize in
  (i < 68)%nat -> x < 256 -> nth i d 0 <> x ->
  match dec_footer (upd d i x) with
  | inr _ => True
  | inl _ =>
    ((i < 60)%nat /\ upd b60 i x <> b60 /\ xxh64 (upd b60 i x) = xxh64 b60) \/
    (unle (slice (upd d i x) 8 4) < 2 /\
     unle (slice (upd d i x) 44 8) = xxh64 (slice (upd d i x) 0 44))
  end.
Proof.
  intros ts ioff isize nent boff bsize i x OK b60 d Hi Hx Hn.
  destruct (dec_footer (upd d i x)) as [ft|e] eqn:D; [|exact I].
  destruct (dec_footer_accepts _ _ D) as [_ A].
  destruct (unle (slice (upd d i x) 8 4) <? 2) eqn:V.
  - right. split; [apply N.ltb_lt; exact V|exact A].
  - left.
    assert (L60 : length b60 = 60%nat).
    { unfold b60. rewrite !app_length, !le_length. reflexivity. }
    assert (Ed : d = b60 ++ le 8 (xxh64 b60)).
    { unfold d, enc_footer. fold b60. reflexivity. }
    assert (L8 : length (le 8 (xxh64 b60)) = 8%nat) by apply le_length.
    assert (S60 : forall (P c : bytes), length P = 60%nat -> slice (P ++ c) 0 60 = P).
    { intros P c LPc. unfold slice. change (N.to_nat 0) with 0%nat. change (N.to_nat 60) with 60%nat.
      cbn [skipn]. apply firstn_app_exact. symmetry. exact LPc. }
    assert (S8 : forall (P c : bytes), length P = 60%nat -> length c = 8%nat -> slice (P ++ c) 60 8 = c).
    { intros P c LPc Lc. unfold slice. change (N.to_nat 60) with 60%nat. change (N.to_nat 8) with 8%nat.
      rewrite skipn_app_exact by (symmetry; exact LPc). apply firstn_8_all. exact Lc. }
    destruct (Nat.lt_ge_cases i 60) as [Hlt|Hge].
    + split; [exact Hlt|].
      rewrite Ed in A, Hn. rewrite upd_app_l in A by (rewrite L60; exact Hlt).
      rewrite app_nth1 in Hn by (rewrite L60; exact Hlt).
      split; [apply upd_neq; [rewrite L60; exact Hlt|exact Hn]|].
      rewrite S60, S8 in A by (try rewrite upd_length; assumption).
      rewrite unle_le8 in A by apply xxh64_bound. symmetry. exact A.
    + (* the altered byte is in the stored checksum: the comparison cannot hold *)
      exfalso. rewrite Ed in A, Hn.
      replace i with (length b60 + (i - 60))%nat in A, Hn by (rewrite L60; lia).
      rewrite upd_app_r in A. rewrite app_nth2_plus in Hn.
      assert (Lu : length (upd (le 8 (xxh64 b60)) (i - 60) x) = 8%nat) by (rewrite upd_length; exact L8).
      rewrite S60, S8 in A by assumption.
      assert (E' : unle (upd (le 8 (xxh64 b60)) (i - 60) x) = unle (le 8 (xxh64 b60))).
      { rewrite unle_le8 by apply xxh64_bound. exact A. }
      apply unle_inj in E'.
      * revert E'. apply upd_neq; [rewrite L8; lia|exact Hn].
      * rewrite Lu, L8. reflexivity.
      * apply nth_upd_bytes; [rewrite L8; lia|apply le_bytes|exact Hx].
      * apply le_bytes.
Qed.

(* ------------------------------------------------------------------------------------- *)
(* 3. only entries of verified blocks are ever returned                                   *)
(* ------------------------------------------------------------------------------------- *)

(* the iterator never stands in a block that could not be fetched *)
Definition blk_ok (tb : table) (it : titer) : Prop :=
  match ti_blk it with Some (j, _) => t_bad tb j = false | None => True end.

Lemma load_ok : forall tb ix j b e, ti_load tb ix = (Some (j, b), e) -> t_bad tb j = false.
Proof.
  intros tb ix j b e H. unfold ti_load in H.
  destruct (bi_valid (ikeys tb) ix); [|discriminate].
  destruct (bi_cur ix) as [j'|]; [|discriminate].
  destruct (t_bad tb j') eqn:B; [discriminate|]. inversion H; subst. exact B.
Qed.

Lemma blk_ok_first : forall tb, blk_ok tb (ti_seek_first tb).
Proof.
  intros tb. unfold ti_seek_first, blk_ok.
  destruct (ti_load tb (bi_first (ikeys tb))) as [[[j b]|] e] eqn:L; cbn; [|exact I].
  eapply load_ok; eauto.
Qed.

Lemma blk_ok_advance : forall tb ix e0, blk_ok tb (fst (ti_advance tb ix e0)).
Proof.
  intros tb ix e0. unfold ti_advance, blk_ok.
  destruct (ix_next_valid tb (S (length (ikeys tb))) ix) as [ix' found].
  destruct found; cbn; [|exact I].
  destruct (ti_load tb ix') as [[[j b]|] e] eqn:L; cbn; [|exact I].
  eapply load_ok; eauto.
Qed.

Lemma blk_ok_seek_next : forall tb fuel ix, blk_ok tb (fst (ti_seek_next tb fuel ix)).
Proof.
  intros tb fuel. induction fuel as [|f IH]; intros ix; cbn [ti_seek_next]; [exact I|].
  destruct (bi_next (ikeys tb) ix) as [ix' ok]. destruct ok; [|exact I].
  destruct (ti_load tb ix') as [[[j b]|] e] eqn:L.
  - destruct (bi_valid (bkeys tb j) (bi_first (bkeys tb j))); [|apply IH].
    cbn. eapply load_ok; eauto.
  - destruct e; [exact I|apply IH].
Qed.

Lemma blk_ok_next : forall tb it, blk_ok tb it -> blk_ok tb (fst (ti_next tb it)).
Proof.
  intros tb it H. unfold ti_next.
  destruct (negb (ti_init it)); [apply blk_ok_first|].
  destruct (ti_blk it) as [[j b]|] eqn:B.
  - destruct (bi_next (bkeys tb j) b) as [b' ok]. destruct ok.
    + unfold blk_ok in *. rewrite B in H. cbn. exact H.
    + apply blk_ok_advance.
  - destruct (ti_load tb (ti_ix it)) as [[[j b]|] e] eqn:L; unfold blk_ok; cbn; [|exact I].
    eapply load_ok; eauto.
Qed.

Lemma blk_ok_seek : forall tb t, blk_ok tb (fst (ti_seek tb t)).
Proof.
  intros tb t. unfold ti_seek.
  set (ix := if bi_valid (ikeys tb) (bi_seek_prev (ikeys tb) t) then _ else _).
  destruct (ti_load tb ix) as [[[j b]|] e] eqn:L; [|exact I].
  destruct (bi_cur (bi_seek (bkeys tb j) t)); [|apply blk_ok_seek_next].
  unfold blk_ok. cbn. eapply load_ok; eauto.
Qed.

Lemma blk_ok_last : forall tb, blk_ok tb (ti_seek_last tb).
Proof.
  intros tb. unfold ti_seek_last. destruct (valid_run (ikeys tb)) as [|j]; [exact I|].
  destruct (t_bad tb j) eqn:B; [exact I|]. unfold blk_ok. cbn. exact B.
Qed.

(* whatever the iterator shows is an entry of a block that was fetched successfully *)
Theorem cur_verified : forall tb it e, blk_ok tb it -> ti_cur tb it = Some e ->
  exists j, t_bad tb j = false /\ In e (nth j (t_blocks tb) []).
Proof.
  intros tb it e H C. unfold ti_cur in C. destruct (ti_valid tb it); [|discriminate].
  unfold blk_ok in H. destruct (ti_blk it) as [[j b]|]; [|discriminate].
  destruct (bi_cur b) as [i|]; [|discriminate].
  exists j. split; [exact H|]. eapply nth_error_In. exact C.
Qed.

Lemma scan_valid_in : forall k b e, scan_valid k b = Some e -> In e b /\ sk e = k.
Proof.
  induction b as [|y b IH]; intros e H; cbn in H; [discriminate|].
  destruct (key_nonempty (sk y)); [|discriminate].
  destruct (beq (sk y) k) eqn:E.
  - inversion H; subst. split; [left; reflexivity|]. apply MemtableProofs.beq_true_iff. exact E.
  - destruct (IH _ H) as [I1 I2]. split; [right; exact I1|exact I2].
Qed.

Lemma search_block_in : forall b k e, search_block b k = Some e -> In e b /\ sk e = k.
Proof.
  intros b k e H. unfold search_block in H.
  destruct (find_ge k (map sk b)) as [i|]; [|apply scan_valid_in; exact H].
  destruct (nth_error b i) as [y|] eqn:N; [|apply scan_valid_in; exact H].
  destruct (beq (sk y) k) eqn:E; [|apply scan_valid_in; exact H].
  inversion H; subst. split; [eapply nth_error_In; eauto|].
  apply MemtableProofs.beq_true_iff. exact E.
Qed.

(* a value or deletion marker returned by Get is that of an entry with this key in a block
   that was fetched successfully *)
Theorem get_verified : forall tb k,
  match t_get tb k with
  | GNotFound | GErr => True
  | g => exists j e, t_bad tb j = false /\ In e (nth j (t_blocks tb) []) /\ sk e = k /\ gres_of e = g
  end.
Proof.
  intros tb k. unfold t_get.
  destruct (bi_valid (ikeys tb) (bi_seek_prev (ikeys tb) k)); [|exact I].
  destruct (bi_cur (bi_seek_prev (ikeys tb) k)) as [j|]; [|exact I].
  destruct (if t_hasf tb then _ else true); [|exact I].
  destruct (t_bad tb j) eqn:B; [exact I|].
  destruct (search_block (nth j (t_blocks tb) []) k) as [e|] eqn:S; [|exact I].
  destruct (search_block_in _ _ _ S) as [I1 I2].
  unfold gres_of at 1. destruct (sval e) as [v|] eqn:V.
  - exists j, e. repeat split; try assumption. unfold gres_of. rewrite V. reflexivity.
  - exists j, e. repeat split; try assumption. unfold gres_of. rewrite V. reflexivity.
Qed.

(* ------------------------------------------------------------------------------------- *)
(* 4. the concrete per-block filter has no false negatives                                *)
(* ------------------------------------------------------------------------------------- *)

Lemma set_nth_length : forall l i f, length (set_nth l i f) = length l.
Proof. induction l as [|x l IH]; intros [|i] f; cbn; auto. Qed.

Lemma nth_set_nth_same : forall l i f, (i < length l)%nat -> nth i (set_nth l i f) 0 = f (nth i l 0).
Proof.
  induction l as [|x l IH]; intros [|i] f H; cbn in *; try lia; try reflexivity. apply IH. lia.
Qed.

Lemma nth_set_nth_other : forall l i j f, i <> j -> nth j (set_nth l i f) 0 = nth j l 0.
Proof.
  induction l as [|x l IH]; intros [|i] [|j] f H; cbn; try reflexivity; try congruence.
  apply IH. congruence.
Qed.

Lemma set_bit_length : forall bits p, length (set_bit bits p) = length bits.
Proof. intros. apply set_nth_length. Qed.

Lemma test_set_same : forall bits p, p / 8 < len bits -> test_bit (set_bit bits p) p = true.
Proof.
  intros bits p H. unfold test_bit, set_bit.
  replace (len (set_nth bits (N.to_nat (p / 8)) (fun x => N.lor x (2 ^ (p mod 8)))) <=? p / 8) with false.
  2:{ symmetry. apply N.leb_gt. unfold len in *. rewrite set_nth_length. exact H. }
  rewrite nth_set_nth_same by (unfold len in H; lia).
  rewrite N.lor_spec, N.pow2_bits_true. apply orb_true_r.
Qed.

Lemma test_set_mono : forall bits p q, test_bit bits p = true -> test_bit (set_bit bits q) p = true.
Proof.
  intros bits p q H. unfold test_bit, set_bit in *.
  unfold len in *. rewrite set_nth_length.
  destruct (N.of_nat (length bits) <=? p / 8); [discriminate|].
  destruct (N.eq_dec (q / 8) (p / 8)) as [E|NE].
  - rewrite E. destruct (Nat.lt_ge_cases (N.to_nat (p / 8)) (length bits)) as [L|G].
    + rewrite nth_set_nth_same by exact L. rewrite N.lor_spec, H. reflexivity.
    + rewrite nth_overflow in H by exact G. rewrite N.bits_0 in H. discriminate.
  - rewrite nth_set_nth_other by lia. exact H.
Qed.

Definition all_set (bits : bytes) (size kh k : N) : Prop :=
  forall i, i < k -> test_bit bits (bl_hash_from size kh i) = true.

Lemma add_loop_length : forall fuel size kh i bits, length (bl_add_loop fuel size kh i bits) = length bits.
Proof.
  induction fuel as [|f IH]; intros; cbn [bl_add_loop]; [reflexivity|]. rewrite IH. apply set_bit_length.
Qed.

Lemma add_loop_mono : forall fuel size kh i bits p, test_bit bits p = true ->
  test_bit (bl_add_loop fuel size kh i bits) p = true.
Proof.
  induction fuel as [|f IH]; intros size kh i bits p H; cbn [bl_add_loop]; [exact H|].
  apply IH. apply test_set_mono. exact H.
Qed.

Lemma add_loop_sets : forall fuel size kh i0 bits, size <> 0 -> size <= 8 * len bits ->
  forall i, i0 <= i < i0 + N.of_nat fuel ->
  test_bit (bl_add_loop fuel size kh i0 bits) (bl_hash_from size kh i) = true.
Proof.
  induction fuel as [|f IH]; intros size kh i0 bits S0 SL i Hi; [lia|]. cbn [bl_add_loop].
  destruct (N.eq_dec i i0) as [->|NE].
  - apply add_loop_mono. apply test_set_same.
    unfold bl_hash_from. pose proof (N.mod_lt (fnv_from kh (le 8 i0)) size S0) as M.
    apply N.div_lt_upper_bound; lia.
  - apply IH; [exact S0| |lia]. unfold len in *. rewrite set_bit_length. exact SL.
Qed.

Record bl_wf (b : bloom) : Prop := {
  bw_size : bl_size b = bl_m; bw_k : bl_k b = bl_kk; bw_len : len (bl_bits b) = 1199
}.

Lemma bl_new_wf : bl_wf bl_new.
Proof. constructor; reflexivity. Qed.

Lemma bl_add_wf : forall b k, bl_wf b -> bl_wf (bl_add b k).
Proof.
  intros b k [S K L]. constructor; cbn; try assumption.
  unfold len in *. rewrite add_loop_length. exact L.
Qed.

Lemma bl_add_sets : forall b k, bl_wf b ->
  all_set (bl_bits (bl_add b k)) bl_m (fnv1a k) bl_kk.
Proof.
  intros b k [S K L] i Hi. cbn [bl_add bl_bits]. rewrite S, K.
  apply add_loop_sets; [discriminate|rewrite L; vm_compute; discriminate|].
  change (N.of_nat (N.to_nat bl_kk)) with bl_kk. lia.
Qed.

Lemma bl_add_keeps : forall b k kh, all_set (bl_bits b) bl_m kh bl_kk ->
  all_set (bl_bits (bl_add b k)) bl_m kh bl_kk.
Proof. intros b k kh H i Hi. cbn [bl_add bl_bits]. apply add_loop_mono. apply H. exact Hi. Qed.

Lemma fold_add_wf : forall ks b, bl_wf b -> bl_wf (fold_left bl_add ks b).
Proof. induction ks as [|k ks IH]; intros b W; [exact W|]. cbn. apply IH. apply bl_add_wf. exact W. Qed.

Lemma fold_add_keeps : forall ks b kh, all_set (bl_bits b) bl_m kh bl_kk ->
  all_set (bl_bits (fold_left bl_add ks b)) bl_m kh bl_kk.
Proof.
  induction ks as [|k ks IH]; intros b kh H; [exact H|]. cbn. apply IH. apply bl_add_keeps. exact H.
Qed.

Lemma fold_add_sets : forall ks b k, bl_wf b -> In k ks ->
  all_set (bl_bits (fold_left bl_add ks b)) bl_m (fnv1a k) bl_kk.
Proof.
  induction ks as [|k0 ks IH]; intros b k W H; [destruct H|]. cbn. destruct H as [->|H].
  - apply fold_add_keeps. apply bl_add_sets. exact W.
  - apply IH; [apply bl_add_wf; exact W|exact H].
Qed.

Lemma contains_loop_all : forall fuel b kh i,
  all_set (bl_bits b) (bl_size b) kh (bl_k b) -> bl_contains_loop fuel b kh i = true.
Proof.
  induction fuel as [|f IH]; intros b kh i H; cbn [bl_contains_loop]; [reflexivity|].
  destruct (bl_k b <=? i) eqn:E; [reflexivity|]. apply N.leb_gt in E.
  rewrite (H i E). apply IH. exact H.
Qed.

(* BloomFilter.Contains after Add of every key of the block: never a false negative *)
Theorem bloom_complete : forall (b : block) e, In e b -> bl_contains (bl_of_block b) (sk e) = true.
Proof.
  intros b e H. unfold bl_contains, bl_of_block. apply contains_loop_all.
  pose proof (fold_add_wf (map sk b) bl_new bl_new_wf) as [S K _]. rewrite S, K.
  apply fold_add_sets; [exact bl_new_wf|]. apply in_map. exact H.
Qed.

(* hence Get on the written table is exact with the filters the writer really builds *)
Theorem get_with_bloom : forall bloom es k, ascending es = true -> keys_ok es ->
  t_get (write (fun b => bl_contains (bl_of_block b)) bloom es) k = lookup k es.
Proof. intros. apply write_get; [exact bloom_complete|assumption|assumption]. Qed.

(* ------------------------------------------------------------------------------------- *)
(* 5. the unprotected region: a witness                                                   *)
(* ------------------------------------------------------------------------------------- *)

Definition wit_es : list sentry :=
  [mkS [97] 1 (Some [49]); mkS [98] 2 None; mkS [98; 99] 18446744073709551615 (Some [])].

(* the file of wit_es: data block 0..65, filter section 66..1308 (not covered by any checksum),
   index block 1309..1351, footer 1352..1419. Clearing byte 615 (inside the filter's bit array)
   leaves OpenReader and iteration untouched but makes Get miss the written key "a". *)
Theorem C11_filter_bit_refuted :
  match encode_file true 0 wit_es with
  | None => False
  | Some f =>
    length f = 1420%nat /\
    match read_file f, read_file (upd f 615 0) with
    | inl tb, inl tb' =>
      t_get tb [97] = GVal [49] /\
      collect tb' 4 (ti_seek_first tb') = wit_es /\ t_get tb' [97] = GNotFound /\
      t_get tb' [98] = GTomb
    | _, _ => False
    end
  end.
Proof. vm_compute. repeat split. Qed.

(* ------------------------------------------------------------------------------------- *)
(* 6. Seek / SeekForPrev / SeekToLast on the bytes of a block                             *)
(* ------------------------------------------------------------------------------------- *)

(* The table-level view (SSTFile.view) decodes blocks with SeekToFirst/Next (proved:
   block_roundtrip) and then works on the entry lists; the real code runs Seek/SeekForPrev/
   SeekToLast of block.Iterator on the bytes (binary search over the restart array, then a
   linear scan). That these agree with the list-level positions is checked on every run by the
   block scripts of the correspondence (bseek/bprev/blast/bnext against the real iterator), and
   is stated here; it is not yet proved in general. *)
Definition it_cur (it : bit) : option sentry := if it_valid it then it_entry it else None.

Definition last_le (t : bytes) (es : list sentry) : option sentry :=
  match find_le t (map sk es) with Some i => nth_error es i | None => None end.

Definition C11_block_seek_statement : Prop :=
  forall es d r t, wf_block es -> ascending es = true ->
  encode_block es = Some d -> new_reader d = inl r ->
  it_cur (fst (it_seek r it_new t)) = first_ge t es /\
  it_cur (fst (it_seek_prev r it_new t)) = last_le t es /\
  it_cur (it_seek_last r it_new) = Some (last es (mkS [] 0 None)).

(* evidence on an 18-entry block (restart points at entries 0 and 16): every key, every key
   followed by 0x00, every key with its last byte removed, and keys outside the range *)
Example ex_block_seek :
  match encode_block ex_block with
  | Some d =>
    match new_reader d with
    | inl r =>
      let targets := map sk ex_block ++ map (fun e => sk e ++ [0]) ex_block ++
                     map (fun e => removelast (sk e)) ex_block ++ [[]; [0]; [107]; [255]] in
      forallb (fun t =>
        match it_cur (fst (it_seek r it_new t)), first_ge t ex_block with
        | Some a, Some b => beq (sk a) (sk b) && (sseq a =? sseq b)
        | None, None => true
        | _, _ => false
        end &&
        match it_cur (fst (it_seek_prev r it_new t)), last_le t ex_block with
        | Some a, Some b => beq (sk a) (sk b) && (sseq a =? sseq b)
        | None, None => true
        | _, _ => false
        end) targets = true /\
      it_cur (it_seek_last r it_new) = Some (last ex_block (mkS [] 0 None))
    | inr _ => False
    end
  | None => False
  end.
Proof. vm_compute. split; reflexivity. Qed.
