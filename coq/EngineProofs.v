(* EngineProofs.v — proofs about Engine.v: C01 (reads return the latest acknowledged write
   through every layer) and C08 (sequence numbers strictly increase). *)
From Coq Require Import Lia ZifyN ZifyNat ZifyBool Sorted Permutation.
From KV Require Import Bytes Spec Memtable WalCodec Engine.
Open Scope N_scope.
(* Bytes re-exports List, whose [find] shadows the memtable's *)
Local Notation find := Memtable.find.

(* ------------------------------------------------------------------------------------ *)
(* Specification-side definitions                                                        *)
(* ------------------------------------------------------------------------------------ *)

(* what one program step adds to the history of acknowledged writes *)
Definition ack1 (s : st) (o : op) : list wop :=
  match o with
  | OPut k v => match snd (put s k v) with WrOk _ => [WPut k v] | WrOverflow => [] end
  | ODel k => match snd (del s k) with WrOk _ => [WDel k] | WrOverflow => [] end
  | OBatch ops =>
      match ops, snd (apply_batch s ops) with
      | _ :: _, WrOk _ => [WBatch ops]
      | _, _ => []
      end
  | OCommit ops =>
      match buffer_ops ops, snd (tx_commit s ops) with
      | _ :: _, WrOk _ => [WBatch (buffer_ops ops)]
      | _, _ => []
      end
  | _ => []
  end.

Fixpoint acked (s : st) (ops : list op) : list wop :=
  match ops with
  | [] => []
  | o :: r => ack1 s o ++ acked (step s o) r
  end.

(* the sequence number one program step returns, when it acknowledges a non-empty write *)
Definition seq1 (s : st) (o : op) : list N :=
  match o with
  | OPut k v => match snd (put s k v) with WrOk q => [q] | WrOverflow => [] end
  | ODel k => match snd (del s k) with WrOk q => [q] | WrOverflow => [] end
  | OBatch ops =>
      match ops, snd (apply_batch s ops) with
      | _ :: _, WrOk q => [q]
      | _, _ => []
      end
  | OCommit ops =>
      match buffer_ops ops, snd (tx_commit s ops) with
      | _ :: _, WrOk q => [q]
      | _, _ => []
      end
  | _ => []
  end.

Fixpoint ack_seqs (s : st) (ops : list op) : list N :=
  match ops with
  | [] => []
  | o :: r => seq1 s o ++ ack_seqs (step s o) r
  end.

(* ---------- tests of the statements ---------- *)
Module Tests.
  Definition k1 : bytes := [1]. Definition k2 : bytes := [2]. Definition k3 : bytes := [1;0].
  Definition v (n : N) : bytes := [n; n].
  Definition cA := mkCfg 40 10.
  Definition pA : list op :=
    [OPut k1 (v 1); OPut k2 (v 2); OPut k3 (v 3); OFlush; OPut k1 (v 4); ODel k2;
     OBatch [(k2, Some (v 5)); (k3, None); (k2, Some (v 6)); (k1, None)]; OBatch [];
     OReopen; OPut k3 (v 7); OCommit [(k1, Some (v 8)); (k1, Some (v 9)); (k2, None)];
     OFlush; OFlush; OReopen; ODel k3; OCommit []; ORollback [(k1, None)]; OGet k1].
  Definition chk (c : config) (p : list op) (ks : list bytes) :=
    (lost_log (run c p), map (fun k => (get (run c p) k, spec_get (acked (init c) p) k)) ks,
     ack_seqs (init c) p).
  Eval vm_compute in chk cA pA [k1; k2; k3; [9]].
  Eval vm_compute in chk (mkCfg 1 100) pA [k1; k2; k3; [9]].
  Eval vm_compute in chk (mkCfg 1000 2) pA [k1; k2; k3; [9]].
  Eval vm_compute in chk (mkCfg 0 100) pA [k1; k2; k3; [9]].
  Eval vm_compute in chk (mkCfg 1 3) pA [k1; k2; k3; [9]].
  Eval vm_compute in (map (fun t => (s_num t, s_ts t, s_entries t)) (ssts (run cA pA))).
End Tests.

(* ------------------------------------------------------------------------------------ *)
(* Part A: helpers on lists and on the byte order                                         *)
(* ------------------------------------------------------------------------------------ *)

Lemma SS_app : forall (A : Type) (R : A -> A -> Prop) (l1 l2 : list A),
  StronglySorted R (l1 ++ l2) <->
  StronglySorted R l1 /\ StronglySorted R l2 /\ (forall a b, In a l1 -> In b l2 -> R a b).
Proof.
  intros A R l1 l2. induction l1 as [|x l1 IH]; cbn [app].
  - split.
    + intros H. repeat split; [constructor|exact H|intros a b []].
    + intros (_ & H & _). exact H.
  - split.
    + intros H. inversion H as [|? ? Hs Hf]; subst.
      apply IH in Hs. destruct Hs as (H1 & H2 & H3).
      rewrite Forall_app in Hf. destruct Hf as [Hf1 Hf2].
      repeat split.
      * constructor; assumption.
      * exact H2.
      * intros a b [<-|Ha] Hb.
        -- rewrite Forall_forall in Hf2. apply Hf2. exact Hb.
        -- apply H3; assumption.
    + intros (H1 & H2 & H3). inversion H1 as [|? ? Hs Hf]; subst.
      constructor.
      * apply IH. repeat split; [exact Hs|exact H2|].
        intros a b Ha Hb. apply H3; [right; exact Ha|exact Hb].
      * rewrite Forall_app. split; [exact Hf|].
        rewrite Forall_forall. intros b Hb. apply H3; [left; reflexivity|exact Hb].
Qed.

Lemma last_cons_default : forall (A : Type) (l : list A) (a d : A), last (a :: l) d = last l a.
Proof.
  intros A l. induction l as [|b l IH]; intros a d; [reflexivity|].
  change (last (a :: b :: l) d) with (last (b :: l) d).
  rewrite IH. change (last (b :: l) a) with (last (b :: l) a). symmetry. apply IH.
Qed.

Lemma last_app_single : forall (A : Type) (l : list A) (a d : A), last (l ++ [a]) d = a.
Proof. intros. apply last_last. Qed.

Lemma concat_snoc_nil : forall (A : Type) (l : list (list A)), concat (l ++ [[]]) = concat l.
Proof. intros. rewrite concat_app. cbn [concat]. rewrite !app_nil_r. reflexivity. Qed.

(* --- bcmp --- *)
Lemma bcmp_eq : forall a b, bcmp a b = Eq -> a = b.
Proof.
  induction a as [|x a IH]; intros [|y b] H; cbn [bcmp] in H; try discriminate; [reflexivity|].
  destruct (N.compare x y) eqn:E; try discriminate.
  apply N.compare_eq_iff in E. subst. f_equal. apply IH. exact H.
Qed.

Lemma bcmp_refl : forall a, bcmp a a = Eq.
Proof. induction a as [|x a IH]; cbn [bcmp]; [reflexivity|]. rewrite N.compare_refl. exact IH. Qed.

Lemma bcmp_antisym : forall a b, bcmp b a = CompOpp (bcmp a b).
Proof.
  induction a as [|x a IH]; intros [|y b]; cbn [bcmp]; try reflexivity.
  rewrite (N.compare_antisym x y). destruct (N.compare x y); cbn [CompOpp]; auto.
Qed.

Lemma bcmp_lt_trans : forall a b c, bcmp a b = Lt -> bcmp b c = Lt -> bcmp a c = Lt.
Proof.
  induction a as [|x a IH]; intros [|y b] [|z c] H1 H2; cbn [bcmp] in *; try congruence.
  destruct (N.compare_spec x y) as [E1|E1|E1]; try discriminate;
  destruct (N.compare_spec y z) as [E2|E2|E2]; try discriminate; subst.
  - rewrite N.compare_refl. eapply IH; eassumption.
  - apply N.compare_lt_iff in E2. rewrite E2. reflexivity.
  - apply N.compare_lt_iff in E1. rewrite E1. reflexivity.
  - assert (E : x < z) by lia. apply N.compare_lt_iff in E. rewrite E. reflexivity.
Qed.

Lemma bcmp_gt_lt : forall a b, bcmp a b = Gt <-> bcmp b a = Lt.
Proof.
  intros a b. rewrite (bcmp_antisym a b). destruct (bcmp a b); cbn [CompOpp]; split; congruence.
Qed.

Lemma beq_true : forall a b, beq a b = true <-> a = b.
Proof.
  intros a b. unfold beq. split.
  - destruct (bcmp a b) eqn:E; try discriminate. intros _. apply bcmp_eq. exact E.
  - intros ->. rewrite bcmp_refl. reflexivity.
Qed.

Lemma beq_refl : forall a, beq a a = true.
Proof. intros. apply beq_true. reflexivity. Qed.

Lemma beq_false_lt : forall a b, bcmp a b = Lt -> beq a b = false.
Proof. intros a b H. unfold beq. rewrite H. reflexivity. Qed.
Lemma beq_false_gt : forall a b, bcmp a b = Gt -> beq a b = false.
Proof. intros a b H. unfold beq. rewrite H. reflexivity. Qed.

(* ------------------------------------------------------------------------------------ *)
(* Part B: the memtable: Find after a sequence of inserts                                  *)
(* ------------------------------------------------------------------------------------ *)

Definition build_from (l0 : list mentry) (seg : list mentry) : list mentry :=
  fold_left (fun l e => insert e l) seg l0.
Definition build (seg : list mentry) : list mentry := build_from [] seg.

(* the last entry of seg (insertion order) with key k *)
Fixpoint last_with (k : bytes) (seg : list mentry) : option mentry :=
  match seg with
  | [] => None
  | e :: r => match last_with k r with
              | Some x => Some x
              | None => if beq (mk e) k then Some e else None
              end
  end.

Lemma last_with_app : forall k a b,
  last_with k (a ++ b) = match last_with k b with Some x => Some x | None => last_with k a end.
Proof.
  intros k a b. induction a as [|e a IH]; cbn [app last_with].
  - destruct (last_with k b); reflexivity.
  - rewrite IH. destruct (last_with k b); reflexivity.
Qed.

Lemma last_with_none : forall k seg, last_with k seg = None -> forall e, In e seg -> mk e <> k.
Proof.
  intros k seg. induction seg as [|x r IH]; intros H e []; cbn [last_with] in H.
  - subst x. destruct (last_with k r); [discriminate|].
    destruct (beq (mk e) k) eqn:B; [discriminate|].
    intros E. apply beq_true in E. congruence.
  - destruct (last_with k r); [discriminate|]. apply IH; auto.
Qed.

Lemma insert_in : forall e l x, In x (insert e l) <-> x = e \/ In x l.
Proof.
  intros e l x. induction l as [|y r IH]; cbn [insert].
  - cbn [In]. intuition.
  - destruct (elt y e); cbn [In]; [rewrite IH|]; intuition.
Qed.

Lemma build_from_in : forall seg l0 x, In x (build_from l0 seg) <-> In x l0 \/ In x seg.
Proof.
  unfold build_from. induction seg as [|e r IH]; intros l0 x; cbn [fold_left In].
  - intuition.
  - rewrite IH, insert_in. intuition.
Qed.

Lemma build_in : forall seg x, In x (build seg) <-> In x seg.
Proof. intros. unfold build. rewrite build_from_in. cbn [In]. intuition. Qed.

Lemma build_from_app : forall l0 a b, build_from l0 (a ++ b) = build_from (build_from l0 a) b.
Proof. intros. unfold build_from. apply fold_left_app. Qed.

Lemma build_snoc : forall seg e, build (seg ++ [e]) = insert e (build seg).
Proof. intros. unfold build. rewrite build_from_app. reflexivity. Qed.

Lemma best_of_run_keep : forall k c l,
  Forall (fun x => mseq x <= mseq c) l -> best_of_run k c l = c.
Proof.
  intros k c l. induction l as [|x r IH]; intros H; cbn [best_of_run]; [reflexivity|].
  inversion H as [|? ? Hx Hr]; subst.
  destruct (beq (mk x) k); [|reflexivity].
  assert (E : (mseq c <? mseq x) = false) by lia. rewrite E. apply IH. exact Hr.
Qed.

Lemma best_of_run_insert_gt : forall k e c l,
  bcmp k (mk e) = Lt -> best_of_run k c (insert e l) = best_of_run k c l.
Proof.
  intros k e c l Hlt. revert c. induction l as [|y r IH]; intros c; cbn [insert].
  - cbn [best_of_run]. rewrite beq_false_gt; [reflexivity|]. apply bcmp_gt_lt. exact Hlt.
  - destruct (elt y e) eqn:El.
    + cbn [best_of_run]. destruct (beq (mk y) k); [apply IH|reflexivity].
    + cbn [best_of_run].
      rewrite (beq_false_gt (mk e) k) by (apply bcmp_gt_lt; exact Hlt).
      destruct (beq (mk y) k) eqn:B; [|reflexivity].
      apply beq_true in B. unfold elt in El. rewrite B, Hlt in El. discriminate.
Qed.

(* Find after inserting an entry whose sequence number is not below any already present *)
Lemma find_insert : forall k e l,
  Forall (fun x => mseq x <= mseq e) l ->
  find k (insert e l) = if beq (mk e) k then Some e else find k l.
Proof.
  intros k e l. induction l as [|x r IH]; intros Hall.
  - cbn [insert find]. unfold beq. destruct (bcmp (mk e) k); reflexivity.
  - inversion Hall as [|? ? Hx Hr]; subst. cbn [insert].
    destruct (elt x e) eqn:El.
    + (* x stays in front: key x < key e *)
      assert (Hlt : bcmp (mk x) (mk e) = Lt).
      { unfold elt in El. destruct (bcmp (mk x) (mk e)); [|reflexivity|discriminate].
        exfalso. lia. }
      cbn [find]. destruct (bcmp (mk x) k) eqn:Ck.
      * apply bcmp_eq in Ck. subst k.
        rewrite best_of_run_insert_gt by exact Hlt.
        rewrite (beq_false_gt (mk e) (mk x)) by (apply bcmp_gt_lt; exact Hlt). reflexivity.
      * apply IH. exact Hr.
      * assert (G : bcmp (mk e) k = Gt).
        { apply bcmp_gt_lt. apply bcmp_gt_lt in Ck. eapply bcmp_lt_trans; eassumption. }
        rewrite (beq_false_gt _ _ G). reflexivity.
    + (* e goes in front *)
      change (find k (e :: x :: r)) with
        (match bcmp (mk e) k with
         | Lt => find k (x :: r) | Eq => Some (best_of_run k e (x :: r)) | Gt => None end).
      unfold beq. destruct (bcmp (mk e) k) eqn:Ck.
      * rewrite best_of_run_keep by exact Hall. reflexivity.
      * reflexivity.
      * (* key x >= key e > k *)
        cbn [find].
        assert (G : bcmp (mk x) k = Gt).
        { unfold elt in El. destruct (bcmp (mk x) (mk e)) eqn:Cx; [|discriminate|].
          - apply bcmp_eq in Cx. rewrite Cx. exact Ck.
          - apply bcmp_gt_lt. apply bcmp_gt_lt in Ck, Cx. eapply bcmp_lt_trans; eassumption. }
        rewrite G. reflexivity.
Qed.

Definition seq_le (a b : mentry) : Prop := mseq a <= mseq b.

(* find_build: with insertions in non-decreasing sequence order, Find returns the last
   inserted entry with the key (= greatest sequence number, last inserted on ties) *)
Lemma find_build : forall k seg,
  StronglySorted seq_le seg -> find k (build seg) = last_with k seg.
Proof.
  intros k seg. induction seg as [|e seg IH] using rev_ind; intros Hs; [reflexivity|].
  apply SS_app in Hs. destruct Hs as (H1 & _ & H3).
  rewrite build_snoc, find_insert.
  - rewrite last_with_app. cbn [last_with].
    destruct (beq (mk e) k); [reflexivity|]. apply IH. exact H1.
  - rewrite Forall_forall. intros x Hx. apply (proj1 (build_in _ _)) in Hx.
    apply (H3 x e Hx). left. reflexivity.
Qed.

(* ------------------------------------------------------------------------------------ *)
(* Part C: histories, the invariant, reads under the invariant                             *)
(* ------------------------------------------------------------------------------------ *)

(* history of acknowledged non-empty writes, each with the sequence number it was given *)
Definition hist := list (N * wop).

Definition stamp (p : N * wop) : list mentry := map (bop_mentry (fst p)) (effects (snd p)).
Definition wstamp (p : N * wop) : list wentry := map (bop_entry (fst p)) (effects (snd p)).
Definition entries (h : hist) : list mentry := flat_map stamp h.
Definition wentries (h : hist) : list wentry := flat_map wstamp h.

Definition eff (e : mentry) : bytes * option bytes :=
  (mk e, match mkind e with KDel => None | KVal => Some (mval e) end).

Lemma eff_bop_mentry : forall q o, eff (bop_mentry q o) = o.
Proof. intros q [k [v|]]; reflexivity. Qed.

Lemma mseq_bop_mentry : forall q o, mseq (bop_mentry q o) = q.
Proof. intros q [k [v|]]; reflexivity. Qed.

Lemma mk_bop_mentry : forall q o, mk (bop_mentry q o) = fst o.
Proof. intros q [k [v|]]; reflexivity. Qed.

Lemma wseq_bop_entry : forall q o, w_seq (bop_entry q o) = q.
Proof. intros q [k [v|]]; reflexivity. Qed.

Lemma OpPut_neq_OpDel : (OpDel =? OpPut) = false.
Proof. reflexivity. Qed.

Lemma wentry_mentry_bop : forall q o, wentry_mentry (bop_entry q o) = Some (bop_mentry q o).
Proof.
  intros q [k [v|]]; unfold wentry_mentry, bop_entry, bop_mentry; cbn [snd fst w_op w_key w_seq w_val].
  - rewrite N.eqb_refl. reflexivity.
  - rewrite OpPut_neq_OpDel, N.eqb_refl. reflexivity.
Qed.

Lemma entries_app : forall a b, entries (a ++ b) = entries a ++ entries b.
Proof. intros. unfold entries. apply flat_map_app. Qed.
Lemma wentries_app : forall a b, wentries (a ++ b) = wentries a ++ wentries b.
Proof. intros. unfold wentries. apply flat_map_app. Qed.
Lemma entries_single : forall p, entries [p] = stamp p.
Proof. intros. unfold entries. cbn [flat_map]. apply app_nil_r. Qed.
Lemma wentries_single : forall p, wentries [p] = wstamp p.
Proof. intros. unfold wentries. cbn [flat_map]. apply app_nil_r. Qed.

Lemma map_eff_entries : forall h, map eff (entries h) = flat (map snd h).
Proof.
  induction h as [|p h IH]; [reflexivity|].
  unfold entries, flat in *. cbn [flat_map map]. rewrite map_app, IH. f_equal.
  unfold stamp. rewrite map_map. rewrite <- (map_id (effects (snd p))) at 2.
  apply map_ext. intros o. apply eff_bop_mentry.
Qed.

Lemma in_entries : forall h e, In e (entries h) <->
  exists p o, In p h /\ In o (effects (snd p)) /\ e = bop_mentry (fst p) o.
Proof.
  intros h e. unfold entries. rewrite in_flat_map. split.
  - intros (p & Hp & He). unfold stamp in He. apply in_map_iff in He.
    destruct He as (o & <- & Ho). exists p, o. auto.
  - intros (p & o & Hp & Ho & ->). exists p. split; [exact Hp|].
    unfold stamp. apply in_map. exact Ho.
Qed.

Lemma in_wentries : forall h e, In e (wentries h) <->
  exists p o, In p h /\ In o (effects (snd p)) /\ e = bop_entry (fst p) o.
Proof.
  intros h e. unfold wentries. rewrite in_flat_map. split.
  - intros (p & Hp & He). unfold wstamp in He. apply in_map_iff in He.
    destruct He as (o & <- & Ho). exists p, o. auto.
  - intros (p & o & Hp & Ho & ->). exists p. split; [exact Hp|].
    unfold wstamp. apply in_map. exact Ho.
Qed.

(* strictly increasing per write => non-decreasing per entry *)
Lemma entries_sorted : forall h,
  StronglySorted N.lt (map fst h) -> StronglySorted seq_le (entries h).
Proof.
  induction h as [|p h IH]; intros Hs; [constructor|].
  cbn [map] in Hs. inversion Hs as [|? ? Hs' Hf]; subst.
  change (entries (p :: h)) with (stamp p ++ entries h).
  apply SS_app. split; [|split].
  - unfold stamp. induction (effects (snd p)) as [|o l IHl]; cbn [map]; constructor; [exact IHl|].
    rewrite Forall_forall. intros x Hx. apply in_map_iff in Hx. destruct Hx as (o' & <- & _).
    unfold seq_le. rewrite !mseq_bop_mentry. lia.
  - apply IH. exact Hs'.
  - intros a b Ha Hb. unfold stamp in Ha. apply in_map_iff in Ha. destruct Ha as (o & <- & _).
    apply in_entries in Hb. destruct Hb as (p' & o' & Hp' & _ & ->).
    unfold seq_le. rewrite !mseq_bop_mentry.
    rewrite Forall_forall in Hf. specialize (Hf (fst p') (in_map fst _ _ Hp')). lia.
Qed.

Lemma wentries_sorted : forall h,
  StronglySorted N.lt (map fst h) ->
  StronglySorted (fun a b => w_seq a <= w_seq b) (wentries h).
Proof.
  induction h as [|p h IH]; intros Hs; [constructor|].
  cbn [map] in Hs. inversion Hs as [|? ? Hs' Hf]; subst.
  change (wentries (p :: h)) with (wstamp p ++ wentries h).
  apply SS_app. split; [|split].
  - unfold wstamp. induction (effects (snd p)) as [|o l IHl]; cbn [map]; constructor; [exact IHl|].
    rewrite Forall_forall. intros x Hx. apply in_map_iff in Hx. destruct Hx as (o' & <- & _).
    rewrite !wseq_bop_entry. lia.
  - apply IH. exact Hs'.
  - intros a b Ha Hb. unfold wstamp in Ha. apply in_map_iff in Ha. destruct Ha as (o & <- & _).
    apply in_wentries in Hb. destruct Hb as (p' & o' & Hp' & _ & ->).
    rewrite !wseq_bop_entry.
    rewrite Forall_forall in Hf. specialize (Hf (fst p') (in_map fst _ _ Hp')). lia.
Qed.

Definition key_written (h : hist) (x : sentry) : Prop := In (sk x) (map mk (entries h)).

Record Inv (s : st) (h : hist) : Prop := mkInv {
  inv_segs : exists segsI segA,
      Forall2 (fun m seg => mt_entries m = build seg) (imms s) segsI /\
      mt_entries (active s) = build segA /\
      concat segsI ++ segA = entries h;
  inv_sorted : StronglySorted N.lt (map fst h);
  inv_bound : Forall (fun q => q < wal_next s) (map fst h);
  inv_nonempty : Forall (fun p => effects (snd p) <> []) h;
  inv_wal : concat (wal_files s) = wentries h;
  inv_last : last_seq s = last (map fst h) 0;
  inv_next : wal_next s = last_seq s + 1;
  inv_active_mut : mt_imm (active s) = false;
  inv_pending : incl (pending s) (imms s);
  inv_ssts : lost_log s = false -> Forall (Forall (key_written h)) (map s_entries (ssts s))
}.

(* ---------- reads under the invariant ---------- *)

Lemma last_effect_app : forall k a b,
  last_effect k (a ++ b) =
  match last_effect k b with Some x => Some x | None => last_effect k a end.
Proof.
  intros k a b. induction a as [|[k' v] a IH]; cbn [app last_effect].
  - destruct (last_effect k b); reflexivity.
  - rewrite IH. destruct (last_effect k b); reflexivity.
Qed.

Lemma last_effect_none : forall k l, last_effect k l = None -> forall p, In p l -> fst p <> k.
Proof.
  intros k l. induction l as [|[k' v] r IH]; intros H p []; cbn [last_effect] in H.
  - subst p. cbn [fst]. destruct (last_effect k r); [discriminate|].
    destruct (beq k' k) eqn:B; [discriminate|]. intros E. apply beq_true in E. congruence.
  - destruct (last_effect k r); [discriminate|]. apply IH; auto.
Qed.

Lemma last_effect_last_with : forall k seg,
  last_effect k (map eff seg) = option_map (fun e => snd (eff e)) (last_with k seg).
Proof.
  intros k seg. induction seg as [|e r IH]; [reflexivity|].
  cbn [map]. unfold eff at 1. cbn [last_effect last_with]. rewrite IH.
  destruct (last_with k r); cbn [option_map]; [reflexivity|].
  destruct (beq (mk e) k); reflexivity.
Qed.

Lemma mt_get_build : forall m seg k,
  mt_entries m = build seg -> StronglySorted seq_le seg ->
  mt_get m k = last_effect k (map eff seg).
Proof.
  intros m seg k Hm Hs. unfold mt_get. rewrite Hm, find_build by exact Hs.
  rewrite last_effect_last_with. destruct (last_with k seg); reflexivity.
Qed.

Lemma mems_get_app : forall k a b,
  mems_get k (a ++ b) = match mems_get k a with Some x => Some x | None => mems_get k b end.
Proof.
  intros k a b. induction a as [|m a IH]; cbn [app mems_get]; [reflexivity|].
  destruct (mt_get m k); [reflexivity|exact IH].
Qed.

Definition layer_ok (m : memtable) (seg : list mentry) : Prop := mt_entries m = build seg.

Lemma mems_get_layers : forall k layers segs,
  Forall2 layer_ok layers segs ->
  StronglySorted seq_le (concat segs) ->
  mems_get k (rev layers) = last_effect k (map eff (concat segs)).
Proof.
  intros k layers segs HF. induction HF as [|m seg layers segs Hm HF IH]; intros Hs; [reflexivity|].
  cbn [rev concat] in *. apply SS_app in Hs. destruct Hs as (Hs1 & Hs2 & _).
  rewrite mems_get_app, map_app, last_effect_app, IH by exact Hs2.
  destruct (last_effect k (map eff (concat segs))); [reflexivity|].
  cbn [mems_get]. rewrite (mt_get_build m seg k Hm Hs1).
  destruct (last_effect k (map eff seg)); reflexivity.
Qed.

Lemma inv_layers : forall s h, Inv s h ->
  exists segs, Forall2 layer_ok (imms s ++ [active s]) segs /\ concat segs = entries h.
Proof.
  intros s h I. destruct (inv_segs s h I) as (segsI & segA & HF & HA & HC).
  exists (segsI ++ [segA]). split.
  - apply Forall2_app; [exact HF|]. constructor; [exact HA|constructor].
  - rewrite concat_app. cbn [concat]. rewrite app_nil_r. exact HC.
Qed.

Lemma mem_layers_rev : forall s, mem_layers s = rev (imms s ++ [active s]).
Proof. intros. unfold mem_layers. rewrite rev_app_distr. reflexivity. Qed.

(* the memtable layers hold the whole history *)
Lemma mems_get_inv : forall s h k, Inv s h ->
  mems_get k (mem_layers s) = latest (map snd h) k.
Proof.
  intros s h k I. destruct (inv_layers s h I) as (segs & HF & HC).
  rewrite mem_layers_rev, (mems_get_layers k _ segs HF).
  - rewrite HC, map_eff_entries. reflexivity.
  - rewrite HC. apply entries_sorted. exact (inv_sorted s h I).
Qed.

Lemma sst_find_some : forall k l x, sst_find k l = Some x -> In x l /\ sk x = k.
Proof.
  intros k l x. induction l as [|y r IH]; cbn [sst_find]; [discriminate|].
  destruct (bcmp (sk y) k) eqn:C; try discriminate.
  - intros E. injection E as ->. split; [left; reflexivity|]. apply bcmp_eq. exact C.
  - intros E. destruct (IH E). split; [right|]; assumption.
Qed.

Lemma ssts_get_none : forall k tables,
  (forall l x, In l (map s_entries tables) -> In x l -> sk x <> k) -> ssts_get k tables = None.
Proof.
  intros k tables. induction tables as [|t r IH]; intros H; [reflexivity|].
  cbn [ssts_get]. destruct (sst_find k (s_entries t)) as [x|] eqn:F.
  - apply sst_find_some in F. destruct F as [Hin Hk].
    exfalso. apply (H (s_entries t) x); [left; reflexivity|exact Hin|exact Hk].
  - apply IH. intros l x Hl Hx. apply (H l x); [right; exact Hl|exact Hx].
Qed.

(* C01 for a state satisfying the invariant *)
Lemma get_inv : forall s h k, Inv s h -> lost_log s = false ->
  get s k = spec_get (map snd h) k.
Proof.
  intros s h k I Hl. unfold get, spec_get. rewrite (mems_get_inv s h k I).
  destruct (latest (map snd h) k) as [[v|]|] eqn:L; try reflexivity.
  rewrite ssts_get_none; [reflexivity|].
  intros l x Hlin Hx Hk.
  pose proof (inv_ssts s h I Hl) as HS. rewrite Forall_forall in HS.
  rewrite map_rev in Hlin. apply in_rev in Hlin.
  specialize (HS l Hlin). rewrite Forall_forall in HS. specialize (HS x Hx).
  unfold key_written in HS. apply in_map_iff in HS. destruct HS as (e & He & Hin).
  unfold latest in L. rewrite <- map_eff_entries in L.
  apply (last_effect_none k _ L (eff e)); [apply in_map; exact Hin|].
  unfold eff. cbn [fst]. congruence.
Qed.

(* ------------------------------------------------------------------------------------ *)
(* Part D: preservation of the invariant, one lemma per operation                          *)
(* ------------------------------------------------------------------------------------ *)

Ltac proj := cbn [cfg wal_next wal_files last_seq active imms pending flush_pending ssts
                  next_file clock lost_log].

Lemma Inv_init : forall c, Inv (init c) [].
Proof.
  intros c. constructor; unfold init; proj; cbn [map last].
  - exists [], []. repeat split; constructor.
  - constructor.
  - constructor.
  - constructor.
  - reflexivity.
  - reflexivity.
  - reflexivity.
  - reflexivity.
  - intros x [].
  - intros _. constructor.
Qed.

(* ---------- writes ---------- *)

Definition add_all (q : N) (ops : list bop) (s : st) : st :=
  fold_left (fun a o => set_last (pool_add a (bop_mentry q o)) q) ops s.

(* everything a batch of memtable insertions leaves alone, and what it does to the active table *)
Lemma add_all_spec : forall q ops s,
  let s' := add_all q ops s in
  cfg s' = cfg s /\ wal_next s' = wal_next s /\ wal_files s' = wal_files s /\
  imms s' = imms s /\ pending s' = pending s /\ ssts s' = ssts s /\
  next_file s' = next_file s /\ clock s' = clock s /\ lost_log s' = lost_log s /\
  (ops <> [] -> last_seq s' = q) /\
  (mt_imm (active s) = false ->
   mt_imm (active s') = false /\
   mt_entries (active s') = build_from (mt_entries (active s)) (map (bop_mentry q) ops)).
Proof.
  intros q ops. induction ops as [|o r IH]; intros s; cbn zeta.
  - cbn [add_all fold_left map]. repeat split; try reflexivity; tauto.
  - change (add_all q (o :: r) s) with (add_all q r (set_last (pool_add s (bop_mentry q o)) q)).
    specialize (IH (set_last (pool_add s (bop_mentry q o)) q)). cbn zeta in IH.
    destruct IH as (H1 & H2 & H3 & H4 & H5 & H6 & H7 & H8 & H9 & H10 & H11).
    rewrite H1, H2, H3, H4, H5, H6, H7, H8, H9.
    repeat split; try reflexivity.
    + intros _. destruct r as [|o' r'].
      * reflexivity.
      * apply H10. discriminate.
    + intros Himm. apply H11. unfold set_last, pool_add; proj. unfold mt_add. rewrite Himm.
      reflexivity.
    + intros Himm. destruct H11 as [_ H11].
      * unfold set_last, pool_add; proj. unfold mt_add. rewrite Himm. reflexivity.
      * rewrite H11. unfold set_last, pool_add; proj. unfold mt_add. rewrite Himm.
        cbn [mt_entries map]. reflexivity.
Qed.
