(* EngineProofs.v — proofs about Engine.v.
     T1 / C01: reads return the latest acknowledged write through every layer
               (C01_read_latest, C01_flush_invariant, C01_reopen_invariant, C01_error_no_effect,
                ssts_agree + ssts_agree_reopen_refuted)
     T2 / C08: sequence numbers strictly increase
               (C08_monotone, C08_reported_monotone, C08_log_order, C08_overflow_rejects,
                C08_lostlog_refuted)
   Structure: Part A list helpers; Part B memtable (Find after ordered inserts, on top of
   MemtableProofs); Part C histories and the invariant [Inv s h], reads under it; Part D one
   preservation lemma per operation (Inv_init, Inv_write + Inv_maybe_schedule =>
   Inv_apply_batch / Inv_put / Inv_del, Inv_flush, Inv_reopen_ok / Inv_reopen_fail);
   Part E runs ([step_hist], [epoch], Inv_step, Inv_run) and the theorems; Part F the
   SSTable invariant [SInv]/[InvS] for runs without a reopen, again one lemma per operation.
   To add an operation: extend [step_hist] with what it acknowledges, prove Inv_<op> (and
   InvS_<op>), add the case to Inv_step / InvS_step, lost_log_step_mono, step_hist_fst/snd.
   No well-formedness hypothesis on the configuration is needed: a configuration whose
   memtable budget cannot hold the log makes recovery fail, which sets lost_log. *)
From Coq Require Import Lia ZifyN ZifyNat ZifyBool Sorted Permutation.
From KV Require Import Bytes Spec Memtable MemtableProofs WalCodec Engine.
Open Scope N_scope.
(* Bytes re-exports List, whose [find] shadows the memtable's *)
Local Notation find := Memtable.find.

(* ------------------------------------------------------------------------------------ *)
(* Specification-side definitions                                                        *)
(* ------------------------------------------------------------------------------------ *)

(* what one program step adds to the history of acknowledged writes *)
Definition ack1 (s : st) (o : op) : list wop :=
  match o with
  | OPut k v => match snd (put s k v) with WrOk _ => [WPut k v] | WrOverflow => [] end
  | ODel k => match snd (del s k) with WrOk _ => [WDel k] | WrOverflow => [] end
  | OBatch ops =>
      match ops, snd (apply_batch s ops) with
      | _ :: _, WrOk _ => [WBatch ops]
      | _, _ => []
      end
  | OCommit ops =>
      match buffer_ops ops, snd (tx_commit s ops) with
      | _ :: _, WrOk _ => [WBatch (buffer_ops ops)]
      | _, _ => []
      end
  | _ => []
  end.

Fixpoint acked (s : st) (ops : list op) : list wop :=
  match ops with
  | [] => []
  | o :: r => ack1 s o ++ acked (step s o) r
  end.

(* the sequence number one program step returns, when it acknowledges a non-empty write *)
Definition seq1 (s : st) (o : op) : list N :=
  match o with
  | OPut k v => match snd (put s k v) with WrOk q => [q] | WrOverflow => [] end
  | ODel k => match snd (del s k) with WrOk q => [q] | WrOverflow => [] end
  | OBatch ops =>
      match ops, snd (apply_batch s ops) with
      | _ :: _, WrOk q => [q]
      | _, _ => []
      end
  | OCommit ops =>
      match buffer_ops ops, snd (tx_commit s ops) with
      | _ :: _, WrOk q => [q]
      | _, _ => []
      end
  | _ => []
  end.

Fixpoint ack_seqs (s : st) (ops : list op) : list N :=
  match ops with
  | [] => []
  | o :: r => seq1 s o ++ ack_seqs (step s o) r
  end.

(* ---------- tests of the statements ---------- *)
Module Tests.
  Definition k1 : bytes := [1]. Definition k2 : bytes := [2]. Definition k3 : bytes := [1;0].
  Definition v (n : N) : bytes := [n; n].
  Definition cA := mkCfg 40 10.
  Definition pA : list op :=
    [OPut k1 (v 1); OPut k2 (v 2); OPut k3 (v 3); OFlush; OPut k1 (v 4); ODel k2;
     OBatch [(k2, Some (v 5)); (k3, None); (k2, Some (v 6)); (k1, None)]; OBatch [];
     OReopen; OPut k3 (v 7); OCommit [(k1, Some (v 8)); (k1, Some (v 9)); (k2, None)];
     OFlush; OFlush; OReopen; ODel k3; OCommit []; ORollback [(k1, None)]; OGet k1].
  Definition chk (c : config) (p : list op) (ks : list bytes) :=
    (lost_log (run c p), map (fun k => (get (run c p) k, spec_get (acked (init c) p) k)) ks,
     ack_seqs (init c) p).
  (* get vs spec_get per key, and the acknowledged numbers; the last configuration loses the log *)
  Eval vm_compute in chk cA pA [k1; k2; k3; [9]].
  Eval vm_compute in chk (mkCfg 0 100) pA [k1; k2; k3; [9]].
  Eval vm_compute in chk (mkCfg 1 3) pA [k1; k2; k3; [9]].
End Tests.

(* ------------------------------------------------------------------------------------ *)
(* Part A: helpers on lists and on the byte order                                         *)
(* ------------------------------------------------------------------------------------ *)

Lemma SS_app : forall (A : Type) (R : A -> A -> Prop) (l1 l2 : list A),
  StronglySorted R (l1 ++ l2) <->
  StronglySorted R l1 /\ StronglySorted R l2 /\ (forall a b, In a l1 -> In b l2 -> R a b).
Proof.
  intros A R l1 l2. induction l1 as [|x l1 IH]; cbn [app].
  - split.
    + intros H. repeat split; [constructor|exact H|intros a b []].
    + intros (_ & H & _). exact H.
  - split.
    + intros H. inversion H as [|? ? Hs Hf]; subst.
      apply IH in Hs. destruct Hs as (H1 & H2 & H3).
      rewrite Forall_app in Hf. destruct Hf as [Hf1 Hf2].
      repeat split.
      * constructor; assumption.
      * exact H2.
      * intros a b [<-|Ha] Hb.
        -- rewrite Forall_forall in Hf2. apply Hf2. exact Hb.
        -- apply H3; assumption.
    + intros (H1 & H2 & H3). inversion H1 as [|? ? Hs Hf]; subst.
      constructor.
      * apply IH. repeat split; [exact Hs|exact H2|].
        intros a b Ha Hb. apply H3; [right; exact Ha|exact Hb].
      * rewrite Forall_app. split; [exact Hf|].
        rewrite Forall_forall. intros b Hb. apply H3; [left; reflexivity|exact Hb].
Qed.

Lemma last_cons_default : forall (A : Type) (l : list A) (a d : A), last (a :: l) d = last l a.
Proof.
  intros A l. induction l as [|b l IH]; intros a d; [reflexivity|].
  change (last (a :: b :: l) d) with (last (b :: l) d).
  rewrite IH. change (last (b :: l) a) with (last (b :: l) a). symmetry. apply IH.
Qed.

Lemma last_app_single : forall (A : Type) (l : list A) (a d : A), last (l ++ [a]) d = a.
Proof. intros. apply last_last. Qed.

Lemma concat_snoc_nil : forall (A : Type) (l : list (list A)), concat (l ++ [[]]) = concat l.
Proof. intros. rewrite concat_app. cbn [concat]. rewrite !app_nil_r. reflexivity. Qed.

(* --- bcmp: the order lemmas come from MemtableProofs (bcmp_eq, bcmp_refl, bcmp_gt_lt,
   bcmp_lt_trans, beq_true_iff, beq_refl) --- *)
Lemma beq_false_lt : forall a b, bcmp a b = Lt -> beq a b = false.
Proof. intros a b H. unfold beq. rewrite H. reflexivity. Qed.
Lemma beq_false_gt : forall a b, bcmp a b = Gt -> beq a b = false.
Proof. intros a b H. unfold beq. rewrite H. reflexivity. Qed.

(* ------------------------------------------------------------------------------------ *)
(* Part B: the memtable: Find after a sequence of inserts in sequence-number order         *)
(* (build, build_in, build_snoc, find_build, latest_version are MemtableProofs')            *)
(* ------------------------------------------------------------------------------------ *)

(* the last entry of seg (insertion order) with key k *)
Fixpoint last_with (k : bytes) (seg : list mentry) : option mentry :=
  match seg with
  | [] => None
  | e :: r => match last_with k r with
              | Some x => Some x
              | None => if beq (mk e) k then Some e else None
              end
  end.

Lemma last_with_app : forall k a b,
  last_with k (a ++ b) = match last_with k b with Some x => Some x | None => last_with k a end.
Proof.
  intros k a b. induction a as [|e a IH]; cbn [app last_with].
  - destruct (last_with k b); reflexivity.
  - rewrite IH. destruct (last_with k b); reflexivity.
Qed.

Lemma last_with_none : forall k seg, last_with k seg = None -> forall e, In e seg -> mk e <> k.
Proof.
  intros k seg. induction seg as [|x r IH]; intros H e []; cbn [last_with] in H.
  - subst x. destruct (last_with k r); [discriminate|].
    destruct (beq (mk e) k) eqn:B; [discriminate|].
    intros E. apply beq_true_iff in E. congruence.
  - destruct (last_with k r); [discriminate|]. apply IH; auto.
Qed.

Lemma last_with_in : forall k seg e, last_with k seg = Some e -> In e seg /\ mk e = k.
Proof.
  intros k seg e. induction seg as [|x r IH]; cbn [last_with]; [discriminate|].
  destruct (last_with k r) as [y|].
  - intros E. destruct (IH E). split; [right|]; assumption.
  - destruct (beq (mk x) k) eqn:B; [|discriminate]. intros E. injection E as <-.
    split; [left; reflexivity|]. apply beq_true_iff. exact B.
Qed.

Lemma build_from_app : forall l0 a b, build_from l0 (a ++ b) = build_from (build_from l0 a) b.
Proof. intros. unfold build_from. apply fold_left_app. Qed.

Definition seq_le (a b : mentry) : Prop := mseq a <= mseq b.

(* with insertions in non-decreasing sequence order the latest version is the last inserted *)
Lemma latest_version_sorted : forall k seg,
  StronglySorted seq_le seg -> latest_version k seg = last_with k seg.
Proof.
  intros k seg. induction seg as [|e seg IH] using rev_ind; intros Hs; [reflexivity|].
  apply SS_app in Hs. destruct Hs as (H1 & _ & H3).
  rewrite latest_version_snoc, last_with_app, IH by exact H1. cbn [last_with]. unfold pick.
  destruct (beq (mk e) k); [|destruct (last_with k seg); reflexivity].
  destruct (last_with k seg) as [c|] eqn:L; [|reflexivity].
  apply last_with_in in L. destruct L as [Hc _].
  specialize (H3 c e Hc (or_introl eq_refl)). unfold seq_le in H3.
  assert (E : (mseq e <? mseq c) = false) by lia. rewrite E. reflexivity.
Qed.

Lemma find_build_sorted : forall k seg,
  StronglySorted seq_le seg -> find k (build seg) = last_with k seg.
Proof. intros k seg Hs. rewrite find_build. apply latest_version_sorted. exact Hs. Qed.

(* ------------------------------------------------------------------------------------ *)
(* Part C: histories, the invariant, reads under the invariant                             *)
(* ------------------------------------------------------------------------------------ *)

(* history of acknowledged non-empty writes, each with the sequence number it was given *)
Definition hist := list (N * wop).

Definition stamp (p : N * wop) : list mentry := map (bop_mentry (fst p)) (effects (snd p)).
Definition wstamp (p : N * wop) : list wentry := map (bop_entry (fst p)) (effects (snd p)).
Definition entries (h : hist) : list mentry := flat_map stamp h.
Definition wentries (h : hist) : list wentry := flat_map wstamp h.

Definition eff (e : mentry) : bytes * option bytes :=
  (mk e, match mkind e with KDel => None | KVal => Some (mval e) end).

Lemma eff_bop_mentry : forall q o, eff (bop_mentry q o) = o.
Proof. intros q [k [v|]]; reflexivity. Qed.

Lemma mseq_bop_mentry : forall q o, mseq (bop_mentry q o) = q.
Proof. intros q [k [v|]]; reflexivity. Qed.

Lemma mk_bop_mentry : forall q o, mk (bop_mentry q o) = fst o.
Proof. intros q [k [v|]]; reflexivity. Qed.

Lemma wseq_bop_entry : forall q o, w_seq (bop_entry q o) = q.
Proof. intros q [k [v|]]; reflexivity. Qed.

Lemma OpPut_neq_OpDel : (OpDel =? OpPut) = false.
Proof. reflexivity. Qed.

Lemma wentry_mentry_bop : forall q o, wentry_mentry (bop_entry q o) = Some (bop_mentry q o).
Proof.
  intros q [k [v|]]; unfold wentry_mentry, bop_entry, bop_mentry; cbn [snd fst w_op w_key w_seq w_val].
  - rewrite N.eqb_refl. reflexivity.
  - rewrite OpPut_neq_OpDel, N.eqb_refl. reflexivity.
Qed.

Lemma entries_app : forall a b, entries (a ++ b) = entries a ++ entries b.
Proof. intros. unfold entries. apply flat_map_app. Qed.
Lemma wentries_app : forall a b, wentries (a ++ b) = wentries a ++ wentries b.
Proof. intros. unfold wentries. apply flat_map_app. Qed.
Lemma entries_single : forall p, entries [p] = stamp p.
Proof. intros. unfold entries. cbn [flat_map]. apply app_nil_r. Qed.
Lemma wentries_single : forall p, wentries [p] = wstamp p.
Proof. intros. unfold wentries. cbn [flat_map]. apply app_nil_r. Qed.

Lemma map_eff_entries : forall h, map eff (entries h) = flat (map snd h).
Proof.
  induction h as [|p h IH]; [reflexivity|].
  unfold entries, flat in *. cbn [flat_map map]. rewrite map_app, IH. f_equal.
  unfold stamp. rewrite map_map. rewrite <- (map_id (effects (snd p))) at 2.
  apply map_ext. intros o. apply eff_bop_mentry.
Qed.

Lemma in_entries : forall h e, In e (entries h) <->
  exists p o, In p h /\ In o (effects (snd p)) /\ e = bop_mentry (fst p) o.
Proof.
  intros h e. unfold entries. rewrite in_flat_map. split.
  - intros (p & Hp & He). unfold stamp in He. apply in_map_iff in He.
    destruct He as (o & <- & Ho). exists p, o. auto.
  - intros (p & o & Hp & Ho & ->). exists p. split; [exact Hp|].
    unfold stamp. apply in_map. exact Ho.
Qed.

Lemma in_wentries : forall h e, In e (wentries h) <->
  exists p o, In p h /\ In o (effects (snd p)) /\ e = bop_entry (fst p) o.
Proof.
  intros h e. unfold wentries. rewrite in_flat_map. split.
  - intros (p & Hp & He). unfold wstamp in He. apply in_map_iff in He.
    destruct He as (o & <- & Ho). exists p, o. auto.
  - intros (p & o & Hp & Ho & ->). exists p. split; [exact Hp|].
    unfold wstamp. apply in_map. exact Ho.
Qed.

(* strictly increasing per write => non-decreasing per entry *)
Lemma entries_sorted : forall h,
  StronglySorted N.lt (map fst h) -> StronglySorted seq_le (entries h).
Proof.
  induction h as [|p h IH]; intros Hs; [constructor|].
  cbn [map] in Hs. inversion Hs as [|? ? Hs' Hf]; subst.
  change (entries (p :: h)) with (stamp p ++ entries h).
  apply SS_app. split; [|split].
  - unfold stamp. induction (effects (snd p)) as [|o l IHl]; cbn [map]; constructor; [exact IHl|].
    rewrite Forall_forall. intros x Hx. apply in_map_iff in Hx. destruct Hx as (o' & <- & _).
    unfold seq_le. rewrite !mseq_bop_mentry. lia.
  - apply IH. exact Hs'.
  - intros a b Ha Hb. unfold stamp in Ha. apply in_map_iff in Ha. destruct Ha as (o & <- & _).
    apply in_entries in Hb. destruct Hb as (p' & o' & Hp' & _ & ->).
    unfold seq_le. rewrite !mseq_bop_mentry.
    rewrite Forall_forall in Hf. specialize (Hf (fst p') (in_map fst _ _ Hp')). lia.
Qed.

Lemma wentries_sorted : forall h,
  StronglySorted N.lt (map fst h) ->
  StronglySorted (fun a b => w_seq a <= w_seq b) (wentries h).
Proof.
  induction h as [|p h IH]; intros Hs; [constructor|].
  cbn [map] in Hs. inversion Hs as [|? ? Hs' Hf]; subst.
  change (wentries (p :: h)) with (wstamp p ++ wentries h).
  apply SS_app. split; [|split].
  - unfold wstamp. induction (effects (snd p)) as [|o l IHl]; cbn [map]; constructor; [exact IHl|].
    rewrite Forall_forall. intros x Hx. apply in_map_iff in Hx. destruct Hx as (o' & <- & _).
    rewrite !wseq_bop_entry. lia.
  - apply IH. exact Hs'.
  - intros a b Ha Hb. unfold wstamp in Ha. apply in_map_iff in Ha. destruct Ha as (o & <- & _).
    apply in_wentries in Hb. destruct Hb as (p' & o' & Hp' & _ & ->).
    rewrite !wseq_bop_entry.
    rewrite Forall_forall in Hf. specialize (Hf (fst p') (in_map fst _ _ Hp')). lia.
Qed.

Definition key_written (h : hist) (x : sentry) : Prop := In (sk x) (map mk (entries h)).

Record Inv (s : st) (h : hist) : Prop := mkInv {
  inv_segs : exists segsI segA,
      Forall2 (fun m seg => mt_entries m = build seg) (imms s) segsI /\
      mt_entries (active s) = build segA /\
      concat segsI ++ segA = entries h;
  inv_sorted : StronglySorted N.lt (map fst h);
  inv_bound : Forall (fun q => q < wal_next s) (map fst h);
  inv_nonempty : Forall (fun p => effects (snd p) <> []) h;
  inv_wal : concat (wal_files s) = wentries h;
  inv_last : last_seq s = last (map fst h) 0;
  inv_next : wal_next s = last_seq s + 1;
  inv_active_mut : mt_imm (active s) = false;
  inv_pending : incl (pending s) (imms s);
  inv_ssts : lost_log s = false -> Forall (Forall (key_written h)) (map s_entries (ssts s))
}.

(* ---------- reads under the invariant ---------- *)

Lemma last_effect_app : forall k a b,
  last_effect k (a ++ b) =
  match last_effect k b with Some x => Some x | None => last_effect k a end.
Proof.
  intros k a b. induction a as [|[k' v] a IH]; cbn [app last_effect].
  - destruct (last_effect k b); reflexivity.
  - rewrite IH. destruct (last_effect k b); reflexivity.
Qed.

Lemma last_effect_none : forall k l, last_effect k l = None -> forall p, In p l -> fst p <> k.
Proof.
  intros k l. induction l as [|[k' v] r IH]; intros H p []; cbn [last_effect] in H.
  - subst p. cbn [fst]. destruct (last_effect k r); [discriminate|].
    destruct (beq k' k) eqn:B; [discriminate|]. intros E. apply beq_true_iff in E. congruence.
  - destruct (last_effect k r); [discriminate|]. apply IH; auto.
Qed.

Lemma last_effect_last_with : forall k seg,
  last_effect k (map eff seg) = option_map (fun e => snd (eff e)) (last_with k seg).
Proof.
  intros k seg. induction seg as [|e r IH]; [reflexivity|].
  cbn [map]. unfold eff at 1. cbn [last_effect last_with]. rewrite IH.
  destruct (last_with k r); cbn [option_map]; [reflexivity|].
  destruct (beq (mk e) k); reflexivity.
Qed.

Lemma mt_get_build : forall m seg k,
  mt_entries m = build seg -> StronglySorted seq_le seg ->
  mt_get m k = last_effect k (map eff seg).
Proof.
  intros m seg k Hm Hs. unfold mt_get. rewrite Hm, find_build_sorted by exact Hs.
  rewrite last_effect_last_with. destruct (last_with k seg); reflexivity.
Qed.

Lemma mems_get_app : forall k a b,
  mems_get k (a ++ b) = match mems_get k a with Some x => Some x | None => mems_get k b end.
Proof.
  intros k a b. induction a as [|m a IH]; cbn [app mems_get]; [reflexivity|].
  destruct (mt_get m k); [reflexivity|exact IH].
Qed.

Definition layer_ok (m : memtable) (seg : list mentry) : Prop := mt_entries m = build seg.

Lemma mems_get_layers : forall k layers segs,
  Forall2 layer_ok layers segs ->
  StronglySorted seq_le (concat segs) ->
  mems_get k (rev layers) = last_effect k (map eff (concat segs)).
Proof.
  intros k layers segs HF. induction HF as [|m seg layers segs Hm HF IH]; intros Hs; [reflexivity|].
  cbn [rev concat] in *. apply SS_app in Hs. destruct Hs as (Hs1 & Hs2 & _).
  rewrite mems_get_app, map_app, last_effect_app, IH by exact Hs2.
  destruct (last_effect k (map eff (concat segs))); [reflexivity|].
  cbn [mems_get]. rewrite (mt_get_build m seg k Hm Hs1).
  destruct (last_effect k (map eff seg)); reflexivity.
Qed.

Lemma inv_layers : forall s h, Inv s h ->
  exists segs, Forall2 layer_ok (imms s ++ [active s]) segs /\ concat segs = entries h.
Proof.
  intros s h I. destruct (inv_segs s h I) as (segsI & segA & HF & HA & HC).
  exists (segsI ++ [segA]). split.
  - apply Forall2_app; [exact HF|]. constructor; [exact HA|constructor].
  - rewrite concat_app. cbn [concat]. rewrite app_nil_r. exact HC.
Qed.

Lemma mem_layers_rev : forall s, mem_layers s = rev (imms s ++ [active s]).
Proof. intros. unfold mem_layers. rewrite rev_app_distr. reflexivity. Qed.

(* the memtable layers hold the whole history *)
Lemma mems_get_inv : forall s h k, Inv s h ->
  mems_get k (mem_layers s) = latest (map snd h) k.
Proof.
  intros s h k I. destruct (inv_layers s h I) as (segs & HF & HC).
  rewrite mem_layers_rev, (mems_get_layers k _ segs HF).
  - rewrite HC, map_eff_entries. reflexivity.
  - rewrite HC. apply entries_sorted. exact (inv_sorted s h I).
Qed.

Lemma sst_find_some : forall k l x, sst_find k l = Some x -> In x l /\ sk x = k.
Proof.
  intros k l x. induction l as [|y r IH]; cbn [sst_find]; [discriminate|].
  destruct (bcmp (sk y) k) eqn:C; try discriminate.
  - intros E. injection E as ->. split; [left; reflexivity|]. apply bcmp_eq. exact C.
  - intros E. destruct (IH E). split; [right|]; assumption.
Qed.

Lemma ssts_get_none : forall k tables,
  (forall l x, In l (map s_entries tables) -> In x l -> sk x <> k) -> ssts_get k tables = None.
Proof.
  intros k tables. induction tables as [|t r IH]; intros H; [reflexivity|].
  cbn [ssts_get]. destruct (sst_find k (s_entries t)) as [x|] eqn:F.
  - apply sst_find_some in F. destruct F as [Hin Hk].
    exfalso. apply (H (s_entries t) x); [left; reflexivity|exact Hin|exact Hk].
  - apply IH. intros l x Hl Hx. apply (H l x); [right; exact Hl|exact Hx].
Qed.

(* C01 for a state satisfying the invariant *)
Lemma get_inv : forall s h k, Inv s h -> lost_log s = false ->
  get s k = spec_get (map snd h) k.
Proof.
  intros s h k I Hl. unfold get, spec_get. rewrite (mems_get_inv s h k I).
  destruct (latest (map snd h) k) as [[v|]|] eqn:L; try reflexivity.
  rewrite ssts_get_none; [reflexivity|].
  intros l x Hlin Hx Hk.
  pose proof (inv_ssts s h I Hl) as HS. rewrite Forall_forall in HS.
  rewrite map_rev in Hlin. apply in_rev in Hlin.
  specialize (HS l Hlin). rewrite Forall_forall in HS. specialize (HS x Hx).
  unfold key_written in HS. apply in_map_iff in HS. destruct HS as (e & He & Hin).
  unfold latest in L. rewrite <- map_eff_entries in L.
  apply (last_effect_none k _ L (eff e)); [apply in_map; exact Hin|].
  unfold eff. cbn [fst]. congruence.
Qed.

(* ------------------------------------------------------------------------------------ *)
(* Part D: preservation of the invariant, one lemma per operation                          *)
(* ------------------------------------------------------------------------------------ *)

Ltac proj := cbn [cfg wal_next wal_files last_seq active imms pending flush_pending ssts
                  next_file clock lost_log].

Lemma Inv_init : forall c, Inv (init c) [].
Proof.
  intros c. constructor; unfold init; proj; cbn [map last].
  - exists [], []. repeat split; constructor.
  - constructor.
  - constructor.
  - constructor.
  - reflexivity.
  - reflexivity.
  - reflexivity.
  - reflexivity.
  - intros x [].
  - intros _. constructor.
Qed.

(* ---------- writes ---------- *)

Definition add_all (q : N) (ops : list bop) (s : st) : st :=
  fold_left (fun a o => set_last (pool_add a (bop_mentry q o)) q) ops s.

(* everything a batch of memtable insertions leaves alone, and what it does to the active table *)
Lemma add_all_spec : forall q ops s,
  let s' := add_all q ops s in
  cfg s' = cfg s /\ wal_next s' = wal_next s /\ wal_files s' = wal_files s /\
  imms s' = imms s /\ pending s' = pending s /\ ssts s' = ssts s /\
  next_file s' = next_file s /\ clock s' = clock s /\ lost_log s' = lost_log s /\
  (ops <> [] -> last_seq s' = q) /\
  (mt_imm (active s) = false ->
   mt_imm (active s') = false /\
   mt_entries (active s') = build_from (mt_entries (active s)) (map (bop_mentry q) ops)).
Proof.
  intros q ops. induction ops as [|o r IH]; intros s; cbn zeta.
  - cbn [add_all fold_left map]. repeat split; try reflexivity; tauto.
  - change (add_all q (o :: r) s) with (add_all q r (set_last (pool_add s (bop_mentry q o)) q)).
    specialize (IH (set_last (pool_add s (bop_mentry q o)) q)). cbn zeta in IH.
    destruct IH as (H1 & H2 & H3 & H4 & H5 & H6 & H7 & H8 & H9 & H10 & H11).
    rewrite H1, H2, H3, H4, H5, H6, H7, H8, H9.
    do 9 (split; [reflexivity|]). split.
    + intros _. destruct r as [|o' r'].
      * reflexivity.
      * apply H10. discriminate.
    + intros Himm.
      assert (Hm : mt_imm (active (set_last (pool_add s (bop_mentry q o)) q)) = false).
      { unfold set_last, pool_add; proj. unfold mt_add. rewrite Himm. reflexivity. }
      destruct (H11 Hm) as [Ha Hb]. split; [exact Ha|].
      rewrite Hb. unfold set_last, pool_add; proj. unfold mt_add. rewrite Himm.
      cbn [mt_entries map]. reflexivity.
Qed.

Lemma concat_log_append : forall files es, concat (log_append files es) = concat files ++ es.
Proof.
  intros files es. unfold log_append. destruct (rev files) as [|f r] eqn:E.
  - apply (f_equal (@rev _)) in E. rewrite rev_involutive in E. subst files.
    cbn [rev concat app]. apply app_nil_r.
  - apply (f_equal (@rev _)) in E. rewrite rev_involutive in E. subst files.
    cbn [rev]. rewrite !concat_app. cbn [concat]. rewrite !app_nil_r, app_assoc. reflexivity.
Qed.

Definition write_state (s : st) (ops : list bop) : st :=
  let q := wal_next s in
  add_all q ops (upd_wal s (q + 1) (log_append (wal_files s) (map (bop_entry q) ops))).

Lemma apply_batch_nil : forall s, apply_batch s [] = (s, WrOk (wal_next s)).
Proof. reflexivity. Qed.

Lemma apply_batch_overflow : forall s ops,
  (MaxSeq <=? wal_next s) = true -> ops <> [] -> apply_batch s ops = (s, WrOverflow).
Proof.
  intros s [|o r] H Hne; [congruence|]. unfold apply_batch. rewrite H. reflexivity.
Qed.

Lemma apply_batch_ok : forall s ops,
  (MaxSeq <=? wal_next s) = false -> ops <> [] ->
  apply_batch s ops = (maybe_schedule (write_state s ops), WrOk (wal_next s)).
Proof.
  intros s [|o r] H Hne; [congruence|]. unfold apply_batch. rewrite H. reflexivity.
Qed.

Lemma put_as_batch : forall s k v, put s k v = apply_batch s [(k, Some v)].
Proof.
  intros s k v. unfold put, apply_batch. destruct (MaxSeq <=? wal_next s); reflexivity.
Qed.

Lemma del_as_batch : forall s k, del s k = apply_batch s [(k, None)].
Proof.
  intros s k. unfold del, apply_batch. destruct (MaxSeq <=? wal_next s); reflexivity.
Qed.

Lemma tx_commit_as_batch : forall s ops, tx_commit s ops = apply_batch s (buffer_ops ops).
Proof. intros s ops. unfold tx_commit. destruct (buffer_ops ops); reflexivity. Qed.

(* the write proper: log append + memtable insertions, before a flush is scheduled *)
Lemma Inv_write : forall s h ops w,
  Inv s h -> ops <> [] -> effects w = ops ->
  Inv (write_state s ops) (h ++ [(wal_next s, w)]).
Proof.
  intros s h ops w I Hne Hw.
  pose proof (add_all_spec (wal_next s) ops
    (upd_wal s (wal_next s + 1)
       (log_append (wal_files s) (map (bop_entry (wal_next s)) ops)))) as A.
  cbn zeta in A. fold (write_state s ops) in A.
  set (s2 := write_state s ops) in *. clearbody s2. unfold upd_wal in A.
  revert A. proj. intros (A1 & A2 & A3 & A4 & A5 & A6 & A7 & A8 & A9 & A10 & A11).
  specialize (A10 Hne). specialize (A11 (inv_active_mut s h I)). destruct A11 as [A11 A12].
  assert (Hst : stamp (wal_next s, w) = map (bop_mentry (wal_next s)) ops).
  { unfold stamp. cbn [fst snd]. rewrite Hw. reflexivity. }
  assert (Hwst : wstamp (wal_next s, w) = map (bop_entry (wal_next s)) ops).
  { unfold wstamp. cbn [fst snd]. rewrite Hw. reflexivity. }
  constructor.
  - destruct (inv_segs s h I) as (segsI & segA & HF & HA & HC).
    exists segsI, (segA ++ stamp (wal_next s, w)). rewrite A4. split; [exact HF|]. split.
    + rewrite A12, HA, Hst. unfold build. rewrite build_from_app. reflexivity.
    + rewrite app_assoc, HC, entries_app, entries_single. reflexivity.
  - rewrite map_app. cbn [map fst]. apply SS_app. split; [exact (inv_sorted s h I)|]. split.
    + repeat constructor.
    + intros a b Ha [<-|[]]. pose proof (inv_bound s h I) as B. rewrite Forall_forall in B.
      exact (B a Ha).
  - rewrite A2, map_app. apply Forall_app. split.
    + eapply Forall_impl; [|exact (inv_bound s h I)]. cbn beta. intros a Ha. lia.
    + cbn [map fst]. repeat constructor. lia.
  - apply Forall_app. split; [exact (inv_nonempty s h I)|]. repeat constructor.
    cbn [snd]. rewrite Hw. exact Hne.
  - rewrite A3, concat_log_append, (inv_wal s h I), wentries_app, wentries_single, Hwst.
    reflexivity.
  - rewrite A10, map_app. cbn [map fst]. rewrite last_last. reflexivity.
  - rewrite A2, A10. reflexivity.
  - exact A11.
  - rewrite A4, A5. exact (inv_pending s h I).
  - rewrite A9, A6. intros Hl. eapply Forall_impl; [|exact (inv_ssts s h I Hl)].
    intros l Hlf. eapply Forall_impl; [|exact Hlf]. intros x Hx. unfold key_written in *.
    rewrite entries_app, map_app. apply in_or_app. left. exact Hx.
Qed.

(* scheduleFlush: the active table becomes the newest immutable one *)
Lemma Inv_maybe_schedule : forall s h, Inv s h -> Inv (maybe_schedule s) h.
Proof.
  intros s h I. unfold maybe_schedule. destruct (flush_pending s); [|exact I].
  constructor; unfold schedule_flush; proj;
    try (first [exact (inv_sorted s h I)|exact (inv_bound s h I)|exact (inv_nonempty s h I)
               |exact (inv_wal s h I)|exact (inv_last s h I)|exact (inv_next s h I)
               |exact (inv_ssts s h I)]).
  - destruct (inv_segs s h I) as (segsI & segA & HF & HA & HC).
    exists (segsI ++ [segA]), []. split; [|split].
    + apply Forall2_app; [exact HF|]. repeat constructor. exact HA.
    + reflexivity.
    + rewrite concat_app. cbn [concat]. rewrite !app_nil_r. exact HC.
  - reflexivity.
  - apply incl_app.
    + apply incl_appl. exact (inv_pending s h I).
    + apply incl_appr. apply incl_refl.
Qed.

Lemma Inv_apply_batch : forall s h ops w s' q,
  Inv s h -> ops <> [] -> effects w = ops -> apply_batch s ops = (s', WrOk q) ->
  q = wal_next s /\ Inv s' (h ++ [(q, w)]).
Proof.
  intros s h ops w s' q I Hne Hw E.
  destruct (MaxSeq <=? wal_next s) eqn:M.
  - rewrite apply_batch_overflow in E by assumption. discriminate.
  - rewrite apply_batch_ok in E by assumption. injection E as <- <-.
    split; [reflexivity|]. apply Inv_maybe_schedule. apply Inv_write; assumption.
Qed.

Lemma apply_batch_no_effect : forall s ops s', apply_batch s ops = (s', WrOverflow) -> s' = s.
Proof.
  intros s ops s' E. destruct ops as [|o r]; [discriminate|].
  destruct (MaxSeq <=? wal_next s) eqn:M.
  - rewrite apply_batch_overflow in E by (assumption || discriminate). congruence.
  - rewrite apply_batch_ok in E by (assumption || discriminate). discriminate.
Qed.

Lemma Inv_put : forall s h k v s' q,
  Inv s h -> put s k v = (s', WrOk q) -> q = wal_next s /\ Inv s' (h ++ [(q, WPut k v)]).
Proof.
  intros s h k v s' q I E. rewrite put_as_batch in E.
  eapply Inv_apply_batch; [exact I| |reflexivity|exact E]. discriminate.
Qed.

Lemma Inv_del : forall s h k s' q,
  Inv s h -> del s k = (s', WrOk q) -> q = wal_next s /\ Inv s' (h ++ [(q, WDel k)]).
Proof.
  intros s h k s' q I E. rewrite del_as_batch in E.
  eapply Inv_apply_batch; [exact I| |reflexivity|exact E]. discriminate.
Qed.

(* ---------- flush ---------- *)

Definition nonnil {A : Type} (l : list A) : bool := match l with [] => false | _ => true end.

(* what flushMemTable writes for table m (nothing = no file) *)
Definition flushed_entries (m : memtable) : list sentry :=
  if mt_size m =? 0 then [] else collect (mt_iter_entries m).

Definition opt_table (l : list sentry) : list (list sentry) := if nonnil l then [l] else [].

Lemma flush_table_spec : forall s m,
  let s' := flush_table s m in
  cfg s' = cfg s /\ wal_next s' = wal_next s /\ wal_files s' = wal_files s /\
  last_seq s' = last_seq s /\ active s' = active s /\ imms s' = imms s /\
  pending s' = pending s /\ flush_pending s' = flush_pending s /\ lost_log s' = lost_log s /\
  map s_entries (ssts s') = map s_entries (ssts s) ++ opt_table (flushed_entries m).
Proof.
  intros s m. cbn zeta. unfold flush_table, flushed_entries, opt_table.
  destruct (mt_size m =? 0).
  - cbn [nonnil]. rewrite app_nil_r. repeat split; reflexivity.
  - destruct (collect (mt_iter_entries m)) as [|x l].
    + cbn [nonnil]. rewrite app_nil_r. repeat split; reflexivity.
    + proj. cbn [nonnil]. rewrite map_app. cbn [map s_entries]. repeat split; reflexivity.
Qed.

Lemma fold_flush_table_spec : forall ps s,
  let s' := fold_left flush_table ps s in
  cfg s' = cfg s /\ wal_next s' = wal_next s /\ wal_files s' = wal_files s /\
  last_seq s' = last_seq s /\ active s' = active s /\ imms s' = imms s /\
  pending s' = pending s /\ flush_pending s' = flush_pending s /\ lost_log s' = lost_log s /\
  map s_entries (ssts s') =
    map s_entries (ssts s) ++ flat_map (fun m => opt_table (flushed_entries m)) ps.
Proof.
  induction ps as [|m r IH]; intros s; cbn zeta.
  - cbn [fold_left flat_map]. rewrite app_nil_r. repeat split; reflexivity.
  - cbn [fold_left flat_map]. specialize (IH (flush_table s m)). cbn zeta in IH.
    destruct IH as (H1 & H2 & H3 & H4 & H5 & H6 & H7 & H8 & H9 & H10).
    destruct (flush_table_spec s m) as (G1 & G2 & G3 & G4 & G5 & G6 & G7 & G8 & G9 & G10).
    rewrite H1, H2, H3, H4, H5, H6, H7, H8, H9, H10, G1, G2, G3, G4, G5, G6, G7, G8, G9, G10.
    rewrite app_assoc. repeat split; reflexivity.
Qed.

(* the tables one FlushMemTables call writes *)
Definition flush_tabs (s : st) : list memtable :=
  match pending s with
  | [] => if 0 <? mt_size (active s) then [active s] else []
  | ps => ps
  end.

Lemma flush_spec : forall s,
  let s' := flush s in
  cfg s' = cfg s /\ wal_next s' = wal_next s /\ concat (wal_files s') = concat (wal_files s) /\
  last_seq s' = last_seq s /\ active s' = active s /\ imms s' = imms s /\
  lost_log s' = lost_log s /\ pending s' = [] /\
  map s_entries (ssts s') =
    map s_entries (ssts s) ++ flat_map (fun m => opt_table (flushed_entries m)) (flush_tabs s).
Proof.
  intros s. cbn zeta. unfold flush, flush_tabs. destruct (pending s) as [|p ps] eqn:P.
  - destruct (0 <? mt_size (active s)).
    + destruct (flush_table_spec (rotate s) (active s))
        as (G1 & G2 & G3 & G4 & G5 & G6 & G7 & G8 & G9 & G10).
      rewrite G1, G2, G3, G4, G5, G6, G7, G9, G10. unfold rotate, upd_wal; proj.
      rewrite concat_snoc_nil, P. cbn [flat_map]. rewrite app_nil_r.
      repeat split; reflexivity.
    + cbn [flat_map]. rewrite app_nil_r, P. repeat split; reflexivity.
  - destruct (fold_flush_table_spec (p :: ps) (rotate (clear_pending s)))
      as (G1 & G2 & G3 & G4 & G5 & G6 & G7 & G8 & G9 & G10).
    rewrite G1, G2, G3, G4, G5, G6, G7, G9, G10. unfold rotate, upd_wal, clear_pending; proj.
    rewrite concat_snoc_nil. repeat split; reflexivity.
Qed.

Lemma flush_tabs_incl : forall s, incl (flush_tabs s) (active s :: pending s).
Proof.
  intros s. unfold flush_tabs. destruct (pending s) as [|p ps].
  - destruct (0 <? mt_size (active s)); intros x []; [left; assumption|contradiction].
  - apply incl_tl. apply incl_refl.
Qed.

Lemma collect_aux_in : forall l acc x,
  In x (collect_aux acc l) -> In x acc \/ exists e, In e l /\ x = to_sentry e.
Proof.
  induction l as [|e r IH]; intros acc x H; cbn [collect_aux] in H.
  - left. apply in_rev. exact H.
  - destruct acc as [|lst acc'].
    + apply IH in H. destruct H as [[<-|[]]|(e' & He' & ->)].
      * right. exists e. split; [left; reflexivity|reflexivity].
      * right. exists e'. split; [right; exact He'|reflexivity].
    + destruct (beq (sk lst) (mk e)).
      * destruct (sseq lst <? mseq e); apply IH in H.
        -- destruct H as [[<-|H]|(e' & He' & ->)].
           ++ right. exists e. split; [left; reflexivity|reflexivity].
           ++ left. right. exact H.
           ++ right. exists e'. split; [right; exact He'|reflexivity].
        -- destruct H as [H|(e' & He' & ->)]; [left; exact H|].
           right. exists e'. split; [right; exact He'|reflexivity].
      * apply IH in H. destruct H as [[<-|H]|(e' & He' & ->)].
        -- right. exists e. split; [left; reflexivity|reflexivity].
        -- left. exact H.
        -- right. exists e'. split; [right; exact He'|reflexivity].
Qed.

Lemma flushed_entries_in : forall m x,
  In x (flushed_entries m) -> exists e, In e (mt_entries m) /\ x = to_sentry e.
Proof.
  intros m x H. unfold flushed_entries in H. destruct (mt_size m =? 0); [contradiction|].
  unfold collect in H. apply collect_aux_in in H. destruct H as [[]|(e & He & ->)].
  exists e. split; [|reflexivity]. unfold mt_iter_entries in He. apply filter_In in He. tauto.
Qed.

Lemma Forall2_in_l : forall (A B : Type) (R : A -> B -> Prop) l l' x,
  Forall2 R l l' -> In x l -> exists y, In y l' /\ R x y.
Proof.
  intros A B R l l' x HF. induction HF as [|a b l l' Hab HF IH]; intros []; subst.
  - exists b. split; [left; reflexivity|exact Hab].
  - destruct (IH H) as (y & Hy & Hr). exists y. split; [right; exact Hy|exact Hr].
Qed.

(* every entry of every memtable layer is an entry of the history *)
Lemma layer_entries_in_hist : forall s h m e,
  Inv s h -> In m (active s :: imms s) -> In e (mt_entries m) -> In e (entries h).
Proof.
  intros s h m e I Hm He. destruct (inv_segs s h I) as (segsI & segA & HF & HA & HC).
  rewrite <- HC. apply in_or_app. destruct Hm as [<-|Hm].
  - right. rewrite HA in He. apply build_in. exact He.
  - left. destruct (Forall2_in_l _ _ _ _ _ m HF Hm) as (seg & Hseg & Hb).
    apply in_concat. exists seg. split; [exact Hseg|]. rewrite Hb in He. apply build_in. exact He.
Qed.

Lemma Inv_flush : forall s h, Inv s h -> Inv (flush s) h.
Proof.
  intros s h I.
  destruct (flush_spec s) as (G1 & G2 & G3 & G4 & G5 & G6 & G7 & G8 & G9).
  constructor; rewrite ?G1, ?G2, ?G3, ?G4, ?G5, ?G6, ?G7.
  - exact (inv_segs s h I).
  - exact (inv_sorted s h I).
  - exact (inv_bound s h I).
  - exact (inv_nonempty s h I).
  - exact (inv_wal s h I).
  - exact (inv_last s h I).
  - exact (inv_next s h I).
  - exact (inv_active_mut s h I).
  - rewrite G8. intros x [].
  - intros Hl. rewrite G9. apply Forall_app. split; [exact (inv_ssts s h I Hl)|].
    rewrite Forall_forall. intros l Hlin. apply in_flat_map in Hlin.
    destruct Hlin as (m & Hm & Hlm). unfold opt_table in Hlm.
    destruct (nonnil (flushed_entries m)); [|contradiction]. destruct Hlm as [<-|[]].
    rewrite Forall_forall. intros x Hx. apply flushed_entries_in in Hx.
    destruct Hx as (e & He & ->). unfold key_written. unfold to_sentry; cbn [sk].
    apply in_map. apply (layer_entries_in_hist s h m e I); [|exact He].
    apply flush_tabs_incl in Hm. destruct Hm as [<-|Hm]; [left; reflexivity|].
    right. apply (inv_pending s h I). exact Hm.
Qed.

(* ---------- reopen ---------- *)

Definition reopen_files (s : st) : list (list wentry) :=
  match wal_files s with [] => [[]] | f => f end.
Definition recovered (s : st) : option (list memtable * N) :=
  recover_tables (cfg s) (concat (reopen_files s)) [mt_empty] 0.

Lemma reopen_none : forall s, recovered s = None ->
  reopen s = mkSt (cfg s) 1 [[]] 0 mt_empty [] [] false (sst_sort (ssts s)) 1 (clock s) true.
Proof.
  intros s H. unfold recovered, reopen_files in H. unfold reopen. cbv zeta. rewrite H. reflexivity.
Qed.

Lemma reopen_some : forall s tbls maxseq, recovered s = Some (tbls, maxseq) ->
  reopen s =
  mkSt (cfg s) (if maxseq =? 0 then 1 else maxseq + 1) (reopen_files s) maxseq
       (match tbls with a :: _ => a | [] => mt_empty end)
       (map mt_set_imm (rev (tl tbls))) (map mt_set_imm (rev (tl tbls))) false
       (sst_sort (ssts s)) 1 (clock s) (lost_log s).
Proof.
  intros s tbls maxseq H. unfold recovered, reopen_files in H. unfold reopen. cbv zeta.
  rewrite H. reflexivity.
Qed.

Lemma concat_reopen_files : forall s, concat (reopen_files s) = concat (wal_files s).
Proof. intros s. unfold reopen_files. destruct (wal_files s); reflexivity. Qed.

Definition rec_max (a : N) (e : wentry) : N := if a <? w_seq e then w_seq e else a.
Definition w_m (e : wentry) (m : mentry) : Prop := wentry_mentry e = Some m.
Definition head_mutable (tables : list memtable) : Prop :=
  exists cur older, tables = cur :: older /\ mt_imm cur = false.

(* RecoverFromWAL: the tables (newest first) partition the replayed entries in log order *)
Lemma recover_tables_spec : forall c es ms,
  Forall2 w_m es ms ->
  forall tables maxseq segs tbls m',
  Forall2 layer_ok tables segs -> head_mutable tables ->
  recover_tables c es tables maxseq = Some (tbls, m') ->
  exists segs', Forall2 layer_ok tbls segs' /\ head_mutable tbls /\
                concat (rev segs') = concat (rev segs) ++ ms /\
                m' = fold_left rec_max es maxseq.
Proof.
  intros c es ms HF. induction HF as [|e m es ms Hem HF IH];
    intros tables maxseq segs tbls m' HL HM HR.
  - cbn [recover_tables] in HR. injection HR as <- <-. exists segs.
    rewrite app_nil_r. repeat split; assumption.
  - destruct HM as (cur & older & -> & Hcur).
    inversion HL as [|? seg ? segs0 Hseg HL']; subst.
    cbn [recover_tables] in HR. unfold w_m in Hem. rewrite Hem in HR.
    fold (rec_max maxseq e) in HR.
    destruct (c_memsize c <=? mt_size cur).
    + destruct (c_maxmem c <=? N.of_nat (length (cur :: older))); [discriminate|].
      apply IH with (segs := [m] :: seg :: segs0) in HR.
      * destruct HR as (segs' & H1 & H2 & H3 & H4). exists segs'.
        repeat split; try assumption.
        rewrite H3. cbn [rev]. rewrite !concat_app. cbn [concat]. rewrite !app_nil_r.
        rewrite <- !app_assoc. reflexivity.
      * constructor; [reflexivity|]. constructor; [exact Hseg|exact HL'].
      * eexists _, _. split; [reflexivity|]. reflexivity.
    + apply IH with (segs := (seg ++ [m]) :: segs0) in HR.
      * destruct HR as (segs' & H1 & H2 & H3 & H4). exists segs'.
        repeat split; try assumption.
        rewrite H3. cbn [rev]. rewrite !concat_app. cbn [concat]. rewrite !app_nil_r.
        rewrite <- !app_assoc. reflexivity.
      * constructor; [|exact HL']. unfold layer_ok in *. unfold mt_add. rewrite Hcur.
        cbn [mt_entries]. rewrite Hseg, build_snoc. reflexivity.
      * eexists _, _. split; [reflexivity|]. unfold mt_add. rewrite Hcur. reflexivity.
Qed.

Lemma w_m_hist : forall h, Forall2 w_m (wentries h) (entries h).
Proof.
  induction h as [|p h IH]; [constructor|].
  change (wentries (p :: h)) with (wstamp p ++ wentries h).
  change (entries (p :: h)) with (stamp p ++ entries h).
  apply Forall2_app; [|exact IH]. unfold wstamp, stamp.
  induction (effects (snd p)) as [|o l IHl]; cbn [map]; constructor; [|exact IHl].
  apply wentry_mentry_bop.
Qed.

Lemma rec_max_last : forall l d,
  StronglySorted (fun a b => w_seq a <= w_seq b) l -> (forall x, In x l -> d <= w_seq x) ->
  fold_left rec_max l d = last (map w_seq l) d.
Proof.
  induction l as [|a l IH]; intros d Hs Hd; [reflexivity|].
  cbn [fold_left map]. rewrite last_cons_default.
  inversion Hs as [|? ? Hs' Hf]; subst.
  assert (E : rec_max d a = w_seq a).
  { unfold rec_max. specialize (Hd a (or_introl eq_refl)).
    destruct (d <? w_seq a) eqn:L; [reflexivity|]. lia. }
  rewrite E. apply IH; [exact Hs'|]. rewrite Forall_forall in Hf. exact Hf.
Qed.

Lemma last_wentries : forall h, Forall (fun p => effects (snd p) <> []) h ->
  last (map w_seq (wentries h)) 0 = last (map fst h) 0.
Proof.
  intros h. destruct h as [|p0 h0] using rev_ind; intros Hne; [reflexivity|].
  apply Forall_app in Hne. destruct Hne as [_ Hp]. inversion Hp as [|? ? Hp' _]; subst.
  rewrite wentries_app, wentries_single, !map_app. cbn [map]. rewrite last_last.
  unfold wstamp. destruct (exists_last Hp') as (l' & o & ->).
  rewrite !map_app. cbn [map]. rewrite app_assoc, last_last. apply wseq_bop_entry.
Qed.

Lemma sorted_le_last : forall l q, StronglySorted N.lt l -> In q l -> q <= last l 0.
Proof.
  intros l q Hs Hq. destruct l as [|a l0]; [contradiction|].
  destruct (@exists_last _ (a :: l0)) as (l' & x & E); [discriminate|].
  rewrite E in *. rewrite last_last. apply SS_app in Hs. destruct Hs as (_ & _ & H3).
  apply in_app_or in Hq. destruct Hq as [Hq|[<-|[]]]; [|lia].
  specialize (H3 q x Hq (or_introl eq_refl)). lia.
Qed.

Lemma sst_insert_in : forall x l t, In t (sst_insert x l) <-> t = x \/ In t l.
Proof.
  intros x l t. induction l as [|y r IH]; cbn [sst_insert].
  - cbn [In]. intuition.
  - destruct (sst_le x y); cbn [In]; [|rewrite IH]; intuition.
Qed.

Lemma sst_sort_in : forall l t, In t (sst_sort l) <-> In t l.
Proof.
  intros l t. induction l as [|x r IH]; [reflexivity|].
  cbn [sst_sort fold_right]. fold (sst_sort r). rewrite sst_insert_in, IH. cbn [In]. intuition.
Qed.

Lemma Forall2_rev_ : forall (A B : Type) (R : A -> B -> Prop) l l',
  Forall2 R l l' -> Forall2 R (rev l) (rev l').
Proof.
  intros A B R l l' HF. induction HF; cbn [rev]; [constructor|].
  apply Forall2_app; [assumption|]. repeat constructor. assumption.
Qed.

Lemma Inv_reopen_fail : forall s, recovered s = None -> Inv (reopen s) [].
Proof.
  intros s H. rewrite (reopen_none s H). constructor; proj; cbn [map last].
  - exists [], []. repeat split; constructor.
  - constructor.
  - constructor.
  - constructor.
  - reflexivity.
  - reflexivity.
  - reflexivity.
  - reflexivity.
  - intros x [].
  - discriminate.
Qed.

(* what recovery needs of the state it starts from: only what is on disk (this is also the
   situation after a crash, where memtables and counters are gone) *)
Record DiskInv (s : st) (h : hist) : Prop := mkDiskInv {
  d_sorted : StronglySorted N.lt (map fst h);
  d_nonempty : Forall (fun p => effects (snd p) <> []) h;
  d_wal : concat (wal_files s) = wentries h;
  d_ssts : lost_log s = false -> Forall (Forall (key_written h)) (map s_entries (ssts s))
}.

Lemma Inv_DiskInv : forall s h, Inv s h -> DiskInv s h.
Proof.
  intros s h I. constructor.
  - exact (inv_sorted s h I).
  - exact (inv_nonempty s h I).
  - exact (inv_wal s h I).
  - exact (inv_ssts s h I).
Qed.

Lemma Inv_reopen_disk : forall s h tbls maxseq,
  DiskInv s h -> recovered s = Some (tbls, maxseq) -> Inv (reopen s) h.
Proof.
  intros s h tbls maxseq I H. rewrite (reopen_some s tbls maxseq H).
  unfold recovered in H. rewrite concat_reopen_files, (d_wal s h I) in H.
  destruct (recover_tables_spec (cfg s) _ _ (w_m_hist h) [mt_empty] 0 [[]] tbls maxseq)
    as (segs' & HL & HM & HC & Hmax).
  { repeat constructor. }
  { exists mt_empty, []. split; reflexivity. }
  { exact H. }
  cbn [rev concat app] in HC.
  assert (Hlast : maxseq = last (map fst h) 0).
  { rewrite Hmax, rec_max_last.
    - apply last_wentries. exact (d_nonempty s h I).
    - apply wentries_sorted. exact (d_sorted s h I).
    - intros x _. lia. }
  clear Hmax H. destruct HM as (cur & older & -> & Hcur).
  destruct segs' as [|sc so]; [inversion HL|].
  assert (Hsc : layer_ok cur sc) by (inversion HL; assumption).
  assert (HLo : Forall2 layer_ok older so) by (inversion HL; assumption).
  clear HL. cbn [tl].
  constructor; proj.
  - exists (rev so), sc. split; [|split].
    + apply Forall2_rev_ in HLo. revert HLo. generalize (rev older), (rev so).
      intros l l' HF. induction HF; cbn [map]; constructor; assumption.
    + exact Hsc.
    + rewrite <- HC. cbn [rev]. rewrite concat_app. cbn [concat]. rewrite app_nil_r. reflexivity.
  - exact (d_sorted s h I).
  - rewrite Forall_forall. intros q Hq.
    pose proof (sorted_le_last _ q (d_sorted s h I) Hq) as Hle. rewrite <- Hlast in Hle.
    destruct (maxseq =? 0) eqn:Z; lia.
  - exact (d_nonempty s h I).
  - rewrite concat_reopen_files. exact (d_wal s h I).
  - exact Hlast.
  - destruct (maxseq =? 0) eqn:Z; lia.
  - exact Hcur.
  - apply incl_refl.
  - intros Hl. pose proof (d_ssts s h I Hl) as HS. rewrite Forall_forall in *.
    intros l Hlin. apply in_map_iff in Hlin. destruct Hlin as (t & <- & Ht).
    apply (proj1 (sst_sort_in _ _)) in Ht. apply HS. apply in_map. exact Ht.
Qed.

Lemma Inv_reopen_ok : forall s h tbls maxseq,
  Inv s h -> recovered s = Some (tbls, maxseq) -> Inv (reopen s) h.
Proof. intros s h tbls maxseq I H. eapply Inv_reopen_disk; [apply Inv_DiskInv; exact I|exact H]. Qed.

(* ------------------------------------------------------------------------------------ *)
(* Part E: runs                                                                            *)
(* ------------------------------------------------------------------------------------ *)

(* the history since the last loss of the log: what one step does to it *)
Definition step_hist (s : st) (o : op) (h : hist) : hist :=
  match o with
  | OPut k v => match snd (put s k v) with WrOk q => h ++ [(q, WPut k v)] | WrOverflow => h end
  | ODel k => match snd (del s k) with WrOk q => h ++ [(q, WDel k)] | WrOverflow => h end
  | OBatch ops =>
      match ops, snd (apply_batch s ops) with
      | _ :: _, WrOk q => h ++ [(q, WBatch ops)]
      | _, _ => h
      end
  | OCommit ops =>
      match buffer_ops ops, snd (tx_commit s ops) with
      | _ :: _, WrOk q => h ++ [(q, WBatch (buffer_ops ops))]
      | _, _ => h
      end
  | OReopen => match recovered s with None => [] | Some _ => h end
  | _ => h
  end.

Fixpoint epoch (s : st) (ops : list op) (h : hist) : hist :=
  match ops with
  | [] => h
  | o :: r => epoch (step s o) r (step_hist s o h)
  end.

Lemma Inv_batch_step : forall s h ops w,
  Inv s h -> effects w = ops ->
  Inv (fst (apply_batch s ops))
      (match ops, snd (apply_batch s ops) with
       | _ :: _, WrOk q => h ++ [(q, w)]
       | _, _ => h
       end).
Proof.
  intros s h ops w I Hw. destruct ops as [|o r]; [exact I|].
  destruct (apply_batch s (o :: r)) as [s' [q|]] eqn:E; cbn [fst snd].
  - assert (Hne : o :: r <> []) by discriminate.
    exact (proj2 (Inv_apply_batch s h (o :: r) w s' q I Hne Hw E)).
  - apply apply_batch_no_effect in E. subst s'. exact I.
Qed.

Lemma Inv_step : forall s h o, Inv s h -> Inv (step s o) (step_hist s o h).
Proof.
  intros s h o I. destruct o as [k v|k|ops|ops|ops| | |k]; cbn [step step_hist].
  - rewrite put_as_batch. exact (Inv_batch_step s h [(k, Some v)] (WPut k v) I eq_refl).
  - rewrite del_as_batch. exact (Inv_batch_step s h [(k, None)] (WDel k) I eq_refl).
  - exact (Inv_batch_step s h ops (WBatch ops) I eq_refl).
  - rewrite tx_commit_as_batch.
    pose proof (Inv_batch_step s h (buffer_ops ops) (WBatch (buffer_ops ops)) I eq_refl) as B.
    destruct (buffer_ops ops); exact B.
  - exact I.
  - apply Inv_flush. exact I.
  - destruct (recovered s) as [[tbls maxseq]|] eqn:R.
    + eapply Inv_reopen_ok; eassumption.
    + apply Inv_reopen_fail. exact R.
  - exact I.
Qed.

Lemma Inv_steps : forall ops s h, Inv s h -> Inv (fold_left step ops s) (epoch s ops h).
Proof.
  induction ops as [|o r IH]; intros s h I; [exact I|].
  cbn [fold_left epoch]. apply IH. apply Inv_step. exact I.
Qed.

Lemma Inv_run : forall c ops, Inv (run c ops) (epoch (init c) ops []).
Proof. intros. unfold run. apply Inv_steps. apply Inv_init. Qed.

(* ---------- log loss is permanent; without it the epoch is the whole run ---------- *)

Lemma lost_log_maybe_schedule : forall s, lost_log (maybe_schedule s) = lost_log s.
Proof. intros s. unfold maybe_schedule. destruct (flush_pending s); reflexivity. Qed.

Lemma lost_log_write_state : forall s ops, lost_log (write_state s ops) = lost_log s.
Proof.
  intros s ops. unfold write_state.
  pose proof (add_all_spec (wal_next s) ops
    (upd_wal s (wal_next s + 1)
       (log_append (wal_files s) (map (bop_entry (wal_next s)) ops)))) as A.
  cbn zeta in A. destruct A as (_ & _ & _ & _ & _ & _ & _ & _ & A9 & _).
  rewrite A9. reflexivity.
Qed.

Lemma lost_log_apply_batch : forall s ops, lost_log (fst (apply_batch s ops)) = lost_log s.
Proof.
  intros s ops. destruct ops as [|o r]; [reflexivity|].
  destruct (MaxSeq <=? wal_next s) eqn:M.
  - rewrite apply_batch_overflow by (assumption || discriminate). reflexivity.
  - rewrite apply_batch_ok by (assumption || discriminate). cbn [fst].
    rewrite lost_log_maybe_schedule. apply lost_log_write_state.
Qed.

Lemma lost_log_reopen : forall s,
  lost_log (reopen s) = match recovered s with None => true | Some _ => lost_log s end.
Proof.
  intros s. destruct (recovered s) as [[tbls maxseq]|] eqn:R.
  - rewrite (reopen_some s tbls maxseq R). reflexivity.
  - rewrite (reopen_none s R). reflexivity.
Qed.

Lemma lost_log_step_mono : forall s o, lost_log s = true -> lost_log (step s o) = true.
Proof.
  intros s o H. destruct o as [k v|k|ops|ops|ops| | |k]; cbn [step]; try exact H.
  - rewrite put_as_batch, lost_log_apply_batch. exact H.
  - rewrite del_as_batch, lost_log_apply_batch. exact H.
  - rewrite lost_log_apply_batch. exact H.
  - rewrite tx_commit_as_batch, lost_log_apply_batch. exact H.
  - destruct (flush_spec s) as (_ & _ & _ & _ & _ & _ & G7 & _). rewrite G7. exact H.
  - rewrite lost_log_reopen. destruct (recovered s); [exact H|reflexivity].
Qed.

Lemma lost_log_steps_false : forall ops s,
  lost_log (fold_left step ops s) = false -> lost_log s = false.
Proof.
  induction ops as [|o r IH]; intros s H; [exact H|].
  cbn [fold_left] in H. apply IH in H. destruct (lost_log s) eqn:L; [|reflexivity].
  rewrite (lost_log_step_mono s o L) in H. discriminate.
Qed.

Lemma step_hist_fst : forall s o h, lost_log (step s o) = false ->
  map fst (step_hist s o h) = map fst h ++ seq1 s o.
Proof.
  intros s o h Hl. destruct o as [k v|k|ops|ops|ops| | |k]; cbn [step_hist seq1];
    try (rewrite app_nil_r; reflexivity).
  - destruct (snd (put s k v)); [rewrite map_app|rewrite app_nil_r]; reflexivity.
  - destruct (snd (del s k)); [rewrite map_app|rewrite app_nil_r]; reflexivity.
  - destruct ops; [rewrite app_nil_r; reflexivity|].
    destruct (snd (apply_batch s (b :: ops))); [rewrite map_app|rewrite app_nil_r]; reflexivity.
  - destruct (buffer_ops ops); [rewrite app_nil_r; reflexivity|].
    destruct (snd (tx_commit s ops)); [rewrite map_app|rewrite app_nil_r]; reflexivity.
  - cbn [step] in Hl. rewrite lost_log_reopen in Hl.
    destruct (recovered s); [rewrite app_nil_r; reflexivity|discriminate].
Qed.

Lemma step_hist_snd : forall s o h, lost_log (step s o) = false ->
  map snd (step_hist s o h) = map snd h ++ ack1 s o.
Proof.
  intros s o h Hl. destruct o as [k v|k|ops|ops|ops| | |k]; cbn [step_hist ack1];
    try (rewrite app_nil_r; reflexivity).
  - destruct (snd (put s k v)); [rewrite map_app|rewrite app_nil_r]; reflexivity.
  - destruct (snd (del s k)); [rewrite map_app|rewrite app_nil_r]; reflexivity.
  - destruct ops; [rewrite app_nil_r; reflexivity|].
    destruct (snd (apply_batch s (b :: ops))); [rewrite map_app|rewrite app_nil_r]; reflexivity.
  - destruct (buffer_ops ops); [rewrite app_nil_r; reflexivity|].
    destruct (snd (tx_commit s ops)); [rewrite map_app|rewrite app_nil_r]; reflexivity.
  - cbn [step] in Hl. rewrite lost_log_reopen in Hl.
    destruct (recovered s); [rewrite app_nil_r; reflexivity|discriminate].
Qed.

Lemma epoch_fst : forall ops s h, lost_log (fold_left step ops s) = false ->
  map fst (epoch s ops h) = map fst h ++ ack_seqs s ops.
Proof.
  induction ops as [|o r IH]; intros s h Hl; cbn [epoch ack_seqs].
  - rewrite app_nil_r. reflexivity.
  - cbn [fold_left] in Hl. rewrite IH by exact Hl.
    rewrite step_hist_fst by (apply lost_log_steps_false in Hl; exact Hl).
    rewrite app_assoc. reflexivity.
Qed.

Lemma epoch_snd : forall ops s h, lost_log (fold_left step ops s) = false ->
  map snd (epoch s ops h) = map snd h ++ acked s ops.
Proof.
  induction ops as [|o r IH]; intros s h Hl; cbn [epoch acked].
  - rewrite app_nil_r. reflexivity.
  - cbn [fold_left] in Hl. rewrite IH by exact Hl.
    rewrite step_hist_snd by (apply lost_log_steps_false in Hl; exact Hl).
    rewrite app_assoc. reflexivity.
Qed.

(* ------------------------------------------------------------------------------------ *)
(* T1 (C01): reads return the latest acknowledged write through every layer                *)
(* ------------------------------------------------------------------------------------ *)

Theorem C01_read_latest : forall c ops k,
  lost_log (run c ops) = false ->
  get (run c ops) k = spec_get (acked (init c) ops) k.
Proof.
  intros c ops k Hl. rewrite (get_inv _ _ k (Inv_run c ops) Hl).
  unfold run in Hl. rewrite (epoch_snd ops (init c) [] Hl). reflexivity.
Qed.

(* a program with several keys, an overwrite after a flush, deletes, batches and a
   transaction with repeated keys, reopens, and a table size that forces scheduled flushes *)
Module C01_example.
  Definition k1 : bytes := [1]. Definition k2 : bytes := [2]. Definition k3 : bytes := [1;0].
  Definition k4 : bytes := [7;7].
  Definition cfg0 := mkCfg 40 10.
  Definition prog : list op :=
    [OPut k1 [11]; OPut k2 [12]; OPut k3 [13]; OFlush; OPut k1 [14]; ODel k2;
     OBatch [(k2, Some [15]); (k3, None); (k2, Some [16]); (k4, Some [17])]; OBatch [];
     OReopen; OPut k3 [18]; OCommit [(k1, Some [19]); (k1, Some [20]); (k4, None)];
     OFlush; OFlush; OReopen; ODel k4; OCommit []; ORollback [(k1, None)]; OGet k1;
     OPut k4 [21]; OFlush].
  Example hyp : lost_log (run cfg0 prog) = false.
  Proof. vm_compute. reflexivity. Qed.
  Example reads :
    map (get (run cfg0 prog)) [k1; k2; k3; k4; [9]] = [Some [20]; Some [16]; Some [18]; Some [21]; None]
    /\ map (spec_get (acked (init cfg0) prog)) [k1; k2; k3; k4; [9]]
       = [Some [20]; Some [16]; Some [18]; Some [21]; None].
  Proof. vm_compute. split; reflexivity. Qed.
  Example history : acked (init cfg0) prog =
    [WPut k1 [11]; WPut k2 [12]; WPut k3 [13]; WPut k1 [14]; WDel k2;
     WBatch [(k2, Some [15]); (k3, None); (k2, Some [16]); (k4, Some [17])];
     WPut k3 [18]; WBatch [(k1, Some [20]); (k4, None)]; WDel k4; WPut k4 [21]].
  Proof. vm_compute. reflexivity. Qed.
End C01_example.

(* ---------- corollaries ---------- *)

Definition reachable (s : st) : Prop := exists c ops, s = run c ops.

Lemma reachable_Inv : forall s, reachable s -> exists h, Inv s h.
Proof. intros s (c & ops & ->). eexists. apply Inv_run. Qed.

(* reads through the SSTables depend only on the tables' contents *)
Fixpoint tabs_get (k : bytes) (tabs : list (list sentry)) : option (option bytes) :=
  match tabs with
  | [] => None
  | t :: r => match sst_find k t with Some e => Some (sval e) | None => tabs_get k r end
  end.

Lemma ssts_get_tabs : forall k tables, ssts_get k tables = tabs_get k (map s_entries tables).
Proof.
  intros k tables. induction tables as [|t r IH]; [reflexivity|].
  cbn [ssts_get map tabs_get]. rewrite IH. reflexivity.
Qed.

Lemma tabs_get_app : forall k a b,
  tabs_get k (a ++ b) = match tabs_get k a with Some x => Some x | None => tabs_get k b end.
Proof.
  intros k a b. induction a as [|t a IH]; [reflexivity|].
  cbn [app tabs_get]. destruct (sst_find k t); [reflexivity|exact IH].
Qed.

Lemma tabs_get_none : forall k tabs,
  (forall l x, In l tabs -> In x l -> sk x <> k) -> tabs_get k tabs = None.
Proof.
  intros k tabs. induction tabs as [|t r IH]; intros H; [reflexivity|].
  cbn [tabs_get]. destruct (sst_find k t) as [x|] eqn:F.
  - apply sst_find_some in F. destruct F as [Hin Hk].
    exfalso. exact (H t x (or_introl eq_refl) Hin Hk).
  - apply IH. intros l x Hl Hx. exact (H l x (or_intror Hl) Hx).
Qed.

(* a key no memtable layer answers for was never written in this epoch *)
Lemma mems_get_none_keys : forall s h k m e,
  Inv s h -> mems_get k (mem_layers s) = None ->
  In m (active s :: imms s) -> In e (mt_entries m) -> mk e <> k.
Proof.
  intros s h k m e I Hn Hm He. rewrite (mems_get_inv s h k I) in Hn.
  unfold latest in Hn. rewrite <- map_eff_entries in Hn.
  apply (last_effect_none k _ Hn (eff e)). apply in_map.
  exact (layer_entries_in_hist s h m e I Hm He).
Qed.

Lemma get_flush_inv : forall s h k, Inv s h -> get (flush s) k = get s k.
Proof.
  intros s h k I.
  destruct (flush_spec s) as (_ & _ & _ & _ & G5 & G6 & _ & _ & G9).
  unfold get, mem_layers. rewrite G5, G6. fold (mem_layers s).
  destruct (mems_get k (mem_layers s)) eqn:Mg; [reflexivity|].
  rewrite !ssts_get_tabs, !map_rev, G9, rev_app_distr, tabs_get_app.
  rewrite tabs_get_none; [reflexivity|].
  intros l x Hl Hx. apply in_rev in Hl. apply in_flat_map in Hl. destruct Hl as (m & Hm & Hlm).
  unfold opt_table in Hlm. destruct (nonnil (flushed_entries m)); [|contradiction].
  destruct Hlm as [<-|[]]. apply flushed_entries_in in Hx. destruct Hx as (e & He & ->).
  unfold to_sentry; cbn [sk]. apply (mems_get_none_keys s h k m e I Mg); [|exact He].
  apply flush_tabs_incl in Hm. destruct Hm as [<-|Hm]; [left; reflexivity|].
  right. apply (inv_pending s h I). exact Hm.
Qed.

(* holds in every reachable state, also after a log loss *)
Theorem C01_flush_invariant : forall s k, reachable s -> get (flush s) k = get s k.
Proof.
  intros s k R. destruct (reachable_Inv s R) as (h & I). exact (get_flush_inv s h k I).
Qed.

Theorem C01_reopen_invariant : forall s k,
  reachable s -> lost_log (reopen s) = false -> get (reopen s) k = get s k.
Proof.
  intros s k R Hl. destruct (reachable_Inv s R) as (h & I).
  pose proof Hl as Hl'. rewrite lost_log_reopen in Hl'.
  destruct (recovered s) as [[tbls maxseq]|] eqn:Rc; [|discriminate].
  rewrite (get_inv (reopen s) h k (Inv_reopen_ok s h tbls maxseq I Rc) Hl).
  rewrite (get_inv s h k I Hl'). reflexivity.
Qed.

Theorem C01_error_no_effect : forall s,
  (forall k v s', put s k v = (s', WrOverflow) -> s' = s) /\
  (forall k s', del s k = (s', WrOverflow) -> s' = s) /\
  (forall ops s', apply_batch s ops = (s', WrOverflow) -> s' = s) /\
  (forall ops s', tx_commit s ops = (s', WrOverflow) -> s' = s).
Proof.
  intros s. repeat split.
  - intros k v s' E. rewrite put_as_batch in E. exact (apply_batch_no_effect _ _ _ E).
  - intros k s' E. rewrite del_as_batch in E. exact (apply_batch_no_effect _ _ _ E).
  - intros ops s' E. exact (apply_batch_no_effect _ _ _ E).
  - intros ops s' E. rewrite tx_commit_as_batch in E. exact (apply_batch_no_effect _ _ _ E).
Qed.

(* ------------------------------------------------------------------------------------ *)
(* T2 (C08): sequence numbers strictly increase                                           *)
(* ------------------------------------------------------------------------------------ *)

Theorem C08_monotone : forall c ops,
  lost_log (run c ops) = false -> StronglySorted N.lt (ack_seqs (init c) ops).
Proof.
  intros c ops Hl. pose proof (inv_sorted _ _ (Inv_run c ops)) as S.
  unfold run in Hl. rewrite (epoch_fst ops (init c) [] Hl) in S. exact S.
Qed.

(* also after a log loss the numbers increase strictly inside the current epoch *)
Lemma C08_epoch_monotone : forall c ops, StronglySorted N.lt (map fst (epoch (init c) ops [])).
Proof. intros c ops. exact (inv_sorted _ _ (Inv_run c ops)). Qed.

Module C08_example.
  Import C01_example.
  Example seqs : ack_seqs (init cfg0) prog = [1; 2; 3; 4; 5; 6; 7; 8; 9; 10].
  Proof. vm_compute. reflexivity. Qed.
  Example log :
    map (map w_seq) (wal_files (run cfg0 prog)) = [[1; 2; 3]; [4; 5; 6; 6; 6; 6; 7; 8; 8]; []; [9; 10]; []].
  Proof. vm_compute. reflexivity. Qed.
End C08_example.

Lemma last_app_le : forall l l', StronglySorted N.lt (l ++ l') -> last l 0 <= last (l ++ l') 0.
Proof.
  intros l l' Hs. destruct l as [|a l0]; [cbn [last]; lia|].
  destruct (@exists_last _ (a :: l0)) as (l1 & x & E); [discriminate|].
  rewrite E in *. rewrite last_last. apply sorted_le_last; [exact Hs|].
  apply in_or_app. left. apply in_or_app. right. left. reflexivity.
Qed.

Theorem C08_reported_monotone :
  (forall c ops o, lost_log (step (run c ops) o) = false ->
     last_seq (run c ops) <= last_seq (step (run c ops) o)) /\
  (forall c ops, lost_log (run c ops) = false ->
     last_seq (run c ops) = last (ack_seqs (init c) ops) 0 /\
     last_seq (run c ops) < wal_next (run c ops)).
Proof.
  split.
  - intros c ops o Hl. pose proof (Inv_run c ops) as I.
    pose proof (Inv_step _ _ o I) as I'.
    rewrite (inv_last _ _ I), (inv_last _ _ I').
    pose proof (inv_sorted _ _ I') as S.
    rewrite (step_hist_fst _ _ _ Hl) in *. apply last_app_le. exact S.
  - intros c ops Hl. pose proof (Inv_run c ops) as I. split.
    + rewrite (inv_last _ _ I). unfold run in Hl. rewrite (epoch_fst ops (init c) [] Hl).
      reflexivity.
    + rewrite (inv_next _ _ I). lia.
Qed.

(* the log as a function of the acknowledged writes and their numbers *)
Definition log_of (qs : list N) (ws : list wop) : list wentry := wentries (combine qs ws).

Lemma combine_fst_snd : forall (A B : Type) (l : list (A * B)), combine (map fst l) (map snd l) = l.
Proof. intros A B l. induction l as [|[a b] l IH]; cbn [map combine fst snd]; congruence. Qed.

(* the log holds, in order, the entries of the acknowledged writes, each write's entries
   stamped with the write's number: numbers are non-decreasing along the log and two entries
   have the same number only inside one batch (the per-write numbers increase strictly) *)
Theorem C08_log_order : forall c ops,
  lost_log (run c ops) = false ->
  concat (wal_files (run c ops)) = log_of (ack_seqs (init c) ops) (acked (init c) ops) /\
  StronglySorted N.lt (ack_seqs (init c) ops) /\
  StronglySorted (fun a b => w_seq a <= w_seq b) (concat (wal_files (run c ops))).
Proof.
  intros c ops Hl. pose proof (Inv_run c ops) as I. split; [|split].
  - rewrite (inv_wal _ _ I). unfold log_of, run in *.
    pose proof (epoch_fst ops (init c) [] Hl) as E1. pose proof (epoch_snd ops (init c) [] Hl) as E2.
    cbn [map app] in E1, E2. rewrite <- E1, <- E2, combine_fst_snd. reflexivity.
  - apply C08_monotone. exact Hl.
  - rewrite (inv_wal _ _ I). apply wentries_sorted. exact (inv_sorted _ _ I).
Qed.

Theorem C08_overflow_rejects : forall s,
  MaxSeq <= wal_next s ->
  (forall k v, put s k v = (s, WrOverflow)) /\
  (forall k, del s k = (s, WrOverflow)) /\
  (forall ops, ops <> [] -> apply_batch s ops = (s, WrOverflow)) /\
  (forall ops, buffer_ops ops <> [] -> tx_commit s ops = (s, WrOverflow)).
Proof.
  intros s H. assert (M : (MaxSeq <=? wal_next s) = true) by (apply N.leb_le; exact H).
  repeat split.
  - intros k v. rewrite put_as_batch. apply apply_batch_overflow; [exact M|discriminate].
  - intros k. rewrite del_as_batch. apply apply_batch_overflow; [exact M|discriminate].
  - intros ops Hne. apply apply_batch_overflow; assumption.
  - intros ops Hne. rewrite tx_commit_as_batch. apply apply_batch_overflow; assumption.
Qed.

(* known-finding class: after a recovery that ran out of memtable budget the log is set
   aside and the numbering restarts at 1 *)
Module C08_lostlog.
  Definition c0 := mkCfg 1 1.
  Definition prog : list op := [OPut [1] [10]; OPut [2] [20]; OReopen; OPut [3] [30]].
End C08_lostlog.

Theorem C08_lostlog_refuted : exists c ops,
  lost_log (run c ops) = true /\
  ack_seqs (init c) ops = [1; 2; 1] /\
  ~ StronglySorted N.lt (ack_seqs (init c) ops).
Proof.
  exists C08_lostlog.c0, C08_lostlog.prog.
  assert (E : ack_seqs (init C08_lostlog.c0) C08_lostlog.prog = [1; 2; 1])
    by (vm_compute; reflexivity).
  split; [vm_compute; reflexivity|]. split; [exact E|].
  rewrite E. intros S. inversion S as [|? ? _ F]; subst.
  inversion F as [|? ? _ F']; subst. inversion F' as [|? ? C _]; subst. lia.
Qed.

(* the same run loses acknowledged data: C01 needs the hypothesis lost_log = false *)
Example C01_lostlog_refuted :
  lost_log (run C08_lostlog.c0 C08_lostlog.prog) = true /\
  get (run C08_lostlog.c0 C08_lostlog.prog) [1] = None /\
  spec_get (acked (init C08_lostlog.c0) C08_lostlog.prog) [1] = Some [10].
Proof. vm_compute. repeat split; reflexivity. Qed.

(* ------------------------------------------------------------------------------------ *)
(* Part F: the SSTables of runs without a reopen (ssts_agree)                              *)
(* ------------------------------------------------------------------------------------ *)

Definition key_asc (l : list sentry) : Prop :=
  StronglySorted (fun a b => bcmp (sk a) (sk b) = Lt) l.

(* a key's version in a later table is not older than its version in an earlier table *)
Definition table_le (t1 t2 : list sentry) : Prop :=
  forall x y, In x t1 -> In y t2 -> sk x = sk y -> sseq x <= sseq y.
Definition recency (tabs : list (list sentry)) : Prop := StronglySorted table_le tabs.

(* --- collect: one version per key, the newest --- *)

Definition kdesc (a b : sentry) : Prop := bcmp (sk b) (sk a) = Lt.

Record CI (acc : list sentry) (done : list mentry) : Prop := mkCI {
  ci_desc : StronglySorted kdesc acc;
  ci_from : forall a, In a acc -> exists e, In e done /\ a = to_sentry e;
  ci_new : forall a e, In a acc -> In e done -> mk e = sk a -> mseq e <= sseq a;
  ci_head : forall e, In e done -> exists a acc', acc = a :: acc' /\ bcmp (mk e) (sk a) <> Gt
}.

Lemma ngt_cases : forall a b, bcmp a b <> Gt -> a = b \/ bcmp a b = Lt.
Proof.
  intros a b H. destruct (bcmp a b) eqn:C; [left; apply bcmp_eq; exact C|right; reflexivity|congruence].
Qed.

Lemma ele_key_ngt : forall a b, ele a b -> bcmp (mk a) (mk b) <> Gt.
Proof.
  intros a b H. apply ele_iff in H. destruct H as [H|[H _]]; [congruence|].
  rewrite H, bcmp_refl. discriminate.
Qed.

Lemma collect_aux_CI : forall r done acc,
  StronglySorted ele (done ++ r) -> CI acc done ->
  exists accF, collect_aux acc r = rev accF /\ CI accF (done ++ r).
Proof.
  induction r as [|x r IH]; intros done acc Hs C.
  - exists acc. rewrite app_nil_r. split; [reflexivity|exact C].
  - assert (Hdx : forall e, In e done -> ele e x).
    { apply SS_app in Hs. destruct Hs as (_ & _ & H3). intros e He. apply H3; [exact He|left; reflexivity]. }
    replace (done ++ x :: r) with ((done ++ [x]) ++ r) in * by (rewrite <- app_assoc; reflexivity).
    cbn [collect_aux]. destruct acc as [|lst acc0].
    + (* first entry *)
      apply IH; [exact Hs|].
      assert (Hd : forall e, In e done -> False).
      { intros e He. destruct (ci_head _ _ C e He) as (a & acc' & E & _). discriminate. }
      constructor.
      * repeat constructor.
      * intros a [<-|[]]. exists x. split; [apply in_or_app; right; left; reflexivity|reflexivity].
      * intros a e [<-|[]] He _. apply in_app_or in He. destruct He as [He|[<-|[]]].
        -- destruct (Hd e He).
        -- cbn [to_sentry sseq]. lia.
      * intros e He. apply in_app_or in He. destruct He as [He|[<-|[]]]; [destruct (Hd e He)|].
        eexists _, _. split; [reflexivity|]. cbn [to_sentry sk]. rewrite bcmp_refl. discriminate.
    + assert (Hle : bcmp (sk lst) (mk x) <> Gt).
      { destruct (ci_from _ _ C lst (or_introl eq_refl)) as (e0 & He0 & ->).
        cbn [to_sentry sk]. apply ele_key_ngt. apply Hdx. exact He0. }
      pose proof (ci_desc _ _ C) as Hdesc. inversion Hdesc as [|? ? Hdesc0 Hf0]; subst.
      rewrite Forall_forall in Hf0. unfold kdesc in Hf0.
      destruct (beq (sk lst) (mk x)) eqn:B.
      * apply beq_true_iff in B.
        assert (Hx0 : forall a, In a acc0 -> mk x <> sk a).
        { intros a Ha E. specialize (Hf0 a Ha). rewrite <- E, B in Hf0.
          exact (bcmp_lt_irrefl _ Hf0). }
        destruct (sseq lst <? mseq x) eqn:L.
        -- (* the new entry replaces the candidate *)
           apply IH; [exact Hs|]. constructor.
           ++ constructor; [exact Hdesc0|]. rewrite Forall_forall. intros b Hb. unfold kdesc.
              cbn [to_sentry sk]. rewrite <- B. apply Hf0. exact Hb.
           ++ intros a [<-|Ha].
              ** exists x. split; [apply in_or_app; right; left; reflexivity|reflexivity].
              ** destruct (ci_from _ _ C a (or_intror Ha)) as (e & He & ->).
                 exists e. split; [apply in_or_app; left; exact He|reflexivity].
           ++ intros a e Ha He Hk. apply in_app_or in He. destruct Ha as [<-|Ha].
              ** cbn [to_sentry sk sseq] in *. destruct He as [He|[<-|[]]]; [|lia].
                 pose proof (ci_new _ _ C lst e (or_introl eq_refl) He) as Hn.
                 rewrite B in Hn. specialize (Hn Hk). lia.
              ** destruct He as [He|[<-|[]]].
                 --- exact (ci_new _ _ C a e (or_intror Ha) He Hk).
                 --- destruct (Hx0 a Ha Hk).
           ++ intros e He. apply in_app_or in He. eexists _, _. split; [reflexivity|].
              cbn [to_sentry sk]. destruct He as [He|[<-|[]]].
              ** destruct (ci_head _ _ C e He) as (a & acc' & E & Hn). injection E as <- <-.
                 rewrite <- B. exact Hn.
              ** rewrite bcmp_refl. discriminate.
        -- (* the candidate stays *)
           apply IH; [exact Hs|]. constructor.
           ++ exact Hdesc.
           ++ intros a Ha. destruct (ci_from _ _ C a Ha) as (e & He & ->).
              exists e. split; [apply in_or_app; left; exact He|reflexivity].
           ++ intros a e Ha He Hk. apply in_app_or in He. destruct He as [He|[<-|[]]].
              ** exact (ci_new _ _ C a e Ha He Hk).
              ** destruct Ha as [<-|Ha]; [lia|]. destruct (Hx0 a Ha Hk).
           ++ intros e He. apply in_app_or in He. eexists _, _. split; [reflexivity|].
              destruct He as [He|[<-|[]]].
              ** destruct (ci_head _ _ C e He) as (a & acc' & E & Hn). injection E as <- <-.
                 exact Hn.
              ** rewrite B, bcmp_refl. discriminate.
      * (* a new key *)
        assert (Hlt : bcmp (sk lst) (mk x) = Lt).
        { destruct (ngt_cases _ _ Hle) as [E|E]; [|exact E].
          rewrite E, beq_refl in B. discriminate. }
        assert (Hall : forall b, In b (lst :: acc0) -> bcmp (sk b) (mk x) = Lt).
        { intros b [<-|Hb]; [exact Hlt|]. eapply bcmp_lt_trans; [apply Hf0; exact Hb|exact Hlt]. }
        apply IH; [exact Hs|]. constructor.
        -- constructor; [exact Hdesc|]. rewrite Forall_forall. exact Hall.
        -- intros a [<-|Ha].
           ++ exists x. split; [apply in_or_app; right; left; reflexivity|reflexivity].
           ++ destruct (ci_from _ _ C a Ha) as (e & He & ->).
              exists e. split; [apply in_or_app; left; exact He|reflexivity].
        -- intros a e Ha He Hk. apply in_app_or in He. destruct Ha as [<-|Ha].
           ++ cbn [to_sentry sk sseq] in *. destruct He as [He|[<-|[]]]; [|lia].
              exfalso. destruct (ci_head _ _ C e He) as (a & acc' & E & Hn). injection E as <- <-.
              rewrite Hk in Hn. apply Hn. apply bcmp_gt_lt. exact Hlt.
           ++ destruct He as [He|[<-|[]]].
              ** exact (ci_new _ _ C a e Ha He Hk).
              ** exfalso. specialize (Hall a Ha). rewrite <- Hk in Hall.
                 exact (bcmp_lt_irrefl _ Hall).
        -- intros e He. apply in_app_or in He. eexists _, _. split; [reflexivity|].
           cbn [to_sentry sk]. destruct He as [He|[<-|[]]].
           ++ destruct (ci_head _ _ C e He) as (a & acc' & E & Hn). injection E as <- <-.
              destruct (ngt_cases _ _ Hn) as [E|E].
              ** rewrite E, Hlt. discriminate.
              ** rewrite (bcmp_lt_trans _ _ _ E Hlt). discriminate.
           ++ rewrite bcmp_refl. discriminate.
Qed.

Lemma kdesc_rev_asc : forall acc, StronglySorted kdesc acc -> key_asc (rev acc).
Proof.
  intros acc H. induction H as [|a acc Hs IH Hf]; [constructor|].
  cbn [rev]. apply SS_app. split; [exact IH|]. split; [repeat constructor|].
  intros b c Hb [<-|[]]. apply in_rev in Hb. rewrite Forall_forall in Hf. exact (Hf b Hb).
Qed.

(* the collection loop on a sorted table: keys strictly ascending, every entry comes from
   the table and is the newest version of its key *)
Lemma collect_spec : forall l, sorted l ->
  key_asc (collect l) /\
  (forall y, In y (collect l) -> exists e, In e l /\ y = to_sentry e) /\
  (forall y e, In y (collect l) -> In e l -> mk e = sk y -> mseq e <= sseq y).
Proof.
  intros l Hs. apply sorted_strong in Hs.
  destruct (collect_aux_CI l [] [] Hs) as (accF & E & C).
  { constructor; [constructor|intros a []|intros a e []|intros e []]. }
  unfold collect. rewrite E. cbn [app] in C. split; [|split].
  - apply kdesc_rev_asc. exact (ci_desc _ _ C).
  - intros y Hy. apply in_rev in Hy. exact (ci_from _ _ C y Hy).
  - intros y e Hy He. apply in_rev in Hy. exact (ci_new _ _ C y e Hy He).
Qed.

(* --- the invariant relating the tables T to the not yet flushed layers U (oldest first) --- *)

Definition seg_le (l1 l2 : list mentry) : Prop :=
  forall e1 e2, In e1 l1 -> In e2 l2 -> mseq e1 <= mseq e2.

Record SInv (T : list (list sentry)) (U : list memtable) (bound : N) : Prop := mkSInv {
  s_asc : Forall key_asc T;
  s_rec : recency T;
  (* a layer that has the key has a version at least as new as any table's *)
  s_cover : forall l x m e, In l T -> In x l -> In m U -> In e (mt_entries m) -> mk e = sk x ->
            exists e', In e' (mt_entries m) /\ mk e' = sk x /\ sseq x <= mseq e';
  s_tbound : forall l x, In l T -> In x l -> sseq x < bound;
  s_order : StronglySorted seg_le (map mt_entries U)
}.

Lemma SInv_drop : forall T m U b, SInv T (m :: U) b -> SInv T U b.
Proof.
  intros T m U b S. constructor.
  - exact (s_asc _ _ _ S).
  - exact (s_rec _ _ _ S).
  - intros l x m' e Hl Hx Hm'. apply (s_cover _ _ _ S l x m' e Hl Hx). right. exact Hm'.
  - exact (s_tbound _ _ _ S).
  - pose proof (s_order _ _ _ S) as O. cbn [map] in O. inversion O; assumption.
Qed.

Lemma flushed_entries_spec : forall m,
  sorted (mt_entries m) -> mt_iter_entries m = mt_entries m ->
  key_asc (flushed_entries m) /\
  (forall y, In y (flushed_entries m) -> exists e, In e (mt_entries m) /\ y = to_sentry e) /\
  (forall y e, In y (flushed_entries m) -> In e (mt_entries m) -> mk e = sk y -> mseq e <= sseq y).
Proof.
  intros m Hs Hi. unfold flushed_entries. destruct (mt_size m =? 0).
  - split; [constructor|]. split; [intros y []|intros y e []].
  - rewrite Hi. apply collect_spec. exact Hs.
Qed.

(* writing the table of the oldest unflushed layer (which may stay in the pool) *)
Lemma SInv_flush_keep : forall T m U b,
  SInv T (m :: U) b ->
  sorted (mt_entries m) -> mt_iter_entries m = mt_entries m ->
  (forall e, In e (mt_entries m) -> mseq e < b) ->
  SInv (T ++ opt_table (flushed_entries m)) (m :: U) b.
Proof.
  intros T m U b S Hs Hi Hb. unfold opt_table.
  destruct (nonnil (flushed_entries m)); [|rewrite app_nil_r; exact S].
  destruct (flushed_entries_spec m Hs Hi) as (Y1 & Y2 & Y3).
  set (Y := flushed_entries m) in *. clearbody Y.
  constructor.
  - apply Forall_app. split; [exact (s_asc _ _ _ S)|]. repeat constructor. exact Y1.
  - apply SS_app. split; [exact (s_rec _ _ _ S)|]. split; [repeat constructor|].
    intros l l' Hl [<-|[]]. intros x y Hx Hy Hk.
    destruct (Y2 y Hy) as (ey & Hey & Ey).
    assert (Hkey : mk ey = sk x) by (rewrite Hk, Ey; reflexivity).
    destruct (s_cover _ _ _ S l x m ey Hl Hx (or_introl eq_refl) Hey Hkey) as (e' & He' & Hk' & Hle).
    assert (Hk'' : mk e' = sk y) by congruence.
    pose proof (Y3 y e' Hy He' Hk''). lia.
  - intros l x m' e Hl Hx Hm' He Hk. apply in_app_or in Hl. destruct Hl as [Hl|[<-|[]]].
    + exact (s_cover _ _ _ S l x m' e Hl Hx Hm' He Hk).
    + destruct (Y2 x Hx) as (ex & Hex & ->). cbn [to_sentry sk sseq] in *.
      destruct Hm' as [<-|Hm'].
      * exists ex. split; [exact Hex|]. split; [reflexivity|lia].
      * exists e. split; [exact He|]. split; [exact Hk|].
        pose proof (s_order _ _ _ S) as O. cbn [map] in O. inversion O as [|? ? _ Of]; subst.
        rewrite Forall_forall in Of. apply (Of (mt_entries m') (in_map _ _ _ Hm') ex e Hex He).
  - intros l x Hl Hx. apply in_app_or in Hl. destruct Hl as [Hl|[<-|[]]].
    + exact (s_tbound _ _ _ S l x Hl Hx).
    + destruct (Y2 x Hx) as (ex & Hex & ->). cbn [to_sentry sseq]. exact (Hb ex Hex).
  - exact (s_order _ _ _ S).
Qed.

Lemma SInv_flush_all : forall ps T a b,
  SInv T (ps ++ [a]) b ->
  (forall m, In m ps -> sorted (mt_entries m) /\ mt_iter_entries m = mt_entries m /\
                        forall e, In e (mt_entries m) -> mseq e < b) ->
  SInv (T ++ flat_map (fun m => opt_table (flushed_entries m)) ps) [a] b.
Proof.
  induction ps as [|p ps IH]; intros T a b S H.
  - cbn [flat_map]. rewrite app_nil_r. exact S.
  - cbn [flat_map]. rewrite app_assoc. apply IH.
    + destruct (H p (or_introl eq_refl)) as (H1 & H2 & H3).
      cbn [app] in S. eapply SInv_drop. apply SInv_flush_keep; eassumption.
    + intros m Hm. apply H. right. exact Hm.
Qed.

(* a write: every new entry carries the number [b], the bound moves to b + 1 *)
Lemma SInv_write : forall T P a a' news b,
  SInv T (P ++ [a]) b ->
  (forall e, In e (mt_entries a') <-> In e (mt_entries a) \/ In e news) ->
  (forall e, In e news -> mseq e = b) ->
  (forall m e, In m P -> In e (mt_entries m) -> mseq e < b) ->
  SInv T (P ++ [a']) (b + 1).
Proof.
  intros T P a a' news b S Ha' Hn Hp. constructor.
  - exact (s_asc _ _ _ S).
  - exact (s_rec _ _ _ S).
  - intros l x m e Hl Hx Hm He Hk. apply in_app_or in Hm. destruct Hm as [Hm|[<-|[]]].
    + apply (s_cover _ _ _ S l x m e Hl Hx); [apply in_or_app; left; exact Hm|exact He|exact Hk].
    + apply Ha' in He. destruct He as [He|He].
      * destruct (s_cover _ _ _ S l x a e Hl Hx) as (e' & He' & Hk' & Hle);
          [apply in_or_app; right; left; reflexivity|exact He|exact Hk|].
        exists e'. split; [apply Ha'; left; exact He'|]. split; assumption.
      * exists e. split; [apply Ha'; right; exact He|]. split; [exact Hk|].
        rewrite (Hn e He). pose proof (s_tbound _ _ _ S l x Hl Hx). lia.
  - intros l x Hl Hx. pose proof (s_tbound _ _ _ S l x Hl Hx). lia.
  - pose proof (s_order _ _ _ S) as O. rewrite map_app in *. cbn [map] in *.
    apply SS_app in O. destruct O as (O1 & _ & O3). apply SS_app.
    split; [exact O1|]. split; [repeat constructor|].
    intros L1 L2 HL1 [<-|[]]. intros e1 e2 He1 He2. apply Ha' in He2. destruct He2 as [He2|He2].
    + exact (O3 L1 (mt_entries a) HL1 (or_introl eq_refl) e1 e2 He1 He2).
    + rewrite (Hn e2 He2). apply in_map_iff in HL1. destruct HL1 as (m & <- & Hm).
      pose proof (Hp m e1 Hm He1). lia.
Qed.

(* scheduleFlush *)
Lemma SInv_schedule : forall T P a b,
  SInv T (P ++ [a]) b -> SInv T ((P ++ [mt_set_imm a]) ++ [mt_empty]) b.
Proof.
  intros T P a b S. constructor.
  - exact (s_asc _ _ _ S).
  - exact (s_rec _ _ _ S).
  - intros l x m e Hl Hx Hm He Hk. apply in_app_or in Hm. destruct Hm as [Hm|[<-|[]]].
    + apply in_app_or in Hm. destruct Hm as [Hm|[<-|[]]].
      * apply (s_cover _ _ _ S l x m e Hl Hx); [apply in_or_app; left; exact Hm|exact He|exact Hk].
      * cbn [mt_set_imm mt_entries] in *.
        apply (s_cover _ _ _ S l x a e Hl Hx); [apply in_or_app; right; left; reflexivity|exact He|exact Hk].
    + destruct He.
  - exact (s_tbound _ _ _ S).
  - pose proof (s_order _ _ _ S) as O. rewrite !map_app in *. cbn [map mt_set_imm mt_entries] in *.
    apply SS_app. split; [exact O|]. split; [repeat constructor|].
    intros L1 L2 _ [<-|[]]. intros e1 e2 _ [].
Qed.

(* --- state level --- *)

Definition tabs_of (s : st) : list (list sentry) := map s_entries (ssts s).

Record InvS (s : st) : Prop := mkInvS {
  is_sinv : SInv (tabs_of s) (pending s ++ [active s]) (wal_next s);
  is_imm : Forall (fun m => mt_imm m = true) (pending s);
  is_seq : seq_inv (active s)
}.

Lemma InvS_init : forall c, InvS (init c).
Proof.
  intros c. constructor; unfold init, tabs_of; proj; cbn [map app].
  - constructor.
    + constructor.
    + constructor.
    + intros l x m e [].
    + intros l x [].
    + repeat constructor.
  - constructor.
  - constructor.
Qed.

Lemma layer_seq_bound : forall s h m e,
  Inv s h -> In m (active s :: imms s) -> In e (mt_entries m) -> mseq e < wal_next s.
Proof.
  intros s h m e I Hm He. pose proof (layer_entries_in_hist s h m e I Hm He) as Hin.
  apply in_entries in Hin. destruct Hin as (p & o & Hp & _ & ->). rewrite mseq_bop_mentry.
  pose proof (inv_bound s h I) as B. rewrite Forall_forall in B. apply B. apply in_map. exact Hp.
Qed.

Lemma layer_sorted : forall s h m,
  Inv s h -> In m (active s :: imms s) -> sorted (mt_entries m).
Proof.
  intros s h m I Hm. destruct (inv_segs s h I) as (segsI & segA & HF & HA & _).
  destruct Hm as [<-|Hm].
  - rewrite HA. apply build_sorted.
  - destruct (Forall2_in_l _ _ _ _ _ m HF Hm) as (seg & _ & Hb). rewrite Hb. apply build_sorted.
Qed.

Lemma iter_imm : forall m, mt_imm m = true -> mt_iter_entries m = mt_entries m.
Proof.
  intros m H. unfold mt_iter_entries, mt_snapshot. rewrite H. apply filter_all.
  intros x _. reflexivity.
Qed.

Lemma MaxSeq_small : MaxSeq < 2 ^ 64 - 1.
Proof. reflexivity. Qed.

Lemma add_all_seq_inv : forall q ops s,
  q < 2 ^ 64 - 1 -> seq_inv (active s) -> seq_inv (active (add_all q ops s)).
Proof.
  intros q ops. induction ops as [|o r IH]; intros s Hq H; [exact H|].
  change (add_all q (o :: r) s) with (add_all q r (set_last (pool_add s (bop_mentry q o)) q)).
  apply IH; [exact Hq|].
  change (active (set_last (pool_add s (bop_mentry q o)) q)) with (mt_add (active s) (bop_mentry q o)).
  apply mt_add_seq_inv; [|exact H]. unfold seq_ok. rewrite mseq_bop_mentry. exact Hq.
Qed.

Lemma build_from_in : forall l0 es x, In x (build_from l0 es) <-> In x l0 \/ In x es.
Proof.
  intros l0 es x. pose proof (build_from_perm es l0) as P. split.
  - intros H. apply (Permutation_in _ P) in H. apply in_app_or in H. tauto.
  - intros H. apply (Permutation_in _ (Permutation_sym P)). apply in_or_app. tauto.
Qed.

Lemma InvS_write_state : forall s h ops,
  Inv s h -> InvS s -> (MaxSeq <=? wal_next s) = false -> InvS (write_state s ops).
Proof.
  intros s h ops I S M.
  pose proof (add_all_spec (wal_next s) ops
    (upd_wal s (wal_next s + 1)
       (log_append (wal_files s) (map (bop_entry (wal_next s)) ops)))) as A.
  pose proof (add_all_seq_inv (wal_next s) ops
    (upd_wal s (wal_next s + 1)
       (log_append (wal_files s) (map (bop_entry (wal_next s)) ops)))) as Q.
  cbn zeta in A. fold (write_state s ops) in A, Q.
  set (s2 := write_state s ops) in *. clearbody s2. unfold upd_wal in A, Q.
  revert A Q. proj. intros (A1 & A2 & A3 & A4 & A5 & A6 & A7 & A8 & A9 & A10 & A11) Q.
  destruct (A11 (inv_active_mut s h I)) as [_ A12].
  constructor.
  - unfold tabs_of. rewrite A6, A5, A2.
    apply (SInv_write _ _ (active s) _ (map (bop_mentry (wal_next s)) ops)).
    + exact (is_sinv s S).
    + intros e. rewrite A12. apply build_from_in.
    + intros e He. apply in_map_iff in He. destruct He as (o & <- & _). apply mseq_bop_mentry.
    + intros m e Hm He. apply (layer_seq_bound s h m e I); [|exact He].
      right. apply (inv_pending s h I). exact Hm.
  - rewrite A5. exact (is_imm s S).
  - apply Q; [|exact (is_seq s S)]. pose proof MaxSeq_small. apply N.leb_gt in M. lia.
Qed.

Lemma InvS_maybe_schedule : forall s, InvS s -> InvS (maybe_schedule s).
Proof.
  intros s S. unfold maybe_schedule. destruct (flush_pending s); [|exact S].
  constructor; unfold schedule_flush, tabs_of; proj.
  - apply SInv_schedule. exact (is_sinv s S).
  - apply Forall_app. split; [exact (is_imm s S)|]. repeat constructor.
  - constructor.
Qed.

Lemma InvS_apply_batch : forall s h ops,
  Inv s h -> InvS s -> InvS (fst (apply_batch s ops)).
Proof.
  intros s h ops I S. destruct ops as [|o r]; [exact S|].
  destruct (MaxSeq <=? wal_next s) eqn:M.
  - rewrite apply_batch_overflow by (assumption || discriminate). exact S.
  - rewrite apply_batch_ok by (assumption || discriminate). cbn [fst].
    apply InvS_maybe_schedule. eapply InvS_write_state; eassumption.
Qed.

Lemma InvS_flush : forall s h, Inv s h -> InvS s -> InvS (flush s).
Proof.
  intros s h I S.
  destruct (flush_spec s) as (_ & G2 & _ & _ & G5 & _ & _ & G8 & G9).
  assert (Hlayer : forall m, In m (active s :: pending s) ->
            sorted (mt_entries m) /\ mt_iter_entries m = mt_entries m /\
            forall e, In e (mt_entries m) -> mseq e < wal_next s).
  { intros m Hm.
    assert (Hm' : In m (active s :: imms s)).
    { destruct Hm as [<-|Hm]; [left; reflexivity|right; apply (inv_pending s h I); exact Hm]. }
    split; [exact (layer_sorted s h m I Hm')|]. split.
    - destruct Hm as [<-|Hm]; [apply iter_all; exact (is_seq s S)|].
      apply iter_imm. pose proof (is_imm s S) as F. rewrite Forall_forall in F. exact (F m Hm).
    - intros e He. exact (layer_seq_bound s h m e I Hm' He). }
  constructor.
  - unfold tabs_of. rewrite G2, G5, G8, G9. cbn [app].
    pose proof (is_sinv s S) as SI. unfold tabs_of in SI. unfold flush_tabs.
    destruct (pending s) as [|p ps] eqn:P.
    + cbn [app] in SI. destruct (0 <? mt_size (active s)).
      * cbn [flat_map]. rewrite app_nil_r.
        destruct (Hlayer (active s) (or_introl eq_refl)) as (H1 & H2 & H3).
        apply SInv_flush_keep; assumption.
      * cbn [flat_map]. rewrite app_nil_r. exact SI.
    + apply SInv_flush_all; [exact SI|]. intros m Hm. apply Hlayer. right. exact Hm.
  - rewrite G8. constructor.
  - rewrite G5. exact (is_seq s S).
Qed.

Lemma InvS_step : forall s h o, o <> OReopen -> Inv s h -> InvS s -> InvS (step s o).
Proof.
  intros s h o Ho I S. destruct o as [k v|k|ops|ops|ops| | |k]; cbn [step]; try exact S.
  - rewrite put_as_batch. eapply InvS_apply_batch; eassumption.
  - rewrite del_as_batch. eapply InvS_apply_batch; eassumption.
  - eapply InvS_apply_batch; eassumption.
  - rewrite tx_commit_as_batch. eapply InvS_apply_batch; eassumption.
  - eapply InvS_flush; eassumption.
  - congruence.
Qed.

Lemma InvS_steps : forall ops s h,
  Forall (fun o => o <> OReopen) ops -> Inv s h -> InvS s -> InvS (fold_left step ops s).
Proof.
  induction ops as [|o r IH]; intros s h F I S; [exact S|].
  inversion F as [|? ? Ho Fr]; subst. cbn [fold_left].
  apply (IH (step s o) (step_hist s o h) Fr).
  - apply Inv_step. exact I.
  - eapply InvS_step; eassumption.
Qed.

(* In a run without a reopen every SSTable is strictly ascending in key (one version per
   key) and the tables, in list order, satisfy layer recency: the version of a key in a
   later table is at least as new as in any earlier one. (Not strictly newer: flushing the
   active table twice without writes in between produces two tables with the same
   versions.) With a reopen the property fails, see ssts_agree_reopen_refuted. *)
Theorem ssts_agree : forall c ops,
  Forall (fun o => o <> OReopen) ops ->
  Forall key_asc (tabs_of (run c ops)) /\ recency (tabs_of (run c ops)).
Proof.
  intros c ops F.
  pose proof (InvS_steps ops (init c) [] F (Inv_init c) (InvS_init c)) as S.
  fold (run c ops) in S. split.
  - exact (s_asc _ _ _ (is_sinv _ S)).
  - exact (s_rec _ _ _ (is_sinv _ S)).
Qed.

(* every entry of a flushed table is the newest version of its key in the memtable *)
Lemma flushed_newest : forall s m, reachable s -> In m (active s :: pending s) ->
  mt_iter_entries m = mt_entries m ->
  forall y e, In y (flushed_entries m) -> In e (mt_entries m) -> mk e = sk y -> mseq e <= sseq y.
Proof.
  intros s m R Hm Hi. destruct (reachable_Inv s R) as (h & I).
  assert (Hm' : In m (active s :: imms s)).
  { destruct Hm as [<-|Hm]; [left; reflexivity|right; apply (inv_pending s h I); exact Hm]. }
  exact (proj2 (proj2 (flushed_entries_spec m (layer_sorted s h m I Hm') Hi))).
Qed.

(* boolean check of recency, to refute it on concrete runs *)
Definition pair_ok_b (t1 t2 : list sentry) : bool :=
  forallb (fun x => forallb (fun y => if beq (sk x) (sk y) then sseq x <=? sseq y else true) t2) t1.
Fixpoint recency_b (tabs : list (list sentry)) : bool :=
  match tabs with [] => true | t :: r => forallb (pair_ok_b t) r && recency_b r end.

Lemma recency_b_complete : forall T, recency T -> recency_b T = true.
Proof.
  intros T R. induction R as [|t r _ IH Hf]; [reflexivity|].
  cbn [recency_b]. rewrite IH, andb_true_r. apply forallb_forall. intros t2 Ht2.
  rewrite Forall_forall in Hf. specialize (Hf t2 Ht2).
  unfold pair_ok_b. apply forallb_forall. intros x Hx. apply forallb_forall. intros y Hy.
  destruct (beq (sk x) (sk y)) eqn:B; [|reflexivity]. apply beq_true_iff in B.
  apply N.leb_le. exact (Hf x y Hx Hy B).
Qed.

Module ssts_example.
  Import C01_example.
  Definition prog_noreopen : list op :=
    filter (fun o => match o with OReopen => false | _ => true end) prog.
  Example tables : tabs_of (run cfg0 prog_noreopen) =
    [[mkS k1 1 (Some [11]); mkS k3 3 (Some [13]); mkS k2 2 (Some [12])];
     [mkS k1 4 (Some [14]); mkS k3 6 None; mkS k2 6 (Some [16]); mkS k4 6 (Some [17])];
     [mkS k1 8 (Some [20]); mkS k3 7 (Some [18]); mkS k4 8 None];
     [mkS k4 10 (Some [21])]].
  Proof. vm_compute. reflexivity. Qed.
  (* after a reopen the recovered immutable tables are flushed again, behind newer tables *)
  Definition c1 := mkCfg 1 5.
  Definition prog1 : list op := [OPut k1 [1]; OPut k1 [2]; OFlush; OReopen; OFlush].
  Example tables1 : lost_log (run c1 prog1) = false /\ tabs_of (run c1 prog1) =
    [[mkS k1 1 (Some [1])]; [mkS k1 2 (Some [2])]; [mkS k1 1 (Some [1])]].
  Proof. vm_compute. split; reflexivity. Qed.
End ssts_example.

Theorem ssts_agree_reopen_refuted : exists c ops,
  lost_log (run c ops) = false /\ ~ recency (tabs_of (run c ops)).
Proof.
  exists ssts_example.c1, ssts_example.prog1. split; [vm_compute; reflexivity|].
  intros R. apply recency_b_complete in R. vm_compute in R. discriminate.
Qed.
