(* TxnFacts.v — C04: the structure of pkg/transaction that the model coq/Txn.v transcribes,
   compared on every run with the action lists gofacts/txfacts.go regenerates from the Go
   source (coq/gen/TxFacts.v). Each equation is the source-order list of the lock / flag /
   buffer / storage actions of one method; the comment says which clause of the model it backs.
   A change of any of these methods makes this file (and with it Props/C04.v) stop compiling. *)
From Coq Require Import String List.
From KV.gen Require Import TxFacts.
Import ListNotations.
Open Scope string_scope.

Definition code_facts : Prop :=
  (* Txn.exec, CBegin: RLock for read-only, Lock for read-write, acquired before the
     transaction is handed out (the step is enabled only when the lock allows the mode) *)
  tx_Begin = ["if-readonly"; "txLock.RLock"; "else"; "txLock.Lock"; "fi"; "return tx"] /\
  (* Txn.spec_step, CGet: closed check, then the private buffer (a buffered delete reads as
     not found), then storage *)
  tx_Get = ["active.Load"; "return ErrTransactionClosed"; "buffer.Get"; "return ErrKeyNotFound"; "storage.Get"] /\
  (* CPut / CDel: closed check, then read-only check, then the buffer; nothing reaches storage *)
  tx_Put = ["active.Load"; "return ErrTransactionClosed"; "if-readonly"; "return ErrReadOnlyTransaction"; "fi"; "buffer.Put"] /\
  tx_Delete = ["active.Load"; "return ErrTransactionClosed"; "if-readonly"; "return ErrReadOnlyTransaction"; "fi"; "buffer.Delete"] /\
  (* CScan: the buffer is merged over storage (buffer first = newer), bounded like storage *)
  tx_NewIterator = ["active.Load"; "storage.GetIterator"; "buffer.NewIterator"; "buffer.Size"; "buffer.NewIterator";
                    "merge bufferIter>storageIter"] /\
  tx_NewRangeIterator = ["active.Load"; "storage.GetRangeIterator"; "buffer.NewIterator"; "bound bufferIter startKey endKey";
                         "buffer.Size"; "buffer.NewIterator"; "bound bufferIter startKey endKey";
                         "merge boundedBufferIter>storageIter"] /\
  (* CCommit: active flag cleared first; read-only: release only; read-write: ApplyBatch of the
     buffered operations and only then the release (Txn.release is a later step) *)
  tx_Commit = ["active.CompareAndSwap"; "return ErrTransactionClosed"; "if-readonly"; "releaseReadLock"; "fi";
               "buffer.Size"; "buffer.Operations"; "storage.ApplyBatch"; "releaseWriteLock"] /\
  (* CRollback: active flag cleared, buffer cleared, lock released, storage untouched *)
  tx_Rollback = ["active.CompareAndSwap"; "return ErrTransactionClosed"; "buffer.Clear";
                 "if-readonly"; "releaseReadLock"; "else"; "releaseWriteLock"; "fi"] /\
  (* Txn.release: guarded by the has*Lock flag, hence exactly once *)
  tx_releaseReadLock = ["hasReadLock.CompareAndSwap"; "rwLock.RUnlock"] /\
  tx_releaseWriteLock = ["hasWriteLock.CompareAndSwap"; "rwLock.Unlock"].

Lemma code_facts_hold : code_facts.
Proof. unfold code_facts. repeat split; reflexivity. Qed.

(* Every operation of a transaction object (Get, Put, Delete, the two iterator constructors,
   Commit, Rollback) is ONE critical section of the object's own mutex: the body starts with
   mu.Lock(), defers mu.Unlock() and releases the mutex nowhere else (gen/TxFacts.v,
   tx_mu_whole). The steps of Txn.v are atomic with respect to each other because of this: a
   finish call from another goroutine (the registry's clean-up, a client that commits with a read
   outstanding) waits for the operation in flight, so no operation runs after the isolation lock
   of its transaction has been released. *)
Definition tx_ops_atomic : bool :=
  forallb snd tx_mu_whole &&
  forallb (fun n => existsb (fun r => String.eqb (fst r) n) tx_mu_whole)
          ["Get"; "Put"; "Delete"; "NewIterator"; "NewRangeIterator"; "Commit"; "Rollback"].

Lemma tx_ops_atomic_ok : tx_ops_atomic = true.
Proof. vm_compute. reflexivity. Qed.
