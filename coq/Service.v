(* Service.v — executable model of the network API (property C19):
     pkg/grpc/service/service.go     KevoServiceServer: every RPC, in the order the code checks
     pkg/transaction/registry.go     RegistryImpl: Begin / Get / Remove (ids "tx-<n>", n = ++nextID)
     pkg/transaction/transaction.go  what the service calls on a registered transaction
     cmd/kevo/server.go              the gRPC server the service is registered with (receive limit)
   over the Engine model (the data) and the iterator stack of Iter.v (the scans).
   A state is the engine, the registry of open transaction handles with their buffers and
   modes, the registry's id counter and the node-information provider. One step takes one
   request to a response. Programs are sequential: a call that would wait for the transaction
   lock (Manager.txLock: a read-write transaction holds it exclusively, a read-only one shares
   it; BatchWrite, Scan, GetStats, Compact and BeginTransaction take it) answers [PBlocked] and
   changes nothing — over the wire such a call waits until the client's deadline.
   Not modelled: TTL/idle cleanup of the registry (time), connection cleanup, a closed engine,
   a read-only engine (C16), statistics values beyond the four the service computes itself.
   Model only; the theorems are in ServiceProofs.v. *)
(* String first: Engine's get and List's length must shadow String's *)
From Coq Require Import ZArith String.
From KV Require Export Engine Iter.
From KV.gen Require Import ServiceLimits.
Open Scope N_scope.

(* ------------------------------------------------------------------------------------ *)
(* 1. Limits                                                                              *)
(* ------------------------------------------------------------------------------------ *)

(* NewKevoServiceServer: maxKeySize, maxValueSize, maxBatchSize; max_msg is the receive limit
   of the gRPC server (grpc.MaxRecvMsgSize, or the module's default when the option is absent) *)
Record limits := mkLim { max_key : N; max_val : N; max_batch : N; max_msg : N }.

Definition server_recv_limit : N :=
  match svc_server_max_recv with Some n => n | None => grpc_default_max_recv end.

Definition code_limits : limits :=
  mkLim svc_maxKeySize svc_maxValueSize svc_maxBatchSize server_recv_limit.

(* the comparisons of service.go against the limits, as the model writes them: a request is
   rejected when len(x) > limit (so len = limit passes), a key also when len = 0. The
   generated table gen/ServiceLimits.v is compared with this one in ServiceProofs.v. *)
Definition modelled_limit_checks : list (string * string * cmpop * string) :=
  [("Get", "req.Key", OpGt, "maxKeySize");
   ("Put", "req.Key", OpGt, "maxKeySize");
   ("Put", "req.Value", OpGt, "maxValueSize");
   ("Delete", "req.Key", OpGt, "maxKeySize");
   ("BatchWrite", "req.Operations", OpGt, "maxBatchSize");
   ("BatchWrite", "op.Key", OpGt, "maxKeySize");
   ("BatchWrite", "op.Value", OpGt, "maxValueSize");
   ("TxGet", "req.Key", OpGt, "maxKeySize");
   ("TxPut", "req.Key", OpGt, "maxKeySize");
   ("TxPut", "req.Value", OpGt, "maxValueSize");
   ("TxDelete", "req.Key", OpGt, "maxKeySize")]%string.

(* len(key) == 0 || len(key) > maxKeySize  -> "invalid key size" *)
Definition valid_key (L : limits) (k : bytes) : bool := negb (len k =? 0) && (len k <=? max_key L).
(* len(value) > maxValueSize -> "value too large" *)
Definition valid_val (L : limits) (v : bytes) : bool := len v <=? max_val L.

(* ------------------------------------------------------------------------------------ *)
(* 2. Requests and responses                                                              *)
(* ------------------------------------------------------------------------------------ *)

(* a transaction id as the client sends it: "tx-<n>" in the registry's own spelling (decimal,
   no sign, no leading zeros), or any other string *)
Inductive handle := HId (n : N) | HBad (s : bytes).

(* ScanRequest / TxScanRequest; limit is an int32 *)
Record scanopts := mkScan { so_prefix : bytes; so_suffix : bytes; so_start : bytes; so_end : bytes; so_limit : Z }.

(* Operation of a BatchWriteRequest: type 0 = PUT, 1 = DELETE, anything else is unknown *)
Record bwop := mkBw { bw_type : N; bw_key : bytes; bw_val : bytes }.

Inductive request :=
| QGet (k : bytes)
| QPut (k v : bytes) (sync : bool)
| QDelete (k : bytes) (sync : bool)
| QBatch (ops : list bwop) (sync : bool)
| QScan (o : scanopts)
| QBegin (read_only : bool)
| QCommit (h : handle)
| QRollback (h : handle)
| QTxGet (h : handle) (k : bytes)
| QTxPut (h : handle) (k v : bytes)
| QTxDelete (h : handle) (k : bytes)
| QTxScan (h : handle) (o : scanopts)
| QStats
| QCompact (force : bool)
| QNodeInfo.

Inductive err :=
| EKey        (* "invalid key size" (also "... in batch operation") *)
| EValue      (* "value too large" *)
| EBatch      (* "batch size exceeds maximum allowed" *)
| EOpType     (* "unknown operation type" *)
| ENoTx       (* "transaction not found: <id>" *)
| EROTx       (* "cannot write to / delete in read-only transaction" *)
| EOverflow   (* sequence numbers exhausted (wal.ErrSequenceOverflow) *)
| EMsg.       (* transport: "grpc: received message larger than max" (ResourceExhausted) *)

(* ReplicaInfo as GetNodeInfo copies it (Meta is copied too; the harness compares it) *)
Record replica := mkRep { r_addr : bytes; r_seq : N; r_avail : bool; r_region : bytes }.

(* what ReplicationInfoProvider.GetNodeInfo returns *)
Record provider := mkProv { p_role : bytes; p_primary : bytes; p_replicas : list replica; p_seq : N; p_ro : bool }.

Inductive response :=
| PValue (v : option bytes)                  (* Get / TxGet: Found + Value, or Found = false *)
| POk                                        (* Success = true *)
| PErr (e : err)
| PBlocked
| PRows (rows : list (bytes * bytes))        (* the stream of a Scan / TxScan *)
| PBegun (id : N)                            (* TransactionId = "tx-<id>" *)
| PStats (keys size memtables sstables : N)  (* KeyCount, StorageSize, MemtableCount, SstableCount *)
| PInfo (role : N) (primary : bytes) (reps : list replica) (seq : N) (ro : bool).

(* ------------------------------------------------------------------------------------ *)
(* 3. State                                                                               *)
(* ------------------------------------------------------------------------------------ *)

Inductive smode := MRO | MRW.

(* a registered transaction: its mode and the operations buffered so far, in call order
   (Buffer keeps the last one per key; Engine.buffer_ops) *)
Record txrec := mkTxr { t_mode : smode; t_buf : list bop }.

Record sstate := mkSS {
  s_eng : st;
  s_reg : list (N * txrec);       (* RegistryImpl.transactions, in the order of their Begin *)
  s_next : N;                     (* RegistryImpl.nextID *)
  s_info : option provider        (* KevoServiceServer.replicationManager (nil = None) *)
}.

Definition sinit (c : config) (p : option provider) : sstate := mkSS (init c) [] 0 p.

Definition set_eng (ss : sstate) (e : st) : sstate := mkSS e (s_reg ss) (s_next ss) (s_info ss).
Definition set_reg (ss : sstate) (r : list (N * txrec)) : sstate := mkSS (s_eng ss) r (s_next ss) (s_info ss).

Fixpoint reg_find (id : N) (r : list (N * txrec)) : option txrec :=
  match r with
  | [] => None
  | (i, t) :: r' => if i =? id then Some t else reg_find id r'
  end.

Fixpoint reg_remove (id : N) (r : list (N * txrec)) : list (N * txrec) :=
  match r with
  | [] => []
  | (i, t) :: r' => if i =? id then reg_remove id r' else (i, t) :: reg_remove id r'
  end.

Fixpoint reg_set (id : N) (t : txrec) (r : list (N * txrec)) : list (N * txrec) :=
  match r with
  | [] => []
  | (i, t0) :: r' => if i =? id then (i, t) :: r' else (i, t0) :: reg_set id t r'
  end.

(* Registry.Get *)
Definition lookup_h (ss : sstate) (h : handle) : option (N * txrec) :=
  match h with
  | HId n => match reg_find n (s_reg ss) with Some t => Some (n, t) | None => None end
  | HBad _ => None
  end.

Definition is_rw (t : txrec) : bool := match t_mode t with MRW => true | MRO => false end.
(* the transaction lock as the registered transactions hold it *)
Definition rw_open (ss : sstate) : bool := existsb (fun x => is_rw (snd x)) (s_reg ss).
Definition any_open (ss : sstate) : bool := match s_reg ss with [] => false | _ => true end.

(* ------------------------------------------------------------------------------------ *)
(* 4. What the service calls: the embedded API                                            *)
(* ------------------------------------------------------------------------------------ *)

(* Buffer.Get: the last buffered operation on the key *)
Fixpoint buf_last (k : bytes) (l : list bop) : option (option bytes) :=
  match l with
  | [] => None
  | o :: r => match buf_last k r with
              | Some x => Some x
              | None => if beq (fst o) k then Some (snd o) else None
              end
  end.

(* Transaction.Get: the buffer first (a buffered deletion reads as not found), then the
   storage as it is now — there is no snapshot *)
Definition tx_read (s : st) (buf : list bop) (k : bytes) : option bytes :=
  match buf_last k buf with
  | Some x => x
  | None => get s k
  end.

(* int32 limit: only a positive one limits *)
Definition lim_of (z : Z) : N := if (0 <? z)%Z then Z.to_N z else 0.

(* over the wire an empty bytes field arrives as nil: no bound *)
Definition bound (b : bytes) : option bytes := match b with [] => None | _ => Some b end.

(* Scan / TxScan: the iterator the code picks (prefix and suffix; prefix; suffix; range; full —
   in this order, so a range is IGNORED when a prefix or a suffix is given), then the loop
   that skips deletion markers and counts the rows it sends *)
Definition scan_rows (s : st) (buf : list bop) (o : scanopts) : list (bytes * bytes) :=
  let lim := lim_of (so_limit o) in
  match so_prefix o, so_suffix o with
  | _ :: _, _ :: _ =>
      scan (filtered_iter (filtered_iter tx_it (prefix_filter (so_prefix o))) (suffix_filter (so_suffix o)))
           lim (tx_full s buf)
  | _ :: _, [] => scan (filtered_iter tx_it (prefix_filter (so_prefix o))) lim (tx_full s buf)
  | [], _ :: _ => scan (filtered_iter tx_it (suffix_filter (so_suffix o))) lim (tx_full s buf)
  | [], [] =>
      match so_start o, so_end o with
      | [], [] => scan tx_it lim (tx_full s buf)
      | _, _ => scan (tx_range_it (bound (so_start o)) (bound (so_end o))) lim (tx_range s buf)
      end
  end.

Definition wr_resp (r : wr_res) : response :=
  match r with WrOk _ => POk | WrOverflow => PErr EOverflow end.

Definition eng_write (ss : sstate) (x : st * wr_res) : sstate * response :=
  (set_eng ss (fst x), wr_resp (snd x)).

(* ------------------------------------------------------------------------------------ *)
(* 5. Size of a request on the wire (protobuf encoding, proto3: default values are absent) *)
(* ------------------------------------------------------------------------------------ *)

Fixpoint varint_len_f (fuel : nat) (n : N) : N :=
  match fuel with
  | O => 1
  | S f => if n <? 128 then 1 else 1 + varint_len_f f (n / 128)
  end.
Definition varint_len (n : N) : N := varint_len_f 9 n.

Fixpoint ndigits_f (fuel : nat) (n : N) : N :=
  match fuel with
  | O => 1
  | S f => if n <? 10 then 1 else 1 + ndigits_f f (n / 10)
  end.
Definition ndigits (n : N) : N := ndigits_f 19 n.

(* a length-delimited field with a one-byte tag (all field numbers of the service are < 16) *)
Definition f_len (n : N) : N := if n =? 0 then 0 else 1 + varint_len n + n.
Definition f_bytes (b : bytes) : N := f_len (len b).
Definition f_bool (b : bool) : N := if b then 2 else 0.
Definition f_int32 (z : Z) : N :=
  if (z =? 0)%Z then 0 else if (0 <? z)%Z then 1 + varint_len (Z.to_N z) else 11.
Definition f_enum (n : N) : N := if n =? 0 then 0 else 1 + varint_len n.
Definition h_len (h : handle) : N := match h with HId n => 3 + ndigits n | HBad s => len s end.
Definition f_handle (h : handle) : N := f_len (h_len h).

Definition bwop_size (o : bwop) : N := f_enum (bw_type o) + f_bytes (bw_key o) + f_bytes (bw_val o).
(* an element of a repeated message field is written even when it is empty *)
Definition f_bwop (o : bwop) : N := 1 + varint_len (bwop_size o) + bwop_size o.
Definition scan_size (o : scanopts) : N :=
  f_bytes (so_prefix o) + f_bytes (so_suffix o) + f_bytes (so_start o) + f_bytes (so_end o) + f_int32 (so_limit o).

Definition req_size (q : request) : N :=
  match q with
  | QGet k => f_bytes k
  | QPut k v sync => f_bytes k + f_bytes v + f_bool sync
  | QDelete k sync => f_bytes k + f_bool sync
  | QBatch ops sync => fold_right (fun o a => f_bwop o + a) 0 ops + f_bool sync
  | QScan o => scan_size o
  | QBegin ro => f_bool ro
  | QCommit h | QRollback h => f_handle h
  | QTxGet h k | QTxDelete h k => f_handle h + f_bytes k
  | QTxPut h k v => f_handle h + f_bytes k + f_bytes v
  | QTxScan h o => f_handle h + scan_size o
  | QStats | QNodeInfo => 0
  | QCompact force => f_bool force
  end.

(* grpc recvAndDecompress: rejected when length > maxReceiveMessageSize *)
Definition fits (L : limits) (q : request) : bool := req_size q <=? max_msg L.

(* ------------------------------------------------------------------------------------ *)
(* 6. The RPC handlers                                                                    *)
(* ------------------------------------------------------------------------------------ *)

(* BatchWrite's loop: per operation first the key, then the type; a PUT checks its value; the
   first failure ends the call (the transaction is rolled back). acc = the operations
   buffered so far, in call order *)
Fixpoint batch_ops (L : limits) (ops : list bwop) (acc : list bop) : list bop + err :=
  match ops with
  | [] => inl acc
  | o :: r =>
    if negb (valid_key L (bw_key o)) then inr EKey
    else if bw_type o =? 0 then
      if valid_val L (bw_val o) then batch_ops L r (acc ++ [(bw_key o, Some (bw_val o))]) else inr EValue
    else if bw_type o =? 1 then batch_ops L r (acc ++ [(bw_key o, None)])
    else inr EOpType
  end.

Definition role_code (r : bytes) : N :=
  if beq r [112;114;105;109;97;114;121] then 1          (* "primary" *)
  else if beq r [114;101;112;108;105;99;97] then 2      (* "replica" *)
  else 0.

Definition rows_size (rows : list (bytes * bytes)) : N :=
  fold_right (fun kv a => len (fst kv) + len (snd kv) + a) 0 rows.

Definition handler (L : limits) (ss : sstate) (q : request) : sstate * response :=
  let e := s_eng ss in
  match q with
  | QGet k =>
      if valid_key L k then (ss, PValue (get e k)) else (ss, PErr EKey)
  | QPut k v _ =>
      if negb (valid_key L k) then (ss, PErr EKey)
      else if negb (valid_val L v) then (ss, PErr EValue)
      else eng_write ss (put e k v)
  | QDelete k _ =>
      if negb (valid_key L k) then (ss, PErr EKey) else eng_write ss (del e k)
  | QBatch ops _ =>
      match ops with
      | [] => (ss, POk)                              (* returns before any transaction *)
      | _ =>
        if max_batch L <? N.of_nat (length ops) then (ss, PErr EBatch)
        else if any_open ss then (ss, PBlocked)      (* engine.BeginTransaction(false) *)
        else match batch_ops L ops [] with
             | inr x => (ss, PErr x)
             | inl b => eng_write ss (tx_commit e b)
             end
      end
  | QScan o =>
      if rw_open ss then (ss, PBlocked)              (* engine.BeginTransaction(true) *)
      else (ss, PRows (scan_rows e [] o))
  | QBegin ro =>
      if (if ro then rw_open ss else any_open ss) then (ss, PBlocked)
      else let id := s_next ss + 1 in
           (mkSS e (s_reg ss ++ [(id, mkTxr (if ro then MRO else MRW) [])]) id (s_info ss), PBegun id)
  | QCommit h =>
      match lookup_h ss h with
      | None => (ss, PErr ENoTx)
      | Some (id, t) =>
        let ss1 := set_reg ss (reg_remove id (s_reg ss)) in     (* removed whatever Commit returns *)
        match t_mode t with
        | MRO => (ss1, POk)
        | MRW => eng_write ss1 (tx_commit e (t_buf t))
        end
      end
  | QRollback h =>
      match lookup_h ss h with
      | None => (ss, PErr ENoTx)
      | Some (id, _) => (set_reg ss (reg_remove id (s_reg ss)), POk)
      end
  | QTxGet h k =>
      match lookup_h ss h with
      | None => (ss, PErr ENoTx)
      | Some (_, t) => if valid_key L k then (ss, PValue (tx_read e (t_buf t) k)) else (ss, PErr EKey)
      end
  | QTxPut h k v =>
      match lookup_h ss h with
      | None => (ss, PErr ENoTx)
      | Some (id, t) =>
        if negb (is_rw t) then (ss, PErr EROTx)
        else if negb (valid_key L k) then (ss, PErr EKey)
        else if negb (valid_val L v) then (ss, PErr EValue)
        else (set_reg ss (reg_set id (mkTxr MRW (t_buf t ++ [(k, Some v)])) (s_reg ss)), POk)
      end
  | QTxDelete h k =>
      match lookup_h ss h with
      | None => (ss, PErr ENoTx)
      | Some (id, t) =>
        if negb (is_rw t) then (ss, PErr EROTx)
        else if negb (valid_key L k) then (ss, PErr EKey)
        else (set_reg ss (reg_set id (mkTxr MRW (t_buf t ++ [(k, None)])) (s_reg ss)), POk)
      end
  | QTxScan h o =>
      match lookup_h ss h with
      | None => (ss, PErr ENoTx)
      | Some (_, t) => (ss, PRows (scan_rows e (t_buf t) o))
      end
  | QStats =>
      if rw_open ss then (ss, PBlocked)
      else let rows := scan tx_it 0 (tx_full e []) in
           (* MemtableCount / SstableCount are read through a type assertion
              engine.(interface{ GetStorageStats() ... }) that *EngineFacade does not satisfy
              (only storage.Manager has the method): both stay 0, and the operation/latency/
              error sections stay empty for the same reason (GetStatsProvider) *)
           (ss, PStats (N.of_nat (length rows)) (rows_size rows) 0 0)
  | QCompact force =>
      (* an empty read-write transaction (waits for the lock, commits nothing), then — with
         force — FlushImMemTables; the data is not touched (since /repo 2b4302e; before that a
         dummy key was committed, see ServiceProofs.BeforeFixes) *)
      if any_open ss then (ss, PBlocked)
      else let e1 := fst (tx_commit e []) in
           (set_eng ss (if force then flush e1 else e1), wr_resp (snd (tx_commit e [])))
  | QNodeInfo =>
      match s_info ss with
      | None => (ss, PInfo 0 [] [] 0 false)
      | Some p => (ss, PInfo (role_code (p_role p)) (p_primary p) (p_replicas p) (p_seq p) (p_ro p))
      end
  end.

(* one request: the transport first, then the handler *)
Definition service_step (L : limits) (ss : sstate) (q : request) : sstate * response :=
  if fits L q then handler L ss q else (ss, PErr EMsg).

(* ------------------------------------------------------------------------------------ *)
(* 7. Programs: requests and, between them, flushes of the server's engine                 *)
(* ------------------------------------------------------------------------------------ *)

Inductive sop := SReq (q : request) | SFlush.

Definition sstep (L : limits) (ss : sstate) (o : sop) : sstate * option response :=
  match o with
  | SReq q => let (ss', r) := service_step L ss q in (ss', Some r)
  | SFlush => (set_eng ss (flush (s_eng ss)), None)
  end.

Fixpoint srun (L : limits) (ss : sstate) (prog : list sop) : sstate * list response :=
  match prog with
  | [] => (ss, [])
  | o :: r =>
    let (ss1, x) := sstep L ss o in
    let (ss2, rs) := srun L ss1 r in
    (ss2, match x with Some y => y :: rs | None => rs end)
  end.
