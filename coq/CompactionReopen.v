(* CompactionReopen.v — C12 at system level for the repaired code: in every reachable state a
   compaction (cycle or range) changes neither what the files read as nor what any later reopen
   reads, with or without retirement of the flushed log files. *)
From Coq Require Import Lia Sorted.
From KV Require Import Compaction CompactionProofs CompactionMerge CompactionReach.
Open Scope N_scope.

Definition prog_ok (k : ccfg) (ops : list cop) : Prop := cfg_ok k.

Lemma disk_read_dread : forall s k, cst_ok2 s -> disk_read s k = dread (disk s) k.
Proof.
  intros. unfold disk_read, ssts_read, dread, precl. apply ssts_get_read.
  pose proof (disk_files_ok s H) as F. rewrite Forall_forall in *. intros t Ht.
  apply in_rev in Ht. apply (proj1 (age_sort_in _ _)) in Ht. apply F. auto.
Qed.

(* C12, first sentence, at system level: one compaction cycle / one range compaction *)
Theorem merge_system : forall c k ops z lo hi key, prog_ok k ops ->
  let s := crun c k ops in
  disk_read (ctrigger s z) key = disk_read s key /\ disk_read (crange s lo hi z) key = disk_read s key.
Proof.
  intros c k ops z lo hi key Hk s.
  pose proof (reachable_wf c k ops Hk) as S. fold s in S.
  assert (S1 : cst_ok2 (ctrigger s z)) by (apply (cstep_ok2 (CTrigger z)); auto).
  assert (S2 : cst_ok2 (crange s lo hi z)) by (apply (cstep_ok2 (CRange lo hi z)); auto).
  rewrite !disk_read_dread by auto. destruct S as [A B C]. split.
  - unfold ctrigger. destruct (select _ _ _) eqn:E; auto. simpl.
    apply (merge_preserves (disk s) (clock (eng s)) (c_maxmem (cfg (eng s))) (cc s) t); auto. left. auto.
  - unfold crange. destruct (select_range _ _ _) eqn:E; auto. simpl.
    apply (merge_preserves (disk s) (clock (eng s)) 0 (cc s) t); auto. right. eauto.
Qed.

(* ---------- reopening ---------- *)

Definition mem_read (e : st) (k : bytes) : option (option bytes) := mems_get k (mem_layers e).

Lemma cget_split : forall e k, Forall file_ok (ssts e) ->
  get e k = match mem_read e k with
            | Some (Some v) => Some v
            | Some None => None
            | None => read (map s_entries (rev (ssts e))) k
            end.
Proof.
  intros. unfold get, mem_read. destruct (mems_get k (mem_layers e)) as [[v|]|]; auto.
  apply ssts_get_read. rewrite Forall_forall in *. intros t Ht. apply in_rev in Ht. apply H. auto.
Qed.

(* the log a reopen replays, and the memtables it builds, do not depend on the table files *)
Definition reopen_src (s : cst) (retire : bool) : st :=
  if retire then upd_wal (eng s) (wal_next (eng s)) (skipn (retirable s) (wal_files (eng s))) else eng s.

Lemma reopen_mem_ext : forall e e' k, cfg e = cfg e' -> wal_files e = wal_files e' ->
  mem_read (reopen e) k = mem_read (reopen e') k.
Proof.
  intros. unfold mem_read, mem_layers, reopen. rewrite H, H0.
  destruct (recover_tables _ _ _ _) as [[? ?]|]; reflexivity.
Qed.

Lemma cget_creopen : forall s r k, cst_ok2 s ->
  cget (creopen s r) k =
  match mem_read (reopen (reopen_src s r)) k with
  | Some (Some v) => Some v
  | Some None => None
  | None => dread (disk s) k
  end.
Proof.
  intros s r k S. unfold cget, creopen. cbn [eng]. fold (reopen_src s r).
  assert (F : Forall file_ok (ssts (reopen (set_ssts (reopen_src s r) (map d_sst (dsort (disk s))))))).
  { apply eo_ssts. apply reopen_ok. simpl. apply (disk_files_ok s S). }
  rewrite cget_split by exact F.
  assert (M : mem_read (reopen (set_ssts (reopen_src s r) (map d_sst (dsort (disk s))))) k = mem_read (reopen (reopen_src s r)) k).
  { apply reopen_mem_ext; reflexivity. }
  rewrite M.
  assert (E : ssts (reopen (set_ssts (reopen_src s r) (map d_sst (dsort (disk s))))) = sst_sort (map d_sst (dsort (disk s)))).
  { unfold reopen. destruct (recover_tables _ _ _ _) as [[? ?]|]; reflexivity. }
  rewrite E. reflexivity.
Qed.

(* C12, last sentence, the part that is about compaction: the database reopened on the
   compacted files reads exactly what it reads reopened on the files before the compaction —
   log kept or flushed log files retired, any reachable state, any task the strategies select *)
Theorem reopen_ignores_compaction : forall c k ops z lo hi r key, prog_ok k ops ->
  let s := crun c k ops in
  cget (creopen (ctrigger s z) r) key = cget (creopen s r) key /\
  cget (creopen (crange s lo hi z) r) key = cget (creopen s r) key.
Proof.
  intros c k ops z lo hi r key Hk s.
  pose proof (reachable_wf c k ops Hk) as S. fold s in S.
  assert (S1 : cst_ok2 (ctrigger s z)) by (apply (cstep_ok2 (CTrigger z)); auto).
  assert (S2 : cst_ok2 (crange s lo hi z)) by (apply (cstep_ok2 (CRange lo hi z)); auto).
  destruct (merge_system c k ops z lo hi key Hk) as [M1 M2]. fold s in M1, M2.
  rewrite !disk_read_dread in M1, M2 by auto.
  rewrite !cget_creopen by auto. rewrite M1, M2.
  assert (E1 : forall x, mem_read (reopen (reopen_src (ctrigger s z) r)) x = mem_read (reopen (reopen_src s r)) x).
  { intro x. apply reopen_mem_ext; unfold reopen_src, ctrigger; destruct (select _ _ _); destruct r; reflexivity. }
  assert (E2 : forall x, mem_read (reopen (reopen_src (crange s lo hi z) r)) x = mem_read (reopen (reopen_src s r)) x).
  { intro x. apply reopen_mem_ext; unfold reopen_src, crange; destruct (select_range _ _ _); destruct r; reflexivity. }
  rewrite E1, E2. auto.
Qed.

(* ---------- non-vacuity: the former witnesses, on the repaired model ---------- *)

Definition kx : bytes := [120].
Definition ka : bytes := [97].
Definition kb : bytes := [98].
Definition kz : bytes := [122].
Definition cfg2 : config := mkCfg 100000 2.
Definition cfg8 : config := mkCfg 100000 8.
Definition cc_off : ccfg := mkCC 1000000 1000000.

Definition after_retire (c : config) (ops : list cop) (k : bytes) : option bytes * option bytes :=
  let s := crun c cc_off ops in (cget s k, cget (creopen (cfull s []) true) k).

(* two level-0 tables hold x: the newer value survives the L0->L1 cycle *)
Example fixed_two_l0 :
  after_retire cfg2 [CPut kx [1]; CFull []; CPut kx [2]; CFull []; CTrigger []] kx = (Some [2], Some [2]).
Proof. vm_compute. reflexivity. Qed.

(* the deletion marker of x stays: after a restart (tracker empty) ... *)
Example fixed_tomb_restart :
  after_retire cfg2 [CPut kx [1]; CFull []; CRange kx kx []; CPut ka [2]; CDel kx; CFull []; CReopen false; CRange ka ka []] kx
  = (None, None).
Proof. vm_compute. reflexivity. Qed.

(* ... and when the delete was committed by a transaction (never tracked) *)
Example fixed_tomb_tx :
  after_retire cfg2 [CPut kx [1]; CFull []; CRange kx kx []; CRange kx kx []; CCommit [(kx, None); (ka, Some [2])];
                     CFull []; CPut kb [3]; CFull []; CTrigger []] kx = (None, None).
Proof. vm_compute. reflexivity. Qed.

(* a level-1 table no longer outranks a newer level-0 table; file numbers do not matter *)
Example fixed_deeper :
  after_retire cfg2 [CPut kx [1]; CFull []; CRange kx kx []; CPut kx [2]] kx = (Some [2], Some [2]).
Proof. vm_compute. reflexivity. Qed.
Example fixed_numbers :
  after_retire cfg8 [CPut kx [1]; CFull []; CPut kx [2]; CFull []; CReopen true; CPut kx [3]] kx = (Some [3], Some [3]).
Proof. vm_compute. reflexivity. Qed.

(* the range is widened to the hull of its inputs: the older z does not stay above the newer *)
Example fixed_range_closure :
  after_retire cfg8 [CPut kz [1]; CFull []; CPut ka [2]; CPut kz [3]; CFull []; CRange ka ka []] kz = (Some [3], Some [3]).
Proof. vm_compute. reflexivity. Qed.

(* a dropped marker: x deleted, every table is an input of the range task (DropTombstones),
   the tracker does not know x after the restart: the marker and the value are both gone *)
Example dropped_marker :
  let s := crun cfg2 cc_off [CPut kx [1]; CFull []; CCommit [(kx, None)]; CFull []; CReopen false; CRange kx kx []] in
  map (fun f => (d_level f, d_entries f)) (disk s) = [] /\ cget s kx = None.
Proof. vm_compute. auto. Qed.

(* the empty key is a key like any other (f30cabd) *)
Example fixed_empty_key :
  after_retire cfg2 [CPut [] [1]; CPut kb [2]; CFull []; CPut [] [3]; CFull []; CTrigger []] [] = (Some [3], Some [3]) /\
  after_retire cfg2 [CPut [] [1]; CPut kb [2]; CFull []; CPut [] [3]; CFull []; CTrigger []] kb = (Some [2], Some [2]).
Proof. vm_compute. auto. Qed.

Example prog_ok_example : prog_ok cc_off [CPut kx [1]; CFull []; CPut kx [2]; CFull []; CTrigger []].
Proof. unfold prog_ok, cfg_ok. simpl. lia. Qed.

(* ---------- retirement that is NOT preceded by a full flush (known finding KF-C12-7) ---------- *)

(* The log is replayed in full at every open; the recovered immutable tables are queued for
   flushing again. One flush writes them (old data, newest file) but not the active recovered
   table; retiring the flushed log files at that point loses the newer version of x. The full
   theorem therefore speaks about retirement right after a FULL flush. *)
Definition C12_retire_anywhere_statement : Prop :=
  forall c k ops key, prog_ok k ops ->
    let s := crun c k ops in
    lost_log (eng s) = false -> cget (creopen s true) key = cget s key.

Definition cfg_small : config := mkCfg 40 4.
Definition w_reflush : list cop :=
  [CPut kx [1]; CPut ka [7;7;7;7;7;7;7;7;7;7;7;7;7;7;7;7;7;7;7;7]; CPut kx [2]; CFull [];
   CReopen false; CFlush []].

Theorem retire_after_partial_flush_witness :
  let s := crun cfg_small cc_off w_reflush in
  lost_log (eng s) = false /\ cget s kx = Some [2] /\ cget (creopen s true) kx = Some [1] /\
  map (fun f => (s_ts (d_sst f), map sk (d_entries f), map sval (d_entries f))) (disk s) =
    [(0, [ka; kx], [Some [7;7;7;7;7;7;7;7;7;7;7;7;7;7;7;7;7;7;7;7]; Some [1]]);
     (1, [kx], [Some [2]]);
     (2, [ka; kx], [Some [7;7;7;7;7;7;7;7;7;7;7;7;7;7;7;7;7;7;7;7]; Some [1]])].
Proof. vm_compute. auto. Qed.

Theorem retire_anywhere_refuted : ~ C12_retire_anywhere_statement.
Proof.
  intro H. specialize (H cfg_small cc_off w_reflush kx).
  destruct retire_after_partial_flush_witness as (A & B & C & _).
  assert (P : prog_ok cc_off w_reflush) by (unfold prog_ok, cfg_ok; simpl; lia).
  specialize (H P A). rewrite B, C in H. discriminate.
Qed.
