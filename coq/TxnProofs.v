(* TxnProofs.v — C04: every interleaving of the lock-protected transaction model (Txn.v part C)
   is serializable in the sense of Txn.serializable, with the order of lock acquisition as the
   witness; own writes are visible, uncommitted writes of others are not, a read-only
   transaction reads one committed state; the executable checker ser_check is sound for the
   same definition. *)
From Coq Require Import Lia.
From KV Require Import Bytes Txn.
Open Scope N_scope.

(* ------------------------------------------------------------------------------------- *)
(* 0. equality tests                                                                       *)
(* ------------------------------------------------------------------------------------- *)

Lemma tx_bcmp_refl : forall a, bcmp a a = Eq.
Proof.
  induction a as [|x a IH]; cbn [bcmp]; [reflexivity|].
  rewrite N.compare_refl. exact IH.
Qed.

Lemma tx_bcmp_eq : forall a b, bcmp a b = Eq -> a = b.
Proof.
  induction a as [|x a IH]; intros [|y b] H; cbn [bcmp] in H; try discriminate; [reflexivity|].
  destruct (N.compare x y) eqn:E; try discriminate.
  apply N.compare_eq in E. subst y. f_equal. apply IH. exact H.
Qed.

Lemma beq_refl : forall a, beq a a = true.
Proof. intros a. unfold beq. rewrite tx_bcmp_refl. reflexivity. Qed.

Lemma beq_eq : forall a b, beq a b = true -> a = b.
Proof.
  intros a b H. unfold beq in H. destruct (bcmp a b) eqn:E; try discriminate.
  apply tx_bcmp_eq. exact E.
Qed.

Lemma rows_eqb_refl : forall l, rows_eqb l l = true.
Proof.
  induction l as [|[k v] l IH]; cbn [rows_eqb]; [reflexivity|].
  rewrite !beq_refl, IH. reflexivity.
Qed.

Lemma rows_eqb_eq : forall a b, rows_eqb a b = true -> a = b.
Proof.
  induction a as [|[k v] a IH]; intros [|[k' v'] b] H; cbn [rows_eqb] in H; try discriminate; [reflexivity|].
  apply andb_prop in H. destruct H as [H H3]. apply andb_prop in H. destruct H as [H1 H2].
  apply beq_eq in H1. apply beq_eq in H2. subst. f_equal. apply IH. exact H3.
Qed.

Lemma result_eqb_refl : forall r, result_eqb r r = true.
Proof.
  intros [ |[v|]|l| | ]; cbn; try reflexivity.
  - apply beq_refl.
  - apply rows_eqb_refl.
Qed.

Lemma result_eqb_eq : forall a b, result_eqb a b = true -> a = b.
Proof.
  intros [ |[x|]|x| | ] [ |[y|]|y| | ] H; cbn in H; try discriminate; try reflexivity.
  - apply beq_eq in H. subst. reflexivity.
  - apply rows_eqb_eq in H. subst. reflexivity.
Qed.

(* ------------------------------------------------------------------------------------- *)
(* 1. the sequential specification                                                         *)
(* ------------------------------------------------------------------------------------- *)

(* a call on a closed transaction changes nothing and is answered "closed" (scan: no rows) *)
Definition closed_result (c : call) : result :=
  match c with CScan _ _ => RRows [] | _ => RClosed end.

Lemma spec_step_inactive : forall S x c S' x' r,
  x_active x = false -> spec_step S x c = Some (S', x', r) ->
  S' = S /\ x' = x /\ r = closed_result c.
Proof.
  intros S x c S' x' r Ha H. destruct c; cbn in H; try discriminate;
    rewrite Ha in H; inversion H; subst; auto.
Qed.

(* the committed store changes only at the Commit of an active read-write transaction *)
Lemma spec_step_store : forall S x c S' x' r,
  spec_step S x c = Some (S', x', r) ->
  (S' = S) \/
  (c = CCommit /\ x_mode x = RW /\ x_active x = true /\ S' = apply_buf (x_buf x) S /\ x_active x' = false).
Proof.
  intros S x c S' x' r H. destruct c; cbn in H; try discriminate;
    destruct (x_active x) eqn:Ha; try (destruct (x_mode x) eqn:Hm); inversion H; subst; auto.
  right. repeat split; auto.
Qed.

Lemma spec_step_mode : forall S x c S' x' r,
  spec_step S x c = Some (S', x', r) -> x_mode x' = x_mode x.
Proof.
  intros S x c S' x' r H. destruct c; cbn in H; try discriminate;
    destruct (x_active x) eqn:Ha; try (destruct (x_mode x) eqn:Hm); inversion H; subst; cbn; auto.
Qed.

(* a transaction that is still active has not changed the store *)
Lemma spec_step_active_store : forall S x c S' x' r,
  spec_step S x c = Some (S', x', r) -> x_active x' = true -> S' = S /\ x_active x = true.
Proof.
  intros S x c S' x' r H Ha'.
  destruct (x_active x) eqn:Ha.
  - destruct (spec_step_store _ _ _ _ _ _ H) as [E|(_ & _ & _ & _ & E)]; [auto|congruence].
  - destruct (spec_step_inactive _ _ _ _ _ _ Ha H) as (E1 & E2 & _). subst. congruence.
Qed.

Lemma spec_steps_app : forall a b S x,
  spec_steps S x (a ++ b) =
  match spec_steps S x a with
  | Some (S', x') => spec_steps S' x' b
  | None => None
  end.
Proof.
  induction a as [|e a IH]; intros b S x; cbn [app spec_steps]; [reflexivity|].
  destruct (spec_step S x (h_call e)) as [[[S' x'] res]|]; [|reflexivity].
  destruct (result_eqb res (h_res e)); [apply IH|reflexivity].
Qed.

Lemma spec_steps_active_store : forall evs S x S2 x2,
  spec_steps S x evs = Some (S2, x2) -> x_active x2 = true -> S2 = S /\ x_active x = true.
Proof.
  induction evs as [|e evs IH]; intros S x S2 x2 H Ha; cbn [spec_steps] in H.
  - inversion H; subst. auto.
  - destruct (spec_step S x (h_call e)) as [[[S' x'] res]|] eqn:E; [|discriminate].
    destruct (result_eqb res (h_res e)); [|discriminate].
    destruct (IH _ _ _ _ H Ha) as [E1 E2].
    destruct (spec_step_active_store _ _ _ _ _ _ E E2) as [E3 E4]. subst. auto.
Qed.

Lemma spec_tx_active_store : forall evs S S2 x2,
  spec_tx S evs = Some (S2, x2) -> x_active x2 = true -> S2 = S.
Proof.
  intros [|e evs] S S2 x2 H Ha; cbn [spec_tx] in H; [discriminate|].
  destruct (h_call e); try discriminate. destruct (h_res e); try discriminate.
  apply (spec_steps_active_store _ _ _ _ _ H Ha).
Qed.

Lemma spec_tx_snoc : forall evs e S,
  evs <> [] ->
  spec_tx S (evs ++ [e]) =
  match spec_tx S evs with
  | Some (S', x') => spec_steps S' x' [e]
  | None => None
  end.
Proof.
  intros [|e0 evs] e S Hne; [congruence|]. cbn [app spec_tx].
  destruct (h_call e0); try reflexivity. destruct (h_res e0); try reflexivity.
  apply spec_steps_app.
Qed.

(* read-only transactions never change the store *)
Lemma spec_steps_ro_store : forall evs S x S2 x2,
  spec_steps S x evs = Some (S2, x2) -> x_mode x = RO -> S2 = S.
Proof.
  induction evs as [|e evs IH]; intros S x S2 x2 H Hm; cbn [spec_steps] in H.
  - inversion H; subst. auto.
  - destruct (spec_step S x (h_call e)) as [[[S' x'] res]|] eqn:E; [|discriminate].
    destruct (result_eqb res (h_res e)); [|discriminate].
    pose proof (spec_step_mode _ _ _ _ _ _ E) as Hm'.
    destruct (spec_step_store _ _ _ _ _ _ E) as [E1|(_ & E1 & _)]; [|congruence].
    subst S'. apply (IH _ _ _ _ H). congruence.
Qed.

(* ------------------------------------------------------------------------------------- *)
(* 2. transaction tables, projections                                                      *)
(* ------------------------------------------------------------------------------------- *)

Definition ids (l : list (nat * txst)) : list nat := map fst l.

Lemma ids_app : forall a b, ids (a ++ b) = ids a ++ ids b.
Proof. intros. unfold ids. apply map_app. Qed.

Lemma find_tx_none : forall t l, find_tx t l = None <-> ~ In t (ids l).
Proof.
  induction l as [|[t' x] l IH]; cbn [find_tx ids map fst In]; [tauto|].
  destruct (Nat.eqb t t') eqn:E.
  - apply PeanoNat.Nat.eqb_eq in E. subst. split; [discriminate|intros H; exfalso; apply H; auto].
  - apply PeanoNat.Nat.eqb_neq in E. rewrite IH. unfold ids. split; intros H; [intros [H1|H1]; [congruence|auto]|auto].
Qed.

Lemma find_tx_split : forall t l x, find_tx t l = Some x ->
  exists l1 l2, l = l1 ++ (t, x) :: l2 /\ ~ In t (ids l1).
Proof.
  induction l as [|[t' x'] l IH]; intros x H; cbn [find_tx] in H; [discriminate|].
  destruct (Nat.eqb t t') eqn:E.
  - apply PeanoNat.Nat.eqb_eq in E. inversion H; subst. exists [], l. split; [reflexivity|intros []].
  - apply PeanoNat.Nat.eqb_neq in E. destruct (IH _ H) as (l1 & l2 & E1 & E2).
    exists ((t', x') :: l1), l2. subst l. split; [reflexivity|].
    cbn. intros [H1|H1]; [congruence|auto].
Qed.

Lemma upd_tx_split : forall t x x' l1 l2, ~ In t (ids l1) ->
  upd_tx t x' (l1 ++ (t, x) :: l2) = l1 ++ (t, x') :: l2.
Proof.
  induction l1 as [|[t1 x1] l1 IH]; intros l2 H; cbn [app upd_tx].
  - rewrite PeanoNat.Nat.eqb_refl. reflexivity.
  - cbn in H. destruct (Nat.eqb t t1) eqn:E.
    + apply PeanoNat.Nat.eqb_eq in E. subst. exfalso. apply H. auto.
    + rewrite IH; [reflexivity|]. intros H1. apply H. auto.
Qed.

Lemma find_tx_app_none : forall t a b, find_tx t a = None -> find_tx t (a ++ b) = find_tx t b.
Proof.
  induction a as [|[t' x] a IH]; intros b H; cbn [app find_tx] in *; [reflexivity|].
  destruct (Nat.eqb t t'); [discriminate|apply IH; exact H].
Qed.

Lemma find_tx_mid : forall t x l1 l2, ~ In t (ids l1) -> find_tx t (l1 ++ (t, x) :: l2) = Some x.
Proof.
  intros. rewrite find_tx_app_none by (apply find_tx_none; assumption).
  cbn. rewrite PeanoNat.Nat.eqb_refl. reflexivity.
Qed.

Lemma proj_app : forall h1 h2 t, proj (h1 ++ h2) t = proj h1 t ++ proj h2 t.
Proof. intros. unfold proj. apply filter_app. Qed.

Lemma proj_snoc_same : forall h e, proj (h ++ [e]) (h_tx e) = proj h (h_tx e) ++ [e].
Proof. intros. rewrite proj_app. cbn. rewrite PeanoNat.Nat.eqb_refl. reflexivity. Qed.

Lemma proj_snoc_other : forall h e t, h_tx e <> t -> proj (h ++ [e]) t = proj h t.
Proof.
  intros. rewrite proj_app. cbn. apply PeanoNat.Nat.eqb_neq in H. rewrite H. apply app_nil_r.
Qed.

Lemma proj_in : forall h t e, In e (proj h t) <-> In e h /\ h_tx e = t.
Proof.
  intros. unfold proj. rewrite filter_In. rewrite PeanoNat.Nat.eqb_eq. tauto.
Qed.

Lemma begin_order_app : forall h1 h2, begin_order (h1 ++ h2) = begin_order h1 ++ begin_order h2.
Proof.
  induction h1 as [|e h1 IH]; intros h2; cbn [app begin_order]; [reflexivity|].
  destruct (h_call e); rewrite IH; reflexivity.
Qed.

Lemma begin_order_in : forall h t, In t (begin_order h) -> In t (map h_tx h).
Proof.
  induction h as [|e h IH]; intros t H; cbn [begin_order] in H; [destruct H|].
  cbn [map In]. destruct (h_call e); try (right; apply IH; exact H).
  destruct H as [H|H]; [left; exact H|right; apply IH; exact H].
Qed.

Lemma proj_nonempty : forall h t, In t (map h_tx h) -> proj h t <> [].
Proof.
  intros h t H. apply in_map_iff in H. destruct H as (e & E & Hin).
  assert (In e (proj h t)) by (apply proj_in; auto).
  intros Hn. rewrite Hn in H. destruct H.
Qed.

Lemma proj_empty : forall h t, ~ In t (map h_tx h) -> proj h t = [].
Proof.
  intros h t H. destruct (proj h t) as [|e r] eqn:E; [reflexivity|].
  exfalso. apply H. assert (In e (proj h t)) by (rewrite E; left; reflexivity).
  apply proj_in in H0. destruct H0 as [H1 H2]. subst t. apply in_map. exact H1.
Qed.

(* ------------------------------------------------------------------------------------- *)
(* 3. the invariant of the lock-protected model                                            *)
(* ------------------------------------------------------------------------------------- *)

Definition ro_locked (x : txst) : bool :=
  match x_mode (t_spec x) with RO => t_lock x | RW => false end.
Definition rw_locked (x : txst) : bool :=
  match x_mode (t_spec x) with RW => t_lock x | RO => false end.
Definition count_ro (l : list (nat * txst)) : nat := length (filter (fun p => ro_locked (snd p)) l).
Definition has_rw (l : list (nat * txst)) : bool := existsb (fun p => rw_locked (snd p)) l.

Lemma count_ro_app : forall a b, count_ro (a ++ b) = (count_ro a + count_ro b)%nat.
Proof. intros. unfold count_ro. rewrite filter_app, app_length. reflexivity. Qed.

Lemma count_ro_cons : forall p l, count_ro (p :: l) = ((if ro_locked (snd p) then 1 else 0) + count_ro l)%nat.
Proof. intros. unfold count_ro. cbn [filter]. destruct (ro_locked (snd p)); reflexivity. Qed.

Lemma has_rw_app : forall a b, has_rw (a ++ b) = has_rw a || has_rw b.
Proof. intros. unfold has_rw. apply existsb_app. Qed.

Lemma count_ro_zero : forall l, count_ro l = 0%nat -> forall t x, In (t, x) l -> ro_locked x = false.
Proof.
  induction l as [|p l IH]; intros H t x Hin; [destruct Hin|].
  rewrite count_ro_cons in H. destruct Hin as [Hin|Hin].
  - subst p. cbn [snd] in H. destruct (ro_locked x); [discriminate|reflexivity].
  - apply (IH ltac:(lia) _ _ Hin).
Qed.

Lemma has_rw_false : forall l, has_rw l = false -> forall t x, In (t, x) l -> rw_locked x = false.
Proof.
  intros l H t x Hin. unfold has_rw in H.
  destruct (rw_locked x) eqn:E; [|reflexivity].
  assert (existsb (fun p => rw_locked (snd p)) l = true) by (apply existsb_exists; exists (t, x); auto).
  congruence.
Qed.

(* a read-write transaction that holds the lock is the newest transaction *)
Fixpoint rw_last (l : list (nat * txst)) : Prop :=
  match l with
  | [] => True
  | p :: r => (rw_locked (snd p) = true -> r = []) /\ rw_last r
  end.

Lemma rw_last_app_unlocked : forall a b, has_rw a = false -> rw_last a -> rw_last b -> rw_last (a ++ b).
Proof.
  induction a as [|p a IH]; intros b H Ha Hb; cbn [app]; [exact Hb|].
  cbn [rw_last] in *. unfold has_rw in H. cbn [existsb] in H. apply orb_false_elim in H. destruct H as [H1 H2].
  split; [intros Hp; congruence|]. apply IH; [exact H2|tauto|exact Hb].
Qed.

Lemma rw_last_mid : forall l1 p l2, rw_last (l1 ++ p :: l2) ->
  (rw_locked (snd p) = true -> l2 = []) /\
  (forall q, In q l1 -> rw_locked (snd q) = false) /\
  rw_last l1 /\ rw_last l2.
Proof.
  induction l1 as [|q l1 IH]; intros p l2 H; cbn [app rw_last] in H.
  - destruct H as [H1 H2]. repeat split; auto. intros q [].
  - destruct H as [H1 H2]. destruct (IH _ _ H2) as (A & B & C & D).
    split; [exact A|]. split; [|split; [|exact D]].
    + intros q' [Hq|Hq]; [subst q'|auto].
      destruct (rw_locked (snd q)); [|reflexivity].
      specialize (H1 eq_refl). destruct l1; discriminate.
    + cbn [rw_last]. split; [|exact C]. intros Hq. specialize (H1 Hq). destruct l1; discriminate.
Qed.

Lemma rw_last_replace : forall l1 p p' l2, rw_last (l1 ++ p :: l2) ->
  (rw_locked (snd p') = true -> rw_locked (snd p) = true) -> rw_last (l1 ++ p' :: l2).
Proof.
  induction l1 as [|q l1 IH]; intros p p' l2 H Hp; cbn [app rw_last] in *.
  - destruct H as [H1 H2]. split; auto.
  - destruct H as [H1 H2]. split; [|apply (IH _ _ _ H2 Hp)].
    intros Hq. specialize (H1 Hq). destruct l1; discriminate.
Qed.

(* The serial execution in order of creation, threaded along the transaction table:
   S is the store before the transaction runs alone, S2 the store after it; C is the current
   committed store of the concurrent state. The data part of every transaction equals the
   state its serial run ends in, and a transaction that is still active sits, in the serial
   execution, on exactly the current committed store. *)
Fixpoint chain (h : history) (C : store) (S : store) (l : list (nat * txst)) (Sf : store) : Prop :=
  match l with
  | [] => S = Sf
  | p :: r =>
      exists S2, spec_tx S (proj h (fst p)) = Some (S2, t_spec (snd p)) /\
                 (x_active (t_spec (snd p)) = true -> S = C) /\
                 chain h C S2 r Sf
  end.

Lemma chain_app : forall h C l1 l2 S Sf,
  chain h C S (l1 ++ l2) Sf <-> exists Sm, chain h C S l1 Sm /\ chain h C Sm l2 Sf.
Proof.
  induction l1 as [|p l1 IH]; intros l2 S Sf; cbn [app chain].
  - split; [intros H; exists S; auto|intros (Sm & E & H); subst; exact H].
  - split.
    + intros (S2 & A & B & H). apply IH in H. destruct H as (Sm & H1 & H2).
      exists Sm. split; [exists S2; auto|exact H2].
    + intros (Sm & (S2 & A & B & H1) & H2). exists S2. repeat split; auto.
      apply IH. exists Sm. auto.
Qed.

Lemma chain_ext : forall h h' C l S Sf,
  (forall t, In t (ids l) -> proj h' t = proj h t) -> chain h C S l Sf -> chain h' C S l Sf.
Proof.
  induction l as [|p l IH]; intros S Sf Hp H; cbn [chain] in *; [exact H|].
  destruct H as (S2 & A & B & H). exists S2. repeat split; auto.
  - rewrite Hp; [exact A|]. cbn. auto.
  - apply IH; [|exact H]. intros t Ht. apply Hp. cbn. auto.
Qed.

Lemma chain_inactive : forall h C C' l S Sf,
  (forall p, In p l -> x_active (t_spec (snd p)) = false) -> chain h C S l Sf -> chain h C' S l Sf.
Proof.
  induction l as [|p l IH]; intros S Sf Hp H; cbn [chain] in *; [exact H|].
  destruct H as (S2 & A & B & H). exists S2. repeat split; auto.
  - intros Ha. rewrite Hp in Ha by (left; reflexivity). discriminate.
  - apply IH; [|exact H]. intros q Hq. apply Hp. right. exact Hq.
Qed.

Lemma chain_serial : forall h C l S Sf, chain h C S l Sf -> serial_run S h (ids l) = Some Sf.
Proof.
  induction l as [|p l IH]; intros S Sf H; cbn [chain ids map serial_run] in *.
  - subst. reflexivity.
  - destruct H as (S2 & A & _ & H). rewrite A. apply IH. exact H.
Qed.

Record Inv (S0 : store) (s : state) (h : history) : Prop := {
  inv_ids : ids (s_txs s) = begin_order h;
  inv_nodup : NoDup (begin_order h);
  inv_evs : forall e, In e h -> In (h_tx e) (begin_order h);
  inv_act_lock : forall p, In p (s_txs s) -> x_active (t_spec (snd p)) = true -> t_lock (snd p) = true;
  inv_readers : s_readers s = count_ro (s_txs s);
  inv_writer : s_writer s = has_rw (s_txs s);
  inv_excl : s_writer s = true -> s_readers s = 0%nat;
  inv_last : rw_last (s_txs s);
  inv_chain : chain h (s_store s) S0 (s_txs s) (s_store s)
}.

Lemma inv_init : forall S0, Inv S0 (init S0) [].
Proof.
  intros S0. constructor; cbn; auto; try (intros ? []); try discriminate. constructor.
Qed.

Lemma has_rw_intro_false : forall l, (forall q, In q l -> rw_locked (snd q) = false) -> has_rw l = false.
Proof.
  induction l as [|p l IH]; intros H; [reflexivity|].
  unfold has_rw. cbn [existsb]. rewrite (H p) by (left; reflexivity). cbn.
  apply IH. intros q Hq. apply H. right. exact Hq.
Qed.

Lemma has_rw_mid : forall l1 p l2, has_rw (l1 ++ p :: l2) = has_rw l1 || (rw_locked (snd p) || has_rw l2).
Proof. intros. rewrite has_rw_app. reflexivity. Qed.

Lemma count_ro_mid : forall l1 p l2,
  count_ro (l1 ++ p :: l2) = (count_ro l1 + ((if ro_locked (snd p) then 1 else 0) + count_ro l2))%nat.
Proof. intros. rewrite count_ro_app, count_ro_cons. reflexivity. Qed.

Lemma in_mid : forall (A : Type) (q p : A) l1 l2, In q (l1 ++ p :: l2) <-> q = p \/ In q l1 \/ In q l2.
Proof.
  intros. rewrite in_app_iff. cbn [In]. split; intros H; intuition congruence.
Qed.

(* replacing the table entry of t by one with the same data part *)
Lemma chain_mid_same_spec : forall h C l1 t x x' l2 S Sf,
  t_spec x' = t_spec x ->
  chain h C S (l1 ++ (t, x) :: l2) Sf -> chain h C S (l1 ++ (t, x') :: l2) Sf.
Proof.
  intros h C l1 t x x' l2 S Sf E H. apply chain_app in H. destruct H as (Sm & H1 & H2).
  apply chain_app. exists Sm. split; [exact H1|].
  cbn [chain fst snd] in *. rewrite E. exact H2.
Qed.

Lemma inv_release : forall S0 s h t s',
  Inv S0 s h -> release s t = Some s' -> Inv S0 s' h.
Proof.
  intros S0 s h t s' I H. unfold release in H.
  destruct (find_tx t (s_txs s)) as [x|] eqn:F; [|discriminate].
  destruct (t_lock x) eqn:Hl; [|discriminate].
  destruct (x_active (t_spec x)) eqn:Ha; [discriminate|]. cbn [andb negb] in H.
  destruct (find_tx_split _ _ _ F) as (l1 & l2 & El & Hn1).
  destruct I as [Iids Ind Iev Ial Ird Iwr Iex Ila Ich].
  rewrite El in *. rewrite upd_tx_split in H by exact Hn1.
  set (x0 := {| t_spec := t_spec x; t_lock := false |}) in *.
  assert (Hro0 : ro_locked x0 = false) by (unfold ro_locked, x0; cbn; destruct (x_mode (t_spec x)); reflexivity).
  assert (Hrw0 : rw_locked x0 = false) by (unfold rw_locked, x0; cbn; destruct (x_mode (t_spec x)); reflexivity).
  assert (Hids : ids (l1 ++ (t, x0) :: l2) = ids (l1 ++ (t, x) :: l2)) by (rewrite !ids_app; reflexivity).
  assert (Hal : forall p, In p (l1 ++ (t, x0) :: l2) -> x_active (t_spec (snd p)) = true -> t_lock (snd p) = true).
  { intros p Hp Hact. apply in_mid in Hp. destruct Hp as [Hp|Hp].
    - subst p. cbn in Hact. congruence.
    - apply Ial; [|exact Hact]. apply in_mid. right. exact Hp. }
  assert (Hla : rw_last (l1 ++ (t, x0) :: l2)).
  { apply (rw_last_replace _ _ _ _ Ila). cbn [snd]. congruence. }
  assert (Hch : chain h (s_store s) S0 (l1 ++ (t, x0) :: l2) (s_store s)).
  { apply (chain_mid_same_spec _ _ _ _ x); [reflexivity|exact Ich]. }
  destruct (x_mode (t_spec x)) eqn:Hm; inversion H; subst s'; clear H; constructor; cbn [s_store s_readers s_writer s_txs]; auto;
    try (rewrite Hids; exact Iids).
  - (* RO: reader count *)
    assert (Hx : ro_locked x = true) by (unfold ro_locked; rewrite Hm; exact Hl).
    rewrite Ird. rewrite !count_ro_mid. cbn [snd]. rewrite Hro0, Hx. lia.
  - assert (Hx : rw_locked x = false) by (unfold rw_locked; rewrite Hm; reflexivity).
    rewrite Iwr. rewrite !has_rw_mid. cbn [snd]. rewrite Hrw0, Hx. reflexivity.
  - intros Hw. rewrite (Iex Hw). reflexivity.
  - (* RW: reader count unchanged *)
    assert (Hx : ro_locked x = false) by (unfold ro_locked; rewrite Hm; reflexivity).
    rewrite Ird. rewrite !count_ro_mid. cbn [snd]. rewrite Hro0, Hx. reflexivity.
  - (* writer flag: nobody else holds the write lock *)
    destruct (rw_last_mid _ _ _ Ila) as (A & B & _ & _). cbn [snd] in A.
    assert (rw_locked x = true) by (unfold rw_locked; rewrite Hm; exact Hl).
    rewrite (A H). rewrite has_rw_mid. cbn [snd]. rewrite Hrw0.
    rewrite (has_rw_intro_false l1 B). reflexivity.
  - discriminate.
Qed.

Lemma NoDup_snoc : forall (A : Type) (l : list A) a, NoDup l -> ~ In a l -> NoDup (l ++ [a]).
Proof.
  induction l as [|b l IH]; intros a Hn Ha; cbn [app].
  - constructor; [intros []|constructor].
  - inversion Hn; subst. constructor.
    + rewrite in_app_iff. cbn. intros [H|[H|[]]]; [auto|]. subst. apply Ha. left. reflexivity.
    + apply IH; [assumption|]. intros H. apply Ha. right. exact H.
Qed.

Lemma inv_begin : forall S0 s h t m r s' e,
  Inv S0 s h -> exec s t (CBegin m) = Some (s', r) ->
  h_tx e = t -> h_call e = CBegin m -> h_res e = r ->
  Inv S0 s' (h ++ [e]).
Proof.
  intros S0 s h t m r s' e I H Et Ec Er. cbn [exec] in H.
  destruct (find_tx t (s_txs s)) eqn:F; [discriminate|].
  destruct I as [Iids Ind Iev Ial Ird Iwr Iex Ila Ich].
  assert (Hnt : ~ In t (begin_order h)) by (rewrite <- Iids; apply find_tx_none; exact F).
  assert (Hbo : begin_order (h ++ [e]) = begin_order h ++ [t]).
  { rewrite begin_order_app. cbn [begin_order]. rewrite Ec, Et. reflexivity. }
  assert (Hpe : proj h t = []).
  { apply proj_empty. intros Hin. apply in_map_iff in Hin. destruct Hin as (e' & E' & Hin).
    apply Hnt. rewrite <- E'. apply Iev. exact Hin. }
  assert (Hev : forall e', In e' (h ++ [e]) -> In (h_tx e') (begin_order h ++ [t])).
  { intros e' He'. apply in_app_iff in He'. apply in_app_iff. destruct He' as [He'|[He'|[]]].
    - left. apply Iev. exact He'.
    - right. subst e'. left. symmetry. exact Et. }
  assert (Hw : s_writer s = false).
  { destruct m; destruct (s_writer s); try reflexivity; cbn in H; discriminate. }
  assert (Hhas : has_rw (s_txs s) = false) by (rewrite <- Iwr; exact Hw).
  assert (Hchain : forall x, t_spec x = new_tx m ->
            chain (h ++ [e]) (s_store s) S0 (s_txs s ++ [(t, x)]) (s_store s)).
  { intros x Ex. apply chain_app. exists (s_store s). split.
    - apply (chain_ext h); [|exact Ich]. intros t' Ht'. apply proj_snoc_other.
      rewrite Iids in Ht'. intros E. apply Hnt. congruence.
    - cbn [chain fst snd]. exists (s_store s). split; [|split; [reflexivity|reflexivity]].
      rewrite <- Et, proj_snoc_same, Et, Hpe. cbn [app spec_tx]. rewrite Ec, Er.
      assert (r = ROk) by (destruct m; [destruct (s_writer s)|destruct (s_writer s || negb (Nat.eqb (s_readers s) 0))]; inversion H; reflexivity).
      subst r. rewrite H0. cbn [spec_steps]. rewrite Ex. reflexivity. }
  destruct m.
  - (* read-only: RLock *)
    rewrite Hw in H. inversion H; subst s' r; clear H.
    constructor; cbn [s_store s_readers s_writer s_txs]; rewrite ?Hbo; auto.
    + rewrite ids_app, Iids. reflexivity.
    + apply NoDup_snoc; assumption.
    + intros p Hp Ha. apply in_app_iff in Hp. destruct Hp as [Hp|[Hp|[]]]; [apply Ial; assumption|subst p; reflexivity].
    + rewrite count_ro_app, <- Ird. cbn. lia.
    + rewrite has_rw_app, Hhas. reflexivity.
    + discriminate.
    + apply rw_last_app_unlocked; [exact Hhas|exact Ila|]. cbn. split; [discriminate|exact I].
  - (* read-write: Lock *)
    rewrite Hw in H. cbn [orb] in H. destruct (Nat.eqb (s_readers s) 0) eqn:Hr; [|discriminate].
    apply PeanoNat.Nat.eqb_eq in Hr. cbn [negb] in H. inversion H; subst s' r; clear H.
    constructor; cbn [s_store s_readers s_writer s_txs]; rewrite ?Hbo; auto.
    + rewrite ids_app, Iids. reflexivity.
    + apply NoDup_snoc; assumption.
    + intros p Hp Ha. apply in_app_iff in Hp. destruct Hp as [Hp|[Hp|[]]]; [apply Ial; assumption|subst p; reflexivity].
    + rewrite count_ro_app, <- Ird. cbn. lia.
    + rewrite has_rw_app, Hhas. reflexivity.
    + apply rw_last_app_unlocked; [exact Hhas|exact Ila|]. cbn. split; [reflexivity|exact I].
Qed.

Lemma exec_nonbegin : forall s t c, (forall m, c <> CBegin m) ->
  exec s t c =
  match find_tx t (s_txs s) with
  | None => None
  | Some x =>
      match spec_step (s_store s) (t_spec x) c with
      | Some (S', x', r) =>
          Some ({| s_store := S'; s_readers := s_readers s; s_writer := s_writer s;
                   s_txs := upd_tx t {| t_spec := x'; t_lock := t_lock x |} (s_txs s) |}, r)
      | None => None
      end
  end.
Proof. intros s t c H. destruct c; try reflexivity. exfalso. apply (H m). reflexivity. Qed.

Lemma spec_step_inactive_total : forall S x c,
  x_active x = false -> (forall m, c <> CBegin m) -> spec_step S x c = Some (S, x, closed_result c).
Proof.
  intros S x c Ha Hc. destruct c; cbn; rewrite ?Ha; try reflexivity. exfalso. apply (Hc m). reflexivity.
Qed.

Lemma begin_order_snoc_nonbegin : forall h e, (forall m, h_call e <> CBegin m) ->
  begin_order (h ++ [e]) = begin_order h.
Proof.
  intros h e H. rewrite begin_order_app. cbn [begin_order].
  destruct (h_call e); try apply app_nil_r. exfalso. apply (H m). reflexivity.
Qed.

Lemma inv_call : forall S0 s h t c r s' e,
  Inv S0 s h -> (forall m, c <> CBegin m) -> exec s t c = Some (s', r) ->
  h_tx e = t -> h_call e = c -> h_res e = r ->
  Inv S0 s' (h ++ [e]).
Proof.
  intros S0 s h t c r s' e I Hnb H Et Ec Er.
  rewrite exec_nonbegin in H by exact Hnb.
  destruct (find_tx t (s_txs s)) as [x|] eqn:F; [|discriminate].
  destruct (spec_step (s_store s) (t_spec x) c) as [[[S' x'] r']|] eqn:Hs; [|discriminate].
  inversion H; subst s' r'; clear H.
  destruct (find_tx_split _ _ _ F) as (l1 & l2 & El & Hn1).
  destruct I as [Iids Ind Iev Ial Ird Iwr Iex Ila Ich].
  set (x1 := {| t_spec := x'; t_lock := t_lock x |}) in *.
  assert (Hbo : begin_order (h ++ [e]) = begin_order h).
  { apply begin_order_snoc_nonbegin. rewrite Ec. exact Hnb. }
  assert (Htin : In t (begin_order h)).
  { rewrite <- Iids, El, ids_app. apply in_app_iff. right. left. reflexivity. }
  assert (Hn2 : ~ In t (ids l2)).
  { rewrite <- Iids, El, ids_app in Ind. cbn [ids map fst] in Ind.
    apply NoDup_remove_2 in Ind. intros Hin. apply Ind. apply in_app_iff. right. exact Hin. }
  assert (Hmode : x_mode x' = x_mode (t_spec x)) by (eapply spec_step_mode; eauto).
  assert (Hro : ro_locked x1 = ro_locked x) by (unfold ro_locked, x1; cbn; rewrite Hmode; reflexivity).
  assert (Hrw : rw_locked x1 = rw_locked x) by (unfold rw_locked, x1; cbn; rewrite Hmode; reflexivity).
  assert (Hp1 : forall t', In t' (ids l1) -> proj (h ++ [e]) t' = proj h t').
  { intros t' Ht'. apply proj_snoc_other. rewrite Et. intros E. subst t'. auto. }
  assert (Hp2 : forall t', In t' (ids l2) -> proj (h ++ [e]) t' = proj h t').
  { intros t' Ht'. apply proj_snoc_other. rewrite Et. intros E. subst t'. auto. }
  assert (Hpt : proj (h ++ [e]) t = proj h t ++ [e]) by (rewrite <- Et; apply proj_snoc_same).
  assert (Hne : proj h t <> []) by (apply proj_nonempty, begin_order_in; exact Htin).
  rewrite El in *. rewrite upd_tx_split by exact Hn1.
  (* the serial execution, re-threaded *)
  assert (Hch : chain (h ++ [e]) S' S0 (l1 ++ (t, x1) :: l2) S').
  { apply chain_app in Ich. destruct Ich as (S1 & C1 & C2). cbn [chain fst snd] in C2.
    destruct C2 as (S2 & A & B & C2).
    assert (Hsnoc : forall Sa xa, spec_step S2 (t_spec x) c = Some (Sa, xa, r) ->
              spec_tx S1 (proj (h ++ [e]) t) = Some (Sa, xa)).
    { intros Sa xa Hst. rewrite Hpt, spec_tx_snoc by exact Hne. rewrite A. cbn [spec_steps].
      rewrite Ec, Hst, Er, result_eqb_refl. reflexivity. }
    destruct (x_active (t_spec x)) eqn:Ha.
    - (* the caller is active: it sits on the current store *)
      specialize (B eq_refl). subst S1.
      assert (S2 = s_store s) by (eapply spec_tx_active_store; eauto). subst S2.
      destruct (spec_step_store _ _ _ _ _ _ Hs) as [E|(E1 & E2 & _ & E4 & E5)].
      + subst S'. apply chain_app. exists (s_store s). split.
        * apply (chain_ext h); assumption.
        * cbn [chain fst snd]. exists (s_store s). split; [apply Hsnoc; exact Hs|]. split; [reflexivity|].
          apply (chain_ext h); assumption.
      + (* commit of the read-write transaction: it is the newest one and nobody else is active *)
        assert (Hlk : t_lock x = true).
        { apply (Ial (t, x)); [apply in_mid; left; reflexivity|exact Ha]. }
        assert (Hrwx : rw_locked x = true) by (unfold rw_locked; rewrite E2; exact Hlk).
        destruct (rw_last_mid _ _ _ Ila) as (L1 & L2 & _ & _). cbn [snd] in L1. specialize (L1 Hrwx). subst l2.
        assert (Hwr : s_writer s = true).
        { rewrite Iwr, has_rw_mid. cbn [snd]. rewrite Hrwx. apply orb_true_r. }
        assert (Hz : count_ro (l1 ++ [(t, x)]) = 0%nat) by (rewrite <- Ird; apply Iex; exact Hwr).
        assert (Hin1 : forall p, In p l1 -> x_active (t_spec (snd p)) = false).
        { intros [tq q] Hq. cbn [snd].
          destruct (x_active (t_spec q)) eqn:Hqa; [|reflexivity]. exfalso.
          assert (Hql : t_lock q = true) by (apply (Ial (tq, q)); [apply in_mid; right; left; exact Hq|exact Hqa]).
          pose proof (L2 _ Hq) as Q1. cbn [snd] in Q1.
          pose proof (count_ro_zero _ Hz tq q ltac:(apply in_mid; right; left; exact Hq)) as Q2.
          unfold rw_locked in Q1. unfold ro_locked in Q2. destruct (x_mode (t_spec q)); congruence. }
        apply chain_app. exists (s_store s). split.
        * apply (chain_inactive _ (s_store s)); [exact Hin1|]. apply (chain_ext h); assumption.
        * cbn [chain fst snd]. exists S'. split; [apply Hsnoc; exact Hs|]. split; [|reflexivity].
          intros Hact. unfold x1 in Hact. cbn in Hact. congruence.
    - (* the caller is closed: nothing changes *)
      destruct (spec_step_inactive _ _ _ _ _ _ Ha Hs) as (E1 & E2 & E3). subst S' x'.
      apply chain_app. exists S1. split.
      + apply (chain_ext h); assumption.
      + cbn [chain fst snd]. exists S2. split.
        * apply Hsnoc. rewrite E3. apply spec_step_inactive_total; assumption.
        * split; [intros Hact; unfold x1 in Hact; cbn in Hact; congruence|].
          apply (chain_ext h); assumption. }
  constructor; cbn [s_store s_readers s_writer s_txs]; rewrite ?Hbo; auto.
  - rewrite <- Iids, !ids_app. reflexivity.
  - intros e' He'. apply in_app_iff in He'. destruct He' as [He'|[He'|[]]]; [apply Iev; exact He'|].
    subst e'. rewrite Et. exact Htin.
  - intros p Hp Hact. apply in_mid in Hp. destruct Hp as [Hp|Hp].
    + subst p. cbn [snd] in *. unfold x1 in *. cbn in *.
      destruct (spec_step_active_store _ _ _ _ _ _ Hs Hact) as [_ Hax].
      apply (Ial (t, x)); [apply in_mid; left; reflexivity|exact Hax].
    + apply Ial; [apply in_mid; right; exact Hp|exact Hact].
  - rewrite Ird, !count_ro_mid. cbn [snd]. rewrite Hro. reflexivity.
  - rewrite Iwr, !has_rw_mid. cbn [snd]. rewrite Hrw. reflexivity.
  - apply (rw_last_replace _ _ _ _ Ila). cbn [snd]. rewrite Hrw. auto.
Qed.

(* ------------------------------------------------------------------------------------- *)
(* 4. every reachable state satisfies the invariant                                        *)
(* ------------------------------------------------------------------------------------- *)

Lemma steps_app : forall a b s s'',
  steps s (a ++ b) s'' <-> exists s', steps s a s' /\ steps s' b s''.
Proof.
  induction a as [|l a IH]; intros b s s''; cbn [app].
  - split; [intros H; exists s; split; [constructor|exact H]|].
    intros (s' & H1 & H2). inversion H1; subst. exact H2.
  - split.
    + intros H. inversion H; subst. apply IH in H5. destruct H5 as (s1 & A & B).
      exists s1. split; [econstructor; eauto|exact B].
    + intros (s1 & H1 & H2). inversion H1; subst. econstructor; [eauto|]. apply IH. eauto.
Qed.

Lemma hist_from_app : forall a b n,
  hist_from n (a ++ b) = hist_from n a ++ hist_from (n + N.of_nat (length a)) b.
Proof.
  induction a as [|l a IH]; intros b n; cbn [app hist_from length].
  - rewrite N.add_0_r. reflexivity.
  - replace (n + N.of_nat (S (length a))) with (n + 1 + N.of_nat (length a)) by lia.
    destruct l; rewrite IH; reflexivity.
Qed.

Lemma inv_step : forall S0 s h l s' n,
  Inv S0 s h -> step s l s' -> Inv S0 s' (h ++ hist_from n [l]).
Proof.
  intros S0 s h l s' n I H. destruct l as [t c r|t]; cbn [step hist_from] in *.
  - destruct c.
    + eapply inv_begin; eauto.
    + eapply inv_call; eauto; intros; discriminate.
    + eapply inv_call; eauto; intros; discriminate.
    + eapply inv_call; eauto; intros; discriminate.
    + eapply inv_call; eauto; intros; discriminate.
    + eapply inv_call; eauto; intros; discriminate.
    + eapply inv_call; eauto; intros; discriminate.
  - rewrite app_nil_r. eapply inv_release; eauto.
Qed.

Theorem reach_inv : forall S0 tr s, steps (init S0) tr s -> Inv S0 s (hist_of tr).
Proof.
  intros S0 tr. induction tr as [|l tr IH] using rev_ind; intros s H.
  - inversion H; subst. apply inv_init.
  - apply steps_app in H. destruct H as (s1 & H1 & H2).
    inversion H2; subst. inversion H6; subst.
    unfold hist_of. rewrite hist_from_app. apply inv_step with (s := s1); [apply IH; exact H1|exact H4].
Qed.

(* ------------------------------------------------------------------------------------- *)
(* 5. real time                                                                            *)
(* ------------------------------------------------------------------------------------- *)

Fixpoint inc (l : history) : Prop :=
  match l with
  | [] => True
  | e :: r => (forall e', In e' r -> h_inv e < h_inv e') /\ inc r
  end.

Lemma hist_from_stamps : forall tr n e, In e (hist_from n tr) -> n <= h_inv e /\ h_ret e = h_inv e.
Proof.
  induction tr as [|l tr IH]; intros n e H; cbn [hist_from] in H; [destruct H|].
  destruct l as [t c r|t].
  - destruct H as [H|H]; [subst e; cbn; split; [lia|reflexivity]|].
    destruct (IH _ _ H). split; [lia|assumption].
  - destruct (IH _ _ H). split; [lia|assumption].
Qed.

Lemma hist_from_inc : forall tr n, inc (hist_from n tr).
Proof.
  induction tr as [|l tr IH]; intros n; cbn [hist_from inc]; [exact I|].
  destruct l as [t c r|t]; [|apply IH]. cbn [inc]. split; [|apply IH].
  intros e' He'. apply hist_from_stamps in He'. cbn. lia.
Qed.

Lemma inc_split : forall h e1 e2, inc h -> In e1 h -> In e2 h -> h_inv e1 < h_inv e2 ->
  exists a b c, h = a ++ e1 :: b ++ e2 :: c.
Proof.
  induction h as [|e h IH]; intros e1 e2 Hi H1 H2 Hlt; [destruct H1|].
  cbn [inc] in Hi. destruct Hi as [Hi1 Hi2].
  destruct H1 as [H1|H1].
  - subst e1. destruct H2 as [H2|H2]; [subst e2; lia|].
    apply in_split in H2. destruct H2 as (b & c & E). exists [], b, c. rewrite E. reflexivity.
  - destruct H2 as [H2|H2].
    + subst e2. specialize (Hi1 _ H1). lia.
    + destruct (IH _ _ Hi2 H1 H2 Hlt) as (a & b & c & E). exists (e :: a), b, c. rewrite E. reflexivity.
Qed.

Lemma begin_order_ev : forall h t, In t (begin_order h) ->
  exists e m, In e h /\ h_tx e = t /\ h_call e = CBegin m.
Proof.
  induction h as [|e h IH]; intros t H; cbn [begin_order] in H; [destruct H|].
  destruct (h_call e) eqn:Ec;
    try (destruct (IH _ H) as (e' & m' & A & B & C); exists e', m'; split; [right; exact A|auto]).
  destruct H as [H|H].
  - exists e, m. split; [left; reflexivity|auto].
  - destruct (IH _ H) as (e' & m' & A & B & C). exists e', m'. split; [right; exact A|auto].
Qed.

Lemma begin_order_cons_begin : forall e h m, h_call e = CBegin m -> begin_order (e :: h) = h_tx e :: begin_order h.
Proof. intros. cbn [begin_order]. rewrite H. reflexivity. Qed.

Lemma rt_of_inc : forall h,
  inc h -> (forall e, In e h -> h_ret e = h_inv e) -> rt_consistent h (begin_order h).
Proof.
  intros h Hi Hst t1 t2 H1 H2 Hne Hfb.
  destruct (begin_order_ev _ _ H1) as (b1 & m1 & A1 & B1 & C1).
  destruct (begin_order_ev _ _ H2) as (b2 & m2 & A2 & B2 & C2).
  pose proof (Hfb b1 b2 A1 A2 B1 B2) as Hlt. rewrite (Hst _ A1) in Hlt.
  destruct (inc_split _ _ _ Hi A1 A2 Hlt) as (a & b & c & E).
  exists (begin_order a), (begin_order b), (begin_order c).
  rewrite E, begin_order_app, (begin_order_cons_begin _ _ _ C1), begin_order_app,
    (begin_order_cons_begin _ _ _ C2), B1, B2. reflexivity.
Qed.

Lemma inc_filter : forall f l, inc l -> inc (filter f l).
Proof.
  induction l as [|e l IH]; intros H; cbn [filter]; [exact I|].
  cbn [inc] in H. destruct H as [H1 H2]. destruct (f e); [|apply IH; exact H2].
  cbn [inc]. split; [|apply IH; exact H2].
  intros e' He'. apply filter_In in He'. apply H1. tauto.
Qed.

Lemma inc_seq_ok : forall l, (forall e, In e l -> h_ret e = h_inv e) -> inc l -> seq_ok l.
Proof.
  induction l as [|e l IH]; intros Hst H; cbn [seq_ok]; [exact I|].
  cbn [inc] in H. destruct H as [H1 H2].
  split; [rewrite (Hst e) by (left; reflexivity); lia|]. split.
  - intros e' He'. rewrite (Hst e) by (left; reflexivity). apply H1. exact He'.
  - apply IH; [|exact H2]. intros e' He'. apply Hst. right. exact He'.
Qed.

(* ------------------------------------------------------------------------------------- *)
(* 6. C04: every interleaving is serializable                                              *)
(* ------------------------------------------------------------------------------------- *)

(* full form: the witness is the order of lock acquisition, and the serial execution also
   ends in the committed store the concurrent execution ended in *)
Theorem lts_serial_witness : forall S0 tr s,
  steps (init S0) tr s ->
  let h := hist_of tr in
  NoDup (begin_order h) /\
  (forall t, In t (begin_order h) <-> In t (map h_tx h)) /\
  rt_consistent h (begin_order h) /\
  serial_run S0 h (begin_order h) = Some (s_store s) /\
  hist_wf h.
Proof.
  intros S0 tr s H h. pose proof (reach_inv _ _ _ H) as I. fold h in I.
  destruct I as [Iids Ind Iev Ial Ird Iwr Iex Ila Ich].
  assert (Hst : forall e, In e h -> h_ret e = h_inv e).
  { intros e He. apply (hist_from_stamps tr 0). exact He. }
  assert (Hinc : inc h) by apply hist_from_inc.
  split; [exact Ind|]. split; [|split; [|split]].
  - intros t. split; [apply begin_order_in|].
    intros Ht. apply in_map_iff in Ht. destruct Ht as (e & E & He). rewrite <- E. apply Iev. exact He.
  - apply rt_of_inc; assumption.
  - rewrite <- Iids. eapply chain_serial. exact Ich.
  - intros t. apply inc_seq_ok.
    + intros e He. apply proj_in in He. apply Hst. tauto.
    + apply inc_filter. exact Hinc.
Qed.

Theorem lts_serializable : forall S0 tr s,
  steps (init S0) tr s -> serializable S0 (hist_of tr).
Proof.
  intros S0 tr s H. destruct (lts_serial_witness _ _ _ H) as (A & B & C & D & _).
  exists (begin_order (hist_of tr)). repeat split; try assumption; try apply B.
  rewrite D. discriminate.
Qed.

(* ------------------------------------------------------------------------------------- *)
(* 7. the checker for recorded histories is sound                                          *)
(* ------------------------------------------------------------------------------------- *)

Lemma existsb_eqb_in : forall x l, existsb (Nat.eqb x) l = true <-> In x l.
Proof.
  intros x l. rewrite existsb_exists. split.
  - intros (y & Hy & E). apply PeanoNat.Nat.eqb_eq in E. subst. exact Hy.
  - intros H. exists x. split; [exact H|apply PeanoNat.Nat.eqb_refl].
Qed.

Lemma nodupb_sound : forall l, nodupb l = true -> NoDup l.
Proof.
  induction l as [|x l IH]; intros H; [constructor|].
  cbn [nodupb] in H. apply andb_prop in H. destruct H as [H1 H2].
  constructor; [|apply IH; exact H2].
  intros Hin. apply existsb_eqb_in in Hin. rewrite Hin in H1. discriminate.
Qed.

Lemma fin_before_b_complete : forall h t1 t2, finished_before h t1 t2 -> fin_before_b h t1 t2 = true.
Proof.
  intros h t1 t2 H. unfold fin_before_b. apply forallb_forall. intros e1 H1.
  apply forallb_forall. intros e2 H2. apply proj_in in H1. apply proj_in in H2.
  apply N.ltb_lt. apply H; tauto.
Qed.

Lemma fin_before_b_sound : forall h t1 t2, fin_before_b h t1 t2 = true -> finished_before h t1 t2.
Proof.
  intros h t1 t2 H e1 e2 H1 H2 E1 E2. unfold fin_before_b in H.
  rewrite forallb_forall in H. specialize (H e1 ltac:(apply proj_in; auto)).
  rewrite forallb_forall in H. specialize (H e2 ltac:(apply proj_in; auto)).
  apply N.ltb_lt. exact H.
Qed.

Lemma precedes_cons : forall t order a b, precedes order a b -> precedes (t :: order) a b.
Proof. intros t order a b (l1 & l2 & l3 & E). exists (t :: l1), l2, l3. rewrite E. reflexivity. Qed.

Lemma rt_check_sound : forall h order, rt_check h order = true -> rt_consistent h order.
Proof.
  induction order as [|t r IH]; intros H t1 t2 H1 H2 Hne Hfb; [destruct H1|].
  cbn [rt_check] in H. apply andb_prop in H. destruct H as [Hc Hr].
  destruct H1 as [H1|H1].
  - subst t1. destruct H2 as [H2|H2]; [congruence|].
    apply in_split in H2. destruct H2 as (l2 & l3 & E). exists [], l2, l3. rewrite E. reflexivity.
  - destruct H2 as [H2|H2].
    + subst t2. rewrite forallb_forall in Hc. specialize (Hc _ H1).
      rewrite (fin_before_b_complete _ _ _ Hfb) in Hc. discriminate.
    + apply precedes_cons. apply IH; assumption.
Qed.

Lemma seq_ok_b_sound : forall l, seq_ok_b l = true -> seq_ok l.
Proof.
  induction l as [|e l IH]; intros H; cbn [seq_ok]; [exact I|].
  cbn [seq_ok_b] in H. apply andb_prop in H. destruct H as [H H3]. apply andb_prop in H. destruct H as [H1 H2].
  split; [apply N.leb_le; exact H1|]. split; [|apply IH; exact H3].
  intros e' He'. rewrite forallb_forall in H2. apply N.ltb_lt. apply H2. exact He'.
Qed.

Theorem ser_check_sound : forall S0 h,
  ser_check S0 h = true -> serializable S0 h /\ hist_wf h.
Proof.
  intros S0 h H. unfold ser_check in H.
  apply andb_prop in H. destruct H as [H H5]. apply andb_prop in H. destruct H as [H H4].
  apply andb_prop in H. destruct H as [H H3]. apply andb_prop in H. destruct H as [H1 H2].
  assert (Hmem : forall t, In t (begin_order h) <-> In t (map h_tx h)).
  { intros t. split; [apply begin_order_in|].
    intros Ht. apply in_map_iff in Ht. destruct Ht as (e & E & He). rewrite <- E.
    rewrite forallb_forall in H2. apply existsb_eqb_in. apply H2. exact He. }
  split.
  - exists (begin_order h). split; [apply nodupb_sound; exact H1|]. split; [exact Hmem|].
    split; [apply rt_check_sound; exact H4|].
    destruct (serial_run S0 h (begin_order h)); [discriminate|discriminate].
  - intros t. unfold wf_check in H3. rewrite forallb_forall in H3.
    destruct (in_dec PeanoNat.Nat.eq_dec t (begin_order h)) as [Hin|Hnin].
    + apply seq_ok_b_sound. apply H3. exact Hin.
    + rewrite proj_empty; [exact I|]. intros Hc. apply Hnin. apply Hmem. exact Hc.
Qed.

(* ------------------------------------------------------------------------------------- *)
(* 8. corollaries: own writes, no dirty reads, read-only snapshot                          *)
(* ------------------------------------------------------------------------------------- *)

Lemma find_upd_other : forall t t' x l, t <> t' -> find_tx t (upd_tx t' x l) = find_tx t l.
Proof.
  induction l as [|[t0 x0] l IH]; intros Hne; cbn [upd_tx find_tx]; [reflexivity|].
  destruct (Nat.eqb t' t0) eqn:E'; cbn [find_tx].
  - apply PeanoNat.Nat.eqb_eq in E'. subst t0.
    destruct (Nat.eqb t t') eqn:E; [apply PeanoNat.Nat.eqb_eq in E; congruence|reflexivity].
  - destruct (Nat.eqb t t0); [reflexivity|apply IH; exact Hne].
Qed.

Lemma find_upd_same : forall t x x0 l, find_tx t l = Some x0 -> find_tx t (upd_tx t x l) = Some x.
Proof.
  induction l as [|[t0 y] l IH]; intros H; cbn [upd_tx find_tx] in *; [discriminate|].
  destruct (Nat.eqb t t0) eqn:E; cbn [find_tx]; rewrite E; [reflexivity|apply IH; exact H].
Qed.

Lemma find_app_some : forall t x l l', find_tx t l = Some x -> find_tx t (l ++ l') = Some x.
Proof.
  induction l as [|[t0 y] l IH]; intros l' H; cbn [app find_tx] in *; [discriminate|].
  destruct (Nat.eqb t t0); [exact H|apply IH; exact H].
Qed.

Lemma find_app_other : forall t t' x l, t <> t' -> find_tx t (l ++ [(t', x)]) = find_tx t l.
Proof.
  induction l as [|[t0 y] l IH]; intros Hne; cbn [app find_tx].
  - destruct (Nat.eqb t t') eqn:E; [apply PeanoNat.Nat.eqb_eq in E; congruence|reflexivity].
  - destruct (Nat.eqb t t0); [reflexivity|apply IH; exact Hne].
Qed.

Lemma buf_get_set_same : forall k ov b, buf_get k (buf_set k ov b) = Some ov.
Proof.
  induction b as [|[k0 ov0] b IH]; cbn [buf_set buf_get].
  - rewrite beq_refl. reflexivity.
  - destruct (bcmp k k0) eqn:E; cbn [buf_get]; rewrite ?beq_refl; try reflexivity.
    unfold beq. rewrite E. exact IH.
Qed.

Lemma beq_neq : forall a b, a <> b -> beq a b = false.
Proof. intros a b H. destruct (beq a b) eqn:E; [apply beq_eq in E; congruence|reflexivity]. Qed.

Lemma buf_get_set_other : forall k k' ov b, k <> k' -> buf_get k (buf_set k' ov b) = buf_get k b.
Proof.
  induction b as [|[k0 ov0] b IH]; intros Hne; cbn [buf_set buf_get].
  - rewrite (beq_neq _ _ Hne). reflexivity.
  - destruct (bcmp k' k0) eqn:E; cbn [buf_get].
    + apply tx_bcmp_eq in E. subst k0. rewrite (beq_neq _ _ Hne). reflexivity.
    + rewrite (beq_neq _ _ Hne). reflexivity.
    + destruct (beq k k0); [reflexivity|apply IH; exact Hne].
Qed.

(* what a transaction may do itself to lose sight of its write to k *)
Definition disturbs (t : nat) (k : key) (l : label) : Prop :=
  match l with
  | LCall t' c _ =>
      t' = t /\ match c with
                | CPut k' _ => k' = k
                | CDel k' => k' = k
                | CCommit | CRollback => True
                | _ => False
                end
  | LRel _ => False
  end.

Definition sees (s : state) (t : nat) (k : key) (ov : option value) : Prop :=
  exists x, find_tx t (s_txs s) = Some x /\ x_active (t_spec x) = true /\ buf_get k (x_buf (t_spec x)) = Some ov.

Lemma sees_step : forall s l s' t k ov,
  sees s t k ov -> step s l s' -> ~ disturbs t k l -> sees s' t k ov.
Proof.
  intros s l s' t k ov (x & F & Ha & Hb) H Hd. destruct l as [t' c r|t']; cbn [step] in H.
  - destruct (PeanoNat.Nat.eq_dec t' t) as [E|E].
    + subst t'. destruct c; cbn [exec] in H; rewrite F in H; try discriminate;
        cbn [spec_step] in H; rewrite Ha in H.
      * inversion H; subst. exists {| t_spec := t_spec x; t_lock := t_lock x |}.
        cbn. split; [eapply find_upd_same; eauto|auto].
      * destruct (x_mode (t_spec x)); inversion H; subst.
        -- exists {| t_spec := t_spec x; t_lock := t_lock x |}. cbn. split; [eapply find_upd_same; eauto|auto].
        -- eexists. cbn. split; [eapply find_upd_same; eauto|]. cbn. split; [exact Ha|].
           rewrite buf_get_set_other; [exact Hb|]. intros E. apply Hd. cbn. auto.
      * destruct (x_mode (t_spec x)); inversion H; subst.
        -- exists {| t_spec := t_spec x; t_lock := t_lock x |}. cbn. split; [eapply find_upd_same; eauto|auto].
        -- eexists. cbn. split; [eapply find_upd_same; eauto|]. cbn. split; [exact Ha|].
           rewrite buf_get_set_other; [exact Hb|]. intros E. apply Hd. cbn. auto.
      * inversion H; subst. exists {| t_spec := t_spec x; t_lock := t_lock x |}.
        cbn. split; [eapply find_upd_same; eauto|auto].
      * exfalso. apply Hd. cbn. auto.
      * exfalso. apply Hd. cbn. auto.
    + exists x. split; [|auto].
      destruct c; cbn [exec] in H.
      * destruct (find_tx t' (s_txs s)); [discriminate|].
        destruct m; [destruct (s_writer s)|destruct (s_writer s || negb (Nat.eqb (s_readers s) 0))];
          inversion H; subst; cbn; apply find_app_some; exact F.
      * destruct (find_tx t' (s_txs s)) as [y|]; [|discriminate].
        destruct (spec_step (s_store s) (t_spec y) (CGet k0)) as [[[? ?] ?]|]; inversion H; subst; cbn.
        rewrite find_upd_other by congruence. exact F.
      * destruct (find_tx t' (s_txs s)) as [y|]; [|discriminate].
        destruct (spec_step (s_store s) (t_spec y) (CPut k0 v)) as [[[? ?] ?]|]; inversion H; subst; cbn.
        rewrite find_upd_other by congruence. exact F.
      * destruct (find_tx t' (s_txs s)) as [y|]; [|discriminate].
        destruct (spec_step (s_store s) (t_spec y) (CDel k0)) as [[[? ?] ?]|]; inversion H; subst; cbn.
        rewrite find_upd_other by congruence. exact F.
      * destruct (find_tx t' (s_txs s)) as [y|]; [|discriminate].
        destruct (spec_step (s_store s) (t_spec y) (CScan lo hi)) as [[[? ?] ?]|]; inversion H; subst; cbn.
        rewrite find_upd_other by congruence. exact F.
      * destruct (find_tx t' (s_txs s)) as [y|]; [|discriminate].
        destruct (spec_step (s_store s) (t_spec y) CCommit) as [[[? ?] ?]|]; inversion H; subst; cbn.
        rewrite find_upd_other by congruence. exact F.
      * destruct (find_tx t' (s_txs s)) as [y|]; [|discriminate].
        destruct (spec_step (s_store s) (t_spec y) CRollback) as [[[? ?] ?]|]; inversion H; subst; cbn.
        rewrite find_upd_other by congruence. exact F.
  - (* release: only of a transaction that is no longer active *)
    unfold release in H. destruct (find_tx t' (s_txs s)) as [y|] eqn:F'; [|discriminate].
    destruct (t_lock y && negb (x_active (t_spec y))) eqn:G; [|discriminate].
    destruct (PeanoNat.Nat.eq_dec t' t) as [E|E].
    + subst t'. rewrite F in F'. inversion F'; subst y. rewrite Ha in G.
      rewrite andb_false_r in G. discriminate.
    + exists x. split; [|auto].
      destruct (x_mode (t_spec y)); inversion H; subst; cbn; rewrite find_upd_other by congruence; exact F.
Qed.

Lemma sees_steps : forall s tr s' t k ov,
  steps s tr s' -> sees s t k ov -> (forall l, In l tr -> ~ disturbs t k l) -> sees s' t k ov.
Proof.
  intros s tr s' t k ov H. induction H as [s|s l s1 tr s2 H1 H2 IH]; intros Hs Hnd; [exact Hs|].
  apply IH; [|intros l' Hl'; apply Hnd; right; exact Hl'].
  eapply sees_step; eauto. apply Hnd. left. reflexivity.
Qed.

(* own writes: after an acknowledged Put (Delete) of k, the transaction's next Get of k returns
   that value (not found), whatever the other transactions do in between *)
Theorem own_writes : forall s t k c ov s1 tr s2 s3 r,
  (c = CPut k match ov with Some v => v | None => [] end /\ ov <> None \/ c = CDel k /\ ov = None) ->
  exec s t c = Some (s1, ROk) ->
  steps s1 tr s2 -> (forall l, In l tr -> ~ disturbs t k l) ->
  exec s2 t (CGet k) = Some (s3, r) -> r = RVal ov.
Proof.
  intros s t k c ov s1 tr s2 s3 r Hc H Htr Hnd Hg.
  assert (Hsees : sees s1 t k ov).
  { destruct Hc as [[Hc Hov]|[Hc Hov]]; subst c; cbn [exec] in H;
      destruct (find_tx t (s_txs s)) as [x|] eqn:F; try discriminate; cbn [spec_step] in H;
      destruct (x_active (t_spec x)) eqn:Ha; try discriminate;
      destruct (x_mode (t_spec x)); try discriminate; inversion H; subst s1; clear H.
    - destruct ov as [v|]; [|congruence]. eexists. cbn. split; [eapply find_upd_same; eauto|].
      cbn. split; [exact Ha|apply buf_get_set_same].
    - subst ov. eexists. cbn. split; [eapply find_upd_same; eauto|].
      cbn. split; [exact Ha|apply buf_get_set_same]. }
  assert (Hsees2 : sees s2 t k ov) by (eapply sees_steps; eauto).
  destruct Hsees2 as (x & F & Ha & Hb). cbn [exec] in Hg. rewrite F in Hg. cbn [spec_step] in Hg.
  rewrite Ha in Hg. inversion Hg; subst. unfold read. rewrite Hb. reflexivity.
Qed.

Corollary own_put : forall s t k v s1 tr s2 s3 r,
  exec s t (CPut k v) = Some (s1, ROk) ->
  steps s1 tr s2 -> (forall l, In l tr -> ~ disturbs t k l) ->
  exec s2 t (CGet k) = Some (s3, r) -> r = RVal (Some v).
Proof.
  intros. eapply (own_writes s t k (CPut k v) (Some v)); eauto. left. split; [reflexivity|discriminate].
Qed.

Corollary own_delete : forall s t k s1 tr s2 s3 r,
  exec s t (CDel k) = Some (s1, ROk) ->
  steps s1 tr s2 -> (forall l, In l tr -> ~ disturbs t k l) ->
  exec s2 t (CGet k) = Some (s3, r) -> r = RVal None.
Proof. intros. eapply (own_writes s t k (CDel k) None); eauto. Qed.

(* no dirty reads: whatever another transaction does short of committing — in particular its
   writes — leaves the result of every call of t unchanged *)
Definition result_of (o : option (state * result)) : option result := option_map snd o.

Lemma exec_other_frame : forall s t' c' s' r' t,
  exec s t' c' = Some (s', r') -> t <> t' -> c' <> CCommit ->
  s_store s' = s_store s /\ find_tx t (s_txs s') = find_tx t (s_txs s).
Proof.
  intros s t' c' s' r' t H Hne Hc.
  destruct c'; cbn [exec] in H; try congruence.
  - destruct (find_tx t' (s_txs s)); [discriminate|].
    destruct m; [destruct (s_writer s)|destruct (s_writer s || negb (Nat.eqb (s_readers s) 0))];
      inversion H; subst; cbn; (split; [reflexivity|apply find_app_other; exact Hne]).
  - destruct (find_tx t' (s_txs s)) as [y|]; [|discriminate].
    destruct (spec_step (s_store s) (t_spec y) (CGet k)) as [[[S1 x1] r1]|] eqn:E; inversion H; subst; cbn.
    split; [|apply find_upd_other; exact Hne].
    destruct (spec_step_store _ _ _ _ _ _ E) as [E1|(E1 & _)]; [exact E1|discriminate].
  - destruct (find_tx t' (s_txs s)) as [y|]; [|discriminate].
    destruct (spec_step (s_store s) (t_spec y) (CPut k v)) as [[[S1 x1] r1]|] eqn:E; inversion H; subst; cbn.
    split; [|apply find_upd_other; exact Hne].
    destruct (spec_step_store _ _ _ _ _ _ E) as [E1|(E1 & _)]; [exact E1|discriminate].
  - destruct (find_tx t' (s_txs s)) as [y|]; [|discriminate].
    destruct (spec_step (s_store s) (t_spec y) (CDel k)) as [[[S1 x1] r1]|] eqn:E; inversion H; subst; cbn.
    split; [|apply find_upd_other; exact Hne].
    destruct (spec_step_store _ _ _ _ _ _ E) as [E1|(E1 & _)]; [exact E1|discriminate].
  - destruct (find_tx t' (s_txs s)) as [y|]; [|discriminate].
    destruct (spec_step (s_store s) (t_spec y) (CScan lo hi)) as [[[S1 x1] r1]|] eqn:E; inversion H; subst; cbn.
    split; [|apply find_upd_other; exact Hne].
    destruct (spec_step_store _ _ _ _ _ _ E) as [E1|(E1 & _)]; [exact E1|discriminate].
  - destruct (find_tx t' (s_txs s)) as [y|]; [|discriminate].
    destruct (spec_step (s_store s) (t_spec y) CRollback) as [[[S1 x1] r1]|] eqn:E; inversion H; subst; cbn.
    split; [|apply find_upd_other; exact Hne].
    destruct (spec_step_store _ _ _ _ _ _ E) as [E1|(E1 & _)]; [exact E1|discriminate].
Qed.

Theorem no_dirty_read : forall s t' c' s' r' t c,
  exec s t' c' = Some (s', r') -> t <> t' -> c' <> CCommit ->
  (forall m, c <> CBegin m) ->
  result_of (exec s' t c) = result_of (exec s t c).
Proof.
  intros s t' c' s' r' t c H Hne Hc Hnb.
  destruct (exec_other_frame _ _ _ _ _ t H Hne Hc) as [E1 E2].
  rewrite !exec_nonbegin by exact Hnb. rewrite E1, E2.
  destruct (find_tx t (s_txs s)) as [x|]; [|reflexivity].
  destruct (spec_step (s_store s) (t_spec x) c) as [[[S1 x1] r1]|]; reflexivity.
Qed.

(* read-only snapshot: from its Begin on, an active read-only transaction has an empty buffer
   and the committed store is the one it began on *)
Definition ro_view (Sb : store) (t : nat) (s : state) : Prop :=
  exists x, find_tx t (s_txs s) = Some x /\ x_mode (t_spec x) = RO /\ x_buf (t_spec x) = [] /\
            (x_active (t_spec x) = true -> s_store s = Sb).

Lemma spec_step_ro : forall S x c S' x' r,
  spec_step S x c = Some (S', x', r) -> x_mode x = RO -> x_buf x = [] ->
  S' = S /\ x_mode x' = RO /\ x_buf x' = [] /\ (x_active x' = true -> x_active x = true).
Proof.
  intros S x c S' x' r H Hm Hb.
  destruct c; cbn [spec_step] in H; try discriminate; rewrite ?Hm in H;
    destruct (x_active x) eqn:Ha; inversion H; subst; cbn; auto;
    repeat split; auto; congruence.
Qed.

Lemma classic_commit : forall c, c = CCommit \/ c <> CCommit.
Proof. intros c. destruct c; try (right; discriminate). left. reflexivity. Qed.

Lemma find_in : forall t x l, find_tx t l = Some x -> In (t, x) l.
Proof.
  intros t x l H. destruct (find_tx_split _ _ _ H) as (l1 & l2 & E & _). subst l. apply in_mid. auto.
Qed.

Lemma ro_view_step : forall S0 h Sb t s l s',
  Inv S0 s h -> ro_view Sb t s -> step s l s' -> ro_view Sb t s'.
Proof.
  intros S0 h Sb t s l s' I (x & F & Hm & Hb & Hst) H.
  destruct l as [t' c r|t']; cbn [step] in H.
  - destruct (PeanoNat.Nat.eq_dec t' t) as [E|E].
    + subst t'.
      assert (Hnb : forall m, c <> CBegin m).
      { intros m Ec. subst c. cbn [exec] in H. rewrite F in H. discriminate. }
      rewrite exec_nonbegin in H by exact Hnb. rewrite F in H.
      destruct (spec_step (s_store s) (t_spec x) c) as [[[S1 x1] r1]|] eqn:Es; [|discriminate].
      inversion H; subst; clear H.
      destruct (spec_step_ro _ _ _ _ _ _ Es Hm Hb) as (A & B & C & D).
      eexists. cbn. split; [eapply find_upd_same; eauto|]. cbn. repeat split; auto.
      intros Ha. rewrite A. apply Hst. apply D. exact Ha.
    + destruct (classic_commit c) as [Ec|Ec].
      * (* a commit of another transaction *)
        subst c. rewrite exec_nonbegin in H by (intros; discriminate).
        destruct (find_tx t' (s_txs s)) as [y|] eqn:F'; [|discriminate].
        destruct (spec_step (s_store s) (t_spec y) CCommit) as [[[S1 x1] r1]|] eqn:Es; [|discriminate].
        inversion H; subst; clear H. exists x. cbn. rewrite find_upd_other by congruence.
        repeat split; auto. intros Ha.
        destruct (spec_step_store _ _ _ _ _ _ Es) as [E1|(_ & E2 & E3 & _)]; [rewrite E1; apply Hst; exact Ha|].
        (* an active read-write transaction excludes the active reader t *)
        exfalso. destruct I as [Iids Ind Iev Ial Ird Iwr Iex Ila Ich].
        assert (Ly : t_lock y = true) by (apply (Ial (t', y)); [apply find_in; exact F'|exact E3]).
        assert (Lx : t_lock x = true) by (apply (Ial (t, x)); [apply find_in; exact F|exact Ha]).
        assert (Hw : s_writer s = true).
        { rewrite Iwr. unfold has_rw. apply existsb_exists. exists (t', y).
          split; [apply find_in; exact F'|]. cbn. unfold rw_locked. rewrite E2. exact Ly. }
        assert (Hz : count_ro (s_txs s) = 0%nat) by (rewrite <- Ird; apply Iex; exact Hw).
        pose proof (count_ro_zero _ Hz t x (find_in _ _ _ F)) as Q.
        unfold ro_locked in Q. rewrite Hm in Q. congruence.
      * destruct (exec_other_frame _ _ _ _ _ t H ltac:(congruence) Ec) as [E1 E2].
        exists x. rewrite E1, E2. auto.
  - unfold release in H. destruct (find_tx t' (s_txs s)) as [y|] eqn:F'; [|discriminate].
    destruct (t_lock y && negb (x_active (t_spec y))); [|discriminate].
    destruct (PeanoNat.Nat.eq_dec t' t) as [E|E].
    + subst t'. rewrite F in F'. inversion F'; subst y.
      rewrite Hm in H. inversion H; subst; clear H. eexists. cbn.
      split; [eapply find_upd_same; eauto|]. cbn. auto.
    + exists x. destruct (x_mode (t_spec y)); inversion H; subst; cbn;
        rewrite find_upd_other by congruence; auto.
Qed.

Lemma ro_view_steps : forall S0 Sb t s tr s',
  steps s tr s' -> forall tr0, steps (init S0) tr0 s -> ro_view Sb t s -> ro_view Sb t s'.
Proof.
  intros S0 Sb t s tr s' H. induction H as [s|s l s1 tr s2 H1 H2 IH]; intros tr0 Hr Hv; [exact Hv|].
  apply (IH (tr0 ++ [l])).
  - apply steps_app. exists s. split; [exact Hr|]. econstructor; [exact H1|constructor].
  - eapply ro_view_step; [apply (reach_inv _ _ _ Hr)|exact Hv|exact H1].
Qed.

Lemma ro_view_begin : forall s t s' r,
  exec s t (CBegin RO) = Some (s', r) -> ro_view (s_store s) t s'.
Proof.
  intros s t s' r H. cbn [exec] in H. destruct (find_tx t (s_txs s)) eqn:F; [discriminate|].
  destruct (s_writer s); [discriminate|]. inversion H; subst; clear H.
  eexists. cbn. split; [rewrite find_tx_app_none by exact F; cbn; rewrite PeanoNat.Nat.eqb_refl; reflexivity|].
  cbn. auto.
Qed.

(* every Get / scan of a read-only transaction returns the committed state it began on *)
Theorem ro_snapshot_get : forall S0 tr1 s1 t s1' r0 tr2 s2 k s3 r,
  steps (init S0) tr1 s1 -> exec s1 t (CBegin RO) = Some (s1', r0) ->
  steps s1' tr2 s2 -> exec s2 t (CGet k) = Some (s3, r) ->
  r = RVal (st_get k (s_store s1)) \/ r = RClosed.
Proof.
  intros S0 tr1 s1 t s1' r0 tr2 s2 k s3 r H1 Hb H2 Hg.
  assert (Hr : steps (init S0) (tr1 ++ [LCall t (CBegin RO) r0]) s1').
  { apply steps_app. exists s1. split; [exact H1|]. econstructor; [exact Hb|constructor]. }
  destruct (ro_view_steps _ _ _ _ _ _ H2 _ Hr (ro_view_begin _ _ _ _ Hb)) as (x & F & Hm & Hbuf & Hst).
  cbn [exec] in Hg. rewrite F in Hg. cbn [spec_step] in Hg.
  destruct (x_active (t_spec x)) eqn:Ha; inversion Hg; subst; [left|right; reflexivity].
  unfold read. rewrite Hbuf. cbn. rewrite Hst by reflexivity. reflexivity.
Qed.

Theorem ro_snapshot_scan : forall S0 tr1 s1 t s1' r0 tr2 s2 lo hi s3 r,
  steps (init S0) tr1 s1 -> exec s1 t (CBegin RO) = Some (s1', r0) ->
  steps s1' tr2 s2 -> exec s2 t (CScan lo hi) = Some (s3, r) ->
  r = RRows (scan lo hi [] (s_store s1)) \/ r = RRows [].
Proof.
  intros S0 tr1 s1 t s1' r0 tr2 s2 lo hi s3 r H1 Hb H2 Hg.
  assert (Hr : steps (init S0) (tr1 ++ [LCall t (CBegin RO) r0]) s1').
  { apply steps_app. exists s1. split; [exact H1|]. econstructor; [exact Hb|constructor]. }
  destruct (ro_view_steps _ _ _ _ _ _ H2 _ Hr (ro_view_begin _ _ _ _ Hb)) as (x & F & Hm & Hbuf & Hst).
  cbn [exec] in Hg. rewrite F in Hg. cbn [spec_step] in Hg.
  destruct (x_active (t_spec x)) eqn:Ha; inversion Hg; subst; [left|right; reflexivity].
  rewrite Hbuf. rewrite Hst by reflexivity. reflexivity.
Qed.

(* mutual exclusion, as a statement of its own: while a read-write transaction is active no
   other transaction is *)
Theorem rw_exclusive : forall S0 tr s t x t' x',
  steps (init S0) tr s ->
  find_tx t (s_txs s) = Some x -> x_mode (t_spec x) = RW -> x_active (t_spec x) = true ->
  find_tx t' (s_txs s) = Some x' -> x_active (t_spec x') = true -> t' = t.
Proof.
  intros S0 tr s t x t' x' H F Hm Ha F' Ha'.
  destruct (reach_inv _ _ _ H) as [Iids Ind Iev Ial Ird Iwr Iex Ila Ich].
  assert (Lx : t_lock x = true) by (apply (Ial (t, x)); [apply find_in; exact F|exact Ha]).
  assert (Lx' : t_lock x' = true) by (apply (Ial (t', x')); [apply find_in; exact F'|exact Ha']).
  assert (Hw : s_writer s = true).
  { rewrite Iwr. unfold has_rw. apply existsb_exists. exists (t, x).
    split; [apply find_in; exact F|]. cbn. unfold rw_locked. rewrite Hm. exact Lx. }
  assert (Hz : count_ro (s_txs s) = 0%nat) by (rewrite <- Ird; apply Iex; exact Hw).
  pose proof (count_ro_zero _ Hz t' x' (find_in _ _ _ F')) as Q. unfold ro_locked in Q.
  destruct (x_mode (t_spec x')) eqn:Hm'; [congruence|].
  (* both hold the write lock: both are the newest entry *)
  destruct (find_tx_split _ _ _ F) as (l1 & l2 & E & Hn).
  rewrite E in Ila. destruct (rw_last_mid _ _ _ Ila) as (A & B & _ & _). cbn [snd] in A.
  assert (rw_locked x = true) by (unfold rw_locked; rewrite Hm; exact Lx). specialize (A H0). subst l2.
  pose proof (find_in _ _ _ F') as Hin. rewrite E in Hin. apply in_mid in Hin.
  destruct Hin as [Hin|[Hin|[]]]; [congruence|].
  specialize (B _ Hin). cbn [snd] in B. unfold rw_locked in B. rewrite Hm' in B. congruence.
Qed.

(* ------------------------------------------------------------------------------------- *)
(* 9. non-vacuity                                                                          *)
(* ------------------------------------------------------------------------------------- *)

Lemma run_trace_sound : forall tr s s', run_trace s tr = Some s' -> steps s tr s'.
Proof.
  induction tr as [|l tr IH]; intros s s' H; cbn [run_trace] in H.
  - inversion H; subst. constructor.
  - destruct l as [t c r|t].
    + destruct (exec s t c) as [[s1 r1]|] eqn:E; [|discriminate].
      destruct (result_eqb r1 r) eqn:Er; [|discriminate]. apply result_eqb_eq in Er. subst r1.
      econstructor; [exact E|apply IH; exact H].
    + destruct (release s t) as [s1|] eqn:E; [|discriminate].
      econstructor; [exact E|apply IH; exact H].
Qed.

Definition ka : key := [97].
Definition kb : key := [98].
Definition v1 : value := [1].
Definition v2 : value := [2].

(* two readers overlap; a writer starts after both released, reads its own write and its own
   delete, commits; a later reader sees the committed state; calls on closed transactions and
   a write in a read-only transaction are answered with errors *)
Definition ex_trace : list label :=
  [ LCall 1 (CBegin RO) ROk; LCall 2 (CBegin RO) ROk;
    LCall 1 (CGet ka) (RVal None); LCall 2 (CPut ka v1) RReadOnly;
    LCall 1 CCommit ROk; LCall 2 (CScan None None) (RRows []); LRel 1;
    LCall 2 CRollback ROk; LCall 2 (CGet ka) RClosed; LRel 2;
    LCall 3 (CBegin RW) ROk; LCall 3 (CPut ka v1) ROk; LCall 3 (CPut kb v2) ROk;
    LCall 3 (CGet ka) (RVal (Some v1)); LCall 3 (CDel kb) ROk; LCall 3 (CGet kb) (RVal None);
    LCall 3 (CScan None None) (RRows [(ka, v1)]); LCall 3 CCommit ROk; LCall 3 CCommit RClosed; LRel 3;
    LCall 4 (CBegin RO) ROk; LCall 4 (CGet ka) (RVal (Some v1));
    LCall 4 (CScan (Some ka) (Some kb)) (RRows [(ka, v1)]) ].

Example ex_trace_runs : exists s, steps (init []) ex_trace s /\ s_store s = [(ka, v1)] /\ s_readers s = 1%nat.
Proof.
  destruct (run_trace (init []) ex_trace) as [s|] eqn:E; [|vm_compute in E; discriminate].
  exists s. split; [apply run_trace_sound; exact E|]. vm_compute in E. inversion E. split; reflexivity.
Qed.

Example ex_trace_serializable : serializable [] (hist_of ex_trace).
Proof. destruct ex_trace_runs as (s & H & _). exact (lts_serializable _ _ _ H). Qed.

Example ex_trace_checked : ser_check [] (hist_of ex_trace) = true.
Proof. vm_compute. reflexivity. Qed.

(* the lock really blocks: with a reader active a writer cannot begin, and vice versa *)
Example ex_blocked_writer : forall s, run_trace (init []) [LCall 1 (CBegin RO) ROk] = Some s ->
  exec s 2 (CBegin RW) = None /\ exists s', exec s 2 (CBegin RO) = Some (s', ROk).
Proof. intros s H. vm_compute in H. inversion H; subst. split; [reflexivity|eexists; reflexivity]. Qed.

Example ex_blocked_reader : forall s, run_trace (init []) [LCall 1 (CBegin RW) ROk; LCall 1 CCommit ROk] = Some s ->
  exec s 2 (CBegin RO) = None /\ exec s 2 (CBegin RW) = None /\
  exists s1 s2, release s 1 = Some s1 /\ exec s1 2 (CBegin RW) = Some (s2, ROk).
Proof.
  intros s H. vm_compute in H. inversion H; subst.
  split; [reflexivity|split; [reflexivity|]]. eexists. eexists. split; reflexivity.
Qed.

Definition ev (t : nat) (c : call) (r : result) (i o : N) : hev :=
  {| h_tx := t; h_call := c; h_res := r; h_inv := i; h_ret := o |}.

(* histories the checker must reject *)
(* dirty read: t2 sees the uncommitted write of t1 *)
Definition h_dirty : history :=
  [ ev 1 (CBegin RW) ROk 1 2; ev 1 (CPut ka v1) ROk 3 4; ev 2 (CBegin RO) ROk 5 6;
    ev 2 (CGet ka) (RVal (Some v1)) 7 8; ev 2 CCommit ROk 9 10; ev 1 CRollback ROk 11 12 ].
(* non-repeatable read: t1 reads a twice around the commit of t2 *)
Definition h_nonrep : history :=
  [ ev 1 (CBegin RO) ROk 1 2; ev 1 (CGet ka) (RVal None) 3 4; ev 2 (CBegin RW) ROk 5 6;
    ev 2 (CPut ka v1) ROk 7 8; ev 2 CCommit ROk 9 10; ev 1 (CGet ka) (RVal (Some v1)) 11 12;
    ev 1 CCommit ROk 13 14 ].
(* lost own write *)
Definition h_lost_own : history :=
  [ ev 1 (CBegin RW) ROk 1 2; ev 1 (CPut ka v1) ROk 3 4; ev 1 (CGet ka) (RVal None) 5 6; ev 1 CCommit ROk 7 8 ].
(* stale read: t2 began after t1's commit returned and does not see it *)
Definition h_stale : history :=
  [ ev 1 (CBegin RW) ROk 1 2; ev 1 (CPut ka v1) ROk 3 4; ev 1 CCommit ROk 5 6;
    ev 2 (CBegin RO) ROk 7 8; ev 2 (CGet ka) (RVal None) 9 10; ev 2 CCommit ROk 11 12 ].
(* the same reads are fine when the two overlap and t2 is listed (acquired the lock) first *)
Definition h_overlap_ok : history :=
  [ ev 2 (CBegin RO) ROk 1 4; ev 2 (CGet ka) (RVal None) 5 6; ev 2 CCommit ROk 7 8;
    ev 1 (CBegin RW) ROk 2 9; ev 1 (CPut ka v1) ROk 10 11; ev 1 CCommit ROk 12 13 ].
(* an order of Begin events that contradicts real time is rejected *)
Definition h_rt_bad : history :=
  [ ev 2 (CBegin RO) ROk 7 8; ev 2 (CGet ka) (RVal None) 9 10; ev 2 CCommit ROk 11 12;
    ev 1 (CBegin RW) ROk 1 2; ev 1 (CPut ka v1) ROk 3 4; ev 1 CCommit ROk 5 6 ].

Example ex_checker_rejects :
  ser_check [] h_dirty = false /\ ser_check [] h_nonrep = false /\ ser_check [] h_lost_own = false /\
  ser_check [] h_stale = false /\ ser_check [] h_rt_bad = false /\ ser_check [] h_overlap_ok = true.
Proof. vm_compute. repeat split. Qed.

Example ex_why :
  ser_why [] h_dirty = WRead 2 1 (Some (RVal None)) /\
  ser_why [] h_stale = WRead 2 1 (Some (RVal (Some v1))) /\
  ser_why [] h_rt_bad = WRealTime 1 2 /\ ser_why [] h_overlap_ok = WAccept.
Proof. vm_compute. repeat split. Qed.

(* the definition itself is not trivially satisfiable: a lost own write is not serializable *)
Example ex_not_serializable : ~ serializable [] h_lost_own.
Proof.
  intros (order & Hnd & Hmem & _ & Hrun).
  assert (H1 : In 1%nat order) by (apply Hmem; cbn; auto).
  assert (Hall : forall t, In t order -> t = 1%nat).
  { intros t Ht. apply Hmem in Ht. cbn in Ht. intuition congruence. }
  destruct order as [|a r]; [destruct H1|].
  assert (a = 1%nat) by (apply Hall; left; reflexivity). subst a.
  apply Hrun. reflexivity.
Qed.

Example ex_own_put_inst : exists s0 s1 s2 r,
  exec s0 1 (CPut ka v1) = Some (s1, ROk) /\ steps s1 [LCall 1 (CPut kb v2) ROk; LCall 1 (CGet kb) (RVal (Some v2))] s2 /\
  exec s2 1 (CGet ka) = Some (s2, r) /\ r = RVal (Some v1).
Proof.
  destruct (run_trace (init []) [LCall 1 (CBegin RW) ROk]) as [s0|] eqn:E0; [|vm_compute in E0; discriminate].
  destruct (exec s0 1 (CPut ka v1)) as [[s1 r1]|] eqn:E1; [|vm_compute in E0; inversion E0; subst; vm_compute in E1; discriminate].
  destruct (run_trace s1 [LCall 1 (CPut kb v2) ROk; LCall 1 (CGet kb) (RVal (Some v2))]) as [s2|] eqn:E2;
    [|vm_compute in E0; inversion E0; subst; vm_compute in E1; inversion E1; subst; vm_compute in E2; discriminate].
  exists s0, s1, s2, (RVal (Some v1)).
  vm_compute in E0; inversion E0; subst. vm_compute in E1; inversion E1; subst.
  split; [reflexivity|]. split; [apply run_trace_sound; exact E2|].
  vm_compute in E2. inversion E2; subst. split; reflexivity.
Qed.

(* the premise of no_dirty_read is satisfiable: a concurrent reader's rejected write *)
Example ex_no_dirty : exists s s' r', exec s 2 (CPut ka v1) = Some (s', r') /\
  result_of (exec s' 1 (CGet ka)) = result_of (exec s 1 (CGet ka)) /\ result_of (exec s 1 (CGet ka)) = Some (RVal None).
Proof.
  exists {| s_store := []; s_readers := 2; s_writer := false;
            s_txs := [(1%nat, {| t_spec := new_tx RO; t_lock := true |});
                      (2%nat, {| t_spec := new_tx RO; t_lock := true |})] |}.
  eexists. eexists. split; [vm_compute; reflexivity|]. split; vm_compute; reflexivity.
Qed.

(* ------------------------------------------------------------------------------------- *)
(* 10. the checker accepts every history of the model (so a REJECT of a recorded history    *)
(*     means the implementation left the model, whatever the oracle says)                   *)
(* ------------------------------------------------------------------------------------- *)

Lemma nodupb_complete : forall l, NoDup l -> nodupb l = true.
Proof.
  induction l as [|x l IH]; intros H; [reflexivity|]. inversion H; subst. cbn [nodupb].
  rewrite IH by assumption. destruct (existsb (Nat.eqb x) l) eqn:E; [|reflexivity].
  apply existsb_eqb_in in E. contradiction.
Qed.

Lemma seq_ok_b_complete : forall l, seq_ok l -> seq_ok_b l = true.
Proof.
  induction l as [|e l IH]; intros H; [reflexivity|]. cbn [seq_ok] in H. destruct H as (H1 & H2 & H3).
  cbn [seq_ok_b]. rewrite IH by exact H3. apply N.leb_le in H1. rewrite H1. cbn.
  rewrite andb_true_r. apply forallb_forall. intros e' He'. apply N.ltb_lt. apply H2. exact He'.
Qed.

Lemma rt_check_intro : forall h order,
  (forall l1 t l2 t', order = l1 ++ t :: l2 -> In t' l2 -> fin_before_b h t' t = false) ->
  rt_check h order = true.
Proof.
  induction order as [|t r IH]; intros H; [reflexivity|]. cbn [rt_check]. apply andb_true_intro. split.
  - apply forallb_forall. intros t' Ht'. rewrite (H [] t r t' eq_refl Ht'). reflexivity.
  - apply IH. intros l1 t0 l2 t' E Ht'. apply (H (t :: l1) t0 l2 t'); [rewrite E; reflexivity|exact Ht'].
Qed.

Lemma begin_order_split : forall h l1 t l2, begin_order h = l1 ++ t :: l2 ->
  exists h1 e h2, h = h1 ++ e :: h2 /\ h_tx e = t /\ begin_order h2 = l2.
Proof.
  induction h as [|e h IH]; intros l1 t l2 H; cbn [begin_order] in H; [destruct l1; discriminate|].
  destruct (h_call e) eqn:Ec;
    try (destruct (IH _ _ _ H) as (h1 & e' & h2 & A & B & C); exists (e :: h1), e', h2; rewrite A; auto).
  destruct l1 as [|a l1]; cbn [app] in H; inversion H; subst.
  - exists [], e, h. auto.
  - destruct (IH _ _ _ H2) as (h1 & e' & h2 & A & B & C). exists (e :: h1), e', h2. rewrite A. auto.
Qed.

Lemma inc_app_lt : forall h1 e h2 e', inc (h1 ++ e :: h2) -> In e' h2 -> h_inv e < h_inv e'.
Proof.
  induction h1 as [|a h1 IH]; intros e h2 e' H He'; cbn [app inc] in H.
  - destruct H as [H _]. apply H. exact He'.
  - destruct H as [_ H]. eapply IH; eauto.
Qed.

Lemma rt_check_inc : forall h,
  inc h -> (forall e, In e h -> h_ret e = h_inv e) -> rt_check h (begin_order h) = true.
Proof.
  intros h Hi Hst. apply rt_check_intro. intros l1 t l2 t' E Ht'.
  destruct (fin_before_b h t' t) eqn:F; [|reflexivity]. exfalso.
  apply fin_before_b_sound in F.
  destruct (begin_order_split _ _ _ _ E) as (h1 & e & h2 & A & B & C).
  rewrite <- C in Ht'. destruct (begin_order_ev _ _ Ht') as (e' & m & A' & B' & _).
  assert (Hin : In e h) by (rewrite A; apply in_mid; left; reflexivity).
  assert (Hin' : In e' h) by (rewrite A; apply in_mid; right; right; exact A').
  pose proof (F e' e Hin' Hin B' B) as Hlt. rewrite (Hst _ Hin') in Hlt.
  rewrite A in Hi. pose proof (inc_app_lt _ _ _ _ Hi A'). lia.
Qed.

Theorem ser_check_complete_lts : forall S0 tr s,
  steps (init S0) tr s -> ser_check S0 (hist_of tr) = true.
Proof.
  intros S0 tr s H. destruct (lts_serial_witness _ _ _ H) as (A & B & _ & D & E).
  unfold ser_check. rewrite (nodupb_complete _ A), D.
  assert (Hst : forall e, In e (hist_of tr) -> h_ret e = h_inv e).
  { intros e He. apply (hist_from_stamps tr 0). exact He. }
  assert (Hrt : rt_check (hist_of tr) (begin_order (hist_of tr)) = true)
    by (apply rt_check_inc; [apply hist_from_inc|exact Hst]).
  rewrite Hrt.
  assert (Hm : forallb (fun e => existsb (Nat.eqb (h_tx e)) (begin_order (hist_of tr))) (hist_of tr) = true).
  { apply forallb_forall. intros e He. apply existsb_eqb_in. apply B. apply in_map. exact He. }
  assert (Hw : wf_check (hist_of tr) = true).
  { unfold wf_check. apply forallb_forall. intros t _. apply seq_ok_b_complete. apply E. }
  rewrite Hm, Hw. reflexivity.
Qed.

Example ex_complete : ser_check [] (hist_of ex_trace) = true.
Proof. destruct ex_trace_runs as (s & H & _). exact (ser_check_complete_lts _ _ _ H). Qed.
