(* Xxhash.v — XXH64 with seed 0 (github.com/cespare/xxhash/v2 Sum64, xxhash_other.go is the
   reference; the assembly versions compute the same function) as executable N arithmetic
   with explicit reduction modulo 2^64. Model only. *)
From KV Require Export Bytes.
Open Scope N_scope.

Definition M64 : N := 18446744073709551616.
(* reduction modulo 2^64, computed as a mask (N.land_ones: land x (ones 64) = x mod 2^64) *)
Definition w64 (x : N) : N := N.land x 18446744073709551615.

Definition xp1 : N := 11400714785074694791.
Definition xp2 : N := 14029467366897019727.
Definition xp3 : N := 1609587929392839161.
Definition xp4 : N := 9650029242287828579.
Definition xp5 : N := 2870177450012600261.

(* bits.RotateLeft64 for x < 2^64, 0 < r < 64 *)
Definition rol (r x : N) : N := N.lor (w64 (N.shiftl x r)) (N.shiftr x (64 - r)).

Definition xround (acc inp : N) : N := w64 (rol 31 (w64 (acc + inp * xp2)) * xp1).
Definition xmerge (acc v : N) : N := w64 (N.lxor acc (xround 0 v) * xp1 + xp4).

(* little-endian word of the first n bytes, and the rest; None if fewer than n bytes *)
Fixpoint take_le (n : nat) (b : bytes) : option (N * bytes) :=
  match n with
  | O => Some (0, b)
  | S m => match b with
           | [] => None
           | x :: r => match take_le m r with
                       | Some (v, r') => Some (x + 256 * v, r')
                       | None => None
                       end
           end
  end.

(* the 32-byte stripes; fuel = number of bytes is enough *)
Fixpoint xstripes (fuel : nat) (b : bytes) (v1 v2 v3 v4 : N) : N * N * N * N * bytes :=
  match fuel with
  | O => (v1, v2, v3, v4, b)
  | S f =>
    match take_le 8 b with
    | Some (a1, r1) =>
      match take_le 8 r1 with
      | Some (a2, r2) =>
        match take_le 8 r2 with
        | Some (a3, r3) =>
          match take_le 8 r3 with
          | Some (a4, r4) => xstripes f r4 (xround v1 a1) (xround v2 a2) (xround v3 a3) (xround v4 a4)
          | None => (v1, v2, v3, v4, b)
          end
        | None => (v1, v2, v3, v4, b)
        end
      | None => (v1, v2, v3, v4, b)
      end
    | None => (v1, v2, v3, v4, b)
    end
  end.

Fixpoint xtail8 (fuel : nat) (b : bytes) (h : N) : N * bytes :=
  match fuel with
  | O => (h, b)
  | S f => match take_le 8 b with
           | Some (k, r) => xtail8 f r (w64 (rol 27 (N.lxor h (xround 0 k)) * xp1 + xp4))
           | None => (h, b)
           end
  end.

Definition xtail4 (b : bytes) (h : N) : N * bytes :=
  match take_le 4 b with
  | Some (k, r) => (w64 (rol 23 (N.lxor h (w64 (k * xp1))) * xp2 + xp3), r)
  | None => (h, b)
  end.

Fixpoint xtail1 (b : bytes) (h : N) : N :=
  match b with
  | [] => h
  | x :: r => xtail1 r (w64 (rol 11 (N.lxor h (w64 (x * xp5))) * xp1))
  end.

Definition xavalanche (h : N) : N :=
  let h := N.lxor h (N.shiftr h 33) in
  let h := w64 (h * xp2) in
  let h := N.lxor h (N.shiftr h 29) in
  let h := w64 (h * xp3) in
  w64 (N.lxor h (N.shiftr h 32)).

Definition xxh64 (b : bytes) : N :=
  let n := length b in
  let '(h, rest) :=
    if Nat.leb 32 n then
      let '(v1, v2, v3, v4, r) := xstripes n b (w64 (xp1 + xp2)) xp2 0 (w64 (M64 - xp1)) in
      let h := w64 (rol 1 v1 + rol 7 v2 + rol 12 v3 + rol 18 v4) in
      (xmerge (xmerge (xmerge (xmerge h v1) v2) v3) v4, r)
    else (xp5, b) in
  let h := w64 (h + N.of_nat n) in
  let '(h, rest) := xtail8 4 rest h in
  let '(h, rest) := xtail4 rest h in
  xavalanche (xtail1 rest h).
