(* CompactionBeforeProofs.v — the model of the code BEFORE the fixes (CompactionBefore.v): the
   executor lemmas and the witnesses that refuted C12 then. *)
From Coq Require Import Lia Sorted.
From KV Require MemtableProofs.
From KV Require Import CompactionBefore.
Open Scope N_scope.

(* ---------- byte-string order ---------- *)

Lemma cb_eq : forall a b, bcmp a b = Eq -> a = b.
Proof.
  induction a as [|x a IH]; destruct b as [|y b]; simpl; try discriminate; auto.
  destruct (N.compare x y) eqn:E; try discriminate.
  intro H. apply N.compare_eq in E. subst. f_equal. auto.
Qed.

Lemma cb_refl : forall a, bcmp a a = Eq.
Proof. induction a; simpl; auto. rewrite N.compare_refl. auto. Qed.

Lemma cb_antisym : forall a b, bcmp b a = CompOpp (bcmp a b).
Proof.
  induction a as [|x a IH]; destruct b as [|y b]; simpl; auto.
  rewrite (N.compare_antisym x y). destruct (N.compare x y); simpl; auto.
Qed.

Lemma cb_lt_trans : forall a b c, bcmp a b = Lt -> bcmp b c = Lt -> bcmp a c = Lt.
Proof.
  induction a as [|x a IH]; destruct b as [|y b]; destruct c as [|z c]; simpl; try discriminate; auto.
  destruct (N.compare x y) eqn:E1; try discriminate;
  destruct (N.compare y z) eqn:E2; try discriminate; intros.
  - apply N.compare_eq in E1, E2. subst. rewrite N.compare_refl. eauto.
  - apply N.compare_eq in E1. subst. rewrite E2. auto.
  - apply N.compare_eq in E2. subst. rewrite E1. auto.
  - rewrite N.compare_lt_iff in *. assert (x < z) by lia. rewrite <- N.compare_lt_iff in H1. rewrite H1. auto.
Qed.

Lemma cb_gt_lt : forall a b, bcmp a b = Gt <-> bcmp b a = Lt.
Proof. intros. rewrite (cb_antisym a b). destruct (bcmp a b); simpl; split; congruence. Qed.

Lemma beq_iff : forall a b, beq a b = true <-> a = b.
Proof.
  unfold beq. split; intro H.
  - destruct (bcmp a b) eqn:E; try discriminate. apply cb_eq; auto.
  - subst. rewrite cb_refl. auto.
Qed.

Lemma cb_lt_gt : forall a b, bcmp a b = Lt -> bcmp b a = Gt.
Proof. intros. apply cb_gt_lt. auto. Qed.

Lemma beq_lt_false : forall a b, bcmp a b = Lt -> beq a b = false.
Proof. unfold beq. intros. rewrite H. auto. Qed.
Lemma beq_gt_false : forall a b, bcmp a b = Gt -> beq a b = false.
Proof. unfold beq. intros. rewrite H. auto. Qed.
Lemma beq_sym : forall a b, beq a b = beq b a.
Proof. unfold beq. intros. rewrite (cb_antisym a b). destruct (bcmp a b); auto. Qed.

(* ---------- ascending tables ---------- *)

Definition klt (a b : sentry) : Prop := bcmp (sk a) (sk b) = Lt.
(* strictly ascending by key: sorted, no duplicate keys *)
Definition asc (l : list sentry) : Prop := StronglySorted klt l.

Definition above (p : bytes) (l : list sentry) : Prop := Forall (fun x => bcmp p (sk x) = Lt) l.

Lemma asc_cons_inv : forall x l, asc (x :: l) -> asc l /\ above (sk x) l.
Proof. intros. inversion H; subst. split; auto. Qed.

Lemma asc_cons : forall x l, asc l -> above (sk x) l -> asc (x :: l).
Proof. intros. constructor; auto. Qed.

Lemma above_trans : forall p q l, bcmp p q = Lt -> above q l -> above p l.
Proof.
  unfold above. intros. rewrite Forall_forall in *. intros. eapply cb_lt_trans; eauto.
Qed.

(* the key-equality lookup; on ascending tables it is what the code's seek finds *)
Definition lookup (k : bytes) (l : list sentry) : option sentry := List.find (fun e => beq (sk e) k) l.

Lemma lookup_above : forall k p l, above p l -> bcmp k p <> Gt -> lookup k l = None.
Proof.
  unfold lookup. induction l; simpl; auto. intros. inversion H; subst.
  assert (bcmp k (sk a) = Lt).
  { destruct (bcmp k p) eqn:E; try congruence.
    - apply cb_eq in E. subst. auto.
    - eapply cb_lt_trans; eauto. }
  fold (beq (sk a) k). rewrite beq_sym, (beq_lt_false _ _ H1). auto.
Qed.

Lemma sst_find_lookup : forall k l, asc l -> sst_find k l = lookup k l.
Proof.
  unfold lookup. induction l; simpl; auto. intros. apply asc_cons_inv in H. destruct H.
  unfold beq. destruct (bcmp (sk a) k) eqn:E; auto.
  symmetry. apply (lookup_above k (sk a)); auto.
  apply cb_gt_lt in E. rewrite E. congruence.
Qed.

Lemma lookup_some : forall k l e, lookup k l = Some e -> In e l /\ sk e = k.
Proof.
  unfold lookup. intros. apply find_some in H. destruct H. split; auto. apply beq_iff; auto.
Qed.

Lemma lookup_none : forall k l, lookup k l = None -> forall e, In e l -> sk e <> k.
Proof.
  unfold lookup. intros. intro. eapply find_none in H; eauto. simpl in H.
  subst. rewrite (proj2 (beq_iff _ _) eq_refl) in H. discriminate.
Qed.

Lemma lookup_app : forall k a b,
  lookup k (a ++ b) = match lookup k a with Some e => Some e | None => lookup k b end.
Proof. unfold lookup. induction a; simpl; auto. intros. destruct (beq (sk a) k); auto. Qed.

(* first source that holds the key: the precedence rule of a list of tables *)
Fixpoint first_hit (k : bytes) (ts : list (list sentry)) : option sentry :=
  match ts with
  | [] => None
  | t :: r => match lookup k t with Some e => Some e | None => first_hit k r end
  end.

Lemma first_hit_app : forall k a b,
  first_hit k (a ++ b) = match first_hit k a with Some e => Some e | None => first_hit k b end.
Proof. induction a; simpl; auto. intros. destruct (lookup k a); auto. Qed.

Lemma first_hit_concat : forall k ts, asc (concat ts) -> first_hit k ts = lookup k (concat ts).
Proof. induction ts; simpl; auto. intros. rewrite lookup_app. destruct (lookup k a); auto.
  apply IHts. clear - H. induction a; simpl in *; auto. apply asc_cons_inv in H. tauto.
Qed.

Definition has (k : bytes) (t : list sentry) : bool :=
  match lookup k t with Some _ => true | None => false end.

Lemma first_hit_filter : forall k ts, first_hit k (filter (has k) ts) = first_hit k ts.
Proof.
  induction ts; simpl; auto. unfold has at 1. destruct (lookup k a) eqn:E; simpl; rewrite ?E; auto.
Qed.

(* ---------- HierarchicalIterator ---------- *)

Lemma drop_le_above : forall p l, asc l -> above p (drop_le p l).
Proof.
  induction l; simpl; intros. constructor.
  apply asc_cons_inv in H. destruct H.
  destruct (bcmp (sk a) p) eqn:E; auto.
  apply cb_gt_lt in E. constructor; auto. eapply above_trans; eauto.
Qed.

Lemma drop_le_asc : forall p l, asc l -> asc (drop_le p l).
Proof.
  induction l; simpl; intros; auto. destruct (bcmp (sk a) p); auto; apply IHl; apply asc_cons_inv in H; tauto.
Qed.

Lemma drop_le_incl : forall p l x, In x (drop_le p l) -> In x l.
Proof. induction l; simpl; auto. intros. destruct (bcmp (sk a) p); auto. Qed.

Lemma drop_le_length : forall p l, (length (drop_le p l) <= length l)%nat.
Proof. induction l; simpl; auto. destruct (bcmp (sk a) p); simpl; lia. Qed.

(* dropping keys <= p does not disturb the lookup of a larger key *)
Lemma drop_le_lookup : forall p k l, bcmp p k = Lt -> lookup k (drop_le p l) = lookup k l.
Proof.
  unfold lookup. induction l; simpl; auto. intros.
  destruct (bcmp (sk a) p) eqn:E; auto.
  - apply cb_eq in E. rewrite E, (beq_lt_false _ _ H). auto.
  - rewrite (beq_lt_false (sk a) k); auto. eapply cb_lt_trans; eauto.
Qed.

Lemma drop_le_head_length : forall e l, (length (drop_le (sk e) (e :: l)) <= length l)%nat.
Proof. intros. simpl. rewrite cb_refl. apply drop_le_length. Qed.

(* characterisation of best_head *)
Lemma best_head_none : forall srcs, best_head srcs = None -> concat srcs = [].
Proof.
  induction srcs; simpl; auto. destruct a; simpl; auto.
  destruct (best_head srcs); try discriminate. destruct (bcmp (sk s0) (sk s)); discriminate.
Qed.

(* the chosen entry heads some source; sources before it start above its key, all entries of
   all sources are at or above it *)
Lemma best_head_some : forall srcs e, Forall asc srcs -> best_head srcs = Some e ->
  first_hit (sk e) srcs = Some e /\
  (forall x, In x (concat srcs) -> bcmp (sk x) (sk e) <> Lt) /\
  In e (concat srcs).
Proof.
  induction srcs as [|s r IH]; simpl; try discriminate. intros e Hs H.
  inversion Hs as [|? ? Hs1 Hs2]; subst.
  destruct s as [|x s'].
  - destruct (IH _ Hs2 H) as (A & B & C). simpl. auto.
  - apply asc_cons_inv in Hs1. destruct Hs1 as [Hs1 Hab].
    assert (Hx : forall y, In y (x :: s') -> bcmp (sk y) (sk x) <> Lt).
    { intros y [->|Hy]. rewrite cb_refl. congruence.
      unfold above in Hab. rewrite Forall_forall in Hab. apply Hab in Hy. apply cb_gt_lt in Hy. congruence. }
    destruct (best_head r) as [y|] eqn:Er.
    + destruct (IH _ Hs2 eq_refl) as (A & B & C).
      destruct (bcmp (sk y) (sk x)) eqn:E; inversion H; subst; clear H.
      * (* equal keys: the earlier source wins *)
        split; [|split].
        -- unfold lookup. simpl. rewrite (proj2 (beq_iff _ _) eq_refl). auto.
        -- intros z Hz. rewrite in_app_iff in Hz. destruct Hz; auto.
           apply B in H. apply cb_eq in E. rewrite <- E. auto.
        -- simpl. auto.
      * (* y strictly smaller *)
        split; [|split].
        -- rewrite (lookup_above (sk e) (sk e)); auto.
           ++ constructor; auto. eapply above_trans; eauto.
           ++ rewrite cb_refl. congruence.
        -- intros z Hz. rewrite in_app_iff in Hz. destruct Hz; auto.
           apply Hx in H. intro. apply H. eapply cb_lt_trans; eauto.
        -- simpl. right. apply in_or_app. auto.
      * split; [|split].
        -- unfold lookup. simpl. rewrite (proj2 (beq_iff _ _) eq_refl). auto.
        -- intros z Hz. rewrite in_app_iff in Hz. destruct Hz; auto.
           apply B in H. apply cb_gt_lt in E. intro. apply H. eapply cb_lt_trans; eauto.
        -- simpl. auto.
    + inversion H; subst. split; [|split].
      * unfold lookup. simpl. rewrite (proj2 (beq_iff _ _) eq_refl). auto.
      * intros z Hz. rewrite in_app_iff in Hz. destruct Hz; auto.
        apply best_head_none in Er. rewrite Er in H0. destruct H0.
      * simpl. auto.
Qed.

Lemma first_hit_drop : forall p k srcs, bcmp p k = Lt ->
  first_hit k (map (drop_le p) srcs) = first_hit k srcs.
Proof. induction srcs; simpl; auto. intros. rewrite drop_le_lookup, IHsrcs; auto. Qed.

Lemma first_hit_none_below : forall k srcs,
  (forall x, In x (concat srcs) -> bcmp (sk x) k = Gt) -> first_hit k srcs = None.
Proof.
  induction srcs; simpl; auto. intros.
  destruct (lookup k a) eqn:E.
  - apply lookup_some in E. destruct E. specialize (H s). rewrite H1, cb_refl in H.
    assert (Eq = Gt) by (apply H; apply in_or_app; auto). discriminate.
  - apply IHsrcs. intros. apply H. apply in_or_app. auto.
Qed.

Lemma drop_le_shorter : forall e a, asc a -> In e a -> (length (drop_le (sk e) a) < length a)%nat.
Proof.
  induction a; simpl. tauto. intros Ha [->|H].
  - rewrite cb_refl. pose proof (drop_le_length (sk e) a0). lia.
  - apply asc_cons_inv in Ha. destruct Ha as [Ha Hb].
    unfold above in Hb. rewrite Forall_forall in Hb. rewrite (Hb _ H).
    specialize (IHa Ha H). lia.
Qed.

Lemma concat_drop_length : forall e srcs, Forall asc srcs -> In e (concat srcs) ->
  (length (concat (map (drop_le (sk e)) srcs)) < length (concat srcs))%nat.
Proof.
  induction srcs; simpl. tauto. intros Hs H. inversion Hs; subst.
  rewrite !app_length. rewrite in_app_iff in H.
  assert (L : (length (concat (map (drop_le (sk e)) srcs)) <= length (concat srcs))%nat).
  { clear. induction srcs; simpl; auto. rewrite !app_length. pose proof (drop_le_length (sk e) a). lia. }
  destruct H.
  - pose proof (drop_le_shorter e a H2 H). lia.
  - apply IHsrcs in H; auto. pose proof (drop_le_length (sk e) a). lia.
Qed.

(* what the merged stream is: ascending, made of input entries, and for every key the entry of
   the FIRST source that holds the key *)
Lemma merge_loop_spec : forall fuel srcs, Forall asc srcs ->
  (length (concat srcs) < fuel)%nat ->
  asc (merge_loop fuel srcs) /\
  (forall x, In x (merge_loop fuel srcs) -> In x (concat srcs)) /\
  (forall k, lookup k (merge_loop fuel srcs) = first_hit k srcs).
Proof.
  induction fuel; intros srcs Hs Hf. lia.
  simpl. destruct (best_head srcs) as [e|] eqn:E.
  - destruct (best_head_some _ _ Hs E) as (A & B & C).
    assert (Hs' : Forall asc (map (drop_le (sk e)) srcs)).
    { rewrite Forall_forall in *. intros x Hx. apply in_map_iff in Hx. destruct Hx as (y & <- & Hy).
      apply drop_le_asc; auto. }
    assert (Hf' : (length (concat (map (drop_le (sk e)) srcs)) < fuel)%nat).
    { pose proof (concat_drop_length e srcs Hs C). lia. }
    destruct (IHfuel _ Hs' Hf') as (I1 & I2 & I3).
    assert (Hin : forall x, In x (concat (map (drop_le (sk e)) srcs)) -> In x (concat srcs) /\ bcmp (sk e) (sk x) = Lt).
    { intros x Hx. apply in_concat in Hx. destruct Hx as (l & Hl & Hx).
      apply in_map_iff in Hl. destruct Hl as (l0 & <- & Hl0).
      split.
      - apply in_concat. exists l0. split; auto. eapply drop_le_incl; eauto.
      - assert (asc l0) by (rewrite Forall_forall in Hs; auto).
        pose proof (drop_le_above (sk e) l0 H). unfold above in H0. rewrite Forall_forall in H0. auto. }
    split; [|split].
    + apply asc_cons; auto. unfold above. rewrite Forall_forall. intros x Hx.
      apply I2 in Hx. apply Hin in Hx. tauto.
    + intros x [->|Hx]; auto. apply I2 in Hx. apply Hin in Hx. tauto.
    + intro k. unfold lookup. simpl. fold (lookup k (merge_loop fuel (map (drop_le (sk e)) srcs))).
      destruct (bcmp (sk e) k) eqn:Ek.
      * apply cb_eq in Ek. subst. rewrite (proj2 (beq_iff _ _) eq_refl). auto.
      * rewrite (beq_lt_false _ _ Ek). rewrite I3. apply first_hit_drop; auto.
      * rewrite (beq_gt_false _ _ Ek). rewrite I3.
        rewrite first_hit_none_below. symmetry. apply first_hit_none_below.
        -- intros x Hx. apply B in Hx. apply cb_gt_lt in Ek.
           destruct (bcmp (sk x) k) eqn:E2; auto.
           ++ apply cb_eq in E2. subst. congruence.
           ++ exfalso. apply Hx. eapply cb_lt_trans; eauto.
        -- intros x Hx. apply Hin in Hx. destruct Hx. apply cb_gt_lt in Ek. apply cb_gt_lt.
           eapply cb_lt_trans; eauto.
  - apply best_head_none in E. split; [constructor|split]. simpl; tauto.
    intro k. unfold lookup. simpl. symmetry.
    clear - E. induction srcs; simpl in *; auto. apply app_eq_nil in E. destruct E. subst. simpl. auto.
Qed.

Theorem merge_spec : forall srcs, Forall asc srcs ->
  asc (merge srcs) /\
  (forall x, In x (merge srcs) -> In x (concat srcs)) /\
  (forall k, lookup k (merge srcs) = first_hit k srcs).
Proof. intros. unfold merge. apply merge_loop_spec; auto. Qed.

(* ---------- CompactFiles ---------- *)

(* the executor's decision per merged entry *)
Definition keptf (keep : bytes -> bool) (e : sentry) : bool :=
  if is_tomb e then keep (sk e) else true.

Lemma exec_loop_concat : forall keep max merged last cur n outs outs' cur',
  asc merged ->
  match last with Some l => above l merged | None => True end ->
  exec_loop keep max merged last cur n outs = (outs', cur') ->
  concat outs' ++ cur' = concat outs ++ cur ++ map zero_seq (filter (keptf keep) merged).
Proof.
  induction merged as [|e r IH]; simpl; intros last cur n outs outs' cur' Ha Hl H.
  - inversion H; subst. rewrite app_nil_r. auto.
  - apply asc_cons_inv in Ha. destruct Ha as [Ha Hab].
    assert (Hskip : match last with Some l => beq (sk e) l | None => false end = false).
    { destruct last; auto. inversion Hl; subst. rewrite beq_sym. apply beq_lt_false; auto. }
    rewrite Hskip in H. unfold keptf at 1.
    destruct (if is_tomb e then keep (sk e) else true) eqn:K;
      destruct (max <=? _) eqn:M; apply IH in H; auto; rewrite H; simpl;
        rewrite ?concat_app; simpl; rewrite ?app_nil_r, <- ?app_assoc; simpl; auto.
Qed.

Definition chunk_ok (max : N) (o : list sentry) : Prop := o <> [] /\ N.of_nat (length o) <= max.

Lemma exec_loop_chunks : forall keep max merged last cur n outs outs' cur',
  1 <= max -> n = N.of_nat (length cur) -> n < max -> Forall (chunk_ok max) outs ->
  exec_loop keep max merged last cur n outs = (outs', cur') ->
  Forall (chunk_ok max) outs' /\ N.of_nat (length cur') < max.
Proof.
  induction merged as [|e r IH]; simpl; intros last cur n outs outs' cur' Hm Hn Hlt Ho H.
  - inversion H; subst. auto.
  - destruct (match last with Some l => beq (sk e) l | None => false end).
    { eapply IH; eauto. }
    destruct (if is_tomb e then keep (sk e) else true) eqn:K.
    + destruct (max <=? n + 1) eqn:M.
      * apply N.leb_le in M. eapply IH in H; eauto; simpl; try lia.
        apply Forall_app. split; auto. constructor; auto. split.
        -- destruct cur; simpl; discriminate.
        -- rewrite app_length. simpl. lia.
      * apply N.leb_gt in M. eapply IH in H; eauto. rewrite app_length. simpl. lia.
    + destruct (max <=? n) eqn:M.
      * apply N.leb_le in M. lia.
      * eapply IH in H; eauto.
Qed.

Lemma filter_asc : forall f l, asc l -> asc (filter f l).
Proof.
  induction l; simpl; auto. intros. apply asc_cons_inv in H. destruct H.
  destruct (f a); auto. apply asc_cons; auto.
  unfold above in *. rewrite Forall_forall in *. intros. apply H0. apply filter_In in H1. tauto.
Qed.

Lemma map_zero_asc : forall l, asc l -> asc (map zero_seq l).
Proof.
  induction l; simpl; auto. intros. apply asc_cons_inv in H. destruct H.
  apply asc_cons; auto. unfold above in *. rewrite Forall_forall in *. intros.
  apply in_map_iff in H1. destruct H1 as (y & <- & Hy). simpl. auto.
Qed.

Lemma lookup_kept : forall f k l, asc l ->
  lookup k (map zero_seq (filter f l)) =
  match lookup k l with Some e => if f e then Some (zero_seq e) else None | None => None end.
Proof.
  unfold lookup. induction l; simpl; auto. intros. apply asc_cons_inv in H. destruct H.
  destruct (beq (sk a) k) eqn:E.
  - destruct (f a); simpl; rewrite ?E; auto.
    apply beq_iff in E. subst.
    apply (lookup_above (sk a) (sk a)).
    + apply map_zero_asc in H. pose proof (filter_asc f l).
      unfold above in *. rewrite Forall_forall in *. intros x Hx.
      apply in_map_iff in Hx. destruct Hx as (y & <- & Hy). simpl. apply H0.
      apply filter_In in Hy. tauto.
    + rewrite cb_refl. congruence.
  - destruct (f a); simpl; rewrite ?E; auto.
Qed.

Theorem exec_outputs_concat : forall keep max srcs, Forall asc srcs ->
  concat (exec_outputs keep max srcs) = map zero_seq (filter (keptf keep) (merge srcs)).
Proof.
  intros. unfold exec_outputs.
  destruct (exec_loop keep max (merge srcs) None [] 0 []) as [outs cur] eqn:E.
  apply exec_loop_concat in E; simpl; auto.
  - simpl in E. rewrite <- E. destruct cur; rewrite ?app_nil_r; auto.
    rewrite concat_app. simpl. rewrite app_nil_r. auto.
  - apply merge_spec; auto.
Qed.

(* outputs: strictly ascending across all files of the task, hence no duplicate keys *)
Theorem exec_outputs_sorted : forall keep max srcs, Forall asc srcs ->
  asc (concat (exec_outputs keep max srcs)).
Proof.
  intros. rewrite exec_outputs_concat; auto. apply map_zero_asc, filter_asc, merge_spec; auto.
Qed.

(* every output file is non-empty and holds at most SSTableMaxSize entries *)
Theorem exec_outputs_chunks : forall keep max srcs, 1 <= max ->
  Forall (chunk_ok max) (exec_outputs keep max srcs).
Proof.
  intros. unfold exec_outputs.
  destruct (exec_loop keep max (merge srcs) None [] 0 []) as [outs cur] eqn:E.
  apply exec_loop_chunks in E; auto; try lia. destruct E.
  destruct cur; auto. apply Forall_app. split; auto. constructor; auto.
  split. discriminate. lia.
Qed.

(* what a key reads as in the outputs: the entry of the FIRST source holding the key, with
   sequence number 0 — unless it is a deletion marker the filter rejects *)
Theorem exec_outputs_lookup : forall keep max srcs k, Forall asc srcs ->
  first_hit k (exec_outputs keep max srcs) =
  match first_hit k srcs with
  | Some e => if keptf keep e then Some (zero_seq e) else None
  | None => None
  end.
Proof.
  intros. rewrite first_hit_concat by (apply exec_outputs_sorted; auto).
  rewrite exec_outputs_concat; auto.
  destruct (merge_spec srcs H) as (A & B & C).
  rewrite lookup_kept; auto. rewrite C. auto.
Qed.

(* ---------- content preservation under a precedence order ---------- *)

(* what a key reads as when the tables are consulted in the given order (first = first
   consulted) and the first table holding the key decides; a deletion marker reads as absent *)
Definition read (ts : list (list sentry)) (k : bytes) : option bytes :=
  match first_hit k ts with Some e => sval e | None => None end.

(* Replacing the inputs of a compaction by its outputs does not change what a key reads as,
   under ANY precedence order on the tables, provided that for this key
   (1) among the tables holding the key, the inputs holding it are adjacent in precedence and
       the executor lists them in precedence order (A, B: the tables before / after them),
   (2) the outputs take their place,
   (3) a deletion marker is dropped only if nothing behind it (B) would resurface. *)
Theorem view_preserved : forall keep max k (prec prec' ins A B : list (list sentry)),
  Forall asc ins ->
  filter (has k) prec = A ++ filter (has k) ins ++ B ->
  filter (has k) prec' = A ++ filter (has k) (exec_outputs keep max ins) ++ B ->
  (forall e, first_hit k ins = Some e -> keptf keep e = false -> read B k = None) ->
  read prec' k = read prec k.
Proof.
  intros keep max k prec prec' ins A B Hs H1 H2 H3. unfold read.
  rewrite <- (first_hit_filter k prec), <- (first_hit_filter k prec'), H1, H2.
  rewrite !first_hit_app, !first_hit_filter.
  destruct (first_hit k A); auto.
  rewrite exec_outputs_lookup; auto.
  destruct (first_hit k ins) as [e|] eqn:E; auto.
  destruct (keptf keep e) eqn:K; auto.
  specialize (H3 e eq_refl K). unfold read in H3.
  unfold keptf in K. destruct e as [ek eq ev]. unfold is_tomb in K. simpl in *.
  destruct ev; try discriminate. auto.
Qed.

(* the guard "the key occurs in at most one input": condition (1) is then about position only *)
Corollary view_preserved_single : forall keep max k (prec prec' ins A B : list (list sentry)) t,
  Forall asc ins ->
  filter (has k) ins = [t] ->
  filter (has k) prec = A ++ [t] ++ B ->
  filter (has k) prec' = A ++ filter (has k) (exec_outputs keep max ins) ++ B ->
  (forall e, lookup k t = Some e -> keptf keep e = false -> read B k = None) ->
  read prec' k = read prec k.
Proof.
  intros. eapply view_preserved with (ins := ins); eauto.
  - rewrite H0. auto.
  - intros e He. apply H3. rewrite <- first_hit_filter, H0 in He. simpl in He.
    destruct (lookup k t); auto.
Qed.

(* the storage manager's Get over tables, in terms of [read] *)
Lemma ssts_get_read : forall k tables, Forall (fun t => asc (s_entries t)) tables ->
  match ssts_get k tables with Some (Some v) => Some v | _ => None end =
  read (map s_entries tables) k.
Proof.
  unfold read. induction tables; simpl; auto. intros. inversion H; subst.
  rewrite sst_find_lookup; auto. destruct (lookup k (s_entries a)).
  - destruct (sval s); auto.
  - apply IHtables; auto.
Qed.

(* ---------- the tombstone tracker ---------- *)

Lemma keep_of_in : forall tr k, In k tr -> keep_of tr k = true.
Proof.
  unfold keep_of. intros. apply existsb_exists. exists k. split; auto. apply beq_iff. auto.
Qed.

Definition no_reopen (o : cop) : Prop := match o with CReopen _ => False | _ => True end.

Lemma tracked_mono : forall o s k, no_reopen o -> In k (tracked s) -> In k (tracked (cstep s o)).
Proof.
  destruct o; simpl; intros s0 k0 Hn Hin; auto; try tauto.
  - unfold cput. destruct (put (eng s0) k v). auto.
  - unfold cdel. destruct (del (eng s0) k). simpl. destruct (is_ok w); simpl; auto.
  - unfold cbatch. destruct (apply_batch (eng s0) ops). simpl. destruct (is_ok w); auto.
    apply in_or_app. auto.
  - unfold ccommit. destruct (tx_commit (eng s0) ops). auto.
  - unfold cfull. destruct (pending (eng s0)); simpl; auto.
  - unfold ctrigger. destruct (select _ _ _); auto.
  - unfold crange. destruct (select_range _ _ _); auto.
Qed.

(* a key deleted through EngineFacade.Delete keeps its deletion marker in every compaction of
   the same process *)
Theorem tombstone_tracked : forall ops s k r s',
  cdel s k = (s', r) -> is_ok r = true -> Forall no_reopen ops ->
  keep_of (tracked (fold_left cstep ops s')) k = true.
Proof.
  intros. apply keep_of_in.
  assert (In k (tracked s')).
  { unfold cdel in H. destruct (del (eng s) k). inversion H; subst. simpl. rewrite H0. simpl. auto. }
  clear H. revert s' H2. induction H1; simpl; auto. intros. apply IHForall. apply tracked_mono; auto.
Qed.

(* ---------- the running engine never sees a compaction ---------- *)

Theorem live_reads_unaffected : forall s z lo hi k,
  cget (ctrigger s z) k = cget s k /\ cget (crange s lo hi z) k = cget s k.
Proof.
  intros. unfold cget, ctrigger, crange. split.
  - destruct (select _ _ _); auto.
  - destruct (select_range _ _ _); auto.
Qed.

(* ---------- the property at system level, and what the model of the pinned code says ---------- *)

(* C12, last sentence: the database reopened on the compacted files, also after the flushed
   log files were retired, reads the same as before — for every program. [cfull] makes sure
   every acknowledged write is in an SSTable (the precondition of retiring the log). The
   hypothesis excludes a recovery that ran out of memtable budget (C02's subject). *)
Definition C12_reopen_statement : Prop :=
  forall c k ops sizes key,
    let s := crun c k ops in
    lost_log (eng s) = false ->
    cget (creopen s false) key = cget s key /\
    cget (creopen (cfull s sizes) true) key = cget s key.

(* C12, first sentence, for one compaction step on a database whose log is retired: what the
   files read as (to a database opened on them alone) is not changed by the compaction *)
Definition C12_merge_statement : Prop :=
  forall c k ops sizes key,
    let s := crun c k ops in
    disk_read (ctrigger s sizes) key = disk_read s key.

(* C12, deletion clause, as a rule on the filter: a deletion marker that is the newest version
   among the inputs is kept whenever some file outside the inputs still holds the key *)
Definition C12_tombstone_safe_statement : Prop :=
  forall c k ops t key e f,
    let s := crun c k ops in
    select (c_maxmem (cfg (eng s))) (cc s) (disk s) = Some t ->
    first_hit key (task_sources t) = Some e -> is_tomb e = true ->
    In f (remove_files (t_inputs t) (disk s)) -> has key (d_entries f) = true ->
    keep_of (tracked s) key = true.

Definition kx : bytes := [120].   (* "x" *)
Definition ka : bytes := [97].
Definition kb : bytes := [98].
Definition cfg2 : config := mkCfg 100000 2.
Definition cfg8 : config := mkCfg 100000 8.
Definition cc_off : ccfg := mkCC 1000000 1000000.

(* (a) two level-0 files hold x; the L0->L1 task lists them oldest first, the first source wins *)
Definition w_two_l0 : list cop := [CPut kx [1]; CFull []; CPut kx [2]; CFull []; CTrigger []].
(* (d) delete after a restart: tracker empty, marker dropped, x=1 still in the level-1 file *)
Definition w_tomb_restart : list cop :=
  [CPut kx [1]; CFull []; CRange kx kx []; CPut ka [2]; CDel kx; CFull []; CReopen false; CRange ka ka []].
(* (d) delete committed by a transaction is never tracked; target level 1 <= MaxLevelWithTombstones *)
Definition w_tomb_tx : list cop :=
  [CPut kx [1]; CFull []; CRange kx kx []; CRange kx kx []; CCommit [(kx, None); (ka, Some [2])];
   CFull []; CPut kb [3]; CFull []; CTrigger []].
(* (c) the level-1 output sorts after (is consulted before) the newer level-0 file *)
Definition w_deeper : list cop := [CPut kx [1]; CFull []; CRange kx kx []; CPut kx [2]].
(* no compaction at all: file numbers restart at 1 on every open *)
Definition w_numbers : list cop :=
  [CPut kx [1]; CFull []; CPut kx [2]; CFull []; CReopen true; CPut kx [3]].

Theorem reopen_refuted_two_l0 :
  let s := crun cfg2 cc_off w_two_l0 in
  lost_log (eng s) = false /\ cget s kx = Some [2] /\ cget (creopen (cfull s []) true) kx = Some [1].
Proof. vm_compute. auto. Qed.

Theorem reopen_refuted_tomb_restart :
  let s := crun cfg2 cc_off w_tomb_restart in
  lost_log (eng s) = false /\ cget s kx = None /\ cget (creopen (cfull s []) true) kx = Some [1].
Proof. vm_compute. auto. Qed.

Theorem reopen_refuted_tomb_tx :
  let s := crun cfg2 cc_off w_tomb_tx in
  lost_log (eng s) = false /\ cget s kx = None /\ cget (creopen (cfull s []) true) kx = Some [1].
Proof. vm_compute. auto. Qed.

Theorem reopen_refuted_deeper :
  let s := crun cfg2 cc_off w_deeper in
  lost_log (eng s) = false /\ cget s kx = Some [2] /\ cget (creopen (cfull s []) true) kx = Some [1].
Proof. vm_compute. auto. Qed.

Theorem reopen_refuted_numbers :
  let s := crun cfg8 cc_off w_numbers in
  lost_log (eng s) = false /\ cget s kx = Some [3] /\ cget (creopen (cfull s []) true) kx = Some [2].
Proof. vm_compute. auto. Qed.

Theorem reopen_refuted : ~ C12_reopen_statement.
Proof.
  intro H. specialize (H cfg2 cc_off w_two_l0 [] kx).
  destruct reopen_refuted_two_l0 as (A & B & C). destruct (H A) as [_ H2].
  rewrite B, C in H2. discriminate.
Qed.

(* the merge itself: two level-0 tables, the one flushed later (timestamp 1) holds x=2, the
   strategy selects both, the output holds x=1 *)
Definition two_l0_dir : list dfile :=
  [mkD (mkSst 0 1 0 [mkS kx 1 (Some [1])]) 0; mkD (mkSst 0 2 1 [mkS kx 2 (Some [2])]) 0].

Theorem merge_refuted :
  exists t, select 2 cc_off two_l0_dir = Some t /\
            t_inputs t = two_l0_dir /\
            exec_outputs (fun _ => false) 1000000 (task_sources t) = [[mkS kx 0 (Some [1])]].
Proof. eexists. vm_compute. auto. Qed.

(* on a database opened on the files alone: a compaction cycle changes what x reads as *)
Definition w_merge : list cop :=
  [CPut kx [1]; CFull []; CPut kx [2]; CFull []; CReopen true].
Theorem merge_statement_refuted : ~ C12_merge_statement.
Proof.
  intro H. specialize (H cfg2 cc_off w_merge [] kx). vm_compute in H. discriminate.
Qed.

(* the state before the last compaction of w_tomb_tx *)
Definition w_tomb_pre : list cop :=
  [CPut kx [1]; CFull []; CRange kx kx []; CRange kx kx []; CCommit [(kx, None); (ka, Some [2])];
   CFull []; CPut kb [3]; CFull []].

Definition w_tomb_task : task :=
  mkT [mkD (mkSst 0 2 3 [mkS ka 2 (Some [2]); mkS kx 2 None]) 0;
       mkD (mkSst 0 3 4 [mkS ka 2 (Some [2]); mkS kb 3 (Some [3]); mkS kx 2 None]) 0] 1.
Definition w_tomb_older : dfile := mkD (mkSst 2 1 2 [mkS kx 0 (Some [1])]) 0.

(* the L0->L1 task merges the deletion marker of x (committed by a transaction, hence unknown
   to the tracker) although x=1 lives in a level-2 file outside the inputs: the rule says drop *)
Lemma tomb_w_select :
  select (c_maxmem (cfg (eng (crun cfg2 cc_off w_tomb_pre)))) (cc (crun cfg2 cc_off w_tomb_pre))
         (disk (crun cfg2 cc_off w_tomb_pre)) = Some w_tomb_task.
Proof. vm_compute. reflexivity. Qed.
Lemma tomb_w_first : first_hit kx (task_sources w_tomb_task) = Some (mkS kx 2 None).
Proof. vm_compute. reflexivity. Qed.
Lemma tomb_w_outside :
  In w_tomb_older (remove_files (t_inputs w_tomb_task) (disk (crun cfg2 cc_off w_tomb_pre))).
Proof. vm_compute. left. reflexivity. Qed.
Lemma tomb_w_has : has kx (d_entries w_tomb_older) = true.
Proof. vm_compute. reflexivity. Qed.
Lemma tomb_w_keep : keep_of (tracked (crun cfg2 cc_off w_tomb_pre)) kx = false.
Proof. vm_compute. reflexivity. Qed.

Theorem tombstone_safe_refuted : ~ C12_tombstone_safe_statement.
Proof.
  intro H.
  specialize (H cfg2 cc_off w_tomb_pre w_tomb_task kx _ w_tomb_older
                tomb_w_select tomb_w_first eq_refl tomb_w_outside tomb_w_has).
  cbv zeta in H. rewrite tomb_w_keep in H. discriminate.
Qed.

(* file numbers restart at 1 after a reopen: the L0->L1 cycle takes the NEW 0_000001 and the old
   0_000002 and leaves the old 0_000003 in level 0; the next (range) compaction lists level 0
   before level 1, so the stale x=1 of the left-behind file beats the newer x=2 of level 1 *)
Definition w_shallower : list cop :=
  [CPut ka [0]; CFull []; CRange ka ka []; CPut kx [1]; CFull []; CFull []; CReopen true;
   CPut kx [2]; CFull []; CTrigger []].

Theorem refuted_shallower_older :
  let s0 := crun cfg2 cc_off w_shallower in
  let s := crange s0 kx kx [] in
  map (fun f => (d_level f, d_entries f)) (dsort (disk s0)) =
    [(0, [mkS ka 1 (Some [0]); mkS kx 2 (Some [1])]); (1, [mkS ka 0 (Some [0]); mkS kx 0 (Some [2])])] /\
  map (fun f => (d_level f, d_entries f)) (disk s) = [(2, [mkS ka 0 (Some [0]); mkS kx 0 (Some [1])])] /\
  lost_log (eng s) = false /\ cget s kx = Some [2] /\ cget (creopen s true) kx = Some [1].
Proof. vm_compute. auto 6. Qed.

