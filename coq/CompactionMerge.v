(* CompactionMerge.v — C12 for the repaired code, first part: every task the strategies select
   preserves what the table files read as (in the order the storage manager consults them
   after a reopen), deletion markers are dropped only when nothing older can resurface, and the
   well-formedness of the directory (files ascending, levels >= 1 key-disjoint, distinct
   creation stamps) is kept by every operation. *)
From Coq Require Import Lia Sorted PeanoNat.
From KV Require Import Compaction CompactionProofs.
Open Scope N_scope.

(* ---------- order of consultation ---------- *)

(* a is consulted before b: shallower level, or same level and created later *)
Definition snewer (a b : sst) : Prop :=
  s_level a < s_level b \/ (s_level a = s_level b /\ s_ts b < s_ts a).

Definition holds (k : bytes) (t : sst) : Prop := has k (s_entries t) = true.

Lemma snewer_asym : forall a b, snewer a b -> snewer b a -> False.
Proof. unfold snewer. intros. lia. Qed.

Lemma age_le_not_snewer : forall a b, sst_le a b = true -> snewer a b -> False.
Proof.
  unfold sst_le, snewer. intros a b H S.
  destruct (N.ltb_spec (s_level b) (s_level a)); try lia.
  destruct (N.ltb_spec (s_level a) (s_level b)); try discriminate.
  apply N.leb_le in H. lia.
Qed.

Lemma age_le_total : forall a b, sst_le a b = true \/ sst_le b a = true.
Proof.
  unfold sst_le. intros.
  destruct (s_level b <? s_level a) eqn:E1; auto.
  destruct (s_level a <? s_level b) eqn:E2; auto.
  destruct (s_ts a <=? s_ts b) eqn:E3; auto. right. apply N.leb_gt in E3. apply N.leb_le. lia.
Qed.

Lemma age_le_trans : forall a b c, sst_le a b = true -> sst_le b c = true -> sst_le a c = true.
Proof.
  unfold sst_le. intros a b c.
  destruct (s_level b <? s_level a) eqn:E1; destruct (s_level a <? s_level b) eqn:E2;
  destruct (s_level c <? s_level b) eqn:E3; destruct (s_level b <? s_level c) eqn:E4;
  destruct (s_level c <? s_level a) eqn:E5; destruct (s_level a <? s_level c) eqn:E6;
  rewrite ?N.ltb_lt, ?N.ltb_ge, ?N.leb_le in *; intros; try discriminate; try lia; auto.
Qed.

Definition age_lep (a b : sst) : Prop := sst_le a b = true.

Lemma age_insert_in : forall x l t, In t (sst_insert x l) <-> t = x \/ In t l.
Proof.
  induction l; simpl; intros. intuition.
  destruct (sst_le x a); simpl; [|rewrite IHl]; intuition.
Qed.

Lemma age_insert_sorted : forall x l, StronglySorted age_lep l -> StronglySorted age_lep (sst_insert x l).
Proof.
  induction l; simpl; intros. repeat constructor.
  inversion H; subst. destruct (sst_le x a) eqn:E.
  - constructor; auto. constructor. exact E.
    rewrite Forall_forall in *. intros t Ht. unfold age_lep. apply age_le_trans with a; auto. apply H3; auto.
  - constructor; auto. rewrite Forall_forall in *. intros t Ht. apply age_insert_in in Ht.
    destruct Ht as [->|Ht]; [|auto]. destruct (age_le_total a x) as [C|C]; [exact C|congruence].
Qed.

Lemma age_sort_sorted : forall l, StronglySorted age_lep (sst_sort l).
Proof. induction l; simpl. constructor. apply age_insert_sorted. auto. Qed.
Lemma age_sort_in : forall l t, In t (sst_sort l) <-> In t l.
Proof. induction l; simpl; intros. tauto. rewrite age_insert_in, IHl. intuition. Qed.

(* the tables in the order Get consults them after a reopen *)
Definition precl (dir : list dfile) : list sst := rev (sst_sort (map d_sst (dsort dir))).

Lemma dinsert_in : forall x l t, In t (dinsert x l) <-> t = x \/ In t l.
Proof.
  induction l; simpl; intros. intuition.
  destruct (dfile_le x a); simpl. intuition. rewrite IHl. intuition.
Qed.
Lemma dsort_in : forall l t, In t (dsort l) <-> In t l.
Proof. induction l; simpl; intros. tauto. rewrite dinsert_in, IHl. intuition. Qed.

Lemma precl_in : forall dir t, In t (precl dir) <-> exists f, In f dir /\ d_sst f = t.
Proof.
  intros. unfold precl. rewrite <- in_rev, age_sort_in, in_map_iff.
  split; intros (f & A & B); exists f; [rewrite dsort_in in B|rewrite dsort_in]; auto.
Qed.

Lemma SS_snoc : forall (A : Type) (Q : A -> A -> Prop) l a,
  StronglySorted Q l -> (forall x, In x l -> Q x a) -> StronglySorted Q (l ++ [a]).
Proof.
  induction l; simpl; intros. repeat constructor.
  inversion H; subst. constructor. apply IHl; auto.
  rewrite Forall_forall in *. intros t Ht. apply in_app_iff in Ht. destruct Ht as [Ht|[<-|[]]]; auto.
Qed.

Lemma StronglySorted_rev : forall (A : Type) (R : A -> A -> Prop) l,
  StronglySorted R l -> StronglySorted (fun a b => R b a) (rev l).
Proof.
  induction l; simpl; intros. constructor. inversion H; subst.
  apply SS_snoc; auto. intros x Hx. apply in_rev in Hx. rewrite Forall_forall in H3. auto.
Qed.

Lemma precl_sorted : forall dir, StronglySorted (fun a b => age_lep b a) (precl dir).
Proof. intros. apply StronglySorted_rev, age_sort_sorted. Qed.

(* first hit in a list sorted so that later elements are never strictly before earlier ones:
   the holder that is before every other holder *)
Lemma first_hit_top : forall (before : sst -> sst -> Prop) (R : sst -> sst -> Prop) k L f e,
  (forall a b, R a b -> before b a -> False) ->
  StronglySorted R L -> In f L -> lookup k (s_entries f) = Some e ->
  (forall g, In g L -> holds k g -> g = f \/ before f g) ->
  first_hit k (map s_entries L) = Some e.
Proof.
  intros before R k L f e HR. induction L as [|x L IH]; simpl; intros HS Hf He Hall. tauto.
  inversion HS as [|? ? HS' Hx]; subst.
  destruct (lookup k (s_entries x)) as [e'|] eqn:Ex.
  - assert (Hh : holds k x) by (unfold holds, has; rewrite Ex; auto).
    destruct (Hall x (or_introl eq_refl) Hh) as [->|Hb]. congruence.
    destruct Hf as [->|Hf]. congruence.
    rewrite Forall_forall in Hx. exfalso. eapply HR; eauto.
  - destruct Hf as [->|Hf]. congruence. apply IH; auto.
Qed.

Lemma first_hit_nobody : forall k (L : list sst),
  (forall g, In g L -> ~ holds k g) -> first_hit k (map s_entries L) = None.
Proof.
  induction L; simpl; auto. intros.
  destruct (lookup k (s_entries a)) eqn:E.
  - exfalso. apply (H a); auto. unfold holds, has. rewrite E. auto.
  - apply IHL. auto.
Qed.

(* the first hit of a sorted list, read backwards *)
Lemma first_hit_inv : forall (R : sst -> sst -> Prop) k L e,
  StronglySorted R L -> first_hit k (map s_entries L) = Some e ->
  exists f, In f L /\ lookup k (s_entries f) = Some e /\
            forall g, In g L -> holds k g -> g = f \/ R f g.
Proof.
  induction L as [|x L IH]; simpl; intros e HS H. discriminate.
  inversion HS as [|? ? HS' Hx]; subst. rewrite Forall_forall in Hx.
  destruct (lookup k (s_entries x)) eqn:Ex.
  - inversion H; subst. exists x. split; auto. split; auto.
    intros g [->|Hg] _; auto.
  - destruct (IH e HS' H) as (f & A & B & C). exists f. split; auto. split; auto.
    intros g [->|Hg] Hh. unfold holds, has in Hh. rewrite Ex in Hh. discriminate. auto.
Qed.

Lemma first_hit_none_inv : forall k (L : list sst),
  first_hit k (map s_entries L) = None -> forall g, In g L -> ~ holds k g.
Proof.
  induction L; simpl; intros. tauto.
  destruct (lookup k (s_entries a)) eqn:E. discriminate.
  destruct H0 as [<-|H0]. unfold holds, has. rewrite E. discriminate. apply IHL; auto.
Qed.

(* ---------- well-formed directories ---------- *)

Definition dholds (k : bytes) (f : dfile) : Prop := has k (d_entries f) = true.
Definition dnewer (f g : dfile) : Prop := snewer (d_sst f) (d_sst g).
Definition dts (f : dfile) : N := s_ts (d_sst f).

Record WF (dir : list dfile) (c : N) : Prop := mkWF {
  wf_asc : forall f, In f dir -> asc (d_entries f);
  wf_ts : NoDup (map dts dir);
  wf_clock : forall f, In f dir -> dts f < c;
  wf_disj : forall f g k, In f dir -> In g dir -> d_level f = d_level g -> 1 <= d_level f ->
                          dholds k f -> dholds k g -> f = g;
  wf_nonempty : forall f, In f dir -> d_entries f <> [];
  wf_size : forall f, In f dir -> 1 <= d_size f
}.

Lemma NoDup_map_inj : forall (A B : Type) (f : A -> B) l x y,
  NoDup (map f l) -> In x l -> In y l -> f x = f y -> x = y.
Proof.
  induction l; simpl; intros. tauto. inversion H; subst.
  destruct H0 as [->|H0], H1 as [->|H1]; auto.
  - exfalso. apply H5. rewrite H2. apply in_map. auto.
  - exfalso. apply H5. rewrite <- H2. apply in_map. auto.
Qed.

Lemma ts_inj : forall dir c f g, WF dir c -> In f dir -> In g dir -> dts f = dts g -> f = g.
Proof. intros. eapply NoDup_map_inj; eauto. apply (wf_ts _ _ H). Qed.

(* what a database opened on the directory alone reads *)
Definition dread (dir : list dfile) (k : bytes) : option bytes := read (map s_entries (precl dir)) k.

Lemma dholds_lookup : forall k f, dholds k f <-> exists e, lookup k (d_entries f) = Some e.
Proof.
  unfold dholds, has. intros. destruct (lookup k (d_entries f)); split; intros; eauto; try discriminate.
  destruct H. discriminate.
Qed.

(* the first table consulted that holds the key, as a property of the set of files *)
Lemma top_of_dir : forall dir c k e, WF dir c ->
  first_hit k (map s_entries (precl dir)) = Some e ->
  exists f, In f dir /\ lookup k (d_entries f) = Some e /\
            forall g, In g dir -> dholds k g -> g = f \/ dnewer f g.
Proof.
  intros dir c k e W H.
  destruct (first_hit_inv _ k _ e (precl_sorted dir) H) as (tf & Hin & Hlk & Hall).
  apply precl_in in Hin. destruct Hin as (f & Hf & <-).
  exists f. split; auto. split; auto. intros g Hg Hh.
  assert (Hg' : In (d_sst g) (precl dir)) by (apply precl_in; eauto).
  destruct (Hall _ Hg' Hh) as [E|E].
  - left. eapply ts_inj; eauto. unfold dts. rewrite E. auto.
  - destruct (N.eq_dec (dts g) (dts f)) as [Q|Q].
    + left. eapply ts_inj; eauto.
    + right. unfold age_lep, sst_le in E. unfold dnewer, snewer, dts in *.
      destruct (s_level (d_sst f) <? s_level (d_sst g)) eqn:E1.
      * apply N.ltb_lt in E1. lia.
      * destruct (s_level (d_sst g) <? s_level (d_sst f)) eqn:E2; try discriminate.
        apply N.ltb_ge in E1, E2. apply N.leb_le in E. lia.
Qed.

Lemma dir_top : forall dir k f e, In f dir -> lookup k (d_entries f) = Some e ->
  (forall g, In g dir -> dholds k g -> g = f \/ dnewer f g) ->
  first_hit k (map s_entries (precl dir)) = Some e.
Proof.
  intros. apply (first_hit_top snewer (fun a b => age_lep b a) k (precl dir) (d_sst f) e).
  - intros a b A B. eapply age_le_not_snewer; eauto.
  - apply precl_sorted.
  - apply precl_in. eauto.
  - auto.
  - intros g Hg Hh. apply precl_in in Hg. destruct Hg as (g0 & Hg0 & <-).
    destruct (H1 g0 Hg0 Hh) as [->|N]; auto.
Qed.

Lemma dir_nobody : forall dir k, (forall g, In g dir -> ~ dholds k g) ->
  first_hit k (map s_entries (precl dir)) = None.
Proof.
  intros. apply first_hit_nobody. intros g Hg. apply precl_in in Hg. destruct Hg as (g0 & Hg0 & <-).
  apply H. auto.
Qed.

Lemma dir_nobody_inv : forall dir k, first_hit k (map s_entries (precl dir)) = None ->
  forall g, In g dir -> ~ dholds k g.
Proof.
  intros. apply (first_hit_none_inv k (precl dir) H (d_sst g)). apply precl_in. eauto.
Qed.

(* ---------- output files ---------- *)

Lemma name_outputs_in : forall T z c chunks i o,
  In o (name_outputs T i c z chunks) <->
  exists j, (j < length chunks)%nat /\
            o = mkD (mkSst T (N.of_nat (i + j) + 1) (c + N.of_nat (i + j)) (nth j chunks [])) (nth_size (i + j) z).
Proof.
  induction chunks; simpl; intros.
  - split. tauto. intros (j & H & _). lia.
  - rewrite IHchunks. split.
    + intros [<-|(j & Hj & ->)].
      * exists 0%nat. split. lia. rewrite PeanoNat.Nat.add_0_r. auto.
      * exists (S j). split. lia. replace (i + S j)%nat with (S i + j)%nat by lia. auto.
    + intros (j & Hj & ->). destruct j.
      * left. rewrite PeanoNat.Nat.add_0_r. auto.
      * right. exists j. split. lia. replace (i + S j)%nat with (S i + j)%nat by lia. auto.
Qed.

Lemma asc_app_disjoint : forall a b k x y, asc (a ++ b) -> lookup k a = Some x -> lookup k b = Some y -> False.
Proof.
  induction a; simpl; intros. discriminate.
  apply asc_cons_inv in H. destruct H as [H Hab].
  unfold lookup in H0. simpl in H0. destruct (beq (sk a) k) eqn:E.
  - apply beq_iff in E. apply lookup_some in H1. destruct H1 as [H1 H2].
    unfold above in Hab. rewrite Forall_forall in Hab.
    assert (bcmp (sk a) (sk y) = Lt) by (apply Hab; apply in_or_app; auto).
    rewrite H2, E, cb_refl in H3. discriminate.
  - eapply IHa; eauto.
Qed.

Lemma asc_concat_unique : forall chunks k j j' x y, asc (concat chunks) ->
  lookup k (nth j chunks []) = Some x -> lookup k (nth j' chunks []) = Some y -> j = j'.
Proof.
  induction chunks; simpl; intros.
  - destruct j; discriminate.
  - assert (T : forall (n : nat) z, lookup k (nth n chunks []) = Some z -> exists z', lookup k (concat chunks) = Some z').
    { clear. induction chunks; simpl; intros. destruct n; discriminate.
      rewrite lookup_app. destruct n.
      - rewrite H. eauto.
      - destruct (lookup k a). eauto. eapply IHchunks; eauto. }
    destruct j, j'; auto.
    + exfalso. destruct (T _ _ H1) as (z' & Hz). eapply asc_app_disjoint; eauto.
    + exfalso. destruct (T _ _ H0) as (z' & Hz). eapply asc_app_disjoint; eauto.
    + f_equal. apply asc_app_inv in H. eapply IHchunks; eauto. tauto.
Qed.

Lemma first_hit_in : forall k ts e, first_hit k ts = Some e -> exists t, In t ts /\ lookup k t = Some e.
Proof.
  induction ts; simpl; intros. discriminate.
  destruct (lookup k a) eqn:E. inversion H; subst. eauto.
  destruct (IHts _ H) as (t & A & B). eauto.
Qed.
Lemma first_hit_none_all : forall k ts, first_hit k ts = None -> forall t, In t ts -> lookup k t = None.
Proof.
  induction ts; simpl; intros. tauto.
  destruct (lookup k a) eqn:E. discriminate. destruct H0 as [<-|H0]; auto.
Qed.

(* ---------- one task ---------- *)

(* [ins]: the input files in the order CompactFiles lists its sources *)
Record TaskOK (dir ins : list dfile) (T : N) (drop : bool) : Prop := mkTK {
  tk_incl : incl ins dir;
  tk_lev : forall i, In i ins -> d_level i <= T;
  tk_src : StronglySorted dnewer ins;
  (* a table that is not an input but shares a key with one: never on the target level; if
     shallower, it is newer than every input holding the key *)
  tk_out : forall k g, In g dir -> ~ In g ins -> dholds k g -> (exists i, In i ins /\ dholds k i) ->
           d_level g <> T /\ (d_level g < T -> forall i, In i ins -> dholds k i -> dnewer g i);
  tk_drop : drop = true -> forall g, In g dir -> ~ In g ins -> d_level g < T
}.

Definition outs_of (ins : list dfile) (T : N) (drop : bool) (keep : bytes -> bool) (max c : N) (z : list N) :=
  name_outputs T 0 c z (exec_outputs (fun k => negb drop || keep k) max (map d_entries ins)).

Lemma same_file_refl : forall f, same_file f f = true.
Proof. intros. unfold same_file. rewrite !N.eqb_refl. auto. Qed.

Lemma same_file_ts : forall f g, same_file f g = true -> dts f = dts g.
Proof. unfold same_file, dts. intros. apply andb_prop in H. destruct H. apply N.eqb_eq in H0. auto. Qed.

Lemma remove_files_in : forall dir c ins g, WF dir c -> incl ins dir ->
  (In g (remove_files ins dir) <-> In g dir /\ ~ In g ins).
Proof.
  intros. unfold remove_files. rewrite filter_In. split; intros [A B]; split; auto.
  - intro C. apply negb_true_iff in B.
    assert (existsb (same_file g) ins = true).
    { apply existsb_exists. exists g. split; auto. apply same_file_refl. } congruence.
  - apply negb_true_iff. destruct (existsb (same_file g) ins) eqn:E; auto.
    apply existsb_exists in E. destruct E as (i & Hi & Hs). exfalso. apply B.
    assert (g = i). { eapply ts_inj; eauto. apply same_file_ts; auto. } subst. auto.
Qed.

Section OneTask.
  Variables (dir ins : list dfile) (c T : N) (drop : bool) (keep : bytes -> bool) (max : N) (z : list N).
  Hypothesis W : WF dir c.
  Hypothesis K : TaskOK dir ins T drop.

  Let chunks := exec_outputs (fun k => negb drop || keep k) max (map d_entries ins).
  Let outs := name_outputs T 0 c z chunks.
  Let dir' := remove_files ins dir ++ outs.

  Lemma srcs_asc : Forall asc (map d_entries ins).
  Proof.
    rewrite Forall_forall. intros x Hx. apply in_map_iff in Hx. destruct Hx as (f & <- & Hf).
    apply (wf_asc _ _ W). apply (tk_incl _ _ _ _ K). auto.
  Qed.

  Lemma out_props : forall o, In o outs ->
    d_level o = T /\ c <= dts o /\ In (d_entries o) chunks.
  Proof.
    intros o Ho. apply name_outputs_in in Ho. destruct Ho as (j & Hj & ->).
    unfold d_level, dts, d_entries. simpl. split; auto. split. lia. apply nth_In. auto.
  Qed.

  Lemma out_unique : forall k o o', In o outs -> In o' outs -> dholds k o -> dholds k o' -> o = o'.
  Proof.
    intros k o o' Ho Ho' Hk Hk'.
    apply name_outputs_in in Ho, Ho'. destruct Ho as (j & Hj & ->), Ho' as (j' & Hj' & ->).
    apply dholds_lookup in Hk, Hk'. destruct Hk as (x & Hx), Hk' as (y & Hy).
    unfold d_entries in *. simpl in *.
    assert (j = j'). { eapply asc_concat_unique; eauto. apply exec_outputs_sorted. apply srcs_asc. }
    subst. auto.
  Qed.

  Lemma out_lookup : forall k,
    match first_hit k (map d_entries ins) with
    | Some w => if keptf (fun k => negb drop || keep k) w
                then exists o, In o outs /\ lookup k (d_entries o) = Some (zero_seq w)
                else forall o, In o outs -> ~ dholds k o
    | None => forall o, In o outs -> ~ dholds k o
    end.
  Proof.
    intro k. pose proof (exec_outputs_lookup (fun k => negb drop || keep k) max (map d_entries ins) k srcs_asc) as H.
    fold chunks in H.
    assert (N : first_hit k chunks = None -> forall o, In o outs -> ~ dholds k o).
    { intros E o Ho Hh. apply out_props in Ho. destruct Ho as (_ & _ & Hc).
      apply dholds_lookup in Hh. destruct Hh as (x & Hx).
      rewrite (first_hit_none_all _ _ E _ Hc) in Hx. discriminate. }
    destruct (first_hit k (map d_entries ins)) as [w|]; auto.
    destruct (keptf _ w); auto.
    apply first_hit_in in H. destruct H as (t & Ht & Hl).
    apply In_nth with (d := []) in Ht. destruct Ht as (j & Hj & <-).
    exists (mkD (mkSst T (N.of_nat (0 + j) + 1) (c + N.of_nat (0 + j)) (nth j chunks [])) (nth_size (0 + j) z)).
    split; auto. apply name_outputs_in. eauto.
  Qed.

  Lemma dir'_in : forall g, In g dir' <-> (In g dir /\ ~ In g ins) \/ In g outs.
  Proof.
    intro g. unfold dir'. rewrite in_app_iff, (remove_files_in dir c ins g W (tk_incl _ _ _ _ K)). tauto.
  Qed.

  (* the newest input holding the key is the one whose entry the merge takes *)
  Lemma winner : forall k f e, In f ins -> lookup k (d_entries f) = Some e ->
    (forall g, In g ins -> dholds k g -> g = f \/ dnewer f g) ->
    first_hit k (map d_entries ins) = Some e.
  Proof.
    intros k f e. pose proof (tk_src _ _ _ _ K) as HS. clear K. induction ins as [|x l IH]; simpl; intros Hf He Hall. tauto.
    inversion HS as [|? ? HS' Hx]; subst. rewrite Forall_forall in Hx.
    destruct (lookup k (d_entries x)) as [e'|] eqn:Ex.
    - assert (Hh : dholds k x) by (apply dholds_lookup; eauto).
      destruct (Hall x (or_introl eq_refl) Hh) as [->|Hb]. congruence.
      destruct Hf as [->|Hf]. congruence.
      exfalso. eapply snewer_asym. apply Hb. apply Hx. auto.
    - destruct Hf as [->|Hf]. congruence. apply IH; auto.
  Qed.

  Theorem task_preserves_read : forall k, dread dir' k = dread dir k.
  Proof.
    intro k. unfold dread, read.
    destruct (first_hit k (map s_entries (precl dir))) as [e|] eqn:R.
    - destruct (top_of_dir dir c k e W R) as (f & Hf & Hlk & Hall).
      assert (Hfh : dholds k f) by (apply dholds_lookup; eauto).
      destruct (existsb (same_file f) ins) eqn:Ein.
      + (* the top table is an input: it wins the merge *)
        apply existsb_exists in Ein. destruct Ein as (i & Hi & Hs).
        assert (f = i). { eapply ts_inj; eauto. apply (tk_incl _ _ _ _ K); auto. apply same_file_ts; auto. }
        subst i.
        assert (Hw : first_hit k (map d_entries ins) = Some e).
        { apply winner with f; auto. intros g Hg Hh. apply Hall; auto. apply (tk_incl _ _ _ _ K); auto. }
        (* tables outside the inputs that hold the key are deeper than the target *)
        assert (Hdeep : forall g, In g dir -> ~ In g ins -> dholds k g -> T < d_level g).
        { intros g Hg Hn Hh.
          destruct (tk_out _ _ _ _ K k g Hg Hn Hh) as [A B]. eauto.
          destruct (N.lt_trichotomy (d_level g) T) as [C|[C|C]]; auto; try congruence.
          exfalso. specialize (B C f Hi Hfh).
          destruct (Hall g Hg Hh) as [->|D]. tauto. eapply snewer_asym; eauto. }
        pose proof (out_lookup k) as OL. rewrite Hw in OL.
        destruct (keptf (fun k0 => negb drop || keep k0) e) eqn:Kp.
        * destruct OL as (o & Ho & Hol).
          rewrite (dir_top dir' k o (zero_seq e)); auto.
          -- apply dir'_in. auto.
          -- intros g Hg Hh. apply dir'_in in Hg. destruct Hg as [[Hg Hn]|Hg].
             ++ right. unfold dnewer, snewer. destruct (out_props o Ho) as (Lo & _ & _).
                pose proof (Hdeep g Hg Hn Hh). unfold d_level in *. lia.
             ++ left. eapply out_unique; eauto. apply dholds_lookup; eauto.
        * rewrite dir_nobody.
          -- unfold keptf in Kp. destruct e as [ek eq ev]. unfold is_tomb in Kp. simpl in *.
             destruct ev; try discriminate. auto.
          -- intros g Hg Hh. apply dir'_in in Hg. destruct Hg as [[Hg Hn]|Hg].
             ++ pose proof (Hdeep g Hg Hn Hh).
                assert (Dr : drop = true).
                { unfold keptf in Kp. destruct (is_tomb e); try discriminate.
                  destruct drop; auto; try (simpl in Kp; discriminate). }
                pose proof (tk_drop _ _ _ _ K Dr g Hg Hn). lia.
             ++ eapply OL; eauto.
      + (* the top table is not an input: it stays on top *)
        assert (Hn : ~ In f ins).
        { intro C. assert (existsb (same_file f) ins = true).
          { apply existsb_exists. exists f. split; auto. apply same_file_refl. } congruence. }
        rewrite (dir_top dir' k f e); auto.
        * apply dir'_in. auto.
        * intros g Hg Hh. apply dir'_in in Hg. destruct Hg as [[Hg _]|Hg]; auto.
          right.
          (* an output holds the key: some input does *)
          assert (Hi : exists i, In i ins /\ dholds k i).
          { pose proof (out_lookup k) as OL.
            destruct (first_hit k (map d_entries ins)) as [w|] eqn:Ew.
            - apply first_hit_in in Ew. destruct Ew as (t & Ht & Hl).
              apply in_map_iff in Ht. destruct Ht as (i & <- & Hi). exists i. split; auto.
              apply dholds_lookup; eauto.
            - exfalso. eapply OL; eauto. }
          destruct (tk_out _ _ _ _ K k f Hf Hn Hfh Hi) as [A B].
          destruct (out_props g Hg) as (Lg & _ & _).
          destruct (N.lt_trichotomy (d_level f) T) as [C|[C|C]]; try congruence.
          -- unfold dnewer, snewer. unfold d_level in *. lia.
          -- exfalso. destruct Hi as (i & Hi & Hih).
             pose proof (tk_lev _ _ _ _ K i Hi).
             destruct (Hall i (tk_incl _ _ _ _ K i Hi) Hih) as [->|D]. tauto.
             unfold dnewer, snewer, d_level in *. lia.
    - (* nobody holds the key *)
      pose proof (dir_nobody_inv dir k R) as Hno.
      rewrite dir_nobody; auto.
      intros g Hg Hh. apply dir'_in in Hg. destruct Hg as [[Hg _]|Hg]. eapply Hno; eauto.
      pose proof (out_lookup k) as OL.
      destruct (first_hit k (map d_entries ins)) as [w|] eqn:Ew.
      + apply first_hit_in in Ew. destruct Ew as (t & Ht & Hl).
        apply in_map_iff in Ht. destruct Ht as (i & <- & Hi).
        eapply (Hno i). apply (tk_incl _ _ _ _ K); auto. apply dholds_lookup; eauto.
      + eapply OL; eauto.
  Qed.
End OneTask.

(* ---------- LoadSSTables: the files of a level, oldest first ---------- *)

From Coq Require Import Permutation.

Lemma tinsert_perm : forall x l, Permutation (tinsert x l) (x :: l).
Proof.
  induction l; simpl; auto. destruct (ts_le a x); auto.
  eapply perm_trans. apply perm_skip. apply IHl. apply perm_swap.
Qed.

Lemma tsort_fold_perm : forall l acc, Permutation (fold_left (fun a x => tinsert x a) l acc) (l ++ acc).
Proof.
  induction l; simpl; intros; auto.
  eapply perm_trans. apply IHl. eapply perm_trans. apply Permutation_app_head. apply tinsert_perm.
  apply Permutation_sym. apply Permutation_middle.
Qed.

Lemma tsort_perm : forall l, Permutation (tsort l) l.
Proof. intros. unfold tsort. eapply perm_trans. apply tsort_fold_perm. rewrite app_nil_r. auto. Qed.

Lemma dinsert_perm : forall x l, Permutation (dinsert x l) (x :: l).
Proof.
  induction l; simpl; auto. destruct (dfile_le x a); auto.
  eapply perm_trans. apply perm_skip. apply IHl. apply perm_swap.
Qed.
Lemma dsort_perm : forall l, Permutation (dsort l) l.
Proof. induction l; simpl; auto. eapply perm_trans. apply dinsert_perm. auto. Qed.

Definition tle (a b : dfile) : Prop := dts a <= dts b.

Lemma tinsert_sorted : forall x l, StronglySorted tle l -> StronglySorted tle (tinsert x l).
Proof.
  induction l; simpl; intros. repeat constructor.
  inversion H; subst. unfold ts_le. destruct (s_ts (d_sst a) <=? s_ts (d_sst x)) eqn:E.
  - apply N.leb_le in E. constructor; auto. rewrite Forall_forall in *. intros t Ht.
    apply (Permutation_in _ (tinsert_perm x l)) in Ht. destruct Ht as [<-|Ht]; [exact E|auto].
  - apply N.leb_gt in E. constructor; auto. constructor.
    + unfold tle, dts. lia.
    + rewrite Forall_forall in *. intros t Ht. specialize (H3 t Ht). unfold tle, dts in *. lia.
Qed.

Lemma tsort_sorted : forall l, StronglySorted tle (tsort l).
Proof.
  intros. unfold tsort. assert (StronglySorted tle []) by constructor. revert H. generalize (@nil dfile).
  induction l; simpl; auto. intros. apply IHl. apply tinsert_sorted. auto.
Qed.

Lemma level_files_in : forall L dir f, In f (level_files L dir) <-> In f dir /\ d_level f = L.
Proof.
  intros. unfold level_files. split; intro H.
  - apply (Permutation_in _ (tsort_perm _)) in H. apply filter_In in H. destruct H.
    apply (proj1 (dsort_in _ _)) in H. apply N.eqb_eq in H0. auto.
  - apply (Permutation_in _ (Permutation_sym (tsort_perm _))). apply filter_In. destruct H.
    split. apply dsort_in; auto. apply N.eqb_eq; auto.
Qed.

Lemma NoDup_map_filter : forall (A B : Type) (f : A -> B) p l, NoDup (map f l) -> NoDup (map f (filter p l)).
Proof.
  induction l; simpl; intros; auto. inversion H; subst. destruct (p a); simpl; auto.
  constructor; auto. intro C. apply H2. apply in_map_iff in C. destruct C as (x & E & Hx).
  apply filter_In in Hx. rewrite <- E. apply in_map. tauto.
Qed.

Lemma level_files_nodup : forall L dir c, WF dir c -> NoDup (map dts (level_files L dir)).
Proof.
  intros. unfold level_files.
  eapply Permutation_NoDup. apply Permutation_map. apply Permutation_sym. apply tsort_perm.
  apply NoDup_map_filter.
  eapply Permutation_NoDup. apply Permutation_map. apply Permutation_sym. apply dsort_perm.
  apply (wf_ts _ _ H).
Qed.

Definition tlt (a b : dfile) : Prop := dts a < dts b.

Lemma sorted_strict : forall l, StronglySorted tle l -> NoDup (map dts l) -> StronglySorted tlt l.
Proof.
  induction l; simpl; intros. constructor. inversion H; inversion H0; subst.
  constructor; auto. rewrite Forall_forall in *. intros t Ht. specialize (H4 t Ht).
  unfold tle, tlt in *. assert (dts a <> dts t). { intro E. apply H7. rewrite E. apply in_map. auto. }
  lia.
Qed.

Lemma level_files_strict : forall L dir c, WF dir c -> StronglySorted tlt (level_files L dir).
Proof.
  intros. apply sorted_strict. apply tsort_sorted. eapply level_files_nodup; eauto.
Qed.

Lemma SS_app : forall (A : Type) (R : A -> A -> Prop) a b,
  StronglySorted R a -> StronglySorted R b -> (forall x y, In x a -> In y b -> R x y) ->
  StronglySorted R (a ++ b).
Proof.
  induction a; simpl; intros; auto. inversion H; subst. constructor.
  - apply IHa; auto.
  - rewrite Forall_forall in *. intros t Ht. apply in_app_iff in Ht. destruct Ht; auto.
Qed.

Lemma SS_sub : forall (A : Type) (R : A -> A -> Prop) p l, StronglySorted R l -> StronglySorted R (filter p l).
Proof.
  induction l; simpl; intros; auto. inversion H; subst. destruct (p a); auto.
  constructor; auto. rewrite Forall_forall in *. intros t Ht. apply filter_In in Ht. apply H3. tauto.
Qed.

Lemma SS_app_l : forall (A : Type) (R : A -> A -> Prop) a b, StronglySorted R (a ++ b) -> StronglySorted R a.
Proof.
  induction a; simpl; intros. constructor. inversion H; subst. constructor. eauto.
  rewrite Forall_forall in *. intros. apply H3. apply in_or_app. auto.
Qed.

Lemma SS_firstn : forall (A : Type) (R : A -> A -> Prop) n l, StronglySorted R l -> StronglySorted R (firstn n l).
Proof. intros. rewrite <- (firstn_skipn n l) in H. eapply SS_app_l; eauto. Qed.

Lemma firstn_skipn_sorted : forall (A : Type) (R : A -> A -> Prop) n l x y,
  StronglySorted R l -> In x (firstn n l) -> In y l -> ~ In y (firstn n l) -> R x y.
Proof.
  induction n; destruct l; simpl; intros; try tauto.
  inversion H; subst. rewrite Forall_forall in H6. destruct H0 as [<-|H0].
  - destruct H1 as [<-|H1]. tauto. auto.
  - destruct H1 as [<-|H1]. tauto. eapply IHn; eauto.
Qed.

(* same level: later creation = consulted first *)
Lemma same_level_newer : forall L l, (forall f, In f l -> d_level f = L) ->
  StronglySorted (fun a b => tlt b a) l -> StronglySorted dnewer l.
Proof.
  induction l; intros Hl Hs. constructor. inversion Hs; subst. constructor.
  - apply IHl; auto. intros. apply Hl. simpl; auto.
  - rewrite Forall_forall in *. intros t Ht. right. unfold d_level in Hl.
    split. rewrite (Hl a), (Hl t); simpl; auto. apply H2. auto.
Qed.

Lemma rev_level_newer : forall L l, (forall f, In f l -> d_level f = L) -> StronglySorted tlt l ->
  StronglySorted dnewer (rev l).
Proof.
  intros. apply same_level_newer with L. intros f Hf. apply H. apply in_rev. auto.
  apply StronglySorted_rev in H0. exact H0.
Qed.

(* ---------- key ranges ---------- *)

Definition kle (a b : bytes) : Prop := bcmp a b <> Gt.

Lemma kle_refl : forall a, kle a a.
Proof. intros. unfold kle. rewrite cb_refl. congruence. Qed.

Lemma kle_trans : forall a b c, kle a b -> kle b c -> kle a c.
Proof.
  unfold kle. intros a b c H1 H2.
  destruct (bcmp a b) eqn:E1; try congruence.
  - apply cb_eq in E1. subst. auto.
  - destruct (bcmp b c) eqn:E2; try congruence.
    + apply cb_eq in E2. subst. rewrite E1. congruence.
    + rewrite (cb_lt_trans _ _ _ E1 E2). congruence.
Qed.

Lemma kle_lt : forall a b, bcmp a b = Lt -> kle a b.
Proof. unfold kle. intros. rewrite H. congruence. Qed.

Lemma blt_false_kle : forall a b, blt a b = false <-> kle b a.
Proof.
  unfold Compaction.blt, kle. intros. rewrite (cb_antisym a b).
  destruct (bcmp a b); simpl; split; intros; try congruence; auto.
Qed.
Lemma blt_true_lt : forall a b, blt a b = true <-> bcmp a b = Lt.
Proof. unfold Compaction.blt. intros. destruct (bcmp a b); split; intros; congruence. Qed.

Lemma kle_total : forall a b, kle a b \/ kle b a.
Proof.
  unfold kle. intros. rewrite (cb_antisym a b). destruct (bcmp a b); simpl; [left|left|right]; congruence.
Qed.

Lemma overlaps_iff : forall f1 l1 f2 l2,
  overlaps false false f1 l1 f2 l2 = true <-> kle f2 l1 /\ kle f1 l2.
Proof.
  intros. unfold overlaps. simpl.
  rewrite negb_true_iff, orb_false_iff, !blt_false_kle. tauto.
Qed.

Lemma overlaps_keys : forall n1 n2 f1 l1 f2 l2, overlaps n1 n2 f1 l1 f2 l2 = true -> n1 = false /\ n2 = false.
Proof. unfold overlaps. intros. destruct n1, n2; simpl in *; try discriminate; auto. Qed.

Lemma asc_head_le : forall l e x r, asc l -> l = x :: r -> In e l -> kle (sk x) (sk e).
Proof.
  intros. subst. destruct H1 as [<-|H1]. apply kle_refl.
  apply asc_cons_inv in H. destruct H as [_ H]. unfold above in H. rewrite Forall_forall in H.
  apply kle_lt. auto.
Qed.

Lemma asc_last_le : forall l e x r, asc l -> rev l = x :: r -> In e l -> kle (sk e) (sk x).
Proof.
  intros. assert (l = rev r ++ [x]). { rewrite <- (rev_involutive l), H0. simpl. auto. }
  subst l. apply in_app_iff in H1. destruct H1 as [H1|[<-|[]]].
  - apply kle_lt. eapply asc_last_max; eauto.
  - apply kle_refl.
Qed.

Lemma holds_range : forall f k, asc (d_entries f) -> dholds k f ->
  kle (first_key f) k /\ kle k (last_key f) /\ In k (map sk (d_entries f)).
Proof.
  intros f k Ha Hh. apply dholds_lookup in Hh. destruct Hh as (e & He).
  apply lookup_some in He. destruct He as [Hin <-].
  unfold first_key, last_key. split; [|split].
  - destruct (d_entries f) eqn:E. destruct Hin. eapply asc_head_le; eauto.
  - destruct (rev (d_entries f)) eqn:E.
    + apply (f_equal (@rev _)) in E. rewrite rev_involutive in E. simpl in E. rewrite E in Hin. destruct Hin.
    + eapply asc_last_le; eauto.
  - apply in_map. auto.
Qed.

Lemma holds_nonempty : forall k f, dholds k f -> d_entries f <> [].
Proof. intros. apply dholds_lookup in H. destruct H as (e & H). intro E. rewrite E in H. discriminate. Qed.

Lemma nokeys_false : forall f, d_entries f <> [] -> nokeys f = false.
Proof. unfold nokeys. intros. destruct (d_entries f); congruence. Qed.

Lemma wf_nokeys : forall dir c f, WF dir c -> In f dir -> nokeys f = false.
Proof. intros. apply nokeys_false. apply (wf_nonempty _ _ H); auto. Qed.

(* a file holding a key inside [a, b] overlaps [a, b] *)
Lemma holder_overlaps : forall dir c g k a b, WF dir c -> In g dir -> dholds k g ->
  kle a k -> kle k b ->
  overlaps (nokeys g) false (first_key g) (last_key g) a b = true.
Proof.
  intros. destruct (holds_range g k (wf_asc _ _ H g H0) H1) as (A & B & _).
  rewrite (wf_nokeys dir c g H H0). apply overlaps_iff. split; eapply kle_trans; eauto.
Qed.

(* ---------- the tasks the strategies select ---------- *)

Definition src_files (t : task) : list dfile :=
  concat (map (fun g => rev (snd g)) (filter (fun g => fst g <=? t_target t) (t_groups t))).

Lemma task_sources_src : forall t, task_sources t = map d_entries (src_files t).
Proof. reflexivity. Qed.

Lemma covers_deeper_spec : forall dir c ins T, WF dir c -> incl ins dir ->
  covers_deeper dir ins T = true -> forall g, In g dir -> ~ In g ins -> d_level g < T.
Proof.
  unfold covers_deeper. intros. rewrite forallb_forall in H1. specialize (H1 g H2).
  apply orb_prop in H1. destruct H1. apply N.ltb_lt; auto.
  exfalso. apply existsb_exists in H1. destruct H1 as (i & Hi & Hs). apply H3.
  assert (g = i). { eapply ts_inj; eauto. apply same_file_ts; auto. } subst; auto.
Qed.

Lemma hull_spec : forall ins lo hi lo' hi',
  hull lo hi ins = (lo', hi') ->
  kle lo' lo /\ kle hi hi' /\
  (forall f, In f ins -> kle lo' (first_key f) /\ kle (last_key f) hi').
Proof.
  unfold hull. induction ins as [|f r IH]; simpl; intros lo hi lo' hi' E.
  - inversion E; subst. split. apply kle_refl. split. apply kle_refl. intros f [].
  - set (lo1 := if blt (first_key f) lo then first_key f else lo) in *.
    set (hi1 := if blt hi (last_key f) then last_key f else hi) in *.
    assert (A1 : kle lo1 lo /\ kle lo1 (first_key f)).
    { unfold lo1. destruct (blt (first_key f) lo) eqn:B.
      - split. apply kle_lt. apply blt_true_lt; auto. apply kle_refl.
      - split. apply kle_refl. apply blt_false_kle; auto. }
    assert (B1 : kle hi hi1 /\ kle (last_key f) hi1).
    { unfold hi1. destruct (blt hi (last_key f)) eqn:B.
      - split. apply kle_lt. apply blt_true_lt; auto. apply kle_refl.
      - split. apply kle_refl. apply blt_false_kle; auto. }
    destruct A1 as (A1 & A2), B1 as (B1 & B2).
    destruct (IH lo1 hi1 lo' hi' E) as (C1 & C2 & C5).
    split. eapply kle_trans; eauto. split. eapply kle_trans; eauto.
    intros g [<-|Hg]. split; eapply kle_trans; eauto. auto.
Qed.

Lemma in_firstn : forall (A : Type) n (l : list A) x, In x (firstn n l) -> In x l.
Proof. intros. rewrite <- (firstn_skipn n l). apply in_or_app. auto. Qed.

Lemma taskok_l0 : forall dir c maxmem t, WF dir c -> select_l0 maxmem dir = Some t ->
  TaskOK dir (src_files t) (t_target t) (t_drop t) /\ (forall f, In f (t_inputs t) <-> In f (src_files t)).
Proof.
  intros dir c maxmem t W H. unfold select_l0 in H.
  destruct (N.of_nat (length (level_files 0 dir)) <? 2); try discriminate.
  set (sel := firstn (N.to_nat maxmem) (level_files 0 dir)) in *.
  set (l1 := match l0_range sel with
             | None => []
             | Some (mn, mx) =>
               filter (fun f => overlaps (nokeys f) false (first_key f) (last_key f) mn mx) (level_files 1 dir)
             end) in *.
  inversion H; subst t; clear H. unfold src_files, t_inputs, mk_task. simpl.
  rewrite !app_nil_r.
  assert (Hsel : forall f, In f sel -> In f dir /\ d_level f = 0).
  { intros f Hf. apply level_files_in. eapply in_firstn; eauto. }
  assert (Hl1 : forall f, In f l1 -> In f dir /\ d_level f = 1).
  { intros f Hf. unfold l1 in Hf. destruct (l0_range sel) as [[mn mx]|]. 2: destruct Hf.
    apply filter_In in Hf. destruct Hf as [Hf Ho]. apply level_files_in in Hf. tauto. }
  assert (Hl1s : StronglySorted tlt l1).
  { unfold l1. destruct (l0_range sel) as [[mn mx]|]. apply SS_sub. eapply level_files_strict; eauto. constructor. }
  (* a level-1 file sharing a key with a selected level-0 file is selected too *)
  assert (Hl1c : forall g k s, In g dir -> d_level g = 1 -> dholds k g -> In s sel -> dholds k s -> In g l1).
  { intros g k s0 Hg Lg Hh Hs Hsh. unfold l1, l0_range. destruct sel as [|f0 r0] eqn:ES. destruct Hs.
    destruct (hull (first_key f0) (last_key f0) r0) as [mn mx] eqn:EH.
    destruct (hull_spec _ _ _ _ _ EH) as (C1 & C2 & C3).
    assert (Hr : kle mn (first_key s0) /\ kle (last_key s0) mx).
    { destruct Hs as [<-|Hs]; auto. }
    destruct (holds_range s0 k (wf_asc _ _ W s0 (proj1 (Hsel s0 (eq_ind _ (fun l => In s0 l) Hs _ (eq_sym eq_refl))))) Hsh) as (R1 & R2 & _).
    apply filter_In. split. apply level_files_in; auto.
    eapply holder_overlaps; eauto; eapply kle_trans; try apply Hr; eauto. }
  assert (Hin : forall f, In f (sel ++ l1) <-> In f (rev sel ++ rev l1)).
  { intro f. rewrite !in_app_iff, <- !in_rev. tauto. }
  split; auto.
  assert (Hincl : incl (rev sel ++ rev l1) dir).
  { intros f Hf. apply Hin in Hf. apply in_app_iff in Hf. destruct Hf as [Hf|Hf]. apply Hsel; auto. apply Hl1; auto. }
  constructor; auto.
  - intros i Hi. apply Hin in Hi. apply in_app_iff in Hi. destruct Hi as [Hi|Hi].
    destruct (Hsel _ Hi) as [_ E]. rewrite E. lia. destruct (Hl1 _ Hi) as (_ & E). rewrite E. lia.
  - apply SS_app.
    + apply rev_level_newer with 0. intros; apply Hsel; auto.
      apply SS_firstn. eapply level_files_strict; eauto.
    + apply rev_level_newer with 1. intros; apply Hl1; auto. exact Hl1s.
    + intros x y Hx Hy. apply in_rev in Hx, Hy. left.
      destruct (Hsel _ Hx) as [_ E1]. destruct (Hl1 _ Hy) as (_ & E2). unfold d_level in *. lia.
  - intros k g Hg Hn Hh (i & Hi & Hih).
    assert (Hn' : ~ In g sel /\ ~ In g l1).
    { split; intro C; apply Hn; apply Hin; apply in_app_iff; auto. }
    destruct Hn' as [Hn0 Hn1]. apply Hin in Hi. split.
    + intro L1.
      apply in_app_iff in Hi. destruct Hi as [Hi|Hi].
      * apply Hn1. eapply Hl1c; eauto.
      * destruct (Hl1 i Hi) as (Hid & Li).
        assert (i = g). { eapply (wf_disj _ _ W i g k); eauto. congruence. rewrite Li. lia. }
        subst. auto.
    + intros L0 i' Hi' Hih'. assert (Lg : d_level g = 0) by lia.
      apply Hin in Hi'. apply in_app_iff in Hi'. destruct Hi' as [Hi'|Hi'].
      * right. destruct (Hsel i' Hi') as [_ Li']. unfold d_level in *. split. congruence.
        apply (firstn_skipn_sorted dfile tlt (N.to_nat maxmem) (level_files 0 dir) i' g); auto.
        eapply level_files_strict; eauto. apply level_files_in; auto.
      * left. destruct (Hl1 i' Hi') as (_ & Li'). unfold d_level in *. lia.
  - intros Dr g Hg Hn. eapply (covers_deeper_spec dir c (sel ++ l1)); eauto.
    + intros f Hf. apply Hincl. apply Hin. auto.
    + intro C. apply Hn. apply Hin. auto.
Qed.

Lemma sum_zero : forall (l : list dfile) a0, (forall f, In f l -> 1 <= d_size f) ->
  fold_left (fun a f => a + d_size f) l a0 = 0 -> l = [] /\ a0 = 0.
Proof.
  induction l; simpl; intros. auto.
  destruct (IHl _ (fun f Hf => H f (or_intror Hf)) H0) as [_ E].
  specialize (H a (or_introl eq_refl)). lia.
Qed.

Lemma level_size_zero : forall dir c L, WF dir c -> level_size L dir = 0 -> level_files L dir = [].
Proof.
  intros. unfold level_size in H0. apply sum_zero in H0. tauto.
  intros f Hf. apply level_files_in in Hf. apply (wf_size _ _ H). tauto.
Qed.

Lemma head_oldest : forall dir c L f r, WF dir c -> level_files L dir = f :: r ->
  In f dir /\ d_level f = L /\ forall g, In g dir -> d_level g = L -> g = f \/ dts f < dts g.
Proof.
  intros. assert (Hf : In f (level_files L dir)) by (rewrite H0; simpl; auto).
  apply level_files_in in Hf. destruct Hf. split; auto. split; auto.
  intros g Hg Lg. assert (In g (level_files L dir)) by (apply level_files_in; auto).
  pose proof (level_files_strict L dir c H) as S. rewrite H0 in *. inversion S; subst.
  destruct H3 as [<-|H3]; auto. right. rewrite Forall_forall in H7. apply H7. auto.
Qed.

Lemma shared_key_overlaps : forall dir c f g k, WF dir c -> In f dir -> In g dir ->
  dholds k f -> dholds k g ->
  overlaps (nokeys f) (nokeys g) (first_key f) (last_key f) (first_key g) (last_key g) = true.
Proof.
  intros. destruct (holds_range f k (wf_asc _ _ H f H0) H2) as (A & B & _).
  destruct (holds_range g k (wf_asc _ _ H g H1) H3) as (C & D & _).
  rewrite (wf_nokeys dir c f H H0), (wf_nokeys dir c g H H1).
  apply overlaps_iff. split; eapply kle_trans; eauto.
Qed.

Lemma taskok_promotion : forall dir c L t, WF dir c -> level_files (L + 1) dir = [] ->
  select_promotion L dir = Some t ->
  TaskOK dir (src_files t) (t_target t) (t_drop t) /\ (forall f, In f (t_inputs t) <-> In f (src_files t)).
Proof.
  intros dir c L t W He H. unfold select_promotion in H.
  destruct (level_files L dir) as [|f r] eqn:E; inversion H; subst t; clear H.
  destruct (head_oldest dir c L f r W E) as (Hf & Lf & Hold).
  unfold src_files, t_inputs, mk_task. simpl.
  assert (Q : (L <=? L + 1) = true) by (apply N.leb_le; lia). rewrite Q. simpl.
  split. 2: tauto.
  constructor.
  - intros x [<-|[]]. auto.
  - intros x [<-|[]]. lia.
  - repeat constructor.
  - intros k g Hg Hn Hh (i & [<-|[]] & Hih). split.
    + intro C. assert (In g (level_files (L + 1) dir)) by (apply level_files_in; auto).
      rewrite He in H. destruct H.
    + intros Lt i' [<-|[]] _. unfold dnewer, snewer.
      destruct (N.eq_dec (d_level g) L) as [Q1|Q1].
      * right. destruct (Hold g Hg Q1) as [->|Hlt]. simpl in Hn. tauto.
        unfold d_level, dts in *. split; auto. congruence.
      * left. unfold d_level in *. lia.
  - intros Dr g Hg Hn. eapply (covers_deeper_spec dir c [f]); eauto.
    intros x [<-|[]]. auto.
Qed.

Lemma taskok_overlapping : forall dir c L t, WF dir c -> select_overlapping L dir = Some t ->
  TaskOK dir (src_files t) (t_target t) (t_drop t) /\ (forall f, In f (t_inputs t) <-> In f (src_files t)).
Proof.
  intros dir c L t W H. unfold select_overlapping in H.
  destruct (level_files L dir) as [|f r] eqn:E; inversion H; subst t; clear H.
  destruct (head_oldest dir c L f r W E) as (Hf & Lf & Hold).
  set (nxt := filter (fun g => overlaps (nokeys f) (nokeys g) (first_key f) (last_key f) (first_key g) (last_key g))
                     (level_files (L + 1) dir)) in *.
  unfold src_files, t_inputs, mk_task. simpl.
  assert (Q : (L <=? L + 1) = true) by (apply N.leb_le; lia). rewrite Q, N.leb_refl. simpl.
  rewrite !app_nil_r.
  assert (Hnx : forall g, In g nxt -> In g dir /\ d_level g = L + 1).
  { intros g Hg. apply filter_In in Hg. destruct Hg as [Hg _]. apply level_files_in in Hg. auto. }
  assert (Hin : forall x, In x (f :: nxt) <-> In x (f :: rev nxt)).
  { intro x. simpl. rewrite <- in_rev. tauto. }
  split; auto.
  constructor.
  - intros x Hx. apply Hin in Hx. destruct Hx as [<-|Hx]; auto. apply Hnx; auto.
  - intros x Hx. apply Hin in Hx. destruct Hx as [<-|Hx]. lia. destruct (Hnx x Hx) as [_ ->]. lia.
  - constructor.
    + apply rev_level_newer with (L + 1). intros; apply Hnx; auto.
      apply SS_sub. eapply level_files_strict; eauto.
    + rewrite Forall_forall. intros x Hx. apply in_rev in Hx. left.
      destruct (Hnx x Hx) as [_ Lx]. unfold d_level in *. lia.
  - intros k g Hg Hn Hh (i & Hi & Hih).
    assert (Hn' : g <> f /\ ~ In g nxt).
    { split; intro C; apply Hn; apply Hin; simpl; auto. }
    destruct Hn' as [Hnf Hnn]. apply Hin in Hi. split.
    + intro Lg. destruct Hi as [<-|Hi].
      * apply Hnn. apply filter_In. split. apply level_files_in; auto.
        eapply shared_key_overlaps; eauto.
      * destruct (Hnx i Hi) as [Hid Li].
        assert (i = g). { eapply (wf_disj _ _ W i g k); eauto. congruence. rewrite Li. lia. }
        subst. auto.
    + intros Lt i' Hi' _. apply Hin in Hi'. unfold dnewer, snewer. destruct Hi' as [<-|Hi'].
      * destruct (N.eq_dec (d_level g) L) as [Q1|Q1].
        -- right. destruct (Hold g Hg Q1) as [->|Hlt]. congruence.
           unfold d_level, dts in *. split; auto. congruence.
        -- left. unfold d_level in *. lia.
      * left. destruct (Hnx i' Hi') as [_ Li']. unfold d_level in *. lia.
  - intros Dr g Hg Hn. eapply (covers_deeper_spec dir c (f :: nxt)); eauto.
    + intros x Hx. destruct Hx as [<-|Hx]; auto. apply Hnx; auto.
    + intro C. apply Hn. apply Hin. auto.
Qed.

Lemma taskok_levels : forall dir c ratio n L t, WF dir c -> select_levels n L ratio dir = Some t ->
  TaskOK dir (src_files t) (t_target t) (t_drop t) /\ (forall f, In f (t_inputs t) <-> In f (src_files t)).
Proof.
  induction n; simpl; intros L t W H. discriminate.
  destruct (level_size L dir =? 0). eauto.
  destruct ((level_size (L + 1) dir =? 0) && negb (isnil_files (level_files L dir))) eqn:E.
  - apply andb_prop in E. destruct E as [E _]. apply N.eqb_eq in E.
    eapply taskok_promotion; eauto. eapply level_size_zero; eauto.
  - destruct (ratio * level_size (L + 1) dir <=? level_size L dir). eapply taskok_overlapping; eauto.
    eauto.
Qed.

Theorem taskok_select : forall dir c maxmem k t, WF dir c -> select maxmem k dir = Some t ->
  TaskOK dir (src_files t) (t_target t) (t_drop t) /\ (forall f, In f (t_inputs t) <-> In f (src_files t)).
Proof.
  unfold select. intros. destruct (maxmem <=? _). eapply taskok_l0; eauto. eapply taskok_levels; eauto.
Qed.

(* ---------- CompactRange ---------- *)

Definition ovr (lo hi : bytes) (f : dfile) : bool := overlaps (nokeys f) false (first_key f) (last_key f) lo hi.

Fixpoint all_levels (n : nat) (L : N) (dir : list dfile) : list dfile :=
  match n with
  | O => level_files L dir
  | S n' => level_files L dir ++ all_levels n' (L + 1) dir
  end.

Lemma range_groups_concat : forall n L lo hi dir,
  concat (map snd (range_groups n L lo hi dir)) = filter (ovr lo hi) (all_levels n L dir).
Proof.
  induction n; simpl; intros.
  - fold (ovr lo hi). destruct (filter (ovr lo hi) (level_files L dir)) eqn:E; simpl; rewrite ?app_nil_r; auto.
  - fold (ovr lo hi). rewrite filter_app, map_app, concat_app, IHn.
    destruct (filter (ovr lo hi) (level_files L dir)) eqn:E; simpl; rewrite ?app_nil_r; auto.
Qed.

Lemma all_levels_in : forall n L dir f,
  In f (all_levels n L dir) <-> In f dir /\ L <= d_level f <= L + N.of_nat n.
Proof.
  induction n; intros.
  - simpl. rewrite level_files_in. split; intros [A B]; split; auto; lia.
  - cbn [all_levels]. rewrite in_app_iff, level_files_in, IHn. rewrite Nat2N.inj_succ. split.
    + intros [[A B]|[A B]]; split; auto; lia.
    + intros [A B]. destruct (N.eq_dec (d_level f) L). left; auto. right. split; auto. lia.
Qed.

Lemma max_level_ge : forall dir f, In f dir -> d_level f <= max_level dir.
Proof.
  unfold max_level. intros dir f.
  assert (G : forall l a, a <= fold_left (fun a f => N.max a (d_level f)) l a).
  { induction l; simpl; intros. lia. specialize (IHl (N.max a0 (d_level a))). lia. }
  assert (forall l a, In f l -> d_level f <= fold_left (fun a f => N.max a (d_level f)) l a).
  { induction l; simpl; intros. tauto. destruct H as [->|H]. specialize (G l (N.max a0 (d_level f))). lia. auto. }
  auto.
Qed.

Lemma all_levels_dir : forall dir f, In f (all_levels (N.to_nat (max_level dir)) 0 dir) <-> In f dir.
Proof.
  intros. rewrite all_levels_in, N2Nat.id. split. tauto. intro. split; auto.
  pose proof (max_level_ge dir f H). lia.
Qed.

Definition one_group (L : N) (here : list dfile) : list (N * list dfile) :=
  match here with [] => [] | _ => [(L, here)] end.

Lemma one_group_spec : forall L here,
  concat (map (fun g => rev (snd g)) (one_group L here)) = rev here /\
  concat (map snd (one_group L here)) = here /\
  (forall g, In g (one_group L here) -> fst g = L).
Proof.
  intros. destruct here; simpl. repeat split; auto. intros g [].
  rewrite !app_nil_r. repeat split; auto. intros g [<-|[]]. auto.
Qed.

Lemma range_groups_unfold : forall n L lo hi dir,
  range_groups n L lo hi dir =
  (one_group L (filter (ovr lo hi) (level_files L dir)) ++
   (match n with O => [] | S n' => range_groups n' (L + 1) lo hi dir end)).
Proof. destruct n; intros; simpl; unfold one_group, ovr; rewrite ?app_nil_r; auto. Qed.

(* the sources of a range task are listed newest first *)
Lemma range_groups_src : forall dir c n L lo hi, WF dir c ->
  StronglySorted dnewer (concat (map (fun g => rev (snd g)) (range_groups n L lo hi dir))) /\
  (forall f, In f (concat (map (fun g => rev (snd g)) (range_groups n L lo hi dir))) <->
             In f (concat (map snd (range_groups n L lo hi dir)))) /\
  (forall g, In g (range_groups n L lo hi dir) -> L <= fst g <= L + N.of_nat n) /\
  (forall f, In f (concat (map snd (range_groups n L lo hi dir))) -> L <= d_level f).
Proof.
  intros dir c n. induction n; intros L lo hi W; rewrite range_groups_unfold;
    set (here := filter (ovr lo hi) (level_files L dir));
    destruct (one_group_spec L here) as (G1 & G2 & G3);
    assert (S0 : StronglySorted dnewer (rev here))
      by (apply rev_level_newer with L;
          [intros f Hf; apply filter_In in Hf; destruct Hf as [Hf _]; apply level_files_in in Hf; tauto
          |apply SS_sub; eapply level_files_strict; eauto]);
    assert (L0 : forall f, In f here -> d_level f = L)
      by (intros f Hf; apply filter_In in Hf; destruct Hf as [Hf _]; apply level_files_in in Hf; tauto).
  - rewrite app_nil_r, G1, G2. split. exact S0. split. intro f. rewrite <- in_rev. tauto.
    split. intros g Hg. rewrite (G3 g Hg). simpl. lia.
    intros f Hf. rewrite (L0 f Hf). lia.
  - destruct (IHn (L + 1) lo hi W) as (A & B & C & D).
    rewrite !map_app, !concat_app, G1, G2. split; [|split; [|split]].
    + apply SS_app; auto. intros x y Hx Hy. left. apply in_rev in Hx.
      apply B in Hy. specialize (D y Hy). specialize (L0 x Hx). unfold d_level in *. lia.
    + intro f. rewrite !in_app_iff, <- in_rev, B. tauto.
    + intros g Hg. apply in_app_iff in Hg. rewrite Nat2N.inj_succ. destruct Hg as [Hg|Hg].
      rewrite (G3 g Hg). lia. specialize (C g Hg). lia.
    + intros f Hf. apply in_app_iff in Hf. destruct Hf as [Hf|Hf].
      rewrite (L0 f Hf). lia. specialize (D f Hf). lia.
Qed.

Lemma filter_length_le : forall (A : Type) (p q : A -> bool) l,
  (forall x, In x l -> p x = true -> q x = true) -> (length (filter p l) <= length (filter q l))%nat.
Proof.
  induction l; simpl; intros; auto.
  assert (IH : (length (filter p l) <= length (filter q l))%nat) by (apply IHl; intros; apply H; auto).
  destruct (p a) eqn:P.
  - rewrite (H a (or_introl eq_refl) P). simpl. lia.
  - destruct (q a); simpl; lia.
Qed.

Lemma filter_same_length : forall (A : Type) (p q : A -> bool) l,
  (forall x, In x l -> p x = true -> q x = true) ->
  length (filter q l) = length (filter p l) -> filter q l = filter p l.
Proof.
  induction l; simpl; intros; auto.
  assert (L : (length (filter p l) <= length (filter q l))%nat).
  { apply filter_length_le. intros. apply H; auto. }
  destruct (p a) eqn:P.
  - rewrite (H a (or_introl eq_refl) P) in *. simpl in *. f_equal. apply IHl; auto.
  - destruct (q a) eqn:Q; simpl in *.
    + exfalso. lia.
    + apply IHl; auto.
Qed.

Lemma ovr_mono : forall lo hi lo' hi' f,
  kle lo' lo -> kle hi hi' -> ovr lo hi f = true -> ovr lo' hi' f = true.
Proof.
  unfold ovr. intros. destruct (overlaps_keys _ _ _ _ _ _ H1) as [N1 _]. rewrite N1 in *.
  apply overlaps_iff in H1. apply overlaps_iff. destruct H1. split; eapply kle_trans; eauto.
Qed.

(* the result of the widening loop: the selected files are exactly the files overlapping the
   final range, and the final range covers each of them *)
Lemma range_closure_spec : forall dir c, WF dir c -> forall fuel selected lo hi groups,
  range_closure fuel selected lo hi dir = Some groups ->
  (selected = 0%nat \/
   exists lo0 hi0, selected = length (filter (ovr lo0 hi0) (all_levels (N.to_nat (max_level dir)) 0 dir)) /\
     (forall f, In f dir -> ovr lo0 hi0 f = true -> ovr lo hi f = true) /\
     (forall f, In f dir -> ovr lo0 hi0 f = true -> kle lo (first_key f) /\ kle (last_key f) hi)) ->
  concat (map snd groups) = [] \/
  exists lo' hi',
    groups = range_groups (N.to_nat (max_level dir)) 0 lo' hi' dir /\
    forall f, In f (concat (map snd groups)) -> kle lo' (first_key f) /\ kle (last_key f) hi'.
Proof.
  intros dir c W. set (X := all_levels (N.to_nat (max_level dir)) 0 dir).
  assert (HX : forall f, In f X <-> In f dir) by (apply all_levels_dir).
  assert (Ret : forall selected lo hi,
     length (filter (ovr lo hi) X) = selected ->
     (selected = 0%nat \/
      exists lo0 hi0, selected = length (filter (ovr lo0 hi0) X) /\
        (forall f, In f dir -> ovr lo0 hi0 f = true -> ovr lo hi f = true) /\
        (forall f, In f dir -> ovr lo0 hi0 f = true -> kle lo (first_key f) /\ kle (last_key f) hi)) ->
     filter (ovr lo hi) X = [] \/
     exists lo' hi', range_groups (N.to_nat (max_level dir)) 0 lo hi dir = range_groups (N.to_nat (max_level dir)) 0 lo' hi' dir /\
       forall f, In f (filter (ovr lo hi) X) -> kle lo' (first_key f) /\ kle (last_key f) hi').
  { intros selected lo hi E [->|(lo0 & hi0 & S & M & Cv)].
    - left. destruct (filter (ovr lo hi) X); simpl in *; auto; discriminate.
    - right. exists lo, hi. split; auto.
      assert (filter (ovr lo hi) X = filter (ovr lo0 hi0) X).
      { apply filter_same_length. intros x Hx. apply M. apply HX; auto. congruence. }
      rewrite H. intros f Hf. apply filter_In in Hf. destruct Hf. apply Cv; auto. apply HX; auto. }
  induction fuel; intros selected lo hi groups H Inv; cbn [range_closure] in H;
    rewrite range_groups_concat in H; fold X in H.
  - destruct (Nat.eqb (length (filter (ovr lo hi) X)) selected) eqn:E; try discriminate.
    inversion H; subst groups; clear H. rewrite range_groups_concat. fold X.
    apply Nat.eqb_eq in E. apply (Ret selected lo hi E Inv).
  - destruct (Nat.eqb (length (filter (ovr lo hi) X)) selected) eqn:E.
    + inversion H; subst groups; clear H. rewrite range_groups_concat. fold X.
      apply Nat.eqb_eq in E. apply (Ret selected lo hi E Inv).
    + destruct (hull lo hi (filter (ovr lo hi) X)) as [lo2 hi2] eqn:EH.
      apply IHfuel in H; auto.
      destruct (filter (ovr lo hi) X) as [|f0 r0] eqn:EF. left; auto.
      right. exists lo, hi.
      destruct (hull_spec (f0 :: r0) lo hi lo2 hi2 EH) as (C1 & C2 & C5).
      split. rewrite EF. auto.
      split. { intros f Hf Ho. eapply ovr_mono; eauto. }
      intros f Hf Ho. apply C5. rewrite <- EF. apply filter_In. split; auto. apply HX; auto.
Qed.

Lemma filter_all_id : forall (A : Type) (p : A -> bool) l, (forall x, In x l -> p x = true) -> filter p l = l.
Proof. induction l; simpl; intros; auto. rewrite H; auto. f_equal. auto. Qed.

Lemma taskok_range : forall dir c lo hi t, WF dir c -> select_range lo hi dir = Some t ->
  TaskOK dir (src_files t) (t_target t) (t_drop t) /\ (forall f, In f (t_inputs t) <-> In f (src_files t)).
Proof.
  intros dir c lo hi t W H. unfold select_range in H.
  destruct (range_closure (S (length dir)) 0 lo hi dir) as [groups|] eqn:E; try discriminate.
  destruct (concat (map snd groups)) as [|x0 r0] eqn:EC; try discriminate.
  inversion H; subst t; clear H.
  destruct (range_closure_spec dir c W _ _ _ _ _ E (or_introl eq_refl)) as [C|(lo' & hi' & -> & Cv)].
  { rewrite EC in C. discriminate. }
  set (n := N.to_nat (max_level dir)) in *.
  destruct (range_groups_src dir c n 0 lo' hi' W) as (S1 & S2 & S3 & _).
  unfold src_files, t_inputs, mk_task. cbn [t_groups t_target t_drop].
  assert (F : filter (fun g => fst g <=? max_level dir + 1) (range_groups n 0 lo' hi' dir) = range_groups n 0 lo' hi' dir).
  { apply filter_all_id. intros g Hg. apply N.leb_le.
    specialize (S3 g Hg). unfold n in S3. rewrite N2Nat.id in S3. lia. }
  rewrite F. split. 2: { intro f. symmetry. apply S2. }
  assert (Hins : forall f, In f (concat (map (fun g => rev (snd g)) (range_groups n 0 lo' hi' dir))) <->
                           In f dir /\ ovr lo' hi' f = true).
  { intro f. rewrite S2, range_groups_concat, filter_In. unfold n. rewrite all_levels_dir. tauto. }
  constructor.
  - intros f Hf. apply Hins in Hf. tauto.
  - intros f Hf. apply Hins in Hf. destruct Hf as [Hf _]. pose proof (max_level_ge dir f Hf). lia.
  - exact S1.
  - intros k g Hg Hn Hh (i & Hi & Hih). exfalso. apply Hn. apply Hins. split; auto.
    assert (Hi' : In i (concat (map snd (range_groups n 0 lo' hi' dir)))) by (apply S2; auto).
    destruct (Cv i Hi') as [V1 V2]. apply Hins in Hi. destruct Hi as [Hid _].
    destruct (holds_range i k (wf_asc _ _ W i Hid) Hih) as (R1 & R2 & _).
    unfold ovr. eapply holder_overlaps; eauto; eapply kle_trans; eauto.
  - intros Dr g Hg Hn. eapply (covers_deeper_spec dir c (concat (map snd (range_groups n 0 lo' hi' dir)))); eauto.
    + intros f Hf. apply S2 in Hf. apply Hins in Hf. tauto.
    + intro C. apply Hn. apply S2. auto.
Qed.

(* ---------- C12_merge: every selected task preserves what the directory reads as ---------- *)

Lemma remove_files_ext : forall ins ins' dir, (forall f, In f ins <-> In f ins') ->
  remove_files ins dir = remove_files ins' dir.
Proof.
  intros. unfold remove_files. apply filter_ext_in. intros g _. f_equal.
  destruct (existsb (same_file g) ins) eqn:E1, (existsb (same_file g) ins') eqn:E2; auto.
  - apply existsb_exists in E1. destruct E1 as (x & A & B).
    assert (existsb (same_file g) ins' = true) by (apply existsb_exists; exists x; split; auto; apply H; auto).
    congruence.
  - apply existsb_exists in E2. destruct E2 as (x & A & B).
    assert (existsb (same_file g) ins = true) by (apply existsb_exists; exists x; split; auto; apply H; auto).
    congruence.
Qed.

Definition selected (maxmem : N) (k : ccfg) (dir : list dfile) (t : task) : Prop :=
  select maxmem k dir = Some t \/ exists lo hi, select_range lo hi dir = Some t.

Lemma taskok_selected : forall dir c maxmem k t, WF dir c -> selected maxmem k dir t ->
  TaskOK dir (src_files t) (t_target t) (t_drop t) /\ (forall f, In f (t_inputs t) <-> In f (src_files t)).
Proof.
  intros dir c maxmem k t W [H|(lo & hi & H)]. eapply taskok_select; eauto. eapply taskok_range; eauto.
Qed.

Lemma apply_task_eq : forall keep k c z t dir, (forall f, In f (t_inputs t) <-> In f (src_files t)) ->
  apply_task keep k c z t dir =
  remove_files (src_files t) dir ++
  name_outputs (t_target t) 0 c z
    (exec_outputs (fun x => negb (t_drop t) || keep x) (cc_sstmax k) (map d_entries (src_files t))).
Proof.
  intros. unfold apply_task, task_outputs. rewrite task_sources_src, (remove_files_ext _ _ _ H). reflexivity.
Qed.

(* C12, first sentence, for the repaired code: whatever task the strategy selects (L0->L1,
   promotion, size ratio, range), replacing its inputs by its outputs does not change what any
   key reads as *)
Theorem merge_preserves : forall dir c maxmem k t keep z key,
  WF dir c -> selected maxmem k dir t ->
  dread (apply_task keep k c z t dir) key = dread dir key.
Proof.
  intros. destruct (taskok_selected dir c maxmem k t H H0) as [TK EQ].
  rewrite (apply_task_eq keep k c z t dir EQ).
  apply (task_preserves_read dir (src_files t) c (t_target t) (t_drop t) keep (cc_sstmax k) z H TK).
Qed.

(* ---------- deletion markers ---------- *)

(* a deletion marker that wins the merge is left out only if every other table holding the key is
   shallower than the target level, hence newer than the marker: nothing older can resurface *)
Theorem tombstone_safe : forall dir c maxmem k t keep key e g,
  WF dir c -> selected maxmem k dir t ->
  first_hit key (task_sources t) = Some e -> is_tomb e = true ->
  In g dir -> ~ In g (t_inputs t) -> dholds key g ->
  (t_target t <= d_level g -> task_keep keep t key = true) /\
  (d_level g < t_target t -> forall i, In i (t_inputs t) -> dholds key i -> dnewer g i).
Proof.
  intros dir c maxmem k t keep key e g W S Hw Ht Hg Hn Hh.
  destruct (taskok_selected dir c maxmem k t W S) as [TK EQ].
  assert (Hn' : ~ In g (src_files t)) by (rewrite <- EQ; auto).
  assert (Hi : exists i, In i (src_files t) /\ dholds key i).
  { rewrite task_sources_src in Hw. apply first_hit_in in Hw. destruct Hw as (x & Hx & Hl).
    apply in_map_iff in Hx. destruct Hx as (i & <- & Hi). exists i. split; auto. apply dholds_lookup; eauto. }
  destruct (tk_out _ _ _ _ TK key g Hg Hn' Hh Hi) as [A B]. split.
  - intro Lg. unfold task_keep. destruct (t_drop t) eqn:Dr; auto.
    pose proof (tk_drop _ _ _ _ TK eq_refl g Hg Hn'). lia.
  - intros Lg i Hi' Hih. apply B; auto. apply EQ; auto.
Qed.

(* ---------- well-formedness is kept by a task ---------- *)

Lemma nth_size_pos : forall z i, 1 <= nth_size i z.
Proof.
  induction z; destruct i; simpl; try lia. destruct (a =? 0) eqn:E. lia. apply N.eqb_neq in E. lia. auto.
Qed.

Lemma NoDup_app_intro : forall (A : Type) (a b : list A), NoDup a -> NoDup b ->
  (forall x, In x a -> In x b -> False) -> NoDup (a ++ b).
Proof.
  induction a; simpl; intros; auto. inversion H; subst. constructor.
  - intro C. apply in_app_iff in C. destruct C; auto. eapply H1; eauto.
  - apply IHa; auto. intros. eapply H1; eauto.
Qed.

Lemma name_outputs_ts : forall T z c chunks i,
  NoDup (map dts (name_outputs T i c z chunks)) /\
  (forall o, In o (name_outputs T i c z chunks) -> c + N.of_nat i <= dts o < c + N.of_nat (i + length chunks)).
Proof.
  induction chunks; simpl; intros. split. constructor. tauto.
  destruct (IHchunks (S i)) as [A B]. split.
  - constructor; auto. intro C. apply in_map_iff in C. destruct C as (o & E & Ho).
    specialize (B o Ho). unfold dts in *. simpl in *. lia.
  - intros o [<-|Ho]. unfold dts. simpl. lia. specialize (B o Ho). lia.
Qed.

Lemma exec_entries_from : forall keep max srcs x, Forall asc srcs ->
  In x (concat (exec_outputs keep max srcs)) -> exists y, In y (concat srcs) /\ sk x = sk y.
Proof.
  intros. rewrite exec_outputs_concat in H0; auto. apply in_map_iff in H0.
  destruct H0 as (y & <- & Hy). apply filter_In in Hy. destruct Hy as [Hy _].
  apply merge_spec in Hy; auto. exists y. split; auto.
Qed.

Theorem task_keeps_wf : forall dir c maxmem k t keep z,
  WF dir c -> selected maxmem k dir t -> 1 <= cc_sstmax k ->
  WF (apply_task keep k c z t dir) (c + N.of_nat (length (task_outputs keep k c z t))).
Proof.
  intros dir c maxmem k t keep z W S Hmax.
  destruct (taskok_selected dir c maxmem k t W S) as [TK EQ].
  rewrite (apply_task_eq keep k c z t dir EQ).
  set (ins := src_files t) in *. set (T := t_target t) in *. set (drop := t_drop t) in *.
  set (chunks := exec_outputs (fun x => negb drop || keep x) (cc_sstmax k) (map d_entries ins)).
  set (outs := name_outputs T 0 c z chunks).
  assert (Hlen : length (task_outputs keep k c z t) = length chunks).
  { unfold task_outputs. rewrite task_sources_src. fold ins.
    unfold task_keep. fold drop. fold chunks.
    clear. generalize 0%nat. induction chunks; simpl; auto. }
  rewrite Hlen.
  pose proof (srcs_asc dir ins c T drop W TK) as SA.
  pose proof (dir'_in dir ins c T drop keep (cc_sstmax k) z W TK) as DI. fold chunks in DI. fold outs in DI.
  pose proof (out_props ins c T drop keep (cc_sstmax k) z) as OP. fold chunks in OP. fold outs in OP.
  destruct (name_outputs_ts T z c chunks 0) as [TS1 TS2]. fold outs in TS1, TS2.
  assert (CH : Forall (chunk_ok (cc_sstmax k)) chunks) by (apply exec_outputs_chunks; auto).
  assert (AC : asc (concat chunks)) by (apply exec_outputs_sorted; auto).
  constructor.
  - intros f Hf. apply DI in Hf. destruct Hf as [[Hf _]|Hf]. apply (wf_asc _ _ W); auto.
    destruct (OP f Hf) as (_ & _ & Hc). pose proof (asc_concat_each _ AC) as E.
    rewrite Forall_forall in E. auto.
  - rewrite map_app. apply NoDup_app_intro; auto.
    + apply NoDup_map_filter. apply (wf_ts _ _ W).
    + intros x Hx Hy. apply in_map_iff in Hx, Hy. destruct Hx as (f & <- & Hf), Hy as (o & E & Ho).
      apply filter_In in Hf. destruct Hf as [Hf _].
      pose proof (wf_clock _ _ W f Hf). specialize (TS2 o Ho). lia.
  - intros f Hf. apply DI in Hf. destruct Hf as [[Hf _]|Hf].
    pose proof (wf_clock _ _ W f Hf). lia. specialize (TS2 f Hf). simpl in TS2. lia.
  - intros f g key Hf Hg Lfg L1 Hhf Hhg. apply DI in Hf, Hg.
    assert (OutIn : forall o, In o outs -> dholds key o -> exists i, In i ins /\ dholds key i).
    { intros o Ho Hh. pose proof (out_lookup dir ins c T drop keep (cc_sstmax k) z W TK key) as OL.
      fold chunks in OL. fold outs in OL.
      destruct (first_hit key (map d_entries ins)) as [w|] eqn:Ew.
      - apply first_hit_in in Ew. destruct Ew as (x & Hx & Hl). apply in_map_iff in Hx.
        destruct Hx as (i & <- & Hi). exists i. split; auto. apply dholds_lookup; eauto.
      - exfalso. eapply OL; eauto. }
    destruct Hf as [[Hf Hnf]|Hf], Hg as [[Hg Hng]|Hg].
    + eapply (wf_disj _ _ W); eauto.
    + exfalso. destruct (OP g Hg) as (Lg & _ & _).
      destruct (tk_out _ _ _ _ TK key f Hf Hnf Hhf (OutIn g Hg Hhg)) as [A _]. congruence.
    + exfalso. destruct (OP f Hf) as (Lf & _ & _).
      destruct (tk_out _ _ _ _ TK key g Hg Hng Hhg (OutIn f Hf Hhf)) as [A _]. congruence.
    + eapply (out_unique dir ins c T drop keep (cc_sstmax k) z W TK); eauto.
  - intros f Hf. apply DI in Hf. destruct Hf as [[Hf _]|Hf]. apply (wf_nonempty _ _ W); auto.
    destruct (OP f Hf) as (_ & _ & Hc). rewrite Forall_forall in CH. destruct (CH _ Hc). auto.
  - intros f Hf. apply DI in Hf. destruct Hf as [[Hf _]|Hf]. apply (wf_size _ _ W); auto.
    apply name_outputs_in in Hf. destruct Hf as (j & _ & ->). simpl. apply nth_size_pos.
Qed.
